"""C06 -- active_edges_single_cycle / active_edges_single_path admit exactly one
simple cycle / path (cspuz/graph.py, cspuz/grid_frame.py)."""
import itertools

import exprio
import graphcap
import graphforms
import vlib

PROPS = "Props/C06.v"
RULE = ("tie P (program capture): for every (helper in {cycle, path}, use_graph_primitive, graph or grid frame, "
        "form of the is_active_edge argument, container kind, pre-existing solver state) the program posted by the "
        "real cspuz.graph function on a real Solver must equal the program of the Coq model (declarations, answer "
        "keys, constraints in posting order, returned array and its shape); the edge operands of the "
        "GRAPH_ACTIVE_VERTICES_CONNECTED node are compared as a set (Python iterates a set in line_graph). "
        "search: for every graph / frame in scope and every edge subset, satisfiability of the really posted "
        "program (z3 on the real constraints; the native connectivity operator, whose operands are only the "
        "caller's flags, is evaluated by an independent decoder + graph search) and the values the returned "
        "array can take are compared with an independent plain-Python oracle (graphcap.is_single_cycle / "
        "is_single_path / lattice built from the frame's horizontal/vertical arrays).  A case is non-trivial "
        "when it is a distinct (kind, graph, option, argument form / pattern) tuple.  "
        "Hardened input classes (tie and search): graph forms -- edges stored (larger, smaller), mixed orientation, shuffled "
        "order, cycles stored head-to-tail, parallel bundles, self-loops -- and structured instances beyond the exhaustive "
        "scope (two disjoint cycles on 6-8 vertices, K5/K6/K33/wheels/prisms/Petersen, 7-vertex graphs with n+3..n+6 edges, "
        "paths/cycles of 6-10 vertices) with targeted edge subsets (graphforms.py); flags as Python True/False mixed with "
        "expressions, as tuple / BoolArray1D / one-shot iterables (generator, iter, map, reversed: refused with TypeError or "
        "the program of the materialised list); use_graph_primitive explicit / omitted / None with the config default / all "
        "arguments by keyword; histories: two calls on the same Solver, Graph object and flag list, the Graph extended by "
        "the caller between the calls, line_graph() called twice, arguments (flag list, Graph) unchanged after every call.")
TRUSTED = [
    "meaning of Op.GRAPH_ACTIVE_VERTICES_CONNECTED is *defined* (Graph/Cycle.v gsem_c06) as: the flagged vertices of the graph "
    "decoded from the operand layout [n, m] ++ flags ++ endpoints are connected; the external solver is trusted to implement it",
    "graph-theoretic reading of the property: 'one simple cycle' = every vertex has 0 or 2 active incident edges and the active "
    "edges are connected (two parallel active edges form a 2-cycle); 'one simple path with >= 1 edge' = degrees <= 2, connected, "
    "exactly two vertices of degree 1; 'visited' = positive active degree; a self-loop contributes 2 to its vertex's degree, so "
    "one active loop alone is a cycle (of length one) and never part of a path -- the Coq specification, the Python oracle and "
    "the code agree on this reading (checked on every run); the degree/connectivity reading is proved equivalent to the explicit "
    "list reading (a cyclic list v0,e0,..,v(k-1),e(k-1) resp. an open list v0,e0,..,vk of pairwise distinct vertices and edges "
    "made of exactly the active edges): Props/C06.v cycle_list_iff, path_list_iff",
    "z3 (used in search only, on the really posted constraints) and harness/graphcap.py oracles; before the constraints are "
    "handed to z3 the harness replaces BOOL_CONSTANT / INT_CONSTANT nodes by the literal they hold (pC06.unconst), so that the "
    "search does not depend on the z3 backend's translation of constant nodes (property C01)",
    "Python's set iteration order in Graph.line_graph is not modelled: the model lists the pairs in lexicographic order and "
    "the theorems use membership only",
]
ASSUMPTIONS = [
    "graphs are well-formed (endpoints in [0, n), built with Graph.add_edge with non-negative ints) and, for the theorems, have at least one vertex "
    "(num_vertices = 0 raises ValueError in the non-primitive cycle: modelled and tied) ",
    "the is_active_edge entries are BoolExpr-like values over the caller's variables; other entries raise TypeError/IndexError/ValueError "
    "(modelled and tied by error class); BoolGridFrame has its standard horizontal (h+1, w) / vertical (h, w+1) arrays",
    "the caller's variables are not otherwise constrained (theorems quantify over an arbitrary assignment of ids below next_id)",
]

ERR = {1: "IndexError", 2: "KeyError", 3: "AssertionError", 4: "TypeError", 5: "ValueError",
       6: "RecursionError", 7: "NotImplementedError", 8: "Other"}


# ---------------------------------------------------------------- showing programs

def _is_avc(e):
    from cspuz.expr import BoolExpr, Op
    return isinstance(e, BoolExpr) and e.op == Op.GRAPH_ACTIVE_VERTICES_CONNECTED


def show_c(e):
    """exprio.show, with the edge operands of a top-level G_AVC node listed as a sorted set."""
    if _is_avc(e):
        ops = e.operands
        if len(ops) >= 2 and type(ops[0]) is int and type(ops[1]) is int and ops[0] >= 0 and ops[1] >= 0:
            n, m = ops[0], ops[1]
            rest = ops[2 + n:]
            if len(ops) >= 2 + n and len(rest) == 2 * m and all(type(x) is int for x in rest):
                pairs = [(rest[2 * i], rest[2 * i + 1]) for i in range(m)]
                if len(set(pairs)) == len(pairs):
                    pairs.sort()
                    flat = [x for p in pairs for x in p]
                    return "( B %s%s )" % (e.op.name, "".join(" " + exprio.show(x) for x in list(ops[:2 + n]) + flat))
    return exprio.show(e)


def show_state_c(solver):
    from cspuz.expr import BoolVar
    ds = ["b" if isinstance(v, BoolVar) else "i:%d:%d" % (v.lo, v.hi) for v in solver.variables]
    return "V [%s ] K [%s ] C [%s ]" % (
        "".join(" " + d for d in ds),
        "".join(" 1" if k else " 0" for k in solver.is_answer_key),
        "".join(" " + show_c(c) for c in solver.constraints))


def parse_model(reply):
    t = reply.split(" ", 1)
    if t[0] == "E":
        return ("err", ERR[int(t[1])])
    if t[0] == "OK":
        st, res = t[1].rsplit(" | ", 1)
        return ("ok", (st, res))
    raise RuntimeError("bad model reply: " + reply[:200])


def norm_err(r):
    if r[0] == "err" and r[1].startswith("Other"):
        return ("err", "Other")
    return r


# ---------------------------------------------------------------- argument forms

FORMS = ["vars", "neg", "and", "const", "mixed"]
BAD_FORMS = ["int", "intvar", "none", "short", "long", "short_const"]


def make_acts(solver, m, form, rng):
    """the is_active_edge list for m edges; declares the caller's variables on `solver`."""
    if form == "vars":
        return [solver.bool_var() for _ in range(m)]
    if form == "neg":
        return [~solver.bool_var() for _ in range(m)]
    if form == "and":
        vs = [solver.bool_var() for _ in range(m + 1)]
        return [vs[i] & vs[i + 1] for i in range(m)]
    if form == "const":
        return [rng.random() < 0.5 for _ in range(m)]
    vs = [solver.bool_var() for _ in range(m + 2)]
    iv = solver.int_var(0, 3)
    out = []
    for i in range(m):
        c = rng.randrange(8)
        v, w = vs[i], vs[i + 1]
        out.append([v, ~v, v & w, v | w, True, False, v == w, iv >= 2][c])
    if form == "mixed":
        return out
    if form == "int":
        if m:
            out[rng.randrange(m)] = rng.choice([1, 0, 2])
        return out
    if form == "intvar":
        if m:
            out[rng.randrange(m)] = rng.choice([iv, iv + 1])
        return out
    if form == "none":
        if m:
            out[rng.randrange(m)] = None
        return out
    if form == "short":
        return out[:max(0, m - 1 - rng.randrange(2))]
    if form == "short_const":
        return [True] * max(0, m - 1)
    if form == "long":
        return out + [vs[-1]] * (1 + rng.randrange(2))
    raise ValueError(form)


def pre_state(solver, rng, level):
    """something already in the solver before the helper is called"""
    if level == 0:
        return
    a = solver.bool_var()
    if level >= 2:
        i = solver.int_var(-1, 4)
        solver.ensure(a.then(i >= 0))
        solver.add_answer_key(a)


# ---------------------------------------------------------------- one capture case

def run_impl(kind, prim, n, edges, form, cont, rng, pre=0, how="public", og="G"):
    """returns (request line for the model, implementation outcome)."""
    from cspuz import Solver, graph as G
    from cspuz.array import BoolArray1D, BoolArray2D
    from cspuz.configuration import config
    s = Solver()
    pre_state(s, rng, pre)
    acts = make_acts(s, len(edges), form, rng)
    g = graphcap.mk_graph(n, edges)
    st0 = exprio.show_state(s)
    actl = exprio.show_list(acts)
    if cont in graphforms.ONESHOT:
        carg = graphforms.oneshot(cont, acts)     # the model sees the materialised list (container kind S)
    elif cont == "A":
        carg = BoolArray1D(acts)
    else:
        carg = {"S": acts, "T": tuple(acts)}[cont]
    gt = graphcap.graph_tok(n, edges).strip()
    if how == "internal":
        f = G._active_edges_single_cycle if kind == "cyc" else G._active_edges_single_path
        req = "%s %d %s %s %s" % ("CYC" if kind == "cyc" else "PATH", int(prim), gt, st0, actl)

        def call():
            return f(s, acts, g, use_graph_primitive=prim)
    else:
        f = G.active_edges_single_cycle if kind == "cyc" else G.active_edges_single_path
        req = "%s %d %s %s %s %s" % ("WCYC" if kind == "cyc" else "WPATH", int(prim),
                                     ("G " + gt) if og == "G" else "N", "A" if cont == "A" else "S", st0, actl)
        if how == "public":
            def call():
                return f(s, carg, g if og == "G" else None, use_graph_primitive=prim)
        elif how == "kwargs":  # every argument by keyword
            def call():
                return f(solver=s, is_active_edge=carg, graph=(g if og == "G" else None), use_graph_primitive=prim)
        else:  # "config": use_graph_primitive left to the configuration; "none": given explicitly as None
            def call():
                old = config.use_graph_primitive
                config.use_graph_primitive = prim
                try:
                    if how == "none":
                        return f(s, carg, (g if og == "G" else None), use_graph_primitive=None)
                    return f(s, carg, graph=(g if og == "G" else None))
                finally:
                    config.use_graph_primitive = old
    r = vlib.guarded(call)
    if r[0] == "err":
        return req, norm_err(r)
    res = r[1]
    if how == "internal":
        if not isinstance(res, BoolArray1D):
            return req, ("ok", ("?", "result class " + type(res).__name__))
        return req, ("ok", (show_state_c(s), exprio.show_list(res.data)))
    if isinstance(res, BoolArray2D):
        return req, ("ok", (show_state_c(s), "2 %d %d %s" % (res.shape[0], res.shape[1], exprio.show_list(res.data))))
    if isinstance(res, BoolArray1D):
        return req, ("ok", (show_state_c(s), "1 " + exprio.show_list(res.data)))
    return req, ("ok", ("?", "result class " + type(res).__name__))


def run_impl_frame(kind, prim, h, w, form, rng, pre=0, with_graph=False):
    from cspuz import Solver, graph as G
    from cspuz.array import BoolArray2D
    from cspuz.grid_frame import BoolGridFrame
    s = Solver()
    pre_state(s, rng, pre)
    if form == "default":
        fr = BoolGridFrame(s, h, w)
    else:
        hor = make_acts(s, (h + 1) * w, form, rng)
        ver = make_acts(s, h * (w + 1), form, rng)
        fr = BoolGridFrame(s, h, w, BoolArray2D(hor, (h + 1, w)), BoolArray2D(ver, (h, w + 1)))
    st0 = exprio.show_state(s)
    f = G.active_edges_single_cycle if kind == "cyc" else G.active_edges_single_path
    g = graphcap.mk_graph(2, [(0, 1)])
    req = "%s %d %s F %d %d %s %s %s" % ("WCYC" if kind == "cyc" else "WPATH", int(prim),
                                         "G 2 1 0 1" if with_graph else "N", h, w, st0,
                                         exprio.show_list(fr.horizontal.data), exprio.show_list(fr.vertical.data))
    r = vlib.guarded(lambda: f(s, fr, g if with_graph else None, use_graph_primitive=prim))
    if r[0] == "err":
        return req, norm_err(r)
    res = r[1]
    if isinstance(res, BoolArray2D):
        return req, ("ok", (show_state_c(s), "2 %d %d %s" % (res.shape[0], res.shape[1], exprio.show_list(res.data))))
    return req, ("ok", ("?", "result class " + type(res).__name__))


def graph_snapshot(g):
    return (g.num_vertices, list(g.edges), [list(l) for l in g.incident_edges])


def run_history(kind1, prim1, kind2, prim2, n, edges, form, rng, mode, pre=0):
    """two calls on the same Solver with the same Graph object and the same flag *list*:
    mode 'same'      -- nothing changes in between;
    mode 'extend'    -- the caller adds an edge to the Graph and appends a flag to the list in between;
    mode 'linegraph' -- the caller calls graph.line_graph() twice in between (must not disturb the graph).
    -> [(kind, info, request line or None, expected (if no request), impl outcome)]: the second request starts from
    the state the first call left; the side conditions (arguments unchanged, line_graph stable) are compared with values
    computed here."""
    from cspuz import Solver, graph as G
    from cspuz.array import BoolArray1D
    fs = {"cyc": G.active_edges_single_cycle, "path": G.active_edges_single_path}
    s = Solver()
    pre_state(s, rng, pre)
    acts = make_acts(s, len(edges), form, rng)
    g = graphcap.mk_graph(n, edges)
    edges = list(edges)
    out = []

    def one(kind, prim, tag):
        st0 = show_state_c(s)
        snap_a, snap_g = list(acts), graph_snapshot(g)
        req = "%s %d G %s S %s %s" % ("WCYC" if kind == "cyc" else "WPATH", int(prim),
                                      graphcap.graph_tok(n, edges).strip(), st0, exprio.show_list(acts))
        r = vlib.guarded(lambda: fs[kind](s, acts, g, use_graph_primitive=prim))
        if r[0] == "err":
            io = norm_err(r)
        elif isinstance(r[1], BoolArray1D):
            io = ("ok", (show_state_c(s), "1 " + exprio.show_list(r[1].data)))
        else:
            io = ("ok", ("?", "result class " + type(r[1]).__name__))
        out.append(("history_" + mode, (tag, kind, prim, n, tuple(edges), form), req, None, io))
        same = (len(acts) == len(snap_a) and all(a is b for a, b in zip(acts, snap_a)) and graph_snapshot(g) == snap_g
                and graph_snapshot(g) == graph_snapshot(graphcap.mk_graph(n, edges)))
        out.append(("args_unchanged", (tag, mode, kind, prim, n, tuple(edges), form), None, "unchanged",
                    "unchanged" if same else "flag list or Graph modified by the call"))
        return r[0] == "ok"
    if not one(kind1, prim1, "first"):
        return out
    if mode == "extend" and n >= 2:
        a = rng.randrange(n)
        b = (a + 1 + rng.randrange(n - 1)) % n
        g.add_edge(a, b)
        edges.append((a, b))
        acts.append(s.bool_var() if form != "const" else True)
    elif mode == "linegraph":
        snap_g = graph_snapshot(g)
        l1 = vlib.guarded(lambda: graph_snapshot(g.line_graph()))
        l2 = vlib.guarded(lambda: graph_snapshot(g.line_graph()))
        norm = [(r[0], (r[1][0], sorted(r[1][1]))) if r[0] == "ok" else r for r in (l1, l2)]
        out.append(("line_graph_twice", (n, tuple(edges)), None, norm[0], norm[1]))
        out.append(("args_unchanged", ("line_graph", n, tuple(edges)), None, "unchanged",
                    "unchanged" if graph_snapshot(g) == snap_g else "Graph modified by line_graph()"))
    one(kind2, prim2, "second")
    return out


# ---------------------------------------------------------------- scopes

NAMED = {
    "two-triangles": (6, [(0, 1), (1, 2), (2, 0), (3, 4), (4, 5), (5, 3)]),
    "triangle+square": (7, [(0, 1), (1, 2), (0, 2), (3, 4), (4, 5), (5, 6), (6, 3)]),
    "theta": (5, [(0, 1), (1, 2), (0, 3), (3, 2), (0, 4), (4, 2)]),
    "K4": (4, [(0, 1), (0, 2), (0, 3), (1, 2), (1, 3), (2, 3)]),
    "bowtie": (5, [(0, 1), (1, 2), (2, 0), (2, 3), (3, 4), (4, 2)]),
    "2cycle+triangle": (5, [(0, 1), (1, 0), (2, 3), (3, 4), (4, 2)]),
    "two-2cycles": (4, [(0, 1), (0, 1), (2, 3), (3, 2)]),
    "triple-edge+tail": (3, [(0, 1), (1, 0), (0, 1), (1, 2)]),
    "path5": (5, [(0, 1), (1, 2), (2, 3), (3, 4)]),
    "C5+chord": (5, [(0, 1), (1, 2), (2, 3), (3, 4), (4, 0), (0, 2)]),
    "prism": (6, [(0, 1), (1, 2), (2, 0), (3, 4), (4, 5), (5, 3), (0, 3), (1, 4), (2, 5)]),
    "isolated+edge": (4, [(1, 3)]),
}


def graph_scope(ctx, what):
    """(tag, n, edges) triples"""
    rng = ctx.rng
    out = []
    if what == "tie":
        for n, es in graphcap.all_multigraphs(4, 5):
            out.append(("ex", n, es))
        for _ in range(400 if ctx.thorough else 80):
            n, es = graphcap.random_multigraph(rng, 9)
            out.append(("rnd", n, es))
        for k, (n, es) in NAMED.items():
            out.append((k, n, es))
        for h, w in graphcap.grid_shapes(12 if ctx.thorough else 9):
            out.append(("grid", h * w, graphcap.grid_edges(h, w)))
        # graph forms: the exhaustive graphs again with shuffled edge order / flipped endpoints, self-loops,
        # structured instances beyond the exhaustive scope (complete graphs, wheels, disjoint cycles, bundles, ...)
        for n, es in graphcap.all_multigraphs(4, 5):
            if len(es) >= 1:
                out.append(("ex-flip", n, graphforms.shuffled(rng, es)))
        for n, es in graphcap.all_multigraphs(3, 3, loops=True):
            if any(a == b for a, b in es):
                out.append(("loops", n, graphforms.shuffled(rng, es)))
        for _ in range(60 if ctx.thorough else 15):
            n, es = graphcap.random_multigraph(rng, 6, loops=True)
            out.append(("loops", n, es))
        for (k, n, es) in graphforms.structured(rng, loops=True):
            out.append(("big:" + k, n, es))
            out.append(("big:" + k, n, graphforms.shuffled(rng, es)))
    else:
        deep = getattr(ctx, "deep", False)
        big = ctx.thorough
        for n, es in graphcap.all_multigraphs(4, 5):
            out.append(("ex", n, es))
        if big or deep:
            for n, es in graphcap.all_multigraphs(5, 5 if big else 4):
                if n == 5:
                    out.append(("ex5", n, es))
        for _ in range(400 if big else (200 if deep else 120)):
            n = 5 if rng.random() < 0.7 else 6
            m = rng.randint(3, 8 if big else 7)
            es = []
            for _ in range(m):
                a = rng.randrange(n)
                b = (a + 1 + rng.randrange(n - 1)) % n
                es.append((a, b) if rng.random() < 0.5 else (b, a))
            out.append(("rnd", n, es))
        for k, (n, es) in NAMED.items():
            out.append((k, n, es))
        # graph forms: exhaustive graphs stored with shuffled edge order / flipped endpoints (a sample in quick), small
        # graphs with self-loops (an active loop is a cycle of length one: the vertex has degree 2)
        for n, es in graphcap.all_multigraphs(4, 5):
            if len(es) >= 2 and (big or rng.random() < (0.5 if deep else 0.22)):
                out.append(("ex-flip", n, graphforms.shuffled(rng, es)))
        for n, es in graphcap.all_multigraphs(3, 3, loops=True):
            if any(a == b for a, b in es) and (big or deep or rng.random() < 0.5):
                out.append(("loops", n, graphforms.shuffled(rng, es)))
    return out


def big_scope(ctx):
    """(tag, n, edges, patterns): structured instances beyond the exhaustive scope with targeted edge subsets"""
    rng = ctx.rng
    big = ctx.thorough
    deep = getattr(ctx, "deep", False)
    out = []
    for (k, n, es) in graphforms.structured(rng, loops=True):
        forms = [es] if not (big or deep) else [es, graphforms.shuffled(rng, es)]
        if not (big or deep) and rng.random() < 0.5:
            forms = [graphforms.shuffled(rng, es)]
        for f in forms:
            if len(f) <= 7:
                pats = list(graphcap.patterns(len(f)))
            else:
                pats = graphforms.targeted_patterns(rng, n, f, 160 if big else (90 if deep else 60))
            out.append(("big:" + k, n, f, pats))
    return out


def frame_shapes(ctx, what):
    if what == "tie":
        return [(h, w) for h in range(0, 4) for w in range(0, 4)] + [(1, 5), (5, 1), (0, 6), (4, 2)]
    big = ctx.thorough
    shapes = [(0, 0), (0, 1), (1, 0), (0, 3), (3, 0), (1, 1), (1, 2), (2, 1), (1, 3), (3, 1), (2, 2), (2, 3), (3, 2)]
    if big:
        shapes += [(1, 4), (3, 3)]
    return shapes


# ---------------------------------------------------------------- correspondence (tie P)

def correspond(ctx):
    rng = ctx.rng
    m = ctx.model("C06")
    reqs, impls, infos = [], [], []

    def add(kind, info, pair):
        req, io = pair
        reqs.append(req)
        impls.append(io)
        infos.append((kind, info))

    modes = [("cyc", False), ("cyc", True), ("path", True)]
    oneshot_at, side = set(), []
    for (tag, n, es) in graph_scope(ctx, "tie"):
        for (kind, prim) in modes:
            if tag in ("ex-flip", "loops") and not ctx.thorough:
                forms = [rng.choice(FORMS), "mixed"]
            elif tag.startswith("big:") and not ctx.thorough:
                forms = ["vars", "mixed", rng.choice(FORMS[1:4])]
            else:
                forms = FORMS if (tag != "ex" or len(es) <= 3 or ctx.thorough) else ["vars", rng.choice(FORMS[1:])]
            for form in forms:
                cont = rng.choice(["S", "S", "T", "A"])
                how = rng.choice(["public", "public", "internal", "config", "none", "kwargs"])
                if how == "internal":
                    cont = "S"
                pre = rng.choice([0, 0, 1, 2])
                ctx.count("tie:%s:%s:%s" % (kind, "prim" if prim else "enc", form))
                add("post_" + kind, (kind, prim, n, es, form, cont, how, pre),
                    run_impl(kind, prim, n, es, form, cont, rng, pre, how))
    # one-shot iterables as is_active_edge (generator, iter, map, reversed): the documented argument is a sequence, so
    # the call may refuse them (TypeError) -- but it must never post something else than for the materialised list
    scope = graph_scope(ctx, "tie")
    for (tag, n, es) in scope[::(3 if ctx.thorough else 7)] + [t for t in scope if t[0].startswith("big:")][::4]:
        for (kind, prim) in modes:
            form = rng.choice(FORMS)
            cont = rng.choice(graphforms.ONESHOT)
            how = rng.choice(["public", "config", "none", "kwargs"])
            ctx.count("tie:oneshot:%s" % cont)
            oneshot_at.add(len(reqs))
            add("post_%s_oneshot" % kind, (kind, prim, n, es, form, cont, how), run_impl(kind, prim, n, es, form, cont, rng, 0, how))
    # histories: the same Solver / Graph object / flag list used for two calls
    hist = [t for t in scope if t[0] in ("rnd", "ex-flip", "loops") or t[0] in NAMED or t[0].startswith("big:")]
    for (tag, n, es) in hist[::(2 if ctx.thorough else 5)]:
        (k1, p1), (k2, p2) = rng.choice(modes), rng.choice(modes)
        mode = rng.choice(["same", "extend", "extend", "linegraph"])
        ctx.count("tie:history:" + mode)
        for (kind, info, req, want, io) in run_history(k1, p1, k2, p2, n, es, rng.choice(["vars", "vars", "mixed", "const", "neg"]),
                                                       rng, mode, rng.choice([0, 2])):
            if req is None:
                side.append((kind, info, want, io))
            else:
                add(kind, info, (req, io))
    # the path has no non-primitive form: RuntimeError
    for (tag, n, es) in graph_scope(ctx, "tie")[::37]:
        add("post_path", ("path", False, n, es, "vars"), run_impl("path", False, n, es, "vars", "S", rng, 0, "public"))
    # zero vertices
    for (kind, prim) in modes + [("path", False)]:
        for how in ["public", "internal"]:
            add("post_" + kind, (kind, prim, 0, [], "n0", how), run_impl(kind, prim, 0, [], "vars", "S", rng, 0, how))
            add("post_" + kind, (kind, prim, 0, [], "n0-long", how), run_impl(kind, prim, 0, [], "long", "S", rng, 0, how))
    # malformed stream
    nbad = 600 if ctx.thorough else 200
    for _ in range(nbad):
        n, es = graphcap.random_multigraph(rng, 6)
        kind, prim = rng.choice(modes)
        form = rng.choice(BAD_FORMS)
        cont = rng.choice(["S", "T", "A"])
        how = rng.choice(["public", "internal"])
        if how == "internal":
            cont = "S"
        ctx.count("tie:malformed:" + form)
        add("post_" + kind + "_bad", (kind, prim, n, es, form, cont, how),
            run_impl(kind, prim, n, es, form, cont, rng, rng.choice([0, 1]), how))
    # graph=None with a plain sequence, frame with an explicit graph -> TypeError
    for (kind, prim) in modes:
        add("wrapper_type", (kind, prim, "seq-no-graph"), run_impl(kind, prim, 3, [(0, 1), (1, 2)], "vars", "S", rng, 0, "public", og="N"))
        add("wrapper_type", (kind, prim, "arr-no-graph"), run_impl(kind, prim, 3, [(0, 1), (1, 2)], "vars", "A", rng, 0, "public", og="N"))
        add("wrapper_type", (kind, prim, "frame+graph"), run_impl_frame(kind, prim, 1, 1, "default", rng, 0, with_graph=True))
    # grid frames
    for (h, w) in frame_shapes(ctx, "tie"):
        for (kind, prim) in modes:
            for form in ["default", "vars", "mixed", "const"]:
                ctx.count("tie:frame:%s:%s" % (kind, form))
                add("frame_" + kind, (kind, prim, h, w, form), run_impl_frame(kind, prim, h, w, form, rng, rng.choice([0, 2])))
    outs = m.batch(reqs)
    for i, ((kind, info), o, io) in enumerate(zip(infos, outs, impls)):
        mo = parse_model(o)
        if i in oneshot_at and io == ("err", "TypeError"):
            ctx.count("tie:oneshot:refused(TypeError)")
            io = mo                         # refusing a one-shot iterable is allowed; anything else must equal the list form
        ctx.corr(kind, info, mo, io)
    for (kind, info, want, io) in side:
        ctx.corr(kind, info, want, io)

    # Graph.line_graph as a set (also with self-loops)
    lg_graphs = [(n, es) for n, es in graphcap.all_multigraphs(3, 4, loops=True)]
    lg_graphs += [graphcap.random_multigraph(rng, 8, loops=True) for _ in range(100)]
    # many more edges than vertices (pair keys built from the wrong count collide), mixed orientation, bundles
    for (k, n, es) in graphforms.structured(rng, loops=True):
        lg_graphs += [(n, es), (n, graphforms.shuffled(rng, es))]
    outs = m.batch(["LG " + graphcap.graph_tok(n, es).strip() for n, es in lg_graphs])
    for (n, es), o in zip(lg_graphs, outs):
        t = [int(x) for x in o.split()]
        mo = (t[0], sorted((t[2 + 2 * i], t[3 + 2 * i]) for i in range(t[1])), t[1])
        lg = graphcap.mk_graph(n, es).line_graph()
        io = (lg.num_vertices, sorted(lg.edges), len(set(lg.edges)))
        ctx.corr("line_graph", (n, es), mo, io)


# ---------------------------------------------------------------- search

def ev(e, asg):
    """value of a caller-side flag expression under asg: var id -> value"""
    from cspuz.expr import BoolVar, IntVar, Op
    if isinstance(e, (bool, int)):
        return e
    if isinstance(e, (BoolVar, IntVar)):
        return asg[e.id]
    a = [ev(x, asg) for x in e.operands]
    o = e.op
    if o == Op.NOT:
        return not a[0]
    if o == Op.AND:
        return all(a)
    if o == Op.OR:
        return any(a)
    if o == Op.IFF:
        return a[0] == a[1]
    if o == Op.XOR:
        return a[0] != a[1]
    if o == Op.IMP:
        return (not a[0]) or a[1]
    if o in (Op.BOOL_CONSTANT, Op.INT_CONSTANT):
        return a[0]
    if o == Op.IF:
        return a[1] if a[0] else a[2]
    if o == Op.ADD:
        return sum(a)
    if o == Op.SUB:
        return a[0] - sum(a[1:])
    if o == Op.NEG:
        return -a[0]
    cmp = {Op.EQ: lambda x, y: x == y, Op.NE: lambda x, y: x != y, Op.LE: lambda x, y: x <= y, Op.LT: lambda x, y: x < y,
           Op.GE: lambda x, y: x >= y, Op.GT: lambda x, y: x > y}
    if o in cmp:
        return cmp[o](a[0], a[1])
    raise ValueError("flag expression outside the evaluator: %s" % o)


def avc_value(node, asg):
    """the defined meaning of GRAPH_ACTIVE_VERTICES_CONNECTED, decoded independently of the model"""
    ops = node.operands
    n, m = ops[0], ops[1]
    flags = [bool(ev(x, asg)) for x in ops[2:2 + n]]
    rest = ops[2 + n:]
    if len(rest) != 2 * m or len(flags) != n:
        raise ValueError("operand layout")
    edges = [(rest[2 * i], rest[2 * i + 1]) for i in range(m)]
    for (a, b) in edges:
        if not (0 <= a < n and 0 <= b < n):
            raise ValueError("operand layout: endpoint")
    return graphcap.is_connected(n, edges, flags)


def unconst(e):
    """BOOL_CONSTANT / INT_CONSTANT nodes replaced by the literal they hold (their meaning by definition);
    works around the z3 backend's missing translation of constant nodes (DESIGN 7 #1, property C01) so that
    this search does not depend on it"""
    from cspuz.expr import BoolExpr, BoolVar, IntExpr, IntVar, Op
    if isinstance(e, (bool, int, BoolVar, IntVar)) or e is None:
        return e
    if e.op in (Op.BOOL_CONSTANT, Op.INT_CONSTANT):
        return e.operands[0]
    ops = [unconst(x) for x in e.operands]
    return (BoolExpr if isinstance(e, BoolExpr) else IntExpr)(e.op, ops)


class Posted:
    """the really posted program of one helper call with plain variables as edge flags"""

    def __init__(self, post):
        from cspuz import Solver
        self.s = Solver()
        self.evars, self.passed = post(self.s)   # edge flag variables (list), returned flat list
        self.avc = [c for c in self.s.constraints if _is_avc(c)]
        s2 = Solver()
        s2.variables = list(self.s.variables)
        s2.is_answer_key = list(self.s.is_answer_key)
        s2.constraints = [unconst(c) for c in self.s.constraints if not _is_avc(c)]
        # auxiliary (harness side only): e_i <-> i-th returned entry, x_i = its expected value, diff <-> some e_i != x_i
        from cspuz.expr import BoolExpr, Op
        self.es = [s2.bool_var() for _ in self.passed]
        self.xs = [s2.bool_var() for _ in self.passed]
        self.diff = s2.bool_var()
        for q, e in zip(self.passed, self.es):
            s2.constraints.append(BoolExpr(Op.IFF, [e, unconst(q)]))
        if self.passed:
            s2.constraints.append(BoolExpr(Op.IFF, [self.diff, BoolExpr(Op.OR, [BoolExpr(Op.XOR, [e, x]) for e, x in zip(self.es, self.xs)])]))
        self.chk = graphcap.z3_session(s2)
        self.s2 = s2

    def _flag_ids(self):
        """ids of the variables the native connectivity nodes mention"""
        if not hasattr(self, "_fids"):
            from cspuz.expr import BoolVar, IntVar, Expr
            acc = set()

            def walk(e):
                if isinstance(e, (BoolVar, IntVar)):
                    acc.add(e.id)
                elif isinstance(e, Expr):
                    for x in e.operands:
                        walk(x)
            for c in self.avc:
                walk(c)
            self._fids = acc
        return self._fids

    def sat(self, pat, extra=()):
        asg = {v.id: b for v, b in zip(self.evars, pat)}
        aux = sorted(self._flag_ids() - set(asg))
        if not aux:
            for c in self.avc:
                if not avc_value(c, asg):
                    return False
            return self.chk(list(zip(self.evars, pat)) + list(extra))
        # the native node speaks about auxiliary variables too (not the case for the code as it is: kept so that a
        # changed encoding is still decided): enumerate the assignments of those variables the ordinary constraints
        # admit and evaluate the node's defined meaning on each
        by_id = {v.id: v for v in self.s2.variables}
        fixed = list(zip(self.evars, pat)) + list(extra)
        import itertools
        if len(aux) > 14:
            raise ValueError("native connectivity node over %d auxiliary variables" % len(aux))
        from cspuz.expr import BoolVar
        doms = [(False, True) if isinstance(by_id[i], BoolVar) else range(by_id[i].lo, by_id[i].hi + 1) for i in aux]
        for vals in itertools.product(*doms):
            full = dict(asg)
            full.update(zip(aux, vals))
            if all(avc_value(c, full) for c in self.avc) and self.chk(fixed + [(by_id[i], v) for i, v in zip(aux, vals)]):
                return True
        return False

    def passed_values(self, pat, i):
        return {val for val in (False, True) if self.sat(pat, [(self.es[i], val)])}

    def passed_ok(self, pat, expected):
        """in every solution with the flags fixed to pat, the returned entries equal `expected` (one z3 call)"""
        if not self.passed:
            return True
        return not self.sat(pat, list(zip(self.xs, expected)) + [(self.diff, True)])


def check_patterns(ctx, label, key0, posted, n, edges, pats, oracle, desc, spec_rows=None):
    """compare satisfiability and the admitted values of the returned array with the oracle"""
    for pat in pats:
        ctx.prop_case(label, (key0, pat))
        want = oracle(n, edges, list(pat))
        got = posted.sat(pat)
        bits = "".join("1" if b else "0" for b in pat)
        if spec_rows is not None:
            spec_rows.append((n, edges, bits))
        if got != want:
            key = "%s:%s:%s" % (label, key0, bits)
            if "path" in label and not any(pat):
                key = "path:empty-edge-set"
            ctx.violation(key, "%s: posted constraints are %s for an edge subset that %s" % (
                label, "satisfiable" if got else "unsatisfiable", "is not admitted" if got else "must be admitted"),
                {"helper": label, "graph": desc, "n": n, "edges": [list(e) for e in edges], "active": bits,
                 "expected_sat": want, "observed_sat": got})
            continue
        if got:
            deg = graphcap.edge_degrees(n, edges, list(pat))
            if len(posted.passed) != n:
                ctx.violation("%s-passed-length:%s" % (label, key0), "%s: the returned array does not have one entry per vertex" % label,
                              {"helper": label, "graph": desc, "n": n, "edges": [list(e) for e in edges], "length": len(posted.passed)})
                continue
            if posted.passed_ok(pat, [d > 0 for d in deg]):
                continue                     # every admitted value of every entry is the expected one
            for i in range(n):
                vals = posted.passed_values(pat, i)
                if vals != {deg[i] > 0}:
                    ctx.violation("%s-passed:%s:%s:%d" % (label, key0, bits, i),
                                  "%s: returned array entry can take values %s, the vertex is %svisited" % (
                                      label, sorted(vals), "" if deg[i] > 0 else "not "),
                                  {"helper": label, "graph": desc, "n": n, "edges": [list(e) for e in edges],
                                   "active": bits, "vertex": i, "admitted_values": sorted(vals), "visited": deg[i] > 0})


def post_graph(kind, prim, n, edges):
    from cspuz import graph as G

    def post(s):
        vs = [s.bool_var() for _ in range(len(edges))]
        f = G.active_edges_single_cycle if kind == "cyc" else G.active_edges_single_path
        p = f(s, vs, graphcap.mk_graph(n, edges), use_graph_primitive=prim)
        return vs, list(p.data)
    return post


def lattice(h, w):
    """the lattice of an h x w frame, written from the meaning of BoolGridFrame.horizontal / vertical:
    horizontal[y][x] joins points (y, x)-(y, x+1); vertical[y][x] joins (y, x)-(y+1, x); point (y, x) = y*(w+1)+x.
    Edge order: all horizontal (row-major), then all vertical."""
    es = []
    for y in range(h + 1):
        for x in range(w):
            es.append((y * (w + 1) + x, y * (w + 1) + x + 1))
    for y in range(h):
        for x in range(w + 1):
            es.append((y * (w + 1) + x, (y + 1) * (w + 1) + x))
    return (h + 1) * (w + 1), es


def post_frame(kind, prim, h, w, shape_out):
    from cspuz import graph as G
    from cspuz.grid_frame import BoolGridFrame

    def post(s):
        fr = BoolGridFrame(s, h, w)
        f = G.active_edges_single_cycle if kind == "cyc" else G.active_edges_single_path
        p = f(s, fr, use_graph_primitive=prim)
        shape_out.append(tuple(p.shape))
        if tuple(p.shape) == (h + 1, w + 1):
            flat = [p[y, x] for y in range(h + 1) for x in range(w + 1)]   # entry of lattice point (y, x)
        else:
            flat = list(p.data)                                            # reported by the shape check below
        return list(fr.horizontal.data) + list(fr.vertical.data), flat
    return post


def frame_patterns(ctx, n, edges, limit):
    m = len(edges)
    if 2 ** m <= limit:
        return list(graphcap.patterns(m))
    # all subsets in which every vertex has even degree <= 2 or that are paths-like, plus random ones
    pats = set()
    for pat in graphcap.patterns(m):
        deg = graphcap.edge_degrees(n, edges, pat)
        if all(d in (0, 2) for d in deg) or (all(d <= 2 for d in deg) and sum(1 for d in deg if d == 1) == 2 and sum(pat) <= 4):
            pats.add(pat)
    for _ in range(limit // 8):
        pats.add(tuple(ctx.rng.random() < 0.4 for _ in range(m)))
    return sorted(pats)


# ---------------------------------------------------------------- scenarios: argument forms, option forms, histories

HELPERS = {"cycle": ("cyc", False, graphcap.is_single_cycle), "cycle-prim": ("cyc", True, graphcap.is_single_cycle),
           "path-prim": ("path", True, graphcap.is_single_path)}


def decl_tokens(solver):
    from cspuz.expr import BoolVar
    return ["b" if isinstance(v, BoolVar) else "i:%d:%d" % (v.lo, v.hi) for v in solver.variables]


def call_helper(s, helper, carg, g, how):
    """one public call; `how` = the way use_graph_primitive reaches the function"""
    from cspuz import graph as G
    from cspuz.configuration import config
    kind, prim, _ = HELPERS[helper]
    f = G.active_edges_single_cycle if kind == "cyc" else G.active_edges_single_path
    if how == "kw":
        return f(s, carg, g, use_graph_primitive=prim)
    if how == "kwargs":
        return f(solver=s, is_active_edge=carg, graph=g, use_graph_primitive=prim)
    old = config.use_graph_primitive
    config.use_graph_primitive = prim
    try:
        if how == "none":
            return f(s, carg, g, use_graph_primitive=None)
        return f(s, carg, graph=g)          # "config"
    finally:
        config.use_graph_primitive = old


class Scenario(Posted):
    """a JSON-able scenario run on the real code: {"decl": caller variables, "n": vertices, "same_list": bool,
    "calls": [{"helper", "edges" (edge list of the one Graph object at the time of the call: a prefix extension of the
    previous call's), "newdecl", "flags" (tree strings over the caller's variables; c<k> = k-th caller variable), "cont", "how"}]}"""

    def __init__(self, sc):
        self.sc = sc
        self.trees = []
        self.unchanged = True
        Posted.__init__(self, self._post)

    def _post(self, s):
        from cspuz.array import BoolArray1D
        from cspuz.graph import Graph
        sc = self.sc
        n = sc["n"]
        callers, passed = [], []

        def declare(tokens):
            for t in tokens:
                if t == "b":
                    callers.append(s.bool_var())
                else:
                    _, lo, hi = t.split(":")
                    callers.append(s.int_var(int(lo), int(hi)))
        declare(sc["decl"])
        g = Graph(n)
        flaglist = []
        for call in sc["calls"]:
            declare(call.get("newdecl", []))
            edges = [tuple(e) for e in call["edges"]]
            for (a, b) in edges[len(g.edges):]:
                g.add_edge(a, b)
            # a token c<k> stands for the k-th caller variable (those declared between two calls have ids unknown beforehand)
            flags = [exprio.parse(" ".join(exprio.show(callers[int(w[1:])]) if w[0] == "c" else w for w in t.split()), s.variables)
                     for t in call["flags"]]
            if sc.get("same_list"):
                flaglist.extend(flags[len(flaglist):])      # the same list object again, extended by the caller
            else:
                flaglist = flags
            self.trees.append(list(flaglist))
            cont = call.get("cont", "S")
            if cont == "S":
                carg = flaglist
            elif cont == "T":
                carg = tuple(flaglist)
            elif cont == "A":
                carg = BoolArray1D(flaglist)
            else:
                carg = graphforms.oneshot(cont, flaglist)
            snap_f, snap_g = list(flaglist), graph_snapshot(g)
            res = call_helper(s, call["helper"], carg, g, call.get("how", "kw"))
            if not (len(flaglist) == len(snap_f) and all(a is b for a, b in zip(flaglist, snap_f))
                    and graph_snapshot(g) == snap_g == graph_snapshot(graphcap.mk_graph(n, edges))):
                self.unchanged = False
            if not isinstance(res, BoolArray1D):
                raise TypeError("result is not a BoolArray1D")
            passed += list(res.data)
        return callers, passed

    def expected(self, val):
        """(should the whole program be satisfiable, expected values of the returned arrays) for caller values val"""
        asg = {v.id: x for v, x in zip(self.evars, val)}
        want, exp, pats = True, [], []
        for call, trees in zip(self.sc["calls"], self.trees):
            edges = [tuple(e) for e in call["edges"]]
            pat = [bool(ev(t, asg)) for t in trees[:len(edges)]]
            pats.append("".join("1" if b else "0" for b in pat))
            want = want and HELPERS[call["helper"]][2](self.sc["n"], edges, pat)
            exp += [d > 0 for d in graphcap.edge_degrees(self.sc["n"], edges, pat)]
        return want, exp, pats


def scenario_key(sc):
    import hashlib
    import json
    return hashlib.md5(json.dumps(sc, sort_keys=True).encode()).hexdigest()[:10]


def random_values(rng, evars):
    from cspuz.expr import BoolVar
    return [rng.random() < 0.55 if isinstance(v, BoolVar) else rng.randint(v.lo, v.hi) for v in evars]


def check_scenario(ctx, label, sc, rng, nvals):
    """run the scenario, then compare satisfiability / returned arrays with the oracle for nvals caller assignments"""
    key = "%s:%s" % (label, scenario_key(sc))
    r = vlib.guarded(Scenario, sc)
    if r[0] == "err":
        ctx.prop_case(label + ":raises", key)
        ctx.violation(key + ":raises", "%s: a well-formed call sequence raises %s" % (label, r[1]), {"scenario": sc, "error": r[1]})
        return
    P = r[1]
    if not P.unchanged:
        ctx.violation(key + ":args", "%s: the flag list or the Graph passed in was modified by the call" % label, {"scenario": sc})
    # caller assignments: about half of them chosen among those whose edge subsets are admitted (rare under uniform sampling)
    cands, seen = {True: [], False: []}, set()
    for _ in range(40 * nvals):
        val = random_values(rng, P.evars)
        if tuple(val) not in seen:
            seen.add(tuple(val))
            cands[P.expected(val)[0]].append(val)
        if len(cands[True]) >= nvals and len(cands[False]) >= nvals:
            break
    k = min(len(cands[True]), (nvals + 1) // 2)
    for val in cands[True][:k] + cands[False][:nvals - k]:
        want, exp, pats = P.expected(val)
        got = P.sat(val)
        ctx.prop_case(label, (key, tuple(val)))
        ctx.count("scenario:%s:%s" % (label, "sat" if want else "unsat"))
        detail = {"scenario": sc, "caller_values": [int(x) if not isinstance(x, bool) else x for x in val],
                  "active_per_call": pats, "expected_sat": want, "observed_sat": got}
        if got != want:
            ctx.violation("%s:%s" % (key, "".join(str(int(x)) for x in val)),
                          "%s: posted constraints are %s for edge subsets that %s" % (
                              label, "satisfiable" if got else "unsatisfiable", "are not admitted" if got else "must be admitted"), detail)
        elif got and len(P.passed) == len(exp) and not P.passed_ok(val, exp):
            bad = [i for i in range(len(exp)) if P.passed_values(val, i) != {exp[i]}]
            ctx.violation("%s-passed:%s:%s" % (key, "".join(str(int(x)) for x in val), bad[:1]),
                          "%s: a returned array entry can take a value other than 'vertex is visited'" % label,
                          dict(detail, entries=bad, visited=exp))
        elif got and len(P.passed) != len(exp):
            ctx.violation(key + ":length", "%s: the returned arrays do not have one entry per vertex" % label, detail)


def flag_strings(rng, m, form):
    """(caller declarations, flag tree strings) of one flag list of form `form`"""
    from cspuz import Solver
    s0 = Solver()
    pre_state(s0, rng, 1)
    acts = make_acts(s0, m, form, rng)
    return decl_tokens(s0), [exprio.show(a) for a in acts]


def search_scenarios(ctx, enough=lambda: False):
    rng = ctx.rng
    big = ctx.thorough
    deep = getattr(ctx, "deep", False)
    helpers = list(HELPERS)
    small = [(n, es) for n, es in graphcap.all_multigraphs(4, 4) if len(es) >= 1]
    pool = rng.sample(small, 90 if big else (50 if deep else 28))
    pool = [(n, graphforms.shuffled(rng, es) if i % 2 else es) for i, (n, es) in enumerate(pool)]
    pool += [graphcap.random_multigraph(rng, 6, loops=(i % 5 == 0)) for i in range(60 if big else (30 if deep else 16))]
    pool += [(n, es) for (k, n, es) in graphforms.structured(rng, loops=True)][::(1 if big else 4)]
    pool += [NAMED[k] for k in ("two-triangles", "triangle+square", "two-2cycles", "2cycle+triangle", "bowtie")]
    # (a) flags given as expressions / Python constants, every container kind, every way of giving the option
    for (n, es) in pool:
        if enough():
            return
        for helper in helpers:
            form = rng.choice(["neg", "and", "const", "mixed", "mixed"])
            decl, flags = flag_strings(rng, len(es), form)
            sc = {"decl": decl, "n": n, "calls": [{"helper": helper, "edges": [list(e) for e in es], "flags": flags,
                                                   "cont": rng.choice(["S", "T", "A"]),
                                                   "how": rng.choice(["kw", "config", "none", "kwargs"])}]}
            ctx.count("scenario-form:" + form)
            check_scenario(ctx, "expr-flags", sc, rng, 8 if len(es) > 2 else 4)
    # (a') flags that are mostly Python constants spelling out a targeted edge subset (one that is locally fine -- every
    # degree allowed -- but not admitted, when the graph has one; and a random one); the few non-constant flags are
    # decided by the caller assignment
    for (n, es) in pool:
        if len(es) < 2:
            continue
        if enough():
            return
        pats = graphforms.targeted_patterns(rng, n, es, 12)
        for helper in helpers:
            kind, _, oracle = HELPERS[helper]
            ok_deg = (lambda d: all(x in (0, 2) for x in d)) if kind == "cyc" else \
                (lambda d: all(x <= 2 for x in d) and sum(1 for x in d if x == 1) in (0, 2))
            near = [q for q in pats if ok_deg(graphcap.edge_degrees(n, es, q)) and not oracle(n, es, list(q))]
            for pat in ([rng.choice(near)] if near else []) + [rng.choice(pats)]:
                allconst = rng.random() < 0.6
                flags = [("T" if b else "F") if (allconst or rng.random() < 0.7) else rng.choice(["b0", "( B NOT b1 )", "( B AND b0 b1 )"])
                         for b in pat]
                sc = {"decl": ["b", "b"], "n": n, "calls": [{"helper": helper, "edges": [list(e) for e in es], "flags": flags,
                                                             "cont": rng.choice(["S", "T", "A"]),
                                                             "how": rng.choice(["kw", "config", "none", "kwargs"])}]}
                ctx.count("scenario-form:const-pattern")
                check_scenario(ctx, "const-flags", sc, rng, 1 if allconst else 4)
    # (b) histories: two calls on the same Solver and Graph object; the same flag list, or the Graph extended in between
    for i, (n, es) in enumerate(pool):
        if n < 2 or len(es) > 9:
            continue
        if enough():
            return
        h1, h2 = rng.choice(helpers), rng.choice(helpers)
        mode = ["same", "extend", "extend-fresh-flags"][i % 3]
        form = rng.choice(["vars", "vars", "neg", "mixed"])
        decl, flags = flag_strings(rng, len(es), form)
        c1 = {"helper": h1, "edges": [list(e) for e in es], "flags": flags, "cont": "S", "how": "kw"}
        if mode == "same":
            c2 = dict(c1, helper=h2)
            sc = {"decl": decl, "n": n, "same_list": True, "calls": [c1, c2]}
        else:
            a = rng.randrange(n)
            b = (a + 1 + rng.randrange(n - 1)) % n
            es2 = [list(e) for e in es] + [[a, b]]
            if mode == "extend":
                c2 = {"helper": h2, "edges": es2, "newdecl": ["b"], "flags": flags + ["c%d" % len(decl)], "cont": "S", "how": "kw"}
                sc = {"decl": decl, "n": n, "same_list": True, "calls": [c1, c2]}
            else:
                k = len(decl)
                c2 = {"helper": h2, "edges": es2, "newdecl": ["b"] * len(es2), "flags": ["c%d" % (k + j) for j in range(len(es2))],
                      "cont": rng.choice(["S", "T", "A"]), "how": "kw"}
                sc = {"decl": decl, "n": n, "same_list": False, "calls": [c1, c2]}
        ctx.count("scenario-history:" + mode)
        check_scenario(ctx, "history-" + mode, sc, rng, 10)
    # (c) one-shot iterables: refused with TypeError, or the same program as for the materialised list
    for (n, es) in pool[::2]:
        helper = rng.choice(helpers)
        decl, flags = flag_strings(rng, len(es), rng.choice(["vars", "mixed"]))
        kind = rng.choice(graphforms.ONESHOT)
        base = {"helper": helper, "edges": [list(e) for e in es], "flags": flags, "cont": "S", "how": "kw"}
        sc_list = {"decl": decl, "n": n, "calls": [base]}
        sc_one = {"decl": decl, "n": n, "calls": [dict(base, cont=kind)]}
        ctx.prop_case("oneshot", (n, tuple(es), helper, kind, tuple(flags)))
        r1 = vlib.guarded(lambda: show_state_c(Scenario(sc_list).s))
        r2 = vlib.guarded(lambda: show_state_c(Scenario(sc_one).s))
        ctx.count("scenario-oneshot:" + (r2[1] if r2[0] == "err" else "accepted"))
        if r2 != r1 and r2 != ("err", "TypeError"):
            ctx.violation("oneshot:%s" % scenario_key(sc_one),
                          "a one-shot iterable as is_active_edge is neither refused (TypeError) nor treated like the list it yields",
                          {"scenario": sc_one, "list_form": r1[1][:400] if r1[0] == "ok" else r1[1],
                           "oneshot_form": r2[1][:400] if r2[0] == "ok" else r2[1]})


def search(ctx):
    big = ctx.thorough
    deep = getattr(ctx, "deep", False)
    spec_rows = []

    def enough():
        # a broken tie/proof already triggered the deep search: a handful of concrete failing inputs is enough
        return deep and not big and len(ctx.violations) >= 5

    modes = [("cyc", False, "cycle", graphcap.is_single_cycle), ("cyc", True, "cycle-prim", graphcap.is_single_cycle),
             ("path", True, "path-prim", graphcap.is_single_path)]
    scope = graph_scope(ctx, "search")
    # the 5-vertex exhaustive block (deep / thorough only) is the longest: it runs after the other input classes, so that a
    # broken tie gets its concrete failing input from the cheaper, more varied classes first
    later = [t for t in scope if t[0] == "ex5"]

    def graph_block(items):
        for (tag, n, es) in items:
            key0 = "n%d:%s" % (n, ",".join("%d-%d" % e for e in es))
            if enough():
                break
            for (kind, prim, label, oracle) in modes:
                if label != "cycle" and tag == "rnd" and not (big or deep) and ctx.rng.random() < 0.5:
                    continue
                r = vlib.guarded(Posted, post_graph(kind, prim, n, es))
                if r[0] == "err":
                    ctx.violation("%s-raises:%s" % (label, key0), "%s raises %s on a well-formed graph" % (label, r[1]),
                                  {"helper": label, "n": n, "edges": [list(e) for e in es], "error": r[1]})
                    continue
                ctx.count("search:%s:%s" % (label, tag))
                check_patterns(ctx, label, key0, r[1], n, es, graphcap.patterns(len(es)), oracle, tag,
                               spec_rows if label == "cycle" else None)
    graph_block([t for t in scope if t[0] != "ex5"])
    for (tag, n, es, pats) in big_scope(ctx):
        key0 = "n%d:%s" % (n, ",".join("%d-%d" % e for e in es))
        if enough():
            break
        for (kind, prim, label, oracle) in modes:
            r = vlib.guarded(Posted, post_graph(kind, prim, n, es))
            if r[0] == "err":
                ctx.violation("%s-raises:%s" % (label, key0), "%s raises %s on a well-formed graph" % (label, r[1]),
                              {"helper": label, "n": n, "edges": [list(e) for e in es], "error": r[1]})
                continue
            ctx.count("search:%s:big" % label)
            check_patterns(ctx, label, key0, r[1], n, es, pats, oracle, tag,
                           spec_rows if label == "cycle" else None)
    if not enough():
        search_scenarios(ctx, enough)
    for (h, w) in frame_shapes(ctx, "search"):
        n, es = lattice(h, w)
        if enough():
            break
        for (kind, prim, label, oracle) in modes:
            if (h + 1) * (w + 1) > 9 and label != "cycle" and not (big or deep):
                continue
            shp = []
            r = vlib.guarded(Posted, post_frame(kind, prim, h, w, shp))
            key0 = "frame%dx%d" % (h, w)
            if r[0] == "err":
                ctx.violation("%s-raises:%s" % (label, key0), "%s raises %s on a grid frame" % (label, r[1]),
                              {"helper": label, "frame": [h, w], "error": r[1]})
                continue
            if shp != [(h + 1, w + 1)]:
                ctx.violation("%s-shape:%s" % (label, key0), "result shape is not (height+1, width+1)",
                              {"helper": label, "frame": [h, w], "shape": shp})
                continue
            pats = frame_patterns(ctx, n, es, 70000 if big else (10000 if deep else 5000))
            ctx.count("search:%s:frame" % label)
            check_patterns(ctx, "frame-" + label, key0, r[1], n, es, pats, oracle, "frame %dx%d" % (h, w))
    graph_block(later)
    # the Coq specification (extracted single_cycle_b / single_path_b / visited) against the same oracles
    try:
        m = ctx.model("C06")
        outs = m.batch(["SPEC %s %s" % (graphcap.graph_tok(n, es).strip(), bits) for (n, es, bits) in spec_rows])
    except Exception as ex:  # model build broken: nothing to validate
        ctx.note("spec validation skipped: %r" % (ex,))
        return
    for (n, es, bits), o in zip(spec_rows, outs):
        pat = [c == "1" for c in bits]
        deg = graphcap.edge_degrees(n, es, pat)
        want = "%d %d %s" % (graphcap.is_single_cycle(n, es, pat), graphcap.is_single_path(n, es, pat),
                             "".join("1" if d > 0 else "0" for d in deg))
        ctx.cases += 1
        ctx.count("spec-vs-oracle")
        if o.strip() != want.strip() and len(ctx.mismatches) < 50:
            ctx.mismatches.append({"kind": "spec-vs-oracle", "input": [n, es, bits], "model": o, "impl": want})


def replay(ctx, rp):
    v = rp.get("violation", {}).get("detail", {})
    print(rp)
    if v and "scenario" in v:
        r = vlib.guarded(Scenario, v["scenario"])
        if r[0] == "err":
            print("scenario raises", r[1])
            return 1 if (v.get("error") or "oneshot_form" in v) else 0
        P = r[1]
        if "caller_values" not in v:
            print("arguments unchanged:", P.unchanged)
            return 0 if P.unchanged else 1
        val = v["caller_values"]
        want, exp, pats = P.expected(val)
        got = P.sat(val)
        print("posted program satisfiable:", got, " oracle:", want, " active edges per call:", pats)
        if got != want:
            return 1
        return 0 if (not got or P.passed_ok(val, exp)) else 1
    if not v or "edges" not in v:
        return 0
    n, es = v["n"], [tuple(e) for e in v["edges"]]
    helper = v["helper"].replace("frame-", "")
    kind, prim, oracle = {"cycle": ("cyc", False, graphcap.is_single_cycle),
                          "cycle-prim": ("cyc", True, graphcap.is_single_cycle),
                          "path-prim": ("path", True, graphcap.is_single_path)}[helper]
    pat = [c == "1" for c in v["active"]]
    if v["helper"].startswith("frame-"):
        print("frame violation: re-run ./check C06 (graph form of the lattice replayed below)")
    p = Posted(post_graph(kind, prim, n, es))
    got, want = p.sat(pat), oracle(n, es, pat)
    print("posted program satisfiable:", got, " oracle:", want)
    return 1 if got != want else 0
