(* C12 — the method table regenerated from the Python source (Gen/DunderTable.v)
   says what the model's table says. *)
From Coq Require Import ZArith List Bool.
From Cspuz Require Import Lib.PyErr Core.Expr Core.Build Array.Elementwise Gen.DunderTable.
Import ListNotations.

Lemma expected_table_lookup : forall c m, lookup_row expected_table c m = lookup_method c m.
Proof. intros c m; destruct c, m; reflexivity. Qed.

Lemma dunder_table_lookup : forall c m, lookup_row dunder_table c m = lookup_method c m.
Proof. intros c m; destruct c, m; vm_compute; reflexivity. Qed.

Lemma dunder_table_length : length dunder_table = length expected_table.
Proof. vm_compute; reflexivity. Qed.

(* ---- the isinstance predicates read from the source are the model's *)

Lemma gen_is_bool_like_correct : forall v, like_eval gen_is_bool_like (class_of v) = is_bool_like v.
Proof. intros [[]|[] []]; reflexivity. Qed.

Lemma gen_is_int_like_correct : forall v, like_eval gen_is_int_like (class_of v) = is_int_like v.
Proof. intros [[]|[] []]; reflexivity. Qed.

Lemma gen_is_bool_expr_like_correct : forall v,
  like_eval gen_is_bool_expr_like (class_of v) = is_bool_expr_like_v v.
Proof. intros [[]|[] []]; reflexivity. Qed.

Lemma gen_is_int_expr_like_correct : forall v,
  like_eval gen_is_int_expr_like (class_of v) = is_int_expr_like_v v.
Proof. intros [[]|[] []]; reflexivity. Qed.

(* ---- the type-check chain of _elementwise read from the source is the model's table *)

Lemma gen_elem_table_correct : forall o ops, tc_eval gen_elem_table o ops = elem_typecheck o ops.
Proof.
  intros o ops. destruct o; try reflexivity;
  cbn -[Nat.eqb forallb length];
  destruct ops as [|a [|b [|c [|d ops]]]]; cbn;
  repeat match goal with
         | |- context [is_int_like ?x] => destruct (is_int_like x)
         | |- context [is_bool_like ?x] => destruct (is_bool_like x)
         end; cbn; rewrite ?andb_true_r, ?andb_false_r; reflexivity.
Qed.

Lemma gen_bool_ops_correct : forall o, existsb (op_eqb o) gen_bool_ops = is_bool_op o.
Proof. destruct o; reflexivity. Qed.

Lemma gen_int_ops_correct : forall o, existsb (op_eqb o) gen_int_ops = is_int_op o.
Proof. destruct o; reflexivity. Qed.
