(* C11 Tier 1 - yajilin: for every board shape (height, width >= 1; the solver rejects the others) and every clue
   layout, the program posted by solve_yajilin (model Yajilin.v: the single-cycle helper of property C06 on the frame
   between the cell centres, the black-cell grid declared after it, the two shifted-slice conjunctions of
   graph.active_vertices_not_adjacent, the per-cell constraints) has a model reading as [ans] on the answer keys
   (frame, then black cells) exactly when [ans] obeys Rules_yajilin.  The graph side is
   YajilinCompose.cycle_grid_compose. *)
From Coq Require Import ZArith List Bool Arith Lia.
From Cspuz Require Import Lib.PyErr Core.Expr Core.Program Core.Build Graph.GraphModel Graph.Cycle Graph.CycleLemmas
     Graph.CycleProofs Graph.CycleFrame
     Puzzle.PuzzleBase Puzzle.SatAbs Puzzle.ModelBase Puzzle.ModelLemmas Puzzle.AkariLemmas
     Puzzle.CycleFrameBase Puzzle.CycleCompose Puzzle.YajilinCompose Puzzle.Rules_yajilin Puzzle.Yajilin.
Import ListNotations.
Local Open Scope nat_scope.

Notation b2z := PuzzleBase.b2z.

(* ------------------------------------------------------------------------------------------------------ *)
(* small facts                                                                                             *)

Lemma yj_count_rev {A} (f : A -> bool) l : count f (rev l) = count f l.
Proof.
  unfold count. induction l as [|a l IH]; [reflexivity|].
  simpl. rewrite filter_app, app_length, IH. simpl. destruct (f a); simpl; lia.
Qed.

Lemma yj_nbr4_cases h w y x y' x' :
  In (y', x') (nbr4 h w y x) <->
  ((0 < y /\ y' = y - 1 /\ x' = x) \/ (S y < h /\ y' = S y /\ x' = x) \/
   (0 < x /\ y' = y /\ x' = x - 1) \/ (S x < w /\ y' = y /\ x' = S x)).
Proof.
  unfold nbr4. rewrite !in_app_iff.
  destruct (Nat.ltb_spec 0 y), (Nat.ltb_spec (S y) h), (Nat.ltb_spec 0 x), (Nat.ltb_spec (S x) w); simpl;
    split; intros H'; repeat (destruct H' as [H'|H']); try (inversion H'; subst); try tauto; try lia;
    repeat match goal with H : _ /\ _ |- _ => destruct H end; subst; auto 10; try lia.
Qed.

Lemma yj_n_lattice_frame h w : n_lattice_edges (S h) (S w) = frame_n h w.
Proof.
  unfold n_lattice_edges, frame_n. replace (S w - 1) with w by lia. replace (S h - 1) with h by lia. reflexivity.
Qed.
Lemma yj_base_eq h w : yj_base (S h) (S w) = grid_base h w.
Proof. unfold yj_base, grid_base. replace (S w - 1) with w by lia. replace (S h - 1) with h by lia. reflexivity. Qed.
Lemma yj_passed_eq h w y x : yj_passed (S h) (S w) (y, x) = frame_pid h w y x.
Proof. unfold yj_passed. cbn [fst snd]. replace (S w - 1) with w by lia. replace (S h - 1) with h by lia. reflexivity. Qed.

Lemma yj_dims h w (rest : list (list Z)) :
  dim ([Z.of_nat h; Z.of_nat w] :: rest) 0 = h /\ dim ([Z.of_nat h; Z.of_nat w] :: rest) 1 = w.
Proof. unfold dim, zn, getz, sec; simpl. rewrite !Nat2Z.id. split; reflexivity. Qed.

(* "no two black cells touch", cell by cell (rule form) = pair by pair (the two shifted slices) *)
Lemma yj_nonadj_forms (lit : nat * nat -> bool) h w :
  forallb (fun '(y, x) => negb (lit (y, x)) || forallb (fun c' => negb (lit c')) (nbr4 h w y x)) (cells h w) =
  forallb (fun '(y, x) => negb (lit (S y, x) && lit (y, x))) (cells (h - 1) w) &&
  forallb (fun '(y, x) => negb (lit (y, S x) && lit (y, x))) (cells h (w - 1)).
Proof.
  apply eq_true_iff_eq. rewrite andb_true_iff, !forallb_forall. split.
  - intros H. split; intros [y x] Hc; apply cells_in in Hc; apply negb_true_iff; apply andb_false_iff.
    + destruct (lit (y, x)) eqn:E; [left|right; reflexivity].
      specialize (H (y, x) ltac:(apply cells_in; lia)). cbn beta iota in H. rewrite E in H. simpl in H.
      rewrite forallb_forall in H. specialize (H (S y, x) ltac:(apply yj_nbr4_cases; right; left; lia)).
      apply negb_true_iff in H. exact H.
    + destruct (lit (y, x)) eqn:E; [left|right; reflexivity].
      specialize (H (y, x) ltac:(apply cells_in; lia)). cbn beta iota in H. rewrite E in H. simpl in H.
      rewrite forallb_forall in H. specialize (H (y, S x) ltac:(apply yj_nbr4_cases; right; right; right; lia)).
      apply negb_true_iff in H. exact H.
  - intros [HV HH] [y x] Hc. apply cells_in in Hc. destruct Hc as [Hy Hx].
    destruct (lit (y, x)) eqn:E; [|reflexivity]. simpl.
    apply forallb_forall. intros [y' x'] Hn. apply negb_true_iff.
    apply yj_nbr4_cases in Hn. destruct Hn as [[H0 [-> ->]]|[[H0 [-> ->]]|[[H0 [-> ->]]|[H0 [-> ->]]]]].
    + specialize (HV (y - 1, x) ltac:(apply cells_in; lia)). cbn beta iota in HV.
      replace (S (y - 1)) with y in HV by lia. rewrite E in HV. simpl in HV. apply negb_true_iff in HV. exact HV.
    + specialize (HV (y, x) ltac:(apply cells_in; lia)). cbn beta iota in HV.
      rewrite E, andb_true_r in HV. apply negb_true_iff in HV. exact HV.
    + specialize (HH (y, x - 1) ltac:(apply cells_in; lia)). cbn beta iota in HH.
      replace (S (x - 1)) with x in HH by lia. rewrite E in HH. simpl in HH. apply negb_true_iff in HH. exact HH.
    + specialize (HH (y, x) ltac:(apply cells_in; lia)). cbn beta iota in HH.
      rewrite E, andb_true_r in HH. apply negb_true_iff in HH. exact HH.
Qed.

(* solver.add_answer_key changes neither the declarations nor the constraints *)
Lemma yj_add_keys_spec l : forall st st',
  yj_add_keys st l = Ok st' -> vars st' = vars st /\ Program.cons st' = Program.cons st.
Proof.
  induction l as [|a l IH]; intros st st' H; simpl in H.
  - inversion H; subst. split; reflexivity.
  - destruct (add_answer_key st a) as [s|e] eqn:E; [|discriminate].
    apply IH in H. destruct H as [H1 H2].
    assert (Hs : vars s = vars st /\ Program.cons s = Program.cons st).
    { unfold add_answer_key in E.
      destruct a; try discriminate; destruct (nth_error (keys st) id) as [[|]|]; try discriminate;
        inversion E; subst; split; reflexivity. }
    destruct Hs. split; congruence.
Qed.

(* ------------------------------------------------------------------------------------------------------ *)
(* the part of the rules that is not the loop condition                                                    *)

Definition yj_local (H W : nat) (kind num : list Z) (ans : answer) : bool :=
  let ne := n_lattice_edges H W in
  let on := fun k => isb (getz ans k) in
  let black := fun y x => isb (getz ans (ne + y * W + x)) in
  let g := lattice H W in
  forallb (fun '(y, x) =>
     let k := at2 kind W y x in
     let passed := on_line g on (y * W + x) in
     (negb (black y x) || forallb (fun '(y', x') => negb (black y' x')) (nbr4 H W y x)) &&
     (if (k =? 0)%Z then xorb passed (black y x)
      else negb passed && negb (black y x) &&
           let dir := if (k =? 1)%Z then Some ((-1)%Z, 0%Z) else if (k =? 2)%Z then Some (1%Z, 0%Z)
                      else if (k =? 3)%Z then Some (0%Z, (-1)%Z) else if (k =? 4)%Z then Some (0%Z, 1%Z)
                      else None in
           match dir with
           | Some (dy, dx) => (zcount (fun '(y', x') => black y' x') (ray H W y x dy dx) =? at2 num W y x)%Z
           | None => true
           end)) (cells H W).

Lemma rules_yajilin_split H W kind num ans :
  rules_yajilin [[Z.of_nat H; Z.of_nat W]; kind; num] ans =
  Nat.eqb (length ans) (n_lattice_edges H W + H * W) && forallb is01 ans &&
  single_loop_b (lattice H W) (fun k => isb (getz ans k)) && yj_local H W kind num ans.
Proof.
  unfold rules_yajilin, yj_local. destruct (yj_dims H W [kind; num]) as [-> ->]. reflexivity.
Qed.

Section Core.
  Variables (h w : nat) (kind num : list Z) (en : env).
  Notation H := (S h).
  Notation W := (S w).
  Notation rd := (key_reading h w (S h * S w) en).
  Notation lit := (fun c : nat * nat => eb en (yj_black (S h) (S w) c)).
  Hypothesis Hpass : forall y x, y <= h -> x <= w ->
    eb en (frame_pid h w y x) = on_line (lattice H W) (eb en) (y * W + x).

  Lemma yj_black_lit y x :
    y < H -> x < W -> isb (getz rd (n_lattice_edges H W + y * W + x)) = eb en (yj_black H W (y, x)).
  Proof.
    intros Hy Hx. rewrite yj_n_lattice_frame.
    replace (frame_n h w + y * W + x) with (frame_n h w + (y * W + x)) by lia.
    rewrite key_get_grid by nia. rewrite b2z_isb. unfold yj_black, cidx. cbn [fst snd]. rewrite yj_base_eq. reflexivity.
  Qed.

  Lemma yj_passed_on y x :
    y < H -> x < W ->
    on_line (lattice H W) (fun k => isb (getz rd k)) (y * W + x) = eb en (yj_passed H W (y, x)).
  Proof.
    intros Hy Hx. rewrite yj_passed_eq, Hpass by lia. apply on_line_ext.
    intros k Hk. change (length (edges (lattice H W))) with (length (lattice_edges H W)) in Hk.
    rewrite lattice_edges_length in Hk. rewrite key_get_frame by exact Hk. apply b2z_isb.
  Qed.

  Lemma yj_zcount_ray y x dy dx :
    zcount (fun '(y', x') => isb (getz rd (n_lattice_edges H W + y' * W + x'))) (ray H W y x dy dx) =
    Z.of_nat (count lit (ray H W y x dy dx)).
  Proof.
    unfold zcount. f_equal. apply count_ext_in. intros [y' x'] Hr. apply ray_in in Hr. cbn [fst snd] in Hr.
    apply yj_black_lit; tauto.
  Qed.

  Lemma yj_hold_not i : holds no_graph en (BNode NOT [BVar i]) = negb (eb en i).
  Proof. unfold holds. simpl. destruct (eb en i); reflexivity. Qed.
  Lemma yj_hold_xor i j : holds no_graph en (BNode XOR [BVar i; BVar j]) = xorb (eb en i) (eb en j).
  Proof. unfold holds. simpl. destruct (eb en i), (eb en j); reflexivity. Qed.
  Lemma yj_hold_nand a b : holds no_graph en (yj_nand H W a b) = negb (lit a && lit b).
  Proof. unfold holds, yj_nand. simpl. destruct (eb en (yj_black H W a)), (eb en (yj_black H W b)); reflexivity. Qed.

  Lemma yj_hold_count cs c :
    holds no_graph en (BNode EQ [ct_vars (map (yj_black H W) cs); PyInt c]) = (Z.of_nat (count lit cs) =? c)%Z.
  Proof. rewrite holds_ct_eq, count_map. reflexivity. Qed.

  (* one cell: its part of the rules = "it touches no other black cell" and its posted constraints *)
  Lemma yj_cell_core y x :
    y < H -> x < W ->
    (let ne := n_lattice_edges H W in
     let on := fun k => isb (getz rd k) in
     let black := fun y x => isb (getz rd (ne + y * W + x)) in
     let g := lattice H W in
     let k := at2 kind W y x in
     let passed := on_line g on (y * W + x) in
     (negb (black y x) || forallb (fun '(y', x') => negb (black y' x')) (nbr4 H W y x)) &&
     (if (k =? 0)%Z then xorb passed (black y x)
      else negb passed && negb (black y x) &&
           let dir := if (k =? 1)%Z then Some ((-1)%Z, 0%Z) else if (k =? 2)%Z then Some (1%Z, 0%Z)
                      else if (k =? 3)%Z then Some (0%Z, (-1)%Z) else if (k =? 4)%Z then Some (0%Z, 1%Z)
                      else None in
           match dir with
           | Some (dy, dx) => (zcount (fun '(y', x') => black y' x') (ray H W y x dy dx) =? at2 num W y x)%Z
           | None => true
           end)) =
    (negb (lit (y, x)) || forallb (fun c' => negb (lit c')) (nbr4 H W y x)) &&
    forallb (holds no_graph en) (yj_cell H W kind num (y, x)).
  Proof.
    intros Hy Hx. cbv beta zeta. rewrite (yj_black_lit y x Hy Hx), (yj_passed_on y x Hy Hx). f_equal.
    - f_equal. apply forallb_ext_in. intros [y' x'] Hn. destruct (nbr4_in H W y x y' x' Hy Hx Hn) as [Hy' Hx'].
      rewrite (yj_black_lit y' x' Hy' Hx'). reflexivity.
    - unfold yj_cell, yj_arrow_cells.
      destruct (at2 kind W y x =? 0)%Z.
      { cbn [forallb]. rewrite yj_hold_xor, andb_true_r. reflexivity. }
      cbn [app forallb]. rewrite !yj_hold_not.
      destruct (at2 kind W y x =? 1)%Z.
      { cbn [forallb]. rewrite yj_hold_count, andb_true_r, yj_zcount_ray, (ray_up H W y x Hy Hx).
        rewrite <- (yj_count_rev _ (up_cells x y)), rev_up_cells, andb_assoc. reflexivity. }
      destruct (at2 kind W y x =? 2)%Z.
      { cbn [forallb]. rewrite yj_hold_count, andb_true_r, yj_zcount_ray, (ray_down H W y x Hy Hx), andb_assoc.
        reflexivity. }
      destruct (at2 kind W y x =? 3)%Z.
      { cbn [forallb]. rewrite yj_hold_count, andb_true_r, yj_zcount_ray, (ray_left H W y x Hy Hx).
        rewrite <- (yj_count_rev _ (left_cells y x)), rev_left_cells, andb_assoc. reflexivity. }
      destruct (at2 kind W y x =? 4)%Z.
      { cbn [forallb]. rewrite yj_hold_count, andb_true_r, yj_zcount_ray, (ray_right H W y x Hy Hx), andb_assoc.
        reflexivity. }
      cbn [forallb]. rewrite !andb_true_r. reflexivity.
  Qed.

  Lemma yj_nonadj_core :
    forallb (fun '(y, x) => negb (lit (y, x)) || forallb (fun c' => negb (lit c')) (nbr4 H W y x)) (cells H W) =
    forallb (holds no_graph en) (yajilin_not_adjacent H W).
  Proof.
    etransitivity; [exact (yj_nonadj_forms lit H W)|].
    unfold yajilin_not_adjacent. rewrite forallb_app, !forallb_map. f_equal;
      apply forallb_ext_in; intros [y x] _; cbv beta iota; rewrite yj_hold_nand; reflexivity.
  Qed.

  Lemma yj_local_core :
    yj_local H W kind num rd =
    forallb (holds no_graph en) (yajilin_not_adjacent H W ++ yajilin_cells H W kind num).
  Proof.
    rewrite forallb_app, <- yj_nonadj_core. unfold yajilin_cells. rewrite forallb_flat_map.
    rewrite <- forallb_and. unfold yj_local. apply forallb_ext_in. intros [y x] Hc. apply cells_in in Hc.
    destruct Hc as [Hy Hx]. apply (yj_cell_core y x Hy Hx).
  Qed.
End Core.

(* ------------------------------------------------------------------------------------------------------ *)
(* the shape of the modelled program                                                                       *)

Lemma yajilin_model_shape h w kind num st :
  solve_yajilin_model [[Z.of_nat (S h); Z.of_nat (S w)]; kind; num] = Ok st ->
  exists st0 st1 res,
    vars st0 = repeat DBool (frame_n h w) /\ Program.cons st0 = [] /\
    active_edges_single_cycle st0 (AFrame h w (frame_hor h w) (frame_ver h w)) None false = Ok (st1, res) /\
    vars st = vars st1 ++ repeat DBool (S h * S w) /\
    Program.cons st = Program.cons st1 ++ (yajilin_not_adjacent (S h) (S w) ++ yajilin_cells (S h) (S w) kind num).
Proof.
  unfold solve_yajilin_model.
  change (sec [[Z.of_nat (S h); Z.of_nat (S w)]; kind; num] 1) with kind.
  change (sec [[Z.of_nat (S h); Z.of_nat (S w)]; kind; num] 2) with num.
  change (sec [[Z.of_nat (S h); Z.of_nat (S w)]; kind; num] 0) with [Z.of_nat (S h); Z.of_nat (S w)].
  change (getz [Z.of_nat (S h); Z.of_nat (S w)] 0) with (Z.of_nat (S h)).
  change (getz [Z.of_nat (S h); Z.of_nat (S w)] 1) with (Z.of_nat (S w)).
  destruct (yj_dims (S h) (S w) [kind; num]) as [-> ->].
  replace ((Z.of_nat (S h) <? 1) || (Z.of_nat (S w) <? 1))%Z with false
    by (symmetry; apply orb_false_iff; split; apply Z.ltb_ge; lia).
  replace (S h - 1) with h by lia. replace (S w - 1) with w by lia.
  unfold bool_array. rewrite !bool_vars_spec.
  set (sb := {| vars := vars {| vars := vars empty_state ++ repeat DBool (S h * w);
                               keys := keys empty_state ++ repeat false (S h * w);
                               cons := Program.cons empty_state |} ++ repeat DBool (h * S w);
                keys := _; cons := _ |}).
  assert (Hn : next_id {| vars := vars empty_state ++ repeat DBool (S h * w);
                          keys := keys empty_state ++ repeat false (S h * w);
                          cons := Program.cons empty_state |} = S h * w).
  { unfold next_id. simpl. apply repeat_length. }
  rewrite Hn. change (next_id empty_state) with 0.
  fold (frame_hor h w). fold (frame_ver h w).
  destruct (active_edges_single_cycle sb (AFrame h w (frame_hor h w) (frame_ver h w)) None false)
    as [[st1 res]|e] eqn:Hcall; [|discriminate].
  rewrite bool_vars_spec.
  destruct (yj_add_keys _ (frame_hor h w ++ frame_ver h w)) as [st3|e] eqn:E3; [|discriminate].
  destruct (yj_add_keys st3 _) as [st4|e] eqn:E4; [|discriminate].
  destruct (Nat.ltb (length kind) (S h * S w)); [discriminate|].
  intros Hst. inversion Hst; subst st. clear Hst.
  apply yj_add_keys_spec in E3, E4. destruct E3 as [V3 C3], E4 as [V4 C4].
  cbn [vars Program.cons ensure] in *.
  exists sb, st1, res. split; [|split; [reflexivity|split; [exact Hcall|split]]].
  - unfold sb, frame_n. cbn [vars empty_state app]. rewrite repeat_app. reflexivity.
  - rewrite V4, V3. reflexivity.
  - rewrite C4, C3, <- app_assoc. reflexivity.
Qed.

(* ------------------------------------------------------------------------------------------------------ *)
(* the theorem                                                                                             *)

Theorem yajilin_exact H W kind num st ans :
  solve_yajilin_model [[Z.of_nat H; Z.of_nat W]; kind; num] = Ok st ->
  ((exists en, model_of no_graph en st /\
               reads st en (seq 0 (n_lattice_edges H W) ++ seq (n_lattice_edges H W + 3 * (H * W)) (H * W)) = ans)
   <-> rules_yajilin [[Z.of_nat H; Z.of_nat W]; kind; num] ans = true).
Proof.
  destruct H as [|h]; [intros Hm; discriminate Hm|].
  destruct W as [|w].
  { intros Hm. unfold solve_yajilin_model in Hm.
    change (getz (sec [[Z.of_nat (S h); Z.of_nat 0]; kind; num] 0) 1) with 0%Z in Hm.
    change (0 <? 1)%Z with true in Hm. rewrite orb_true_r in Hm. discriminate Hm. }
  intros Hm. destruct (yajilin_model_shape h w kind num st Hm) as [st0 [st1 [res [Hv0 [Hc0 [Hcall [Hv Hc]]]]]]].
  destruct (cycle_grid_compose no_graph h w (S h * S w) st0 st1 st res _ Hv0 Hc0 Hcall Hv Hc
              (yj_local (S h) (S w) kind num) ans
              (fun en Hp => yj_local_core h w kind num en Hp)) as [_ EX].
  rewrite rules_yajilin_split, yj_n_lattice_frame.
  replace (seq 0 (frame_n h w) ++ seq (frame_n h w + 3 * (S h * S w)) (S h * S w))
    with (key_ids h w (S h * S w)); [exact EX|].
  unfold key_ids, grid_base. f_equal. f_equal. lia.
Qed.

(* ------------------------------------------------------------------------------------------------------ *)
(* the premise is satisfiable: the model accepts every board with height, width >= 1 and enough cells      *)

(* the answer-key flags after the single-cycle helper: the helper declares 3 (h+1)(w+1) variables, none of them a key *)
Lemma yj_post_cycle_keys acts g base st :
  wf_graph g = true -> length (edges g) <= length acts ->
  (forall e, In e acts -> is_constraint_like e = true) ->
  next_id st = base -> 1 <= nv g ->
  exists st' p, post_cycle st acts g false = Ok (st', p) /\
             keys st' = keys st ++ repeat false (nv g) ++ repeat false (nv g) ++ repeat false (nv g).
Proof.
  intros Hwf Hlen Hcl Hb Hn. unfold post_cycle, bool_array, int_array.
  rewrite bool_vars_spec. rewrite Hb.
  replace (Z.of_nat (nv g) - 1 <? 0)%Z with false by (symmetry; apply Z.ltb_ge; lia).
  rewrite int_vars_spec. cbn [bind]. rewrite bool_vars_spec.
  unfold next_id. cbn [vars keys Program.cons].
  rewrite !app_length, !repeat_length. fold (next_id st). rewrite Hb.
  fold (hiZ g). fold (passedL g base). fold (rankL g base). fold (rootL g base).
  rewrite (for_each_ok _ (fun i s => ensure (ensure s [c_deg acts g base i]) [c_rank acts g base i])).
  2:{ intros i s Hi. apply in_seq in Hi. apply cycle_step_ok; [assumption|assumption|assumption|lia]. }
  cbn [bind].
  rewrite (count_true_ok (rootL g base)).
  2:{ intros x Hx. unfold rootL in Hx. apply in_map_iff in Hx. destruct Hx as [? [<- _]]. reflexivity. }
  cbn [bind]. eexists. eexists. split; [reflexivity|].
  match goal with |- context [fold_left ?f ?l ?s] =>
    destruct (fold_ensure2 (c_deg acts g base) (c_rank acts g base) l s) as [H1 [H2 H3]] end.
  cbn [ensure vars keys Program.cons]. rewrite H2. cbn [keys]. rewrite <- !app_assoc. reflexivity.
Qed.

Lemma yj_set_nth_app {A} (pre : list A) x r y : set_nth (pre ++ x :: r) (length pre) y = pre ++ y :: r.
Proof. induction pre as [|p pre IH]; simpl; [reflexivity|]. rewrite IH. reflexivity. Qed.

Lemma yj_add_keys_ok n : forall st a pre post,
  keys st = pre ++ repeat false n ++ post -> length pre = a ->
  exists st', yj_add_keys st (map BVar (seq a n)) = Ok st' /\
              keys st' = pre ++ repeat true n ++ post /\ vars st' = vars st /\ Program.cons st' = Program.cons st.
Proof.
  induction n as [|n IH]; intros st a pre post Hk Ha.
  - exists st. simpl in *. auto.
  - cbn [seq map yj_add_keys]. unfold add_answer_key.
    assert (Hn : nth_error (keys st) a = Some false).
    { rewrite Hk, nth_error_app2 by lia. replace (a - length pre) with 0 by lia. reflexivity. }
    rewrite Hn.
    set (st2 := {| vars := vars st; keys := set_nth (keys st) a true; cons := Program.cons st |}).
    destruct (IH st2 (S a) (pre ++ [true]) post) as [st' [H1 [H2 [H3 H4]]]].
    + unfold st2. cbn [keys]. rewrite Hk. cbn [repeat app]. rewrite <- Ha, yj_set_nth_app, <- app_assoc. reflexivity.
    + rewrite app_length. simpl. lia.
    + exists st'. split; [exact H1|]. split; [|split; [exact H3|exact H4]].
      rewrite H2, <- app_assoc. reflexivity.
Qed.

Lemma yajilin_model_total h w kind num :
  S h * S w <= length kind ->
  exists st, solve_yajilin_model [[Z.of_nat (S h); Z.of_nat (S w)]; kind; num] = Ok st.
Proof.
  intros Hl. unfold solve_yajilin_model.
  change (sec [[Z.of_nat (S h); Z.of_nat (S w)]; kind; num] 1) with kind.
  change (sec [[Z.of_nat (S h); Z.of_nat (S w)]; kind; num] 2) with num.
  change (sec [[Z.of_nat (S h); Z.of_nat (S w)]; kind; num] 0) with [Z.of_nat (S h); Z.of_nat (S w)].
  change (getz [Z.of_nat (S h); Z.of_nat (S w)] 0) with (Z.of_nat (S h)).
  change (getz [Z.of_nat (S h); Z.of_nat (S w)] 1) with (Z.of_nat (S w)).
  destruct (yj_dims (S h) (S w) [kind; num]) as [-> ->].
  replace ((Z.of_nat (S h) <? 1) || (Z.of_nat (S w) <? 1))%Z with false
    by (symmetry; apply orb_false_iff; split; apply Z.ltb_ge; lia).
  replace (S h - 1) with h by lia. replace (S w - 1) with w by lia.
  unfold bool_array. rewrite !bool_vars_spec.
  set (sa := {| vars := vars empty_state ++ repeat DBool (S h * w);
                keys := keys empty_state ++ repeat false (S h * w);
                cons := Program.cons empty_state |}).
  assert (Hn : next_id sa = S h * w) by (unfold next_id; simpl; apply repeat_length).
  rewrite Hn. change (next_id empty_state) with 0.
  fold (frame_hor h w). fold (frame_ver h w).
  set (sb := {| vars := vars sa ++ repeat DBool (h * S w); keys := keys sa ++ repeat false (h * S w);
                cons := Program.cons sa |}).
  assert (Hnb : next_id sb = frame_n h w).
  { unfold next_id, sb, sa, frame_n. simpl. rewrite app_length, !repeat_length. reflexivity. }
  destruct (cycle_frame h w _ _ (frame_hor_length h w) (frame_ver_length h w)) as [_ [_ [Hwf [Hlen [_ [Hc _]]]]]].
  rewrite Hc.
  assert (Hcl : forall e, In e (frame_edges h w (frame_hor h w) (frame_ver h w)) -> is_constraint_like e = true).
  { intros e He. apply (frame_edges_in h w _ _ (frame_hor_length h w) (frame_ver_length h w)) in He.
    destruct He as [He|He]; apply in_map_iff in He; destruct He as [k [<- _]]; reflexivity. }
  destruct (yj_post_cycle_keys _ _ (frame_n h w) sb Hwf ltac:(rewrite Hlen; apply le_n) Hcl Hnb ltac:(simpl; lia))
    as [st1 [p [Hp Hk1]]].
  rewrite Hp. rewrite bool_vars_spec.
  change (nv (frame_graph h w (frame_hor h w) (frame_ver h w))) with (S h * S w) in Hk1.
  set (P := S h * S w) in *.
  assert (Hfr : frame_hor h w ++ frame_ver h w = map BVar (seq 0 (frame_n h w))).
  { unfold frame_hor, frame_ver, frame_n. rewrite seq_app, map_app. reflexivity. }
  rewrite Hfr.
  match goal with |- context [yj_add_keys ?s (map BVar (seq 0 (frame_n h w)))] => set (s2 := s) end.
  destruct (yj_add_keys_ok (frame_n h w) s2 0 [] (repeat false P ++ repeat false P ++ repeat false P ++ repeat false P))
    as [st3 [E3 [K3 [V3 _]]]].
  { unfold s2. cbn [keys ensure]. rewrite Hk1. unfold sb, sa, frame_n. cbn [keys empty_state app].
    rewrite repeat_app, <- !app_assoc. reflexivity. }
  { reflexivity. }
  rewrite E3.
  assert (Hn1 : next_id st1 = frame_n h w + (P + (P + P))).
  { destruct (post_cycle_enc_shape _ _ (frame_n h w) Hwf ltac:(rewrite Hlen; apply le_n) Hcl sb Hnb ltac:(simpl; lia))
      as [st1' [Hp' [Hv' _]]]. rewrite Hp in Hp'. inversion Hp'; subst st1'.
    unfold next_id. rewrite Hv'. unfold new_decls_enc. rewrite !app_length, !repeat_length. fold (next_id sb). rewrite Hnb.
    reflexivity. }
  rewrite Hn1.
  destruct (yj_add_keys_ok P st3 (frame_n h w + (P + (P + P)))
              (repeat true (frame_n h w) ++ repeat false P ++ repeat false P ++ repeat false P) [])
    as [st4 [E4 _]].
  { rewrite K3. cbn [app]. rewrite app_nil_r, <- !app_assoc. reflexivity. }
  { rewrite !app_length, !repeat_length. reflexivity. }
  rewrite E4.
  replace (Nat.ltb (length kind) P) with false by (symmetry; apply Nat.ltb_ge; exact Hl).
  eexists. reflexivity.
Qed.


Example yajilin_model_ok : exists st, solve_yajilin_model [[2; 2]; [0; 1; 3; 0]; [0; 1; 0; 0]]%Z = Ok st.
Proof. vm_compute. eexists. reflexivity. Qed.

(* 2 x 2: the loop through all four cells is the only answer without clues; with an (unnumbered) clue in a corner
   no loop fits and the three free cells cannot all be black *)
Example yajilin_rules_2x2 :
  rules_yajilin [[2; 2]; [0; 0; 0; 0]; [0; 0; 0; 0]]%Z [1; 1; 1; 1; 0; 0; 0; 0]%Z = true /\
  rules_yajilin [[2; 2]; [0; 0; 0; 0]; [0; 0; 0; 0]]%Z [0; 0; 0; 0; 1; 0; 0; 1]%Z = false /\
  rules_yajilin [[2; 2]; [5; 0; 0; 0]; [0; 0; 0; 0]]%Z [0; 0; 0; 0; 0; 1; 1; 1]%Z = false /\
  rules_yajilin [[1; 3]; [0; 4; 0]; [0; 1; 0]]%Z [0; 0; 1; 0; 1]%Z = true.
Proof. vm_compute. repeat split. Qed.
