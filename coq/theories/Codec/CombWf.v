(* Well-formedness of combinator terms ("alternatives distinguishable by their
   leading character") and the domain of values a term encodes.  Definitions only. *)
From Coq Require Import ZArith List Ascii Bool NArith.
From Cspuz Require Import Lib.PyErr Codec.Comb.
Import ListNotations.
Local Open Scope Z_scope.

Definition all_chars : list ascii := map ascii_of_nat (seq 0 256).

Definition cset := ascii -> bool.
Definition disjoint (f g : cset) : bool := forallb (fun ch => negb (f ch && g ch)) all_chars.

Definition hd_is (s : str) (ch : ascii) : bool :=
  match s with c :: _ => ascii_eqb c ch | [] => false end.

Definition b36_lt (ch : ascii) (bound : Z) : bool :=
  is_alnum_lower_c ch && match digit_val ch with Some v => v <? bound | None => false end.

(* may [de] succeed (or raise) without seeing a character of its first set / may [ser] emit ""? *)
Fixpoint nullable (c : comb) : bool :=
  match c with
  | FixStr s => match s with [] => true | _ => false end
  | Dict _ after => existsb (fun a => match a with [] => true | _ => false end) after
  | Spaces _ _ | DecInt | HexInt | IntSpaces _ _ _ | MultiDigit _ _ => false
  | OneOf l => existsb nullable l
  | Tupl l => forallb nullable l
  | Seq c1 n => (n <=? 0) || nullable c1
  | Grid c1 None => nullable c1
  | Grid c1 (Some (h, w)) => (h * w <=? 0) || nullable c1
  | Rooms _ _ | ValuedRooms _ _ _ | Custom _ => true
  end.

(* characters on which [de c] may return something else than None *)
Fixpoint first (c : comb) (ch : ascii) {struct c} : bool :=
  match c with
  | FixStr s => hd_is s ch
  | Dict _ after => existsb (fun a => hd_is a ch) after
  | Spaces _ sm => is_alnum_lower_c ch && match digit_val ch with Some v => spaces_offset sm <? v | None => false end
  | DecInt => isdigit_c ch
  | HexInt => ascii_eqb ch "-"%char || ascii_eqb ch "+"%char || is_hex_c ch
  | IntSpaces _ mi ms => b36_lt ch ((mi + 1) * (ms + 1))
  | MultiDigit b d => b36_lt ch (b ^ Z.of_nat d)
  | OneOf l => existsb (fun c1 => first c1 ch) l
  | Tupl l =>
      (fix go (l : list comb) : bool :=
         match l with
         | [] => false
         | c1 :: l' => first c1 ch || (nullable c1 && go l')
         end) l
  | Seq c1 _ => first c1 ch
  | Grid c1 _ => first c1 ch
  | Rooms _ _ => b36_lt ch 32
  | ValuedRooms vc _ _ => b36_lt ch 32 || first vc ch
  | Custom _ => true
  end.

(* characters that would extend a match of [de c] *)
Fixpoint cont (c : comb) (ch : ascii) {struct c} : bool :=
  match c with
  | DecInt => isdigit_c ch
  | OneOf l | Tupl l => existsb (fun c1 => cont c1 ch) l
  | Seq c1 _ | Grid c1 _ | ValuedRooms c1 _ _ => cont c1 ch
  | Custom _ => true
  | _ => false
  end.

(* [de c] returns None on every text that does not start with a character of [first c] *)
Fixpoint strict (c : comb) : bool :=
  match c with
  | FixStr s => match s with [] => false | _ => true end
  | Dict _ after => forallb (fun a => match a with [] => false | _ => true end) after
  | Spaces _ _ | DecInt | HexInt | IntSpaces _ _ _ | MultiDigit _ _ => true
  | OneOf l => forallb strict l
  | Tupl l => match l with c1 :: _ => strict c1 | [] => false end
  | Seq c1 n => (0 <? n) && strict c1
  | Grid c1 None => strict c1
  | Grid c1 (Some (h, w)) => (0 <? h * w) && strict c1
  | Rooms _ _ | ValuedRooms _ _ _ | Custom _ => false
  end.

Definition follow_ok (c : comb) (rest : str) : Prop :=
  match rest with [] => True | ch :: _ => cont c ch = false end.

Fixpoint heads_distinct (l : list str) : bool :=
  match l with
  | [] => true
  | a :: t =>
      match a with
      | [] => false
      | ch :: _ => negb (existsb (fun b => hd_is b ch) t) && heads_distinct t
      end
  end.

(* pairwise: every element against every later one *)
Fixpoint pairwise (r : comb -> comb -> bool) (l : list comb) : bool :=
  match l with
  | [] => true
  | c1 :: t => forallb (r c1) t && pairwise r t
  end.

Fixpoint wf (c : comb) : bool :=
  match c with
  | FixStr _ | DecInt | HexInt | Rooms _ _ => true
  | Dict before after => Nat.eqb (length before) (length after) && heads_distinct after
  | Spaces _ sm => match digit_val sm with Some _ => true | None => false end
  | IntSpaces _ mi ms => (0 <=? mi) && (0 <=? ms) && ((mi + 1) * (ms + 1) <=? 36)
  | MultiDigit b d => (1 <=? b) && (b ^ Z.of_nat d <=? 36)
  | OneOf l =>
      forallb wf l && forallb strict l && forallb (fun c1 => negb (nullable c1)) l
      && pairwise (fun a b => disjoint (first a) (first b)) l
  | Tupl l =>
      forallb wf l && pairwise (fun a b => disjoint (cont a) (first b)) l
  | Seq c1 _ | Grid c1 _ | ValuedRooms c1 _ _ => wf c1 && disjoint (cont c1) (first c1)
  | Custom _ => false
  end.

(* ------------------------------------------------------------------ rooms as mathematical objects *)
Definition cell := (nat * nat)%type.
Definition cell_ltb (a b : cell) : bool :=
  Nat.ltb (fst a) (fst b) || (Nat.eqb (fst a) (fst b) && Nat.ltb (snd a) (snd b)).
Definition cell_lt (a b : cell) : Prop := cell_ltb a b = true.
Definition cell_to_pv (p : cell) : pv := cell_pv (fst p) (snd p).
Definition room_to_pv (r : list cell) : pv := VList (map cell_to_pv r).
Definition rooms_to_pv (rs : list (list cell)) : pv := VList (map room_to_pv rs).

Definition adjacent (a b : cell) : Prop :=
  (fst a = fst b /\ (S (snd a) = snd b \/ snd a = S (snd b))) \/
  (snd a = snd b /\ (S (fst a) = fst b \/ fst a = S (fst b))).

(* a and b are joined by a path of orthogonally adjacent cells of r *)
Inductive conn (r : list cell) : cell -> cell -> Prop :=
  | conn_refl a : In a r -> conn r a a
  | conn_step a b c : conn r a b -> In c r -> adjacent b c -> conn r a c.

From Coq Require Import Sorting.Permutation Sorting.Sorted.

(* a partition of the h x w board into non-empty orthogonally connected rooms, in any order *)
Definition valid_rooms (h w : Z) (rs : list (list cell)) : Prop :=
  Forall (fun r => r <> []) rs /\
  Permutation (concat rs) (cells_of h w) /\
  Forall (fun r => forall a b, In a r -> In b r -> conn r a b) rs.

Definition room_head (r : list cell) : cell := hd (0%nat, 0%nat) r.

(* the order the decoder produces: cells row-major, rooms by their least cell *)
Definition canonical_rooms (h w : Z) (rs : list (list cell)) : Prop :=
  valid_rooms h w rs /\
  Forall (fun r => StronglySorted cell_lt r) rs /\
  StronglySorted (fun r1 r2 => cell_lt (room_head r1) (room_head r2)) rs.

(* ------------------------------------------------------------------ the domain of a term *)
(* the group of items consumed at idx is decoded without padding *)
Fixpoint exact (e : env) (c : comb) (data : list pv) (idx : nat) {struct c} : Prop :=
  match c with
  | MultiDigit _ d => (idx + d <= length data)%nat
  | OneOf l =>
      (fix go (l : list comb) : Prop :=
         match l with
         | [] => True
         | c1 :: l' => match ser e c1 (VList data) idx with
                       | Ok None => go l'
                       | _ => exact e c1 data idx
                       end
         end) l
  | _ => True
  end.

(* one serialize call on `items` consumes all of them *)
Definition consumed_all (e : env) (c : comb) (items : list pv) : Prop :=
  forall k s, ser e c (VList items) 0 = Ok (Some (k, s)) -> k = length items.

(* the value(s) consumed at data[idx] have the documented shape of the term *)
Fixpoint accepts (e : env) (c : comb) (data : list pv) (idx : nat) {struct c} : Prop :=
  match c with
  | OneOf l =>
      (fix go (l : list comb) : Prop :=
         match l with
         | [] => True
         | c1 :: l' => match ser e c1 (VList data) idx with
                       | Ok None => go l'
                       | _ => accepts e c1 data idx
                       end
         end) l
  | Tupl l =>
      exists ds, nth_error data idx = Some (VTup ds) /\
        (fix go (l : list comb) (ds : list pv) : Prop :=
           match l, ds with
           | [], [] => True
           | c1 :: l', d1 :: ds' =>
               (exists items, d1 = VList items /\ accepts e c1 items 0 /\ exact e c1 items 0
                              /\ consumed_all e c1 items) /\ go l' ds'
           | _, _ => False
           end) l ds
  | Seq c1 n =>
      exists d, nth_error data idx = Some (VList d) /\ Z.of_nat (length d) = n /\
                forall p, accepts e c1 d p
  | Grid c1 hw =>
      exists rows, nth_error data idx = Some (VList (map VList rows)) /\
        Z.of_nat (length rows) = fst (grid_dims e hw) /\
        Forall (fun r => Z.of_nat (length r) = snd (grid_dims e hw)) rows /\
        forall p, accepts e c1 (concat rows) p
  | Rooms _ _ =>
      exists rs, nth_error data idx = Some (rooms_to_pv rs) /\ canonical_rooms (height e) (width e) rs
  | ValuedRooms vc _ _ =>
      exists rs values, nth_error data idx = Some (VTup [rooms_to_pv rs; VList values]) /\
        canonical_rooms (height e) (width e) rs /\ length values = length rs /\
        forall p, accepts e vc values p
  | Custom _ => False
  | _ => True
  end.

Definition env_ok (e : env) : Prop := 1 <= height e /\ 1 <= width e.
