(* deps (scanned by harness/vlib.py::build_runner): Cspuz.Lib.PyErr Cspuz.Core.Expr Cspuz.Core.Program Cspuz.Core.Build Cspuz.Graph.GraphModel Cspuz.Graph.VarGroups *)
Require Extraction.
Require Import ExtrOcamlBasic.
From Coq Require Import ZArith List.
From Cspuz Require Import Lib.PyErr Core.Expr Core.Program Graph.GraphModel Graph.VarGroups.
Extraction "model.ml" Z.add Nat.add pyerr_code post_vargroups
  division_connected_variable_groups division_connected_variable_groups_with_borders
  realisable_b border_exact_b holds graph_sem decode_gdiv.
