(* C08, planar-separation part (shared geometry): cells of an h x w grid by
   coordinates, the orthogonal neighbours of a cell in [grid_graph], the
   diagonal neighbours and the border in coordinates.  Stdlib only. *)
From Coq Require Import ZArith List Bool Arith Lia.
From Cspuz Require Import Graph.GraphModel Graph.ReachProofs Graph.Avc Graph.AvcProofs
  Graph.NotAdj Graph.NotAdjForest Graph.NotAdjDiag.
Import ListNotations.
Local Open Scope nat_scope.

Definition cell (w y x : nat) : nat := y * w + x.

Lemma cell_lt h w y x : y < h -> x < w -> cell w y x < h * w.
Proof. apply grid_cell_lt. Qed.

Lemma cy_cell w y x : x < w -> cell_y w (cell w y x) = y.
Proof. intros Hx. apply (cell_of_coords w y x Hx). Qed.

Lemma cx_cell w y x : x < w -> cell_x w (cell w y x) = x.
Proof. intros Hx. apply (cell_of_coords w y x Hx). Qed.

Lemma cell_inj w y x y' x' : x < w -> x' < w -> cell w y x = cell w y' x' -> y = y' /\ x = x'.
Proof.
  intros Hx Hx' E. split.
  - rewrite <- (cy_cell w y x Hx), <- (cy_cell w y' x' Hx'). rewrite E. reflexivity.
  - rewrite <- (cx_cell w y x Hx), <- (cx_cell w y' x' Hx'). rewrite E. reflexivity.
Qed.

Lemma cell_coords h w v : v < h * w ->
  cell_y w v < h /\ cell_x w v < w /\ v = cell w (cell_y w v) (cell_x w v).
Proof. apply coords_of_cell. Qed.

Lemma cell_S w y x : cell w (S y) x = cell w y x + w.
Proof. unfold cell. simpl. lia. Qed.

(* ------------------------------------------------------------------------ *)
(* orthogonal neighbours                                                     *)

Lemma grid_adj_coords h w a b :
  grid_adj h w a b <->
  exists y x, y < h /\ x < w /\ a = cell w y x /\
    ((S x < w /\ b = cell w y (S x)) \/ (S y < h /\ b = cell w (S y) x)).
Proof. reflexivity. Qed.

Lemma nbr_right h w y x : y < h -> S x < w ->
  In (cell w y (S x)) (nbrs (grid_graph h w) all_edges_ok (cell w y x)) /\
  In (cell w y x) (nbrs (grid_graph h w) all_edges_ok (cell w y (S x))).
Proof.
  intros Hy Hx. assert (H : grid_adj h w (cell w y x) (cell w y (S x))).
  { exists y, x. split; [exact Hy|]. split; [lia|]. split; [reflexivity|]. left. split; [exact Hx|reflexivity]. }
  split; apply grid_nbrs; [left|right]; exact H.
Qed.

Lemma nbr_down h w y x : S y < h -> x < w ->
  In (cell w (S y) x) (nbrs (grid_graph h w) all_edges_ok (cell w y x)) /\
  In (cell w y x) (nbrs (grid_graph h w) all_edges_ok (cell w (S y) x)).
Proof.
  intros Hy Hx. assert (H : grid_adj h w (cell w y x) (cell w (S y) x)).
  { exists y, x. split; [lia|]. split; [exact Hx|]. split; [reflexivity|]. right. split; [exact Hy|reflexivity]. }
  split; apply grid_nbrs; [left|right]; exact H.
Qed.

(* the neighbours of cell (y, x), by coordinates *)
Lemma grid_nbrs_coords h w y x p : y < h -> x < w ->
  (In p (nbrs (grid_graph h w) all_edges_ok (cell w y x)) <->
   (S x < w /\ p = cell w y (S x)) \/ (S y < h /\ p = cell w (S y) x) \/
   (exists x', x = S x' /\ p = cell w y x') \/ (exists y', y = S y' /\ p = cell w y' x)).
Proof.
  intros Hy Hx. rewrite grid_nbrs. split.
  - intros [[y0 [x0 [Hy0 [Hx0 [Ea Hb]]]]]|[y0 [x0 [Hy0 [Hx0 [Ea Hb]]]]]].
    + apply (cell_inj w y x y0 x0 Hx Hx0) in Ea. destruct Ea as [-> ->].
      destruct Hb as [[H1 ->]|[H1 ->]]; [left|right; left]; split; (assumption || reflexivity).
    + destruct Hb as [[H1 Eb]|[H1 Eb]].
      * apply (cell_inj w y x y0 (S x0) Hx H1) in Eb. destruct Eb as [-> ->].
        right; right; left. exists x0. split; [reflexivity|exact Ea].
      * apply (cell_inj w y x (S y0) x0 Hx Hx0) in Eb. destruct Eb as [-> ->].
        right; right; right. exists y0. split; [reflexivity|exact Ea].
  - intros [[H1 ->]|[[H1 ->]|[[x' [-> ->]]|[y' [-> ->]]]]].
    + left. exists y, x. repeat split; try assumption. left. split; [exact H1|reflexivity].
    + left. exists y, x. repeat split; try assumption. right. split; [exact H1|reflexivity].
    + right. exists y, x'. split; [exact Hy|]. split; [lia|]. split; [reflexivity|]. left. split; [exact Hx|reflexivity].
    + right. exists y', x. split; [lia|]. split; [exact Hx|]. split; [reflexivity|]. right. split; [exact Hy|reflexivity].
Qed.

(* ------------------------------------------------------------------------ *)
(* diagonal neighbours and the border                                        *)

Lemma dadj_cells w y x y' x' : x < w -> x' < w ->
  (dadj w (cell w y x) (cell w y' x') <-> (y' = y + 1 \/ y = y' + 1) /\ (x' = x + 1 \/ x = x' + 1)).
Proof.
  intros Hx Hx'. unfold dadj. rewrite !cy_cell, !cx_cell by assumption. reflexivity.
Qed.

Lemma diag_nbrs_cells h w y x y' x' : y < h -> x < w -> y' < h -> x' < w ->
  (In (cell w y' x') (diag_nbrs h w (cell w y x)) <->
   (y' = y + 1 \/ y = y' + 1) /\ (x' = x + 1 \/ x = x' + 1)).
Proof.
  intros Hy Hx Hy' Hx'. rewrite (diag_nbrs_spec h w _ _ (cell_lt h w y x Hy Hx)).
  rewrite (dadj_cells w y x y' x' Hx Hx'). split; [tauto|]. intros H. split; [apply cell_lt; assumption|exact H].
Qed.

Lemma on_border_cell h w y x : y < h -> x < w ->
  (on_border h w (cell w y x) = true <-> y = 0 \/ x = 0 \/ S y = h \/ S x = w).
Proof.
  intros Hy Hx. unfold on_border. rewrite (cy_cell w y x Hx), (cx_cell w y x Hx).
  rewrite existsb_exists. split.
  - intros [d [Hd Hg]]. apply in_dirs in Hd. apply negb_true_iff in Hg.
    destruct (in_grid (Z.of_nat h) (Z.of_nat w) (Z.of_nat y + fst d) (Z.of_nat x + snd d)) eqn:E; [discriminate|].
    destruct (Nat.eq_dec y 0) as [|Hy0]; [tauto|]. destruct (Nat.eq_dec x 0) as [|Hx0]; [tauto|].
    destruct (Nat.eq_dec (S y) h) as [|Hy1]; [tauto|]. destruct (Nat.eq_dec (S x) w) as [|Hx1]; [tauto|].
    exfalso. assert (in_grid (Z.of_nat h) (Z.of_nat w) (Z.of_nat y + fst d) (Z.of_nat x + snd d) = true).
    { apply in_grid_iff. lia. }
    congruence.
  - intros H.
    assert (Hex : exists dy dx, (dy = -1 \/ dy = 1)%Z /\ (dx = -1 \/ dx = 1)%Z /\
              ~ (0 <= Z.of_nat y + dy < Z.of_nat h /\ 0 <= Z.of_nat x + dx < Z.of_nat w)%Z).
    { destruct H as [H|[H|[H|H]]].
      - exists (-1)%Z, 1%Z. lia.
      - exists 1%Z, (-1)%Z. lia.
      - exists 1%Z, 1%Z. lia.
      - exists 1%Z, 1%Z. lia. }
    destruct Hex as [dy [dx [H1 [H2 H3]]]]. exists (dy, dx). split; [apply in_dirs; simpl; tauto|].
    apply negb_true_iff. simpl.
    destruct (in_grid (Z.of_nat h) (Z.of_nat w) (Z.of_nat y + dy) (Z.of_nat x + dx)) eqn:E; [|reflexivity].
    apply in_grid_iff in E. contradiction.
Qed.
