"""C14 — BoolGridFrame / BoolInnerGridFrame accessors are consistent with the lattice geometry."""
import vlib

PROPS = "Props/C14.v"
RULE = ("correspondence: every (frame class, height, width, first variable id, accessor, coordinates) case is run "
        "through cspuz (frames built by the public constructors on a real Solver) and through the extracted Coq model "
        "(Array/Frame.v: new_frame/new_inner/getitem/cell_neighbors/vertex_neighbors/all_edges/iter/dual/idual/"
        "from_grid_frame); results are compared as variable ids (identity-mapped to Solver.variables), shapes, graph "
        "vertex/edge lists and error class.  Exhaustive: heights/widths 0..4 (thorough 0..6), doubled coordinates in "
        "[-3, 2h+3] x [-3, 2w+3] for __getitem__, cell_neighbors and vertex_neighbors (both call forms), on the frame "
        "and on dual().dual(); inner frames 0..5 (thorough 0..7); a malformed stream builds frames from arrays of "
        "inconsistent shapes and negative sizes.  search: an oracle written from the lattice geometry (segments as "
        "pairs of lattice points; no doubled-coordinate or index arithmetic of grid_frame.py) vs the real accessors.  "
        "Second generation (hardening): (a) coordinates far outside the frame (wrap-around candidates -2h-3..-2h, +-300, "
        "+-2^40) and every int argument created at run time (int(str(v))), frames 7x9, 9x7, 0x12, 12x0, 1x130, 130x1, 0x300, "
        "300x0 with first variable id 0 and 300 (sizes, doubled coordinates, vertex numbers and ids beyond CPython's small-int "
        "cache); (b) other call forms: list / one-shot iterator / keyword arguments for __getitem__, cell_neighbors, "
        "vertex_neighbors, and six ways of calling each constructor (keywords, explicit None, one or both arrays supplied by "
        "the caller; ids renamed where the allocation order differs); (c) histories: scripts of ~75 accessor calls on ONE frame "
        "object (every accessor at least twice, canonical / reversed / shuffled order, all ordered pairs a,b,a on two sizes; "
        "iterations abandoned half-way, two iterations alive at once, a dual kept from an earlier call, add_answer_key, "
        "single_loop, new solver variables in between, the caller emptying the containers an accessor returned).  The model is a "
        "pure function of the frame record, so each step is compared with the model's answer for that call alone, and after each "
        "step the frame's arrays and the arrays passed to the constructor must still be what the constructor left.  search: the "
        "geometric oracle is applied twice to the same object, to frames built by every constructor form and to objects that "
        "went through a history; every history step is compared with the same call on a frame nothing has been done with "
        "(failing sessions are shrunk to the calls that matter); every iteration (second, concurrent, after a break) must "
        "enumerate all_edges().  "
        "A case is non-trivial when it is a distinct (constructor, accessor, coordinates) tuple resp. (constructor, script, step).")
TRUSTED = [
    "reading of the property: horizontal[y, x] is the variable on the segment (y,x)-(y,x+1), vertical[y, x] on (y,x)-(y+1,x); lattice points / cells are numbered row-major in the inferred graphs (Array/Frame.v: frame_of, iframe_of, point_id)",
    "the model of Array2D indexing it builds on (Array/Slice.v getitem2), tied to array.py by check C13",
]
ASSUMPTIONS = [
    "coordinates are Python ints (bool/float/other key types are outside the model); a list or a one-shot iterator of two ints is read like the tuple",
    "histories: the model has no state, i.e. it specifies that no accessor has a side effect visible through any other accessor; add_answer_key is used at most once per session (a second registration of the same variables is a ValueError by design)",
    "theorems about geometry assume 0 <= h, 0 <= w and a frame whose two arrays have the constructor's shapes (frame_of); oob/TypeError/dual theorems hold for every frame record",
    "inner frames with height or width 0 are modelled as the code behaves (ValueError from Array2D unless both are 0), the geometric theorems need H, W >= 1",
]

ERR = {1: "IndexError", 2: "KeyError", 3: "AssertionError", 4: "TypeError", 5: "ValueError",
       6: "RecursionError", 7: "NotImplementedError", 8: "Other"}


# ------------------------------------------------------------------ model side

def _ints(s):
    return tuple(int(x) for x in s.split())


def _arr(s):
    a, b = s.split(":")
    return (_ints(a), _ints(b))


def parse_reply(r):
    t = r.split()
    if not t:
        raise RuntimeError("empty model reply")
    if t[0] == "E":
        return ("err", ERR[int(t[1])])
    if t[0] == "S":
        return ("ok", ("S", int(t[1])))
    if t[0] == "L":
        return ("ok", ("L", tuple(int(x) for x in t[1:])))
    if t[0] in ("FR", "IN"):
        p = r[2:].split("|")
        return ("ok", (t[0], _ints(p[0]), _arr(p[1]), _arr(p[2])))
    if t[0] == "FG":
        head, rest = r[2:].split(":", 1)
        es, ge = rest.split("|")
        g = _ints(ge)
        return ("ok", ("FG", int(head), _ints(es), tuple((g[i], g[i + 1]) for i in range(0, len(g), 2))))
    raise RuntimeError("bad model reply " + r)


def req_line(ctor, op):
    return " ".join(str(x) for x in ctor + op)


# ----------------------------------------------------------- implementation side
# constructors ("ctor"):
#   ("F", next, h, w) / ("I", next, H, W)   positional public constructor after `next` bool_var() calls
#   ("X", h, w, a, b, c, d)                 BoolGridFrame over caller-built arrays of shapes (a, b), (c, d)
#   ("Fv", next, h, w, form) / ("Iv", ...)  same frame as F / I, built through another call form:
#        kw    every argument by keyword          none  horizontal=None, vertical=None given explicitly
#        hz    horizontal built by the caller, vertical omitted        vt    the other way round
#        both  both arrays built by the caller (horizontal first)      bothkw  ... everything by keyword
FORMS = ("kw", "none", "hz", "vt", "both", "bothkw")


def fresh(v):
    """an int object created at run time (outside any cache of small ints / constants)"""
    return int(str(v))


def model_ctor(ctor):
    if ctor[0] in ("Fv", "Iv"):
        return (ctor[0][0],) + tuple(ctor[1:4])
    return ctor


def ctor_class(ctor):
    return "I" if ctor[0] in ("I", "Iv") else "F"


def build3(ctor):
    """frames through the public constructors on a real Solver; returns (obj, solver, arrays given by the caller)."""
    from cspuz import Solver
    from cspuz.grid_frame import BoolGridFrame, BoolInnerGridFrame
    s = Solver()
    given = []
    if ctor[0] in ("F", "I"):
        for _ in range(ctor[1]):
            s.bool_var()
        cls = BoolGridFrame if ctor[0] == "F" else BoolInnerGridFrame
        o = cls(s, fresh(ctor[2]), fresh(ctor[3]))
    elif ctor[0] in ("Fv", "Iv"):
        _, nx, h, w, form = ctor
        for _ in range(nx):
            s.bool_var()
        if ctor[0] == "Fv":
            cls, hs, vs = BoolGridFrame, (h + 1, w), (h, w + 1)
        else:
            cls, hs, vs = BoolInnerGridFrame, (h - 1, w), (h, w - 1)
        h, w = fresh(h), fresh(w)
        if form == "kw":
            o = cls(width=w, height=h, solver=s)
        elif form == "none":
            o = cls(s, h, w, None, None)
        elif form == "hz":
            hz = s.bool_array(hs)
            given = [("h", hz)]
            o = cls(s, h, w, hz)
        elif form == "vt":
            vt = s.bool_array(vs)
            given = [("v", vt)]
            o = cls(s, h, w, vertical=vt)
            # the model allocates horizontal first: rename the ids accordingly
            nh, nv = hs[0] * hs[1], vs[0] * vs[1]
            rm = {}
            for k in range(nv):
                rm[nx + k] = nx + nh + k
            for k in range(nh):
                rm[nx + nv + k] = nx + k
            s._c14_remap = rm
        else:
            hz = s.bool_array(hs)
            vt = s.bool_array(vs)
            given = [("h", hz), ("v", vt)]
            o = cls(s, h, w, hz, vt) if form == "both" else cls(vertical=vt, horizontal=hz, width=w, height=h, solver=s)
    else:
        _, h, w, a, b, c, d = ctor
        hz = s.bool_array((a, b))
        vt = s.bool_array((c, d))
        given = [("h", hz), ("v", vt)]
        o = BoolGridFrame(s, h, w, horizontal=hz, vertical=vt)
    return o, s, given


def build(ctor):
    return build3(ctor)[:2]


def _ids(s, seq):
    rm = getattr(s, "_c14_remap", None)
    idx = {id(v): v.id for v in s.variables}
    if rm is None:
        return tuple(idx[id(e)] for e in seq)
    return tuple(rm.get(idx[id(e)], idx[id(e)]) for e in seq)


def _dump_arr(s, a):
    from cspuz.array import BoolArray2D
    assert type(a) is BoolArray2D, "array class %s" % type(a).__name__
    return (tuple(a.shape), _ids(s, a.data))


def _dump(s, o):
    from cspuz.grid_frame import BoolGridFrame
    tag = "FR" if type(o) is BoolGridFrame else "IN"
    return (tag, (o.height, o.width), _dump_arr(s, o.horizontal), _dump_arr(s, o.vertical))


# call forms of cell_neighbors / vertex_neighbors -> the model's form (Frame.v nargs)
ARG_FORM = {"t": "t", "2": "2", "i": "i", "ti": "ti", "l": "t", "g": "t", "k": "2", "kt": "t", "li": "ti"}


def _args(a):
    """(positional, keyword) arguments of one neighbour-accessor call"""
    k = a[0]
    v = [fresh(x) for x in a[1:]]
    if k == "t":
        return ((v[0], v[1]),), {}
    if k == "2":
        return (v[0], v[1]), {}
    if k == "i":
        return (v[0],), {}
    if k == "ti":
        return ((v[0], v[1]), v[2]), {}
    if k == "l":       # list instead of tuple
        return ([v[0], v[1]],), {}
    if k == "g":       # one-shot iterator
        return (iter((v[0], v[1])),), {}
    if k == "k":       # keywords
        return (), {"x": v[1], "y": v[0]}
    if k == "kt":
        return (), {"y": (v[0], v[1])}
    if k == "li":
        return ([v[0], v[1]], v[2]), {}
    raise RuntimeError("bad args")


def _list1d(s, r):
    from cspuz.array import BoolArray1D
    assert type(r) is BoolArray1D, "result class %s" % type(r).__name__
    return ("L", _ids(s, r.data))


def _take(it, k):
    out = []
    for e in it:
        if len(out) >= k:
            break
        out.append(e)
    return out


def _interleaved(a, b):
    """pull alternately from two live iterators until both are exhausted"""
    ra, rb = [], []
    da = db = False
    while not (da and db):
        if not da:
            try:
                ra.append(next(a))
            except StopIteration:
                da = True
        if not db:
            try:
                rb.append(next(b))
            except StopIteration:
                db = True
    return ra, rb


def _vandalize(raws):
    """the caller scribbles over the containers an accessor handed out"""
    from cspuz.array import Array1D
    from cspuz.graph import Graph
    for x in raws:
        if isinstance(x, Array1D):
            del x.data[:]
        elif isinstance(x, list):
            del x[:]
        elif isinstance(x, Graph):
            del x.edges[:]
            for l in x.incident_edges:
                del l[:]


def _answer_keys(s):
    rm = getattr(s, "_c14_remap", None) or {}
    return ("L", tuple(sorted(rm.get(i, i) for i, b in enumerate(s.is_answer_key) if b)))


def frame_op(s, f, op, st=None):
    """one accessor call on frame f, result normalised to variable ids.  st (histories only): the state of the
    caller's session -- 'kd' the dual it kept from an earlier step, 'raw' the containers handed out by this call."""
    from cspuz import graph
    from cspuz.grid_frame import BoolGridFrame, BoolInnerGridFrame

    def keep(x):
        if st is not None:
            st.setdefault("raw", []).append(x)
        return x
    k = op[0]
    if k == "D":
        assert type(f) is BoolGridFrame
        return _dump(s, f)
    if k == "G":
        return ("S", _ids(s, [f[fresh(op[1]), fresh(op[2])]])[0])
    if k == "Gl":
        return ("S", _ids(s, [f[[fresh(op[1]), fresh(op[2])]]])[0])
    if k == "Gi":
        return ("S", _ids(s, [f[iter((fresh(op[1]), fresh(op[2])))]])[0])
    if k == "CN":
        a, kw = _args(op[1:])
        return _list1d(s, keep(f.cell_neighbors(*a, **kw)))
    if k == "VN":
        a, kw = _args(op[1:])
        return _list1d(s, keep(f.vertex_neighbors(*a, **kw)))
    if k == "AE":
        return _list1d(s, keep(f.all_edges()))
    if k == "IT":
        return ("L", _ids(s, list(iter(f))))
    if k == "FOR":
        out = []
        for e in f:
            out.append(e)
        return ("L", _ids(s, out))
    if k == "ITP":      # an iteration the caller abandons after op[1] items
        return ("L", _ids(s, _take(iter(f), op[1])))
    if k == "IT2":      # two iterations alive at the same time
        ra, rb = _interleaved(iter(f), iter(f))
        return ("L2", _ids(s, ra), _ids(s, rb))
    if k == "HZ":       # the two arrays used as whole arrays
        return ("L2", _ids(s, list(iter(f.horizontal))), _ids(s, list(iter(f.vertical))))
    if k == "FG":
        es, g = graph._from_grid_frame(f)
        keep(es)
        keep(g)
        assert len(g.incident_edges) == max(g.num_vertices, 0)
        return ("FG", g.num_vertices, _ids(s, es), tuple((a, b) for (a, b) in g.edges))
    if k == "DU":
        d = f.dual()
        assert type(d) is BoolInnerGridFrame and d.solver is s
        return _dump(s, d)
    if k == "DUIT":
        return ("L", _ids(s, list(iter(f.dual()))))
    if k == "DD":
        return frame_op(s, f.dual().dual(), op[1:], st)
    if k == "KD":       # an accessor of the dual obtained earlier in the session
        if st.get("kd") is None:
            st["kd"] = f.dual()
        return inner_op(s, st["kd"], op[1:], st)
    if k == "AK":
        s.add_answer_key(f)
        return _answer_keys(s)
    if k == "SL":
        f.single_loop()
        return ("U",)
    if k == "NV":
        s.bool_var()
        s.int_var(fresh(0), fresh(300))
        return ("U",)
    if k == "M":
        r = frame_op(s, f, op[1:], st)
        _vandalize(st.pop("raw", []))
        return r
    raise RuntimeError("bad op")


def inner_op(s, i, op, st=None):
    from cspuz.grid_frame import BoolGridFrame, BoolInnerGridFrame
    k = op[0]
    if k == "D":
        assert type(i) is BoolInnerGridFrame
        return _dump(s, i)
    if k == "IT":
        return ("L", _ids(s, list(iter(i))))
    if k == "ITP":
        return ("L", _ids(s, _take(iter(i), op[1])))
    if k == "IT2":
        ra, rb = _interleaved(iter(i), iter(i))
        return ("L2", _ids(s, ra), _ids(s, rb))
    if k == "HZ":
        return ("L2", _ids(s, list(iter(i.horizontal))), _ids(s, list(iter(i.vertical))))
    if k == "DD":
        return _dump(s, i.dual().dual())
    if k == "DU":
        d = i.dual()
        assert type(d) is BoolGridFrame and d.solver is s
        return frame_op(s, d, op[1:], st)
    if k == "KD":
        if st.get("kd") is None:
            st["kd"] = i.dual()
        return frame_op(s, st["kd"], op[1:], st)
    if k == "AK":
        s.add_answer_key(i)
        return _answer_keys(s)
    if k == "NV":
        s.bool_var()
        s.int_var(fresh(0), fresh(300))
        return ("U",)
    raise RuntimeError("bad op")


def obj_op(s, o, ctor, op, st=None):
    return inner_op(s, o, op, st) if ctor_class(ctor) == "I" else frame_op(s, o, op, st)


def impl_run(ctor, op):
    def f():
        o, s = build(ctor)
        return obj_op(s, o, ctor, op, {})
    return vlib.guarded(f)


def state_dump(s, o, given):
    """the frame's two arrays (shape, data) and the arrays the caller passed to the constructor"""
    return (_dump(s, o),) + tuple((nm, _dump_arr(s, a)) for nm, a in given)


def run_history(ctor, script):
    """the script's accessor calls one after the other on ONE object; per step (result, state afterwards)"""
    r = vlib.guarded(build3, ctor)
    if r[0] != "ok":
        return [(r, r) for _ in script]
    o, s, given = r[1]
    st = {}
    out = []
    for op in script:
        st.pop("raw", None)
        res = vlib.guarded(obj_op, s, o, ctor, op, st)
        out.append((res, vlib.guarded(state_dump, s, o, given)))
    return out


# ------------------------------------------------- model results for derived ops
# The model is a pure function of the frame record: whatever was called before,
# an accessor gives what it gives on the freshly constructed frame.

def _okmap(f):
    return lambda r: ("ok", f(r[1])) if r[0] == "ok" else r


def reduce_op(cls, op):
    """(op understood by the model runner, function from its parsed reply to the expected result)"""
    k = op[0]
    ident = lambda r: r  # noqa
    if k == "M":
        return reduce_op(cls, op[1:])
    if k in ("ITP",):
        b, post = reduce_op(cls, ("IT",))
        n = op[1]
        return b, (lambda r: _okmap(lambda v: ("L", v[1][:n]))(post(r)))
    if k == "FOR":
        return reduce_op(cls, ("IT",))
    if k == "IT2":
        b, post = reduce_op(cls, ("IT",))
        return b, (lambda r: _okmap(lambda v: ("L2", v[1], v[1]))(post(r)))
    if k == "AK":
        b, post = reduce_op(cls, ("IT",))
        return b, (lambda r: _okmap(lambda v: ("L", tuple(sorted(v[1]))))(post(r)))
    if k == "HZ":
        b, post = reduce_op(cls, ("D",))
        return b, (lambda r: _okmap(lambda v: ("L2", v[2][1], v[3][1]))(post(r)))
    if k in ("NV", "SL"):
        return None, (lambda r: ("ok", ("U",)))
    if cls == "F":
        if k in ("Gl", "Gi"):
            return ("G",) + tuple(op[1:]), ident
        if k in ("CN", "VN"):
            return (k, ARG_FORM[op[1]]) + tuple(op[2:]), ident
        if k == "DD":
            b, post = reduce_op("F", op[1:])
            return (("DD",) + b if b is not None else None), post
        if k == "KD":       # the dual of an F frame: D -> DU, IT -> DUIT, DU <frame op> -> DD <frame op>
            j = op[1]
            if j == "D":
                return ("DU",), ident
            if j == "DU":
                b, post = reduce_op("F", op[2:])
                return (("DD",) + b if b is not None else None), post
            if j == "DD":
                return ("DU",), ident
            if j in ("IT", "ITP", "IT2", "AK"):
                b, post = reduce_op("F", (j,) + tuple(op[2:]))
                assert b == ("IT",)
                return ("DUIT",), post
            if j == "HZ":
                return ("DU",), _okmap(lambda v: ("L2", v[2][1], v[3][1]))
            if j == "NV":
                return None, (lambda r: ("ok", ("U",)))
            raise RuntimeError("bad KD op")
        return tuple(op), ident
    # inner frames
    if k in ("DU", "KD"):
        b, post = reduce_op("F", op[1:])
        return (("DU",) + b if b is not None else None), post
    return tuple(op), ident


LEGEND = {
    "D": "frame.height, frame.width, shape and data of frame.horizontal / frame.vertical",
    "G": "frame[y, x]", "Gl": "frame[[y, x]]", "Gi": "frame[iter((y, x))]",
    "CN": "frame.cell_neighbors(..)  (t: one tuple, 2: two ints, l: a list, g: an iterator, k / kt: keywords, i / ti / li: wrong forms)",
    "VN": "frame.vertex_neighbors(..)  (same forms)",
    "AE": "frame.all_edges()", "IT": "list(iter(frame))", "FOR": "for e in frame", "ITP": "an iteration abandoned after n items",
    "IT2": "two iterations alive at the same time, pulled alternately", "HZ": "list(frame.horizontal), list(frame.vertical)",
    "FG": "graph._from_grid_frame(frame)", "DU": "frame.dual() then the rest (alone: its arrays)", "DUIT": "list(iter(frame.dual()))",
    "DD": "frame.dual().dual() then the rest", "KD": "the dual obtained at the first KD of the session, then the rest",
    "AK": "solver.add_answer_key(frame); which variables are answer keys", "SL": "frame.single_loop()",
    "NV": "solver.bool_var(); solver.int_var(0, 300)", "M": "the call that follows, after which the caller empties the containers it returned",
}


def legend(calls):
    return {k: LEGEND[k] for k in sorted({t for c in calls for t in c if isinstance(t, str) and t in LEGEND})}


def opname(op):
    out = []
    for t in op:
        if isinstance(t, str) and t.isupper() or t in ("Gl", "Gi"):
            out.append(t)
        else:
            break
    return ".".join(out)


# ------------------------------------------------------------------ generators

def coord_ops(h, w):
    """accessor calls over doubled coordinates [-3, 2h+3] x [-3, 2w+3]"""
    for y in range(-3, 2 * h + 4):
        for x in range(-3, 2 * w + 4):
            yield ("G", y, x)
            yield ("CN", "t", y, x)
            yield ("CN", "2", y, x)
            yield ("VN", "t", y, x)
            yield ("VN", "2", y, x)
            yield ("DD", "G", y, x)
            yield ("DD", "CN", "2", y, x)
            yield ("DD", "VN", "t", y, x)


WHOLE = [("D",), ("AE",), ("IT",), ("FG",), ("DU",), ("DUIT",), ("DD", "D"), ("DD", "FG"), ("DD", "AE"), ("DD", "DU")]


def gen_cases(ctx):
    rng = ctx.rng
    n = 7 if ctx.thorough else 5
    for h in range(n):
        for w in range(n):
            nexts = [0] if (h + w) % 3 else [0, 3]
            for nx in nexts:
                c = ("F", nx, h, w)
                for op in WHOLE:
                    yield c, op
                if nx == 0:
                    for op in coord_ops(h, w):
                        yield c, op
                    for y in (-1, 0, h):
                        yield c, ("CN", "i", y)
                        yield c, ("VN", "i", y)
                        yield c, ("CN", "ti", y, 0, 0)
                        yield c, ("VN", "ti", 0, y, 0)
    m = 8 if ctx.thorough else 6
    for H in range(m):
        for W in range(m):
            for nx in ([0, 2] if (H + W) % 4 == 0 else [0]):
                c = ("I", nx, H, W)
                for op in [("D",), ("IT",), ("DD",), ("DU", "D"), ("DU", "FG"), ("DU", "AE"), ("DU", "IT"), ("DU", "DU")]:
                    yield c, op
                if nx == 0:
                    for y in range(-3, 2 * (H - 1) + 4):
                        for x in range(-3, 2 * (W - 1) + 4):
                            yield c, ("DU", "G", y, x)
                            yield c, ("DU", "CN", "2", y, x)
                            yield c, ("DU", "VN", "2", y, x)
    # malformed stream: frames over arrays of arbitrary (inconsistent) shapes, negative sizes
    for _ in range(6000 if ctx.thorough else 1500):
        h, w = rng.randint(-1, 3), rng.randint(-1, 3)
        if rng.random() < 0.4:
            a, b, c2, d = h + 1, w, h, w + 1
            j = rng.randrange(4)
            t = [a, b, c2, d]
            t[j] += rng.choice([-1, 1])
            a, b, c2, d = [max(0, v) for v in t]
        else:
            a, b, c2, d = (rng.randint(0, 4) for _ in range(4))
        c = ("X", h, w, a, b, c2, d)
        y, x = rng.randint(-2, 2 * max(h, 0) + 2), rng.randint(-2, 2 * max(w, 0) + 2)
        kind = rng.randrange(7)
        op = [("G", y, x), ("CN", "2", y, x), ("VN", "t", y, x), ("FG",), ("AE",), ("DD", "G", y, x), ("DU",)][kind]
        yield c, op


def far_values(n):
    """coordinates far outside a range of length n: wrap-around candidates and ints beyond every small-int cache"""
    return sorted({-n - 3, -n - 2, -n - 1, -n, -7, -6, n + 6, n + 7, 257, 300, -300, 2 ** 40, -2 ** 40})


def edge_values(n):
    """the ends of [0, n] and the first ints CPython does not cache"""
    return sorted(v for v in {-1, 0, 1, 2, n - 1, n, n + 1, n + 2, 255, 256, 257, 258, 259} if v <= n + 2)


BIG = [(7, 9), (9, 7), (0, 12), (12, 0), (1, 130), (130, 1), (0, 300), (300, 0)]


def gen_cases2(ctx):
    """second-generation inputs: far / large coordinates, other call forms, other constructor forms, larger frames"""
    n = 5 if ctx.thorough else 4
    for h in range(n):
        for w in range(n):
            c = ("F", 0, h, w)
            for Y in far_values(2 * h):
                for X in sorted({-1, 0, 1, 2 * w}):
                    yield c, ("G", Y, X)
                    yield c, ("DD", "G", Y, X)
            for X in far_values(2 * w):
                for Y in sorted({-1, 0, 1, 2 * h} - set(far_values(2 * h))):
                    yield c, ("G", Y, X)
            for y in far_values(h):
                for x in sorted({0, w - 1, w}):
                    yield c, ("CN", "2", y, x)
                    yield c, ("VN", "t", y, x)
            for x in far_values(w):
                for y in sorted({0, h - 1, h}):
                    yield c, ("CN", "t", y, x)
                    yield c, ("VN", "2", y, x)
            for y in range(-2, 2 * h + 3):
                for x in range(-2, 2 * w + 3):
                    yield c, ("Gl", y, x)
                    yield c, ("Gi", y, x)
            for y in range(-1, h + 2):
                for x in range(-1, w + 2):
                    for form in ("l", "g", "k", "kt"):
                        yield c, ("CN", form, y, x)
                        yield c, ("VN", form, y, x)
                    yield c, ("CN", "li", y, x, 0)
                    yield c, ("VN", "li", y, x, 0)
            for form in FORMS:
                for nx in (0, 3):
                    cv = ("Fv", nx, h, w, form)
                    for op in WHOLE + [("HZ",), ("FOR",), ("IT2",), ("ITP", 1), ("ITP", (h + 1) * w + 1)]:
                        yield cv, op
                    for (y, x) in ((0, 1), (1, 0), (2 * h, 2 * w - 1), (2 * h - 1, 2 * w), (1, 1), (-1, 0), (0, 2 * w + 1)):
                        yield cv, ("G", y, x)
                    for (y, x) in ((0, 0), (h - 1, w - 1), (h, w), (-1, 0)):
                        yield cv, ("CN", "2", y, x)
                        yield cv, ("VN", "t", y, x)
    for H in range(1, n + 1):
        for W in range(1, n + 1):
            for form in FORMS:
                cv = ("Iv", (H + W) % 3, H, W, form)
                for op in [("D",), ("IT",), ("HZ",), ("DD",), ("DU", "D"), ("DU", "FG"), ("DU", "AE"), ("DU", "IT"), ("DU", "DU"),
                           ("DU", "G", 0, 1), ("DU", "G", 1, 0), ("DU", "CN", "2", 0, 0), ("DU", "VN", "t", H - 1, W - 1)]:
                    yield cv, op


def gen_big(ctx):
    """frames beyond the exhaustive scope, sizes / ids / coordinates beyond CPython's small-int cache"""
    big = BIG + ([(16, 17), (2, 129), (129, 2), (0, 1000)] if ctx.thorough else [])
    for (h, w) in big:
        for nx in (0, 300):
            c = ("F", nx, h, w)
            for op in WHOLE + [("HZ",), ("FOR",), ("IT2",), ("ITP", (h + 1) * w + 1)]:
                yield c, op
            if nx:
                continue
            for Y in edge_values(2 * h):
                for X in edge_values(2 * w):
                    yield c, ("G", Y, X)
                    yield c, ("DD", "G", Y, X)
            for y in edge_values(h):
                for x in edge_values(w):
                    yield c, ("CN", "2", y, x)
                    yield c, ("VN", "t", y, x)
                    yield c, ("DD", "CN", "t", y, x)
                    yield c, ("DD", "VN", "2", y, x)
        c = ("I", 0, h + 1, w + 1)
        for op in [("D",), ("IT",), ("DD",), ("DU", "D"), ("DU", "FG"), ("DU", "AE"), ("DU", "DU")]:
            yield c, op


# ------------------------------------------------------- histories on one object

def whole_ops(cls, h, w):
    """accessor calls for a session on ONE frame of h x w cells (cls F) / the inner frame of an h x w board (cls I)"""
    if cls == "F":
        nh = (h + 1) * w
        ops = [("D",), ("AE",), ("M", "AE"), ("IT",), ("FOR",), ("ITP", 1), ("ITP", nh + 1), ("IT2",), ("HZ",),
               ("FG",), ("M", "FG"), ("DU",), ("DUIT",), ("DD", "D"), ("DD", "AE"), ("DD", "IT"), ("DD", "FG"),
               ("KD", "D"), ("KD", "IT"), ("KD", "ITP", 1), ("KD", "IT2"), ("KD", "DU", "IT"), ("KD", "DU", "AE"), ("KD", "HZ"),
               ("NV",), ("SL",),
               ("G", 0, 1), ("G", 1, 0), ("G", 2 * h, 2 * w - 1), ("G", -1, 0), ("Gl", 2 * h - 1, 2 * w),
               ("CN", "2", 0, 0), ("M", "CN", "t", h - 1, w - 1), ("CN", "2", h, w),
               ("VN", "t", 0, 0), ("M", "VN", "2", h, w), ("VN", "2", -1, 0)]
        return ops, [("AK",), ("KD", "AK"), ("DD", "AK")]
    H, W = h, w
    nh = (H - 1) * W
    ops = [("D",), ("IT",), ("ITP", 1), ("ITP", nh + 1), ("IT2",), ("HZ",), ("DD",),
           ("DU", "D"), ("DU", "AE"), ("DU", "IT"), ("DU", "FG"), ("DU", "DU"),
           ("KD", "D"), ("KD", "IT"), ("KD", "ITP", 1), ("KD", "IT2"), ("KD", "AE"), ("KD", "M", "AE"), ("KD", "FG"), ("KD", "M", "FG"),
           ("KD", "DU"), ("KD", "HZ"), ("KD", "G", 1, 0), ("KD", "G", 0, 1), ("KD", "CN", "2", 0, 0), ("KD", "VN", "t", 0, 0),
           ("NV",), ("KD", "SL")]
    return ops, [("AK",), ("KD", "AK")]


def session_scripts(cls, h, w, rng, n_random=3, pairs=False):
    """scripts = lists of accessor calls; every accessor occurs at least twice, in several orders; the answer-key
    registration (which iterates the frame, and may be done only once per variable) occurs once per script"""
    ops, once = whole_ops(cls, h, w)
    rev = list(reversed(ops))
    yield "canon", ops + [once[0]] + ops
    yield "rev", rev + [once[1]] + rev
    yield "once-first", [once[-1]] + ops
    for j in range(n_random):
        sc = ops + ops
        rng.shuffle(sc)
        sc.insert(rng.randrange(len(sc) + 1), rng.choice(once))
        yield "rand%d" % j, sc
    if pairs:
        for a in ops + once:
            if a[-1] == "SL":
                continue    # (posting the loop constraint is costly: it takes part as the middle call only)
            for b in ops + once:
                if not (a in once and b in once):
                    yield "pair", ([a, b, a] if a not in once else [a, b, b])


def size_rng(ctx, cls, h, w):
    import random
    return random.Random(ctx.seed * 1000003 + (7 if cls == "F" else 11) * 100003 + h * 1009 + w)


def gen_histories(ctx):
    n = 5 if ctx.thorough else 4
    for h in range(n):
        for w in range(n):
            rng = size_rng(ctx, "F", h, w)
            ctors = [("F", 0, h, w), ("Fv", 2, h, w, ("both", "vt", "hz", "bothkw")[(h + w) % 4]), ("X", h, w, h + 1, w, h, w + 1)]
            for c in ctors:
                for nm, sc in session_scripts("F", h, w, rng, 2 if c[0] == "F" else 1, pairs=(c[0] == "F" and (h, w) in ((1, 2), (2, 1)))):
                    yield c, nm, sc
    for H in range(1, n + 1):
        for W in range(1, n + 1):
            rng = size_rng(ctx, "I", H, W)
            for c in [("I", 0, H, W), ("Iv", 1, H, W, ("both", "vt", "hz", "kw")[(H + W) % 4])]:
                for nm, sc in session_scripts("I", H, W, rng, 2 if c[0] == "I" else 1, pairs=(c[0] == "I" and (H, W) == (2, 3))):
                    yield c, nm, sc
    for (h, w) in [(7, 9), (0, 12), (12, 0), (1, 130), (130, 1)]:
        rng = size_rng(ctx, "F", h, w)
        for nm, sc in session_scripts("F", h, w, rng, 1):
            yield ("F", 0, h, w), nm, sc
        if h < 100 and w < 100:
            for nm, sc in session_scripts("I", h + 1, w + 1, rng, 1):
                yield ("I", 0, h + 1, w + 1), nm, sc


def expected_state(ctor, d):
    """what state_dump must give after any call: the constructor's arrays, untouched (d: the model's dump)"""
    if d[0] != "ok":
        return d
    v = d[1]
    form = ctor[4] if ctor[0] in ("Fv", "Iv") else ("both" if ctor[0] == "X" else "")
    given = {"hz": ("h",), "vt": ("v",), "both": ("h", "v"), "bothkw": ("h", "v")}.get(form, ())
    return ("ok", (v,) + tuple((nm, v[2] if nm == "h" else v[3]) for nm in given))


def correspond(ctx):
    m = ctx.model("C14")
    cases = list(gen_cases(ctx)) + list(gen_cases2(ctx))
    big_cases = list(gen_big(ctx))
    hists = list(gen_histories(ctx))
    lines = {}

    def want(ctor, op):
        base, post = reduce_op(ctor_class(ctor), op)
        if base is None:
            return None, post
        ln = req_line(model_ctor(ctor), base)
        lines.setdefault(ln, len(lines))
        return ln, post
    plan = [want(c, op) for (c, op) in cases]
    big_plan = [want(c, op) for (c, op) in big_cases]
    hplan = [([want(c, op) for op in sc], want(c, ("D",))) for (c, nm, sc) in hists]
    order = sorted(lines, key=lines.get)
    outs = dict(zip(order, m.batch(order)))

    def expect(w):
        ln, post = w
        return post(parse_reply(outs[ln]) if ln is not None else None)
    for (c, op), w in zip(cases, plan):
        ctx.count("ctor:" + c[0])
        ctx.corr(opname(op), (c, op), expect(w), impl_run(c, op))
    # histories: every step of a session on ONE object must give what the (pure) model gives, and leave
    # the frame's arrays -- and the arrays the caller passed in -- as the constructor left them
    for (c, nm, sc), (ws, wd) in zip(hists, hplan):
        ctx.count("history:" + c[0] + ":" + nm)
        exp_state = expected_state(c, expect(wd))
        got = run_history(c, sc)
        for k, (op, w) in enumerate(zip(sc, ws)):
            ok = ctx.corr("hist:" + opname(op), (c, tuple(sc[:k + 1])), (expect(w), exp_state), got[k])
            if not ok:
                break   # later steps of a session that already went wrong add nothing
    for (c, op), w in zip(big_cases, big_plan):
        ctx.count("ctor:" + c[0])
        ctx.corr(opname(op), (c, op), expect(w), impl_run(c, op))
    ctx.exhaustive = True


# ------------------------------------------------- search: the geometric oracle
# Written from the lattice geometry only: lattice points, cells as sets of four
# corner points, segments as unordered pairs of lattice points at distance 1.

def _segments(h, w):
    pts = [(y, x) for y in range(h + 1) for x in range(w + 1)]
    segs = set()
    for p in pts:
        for q in pts:
            if abs(p[0] - q[0]) + abs(p[1] - q[1]) == 1:
                segs.add(frozenset((p, q)))
    return pts, segs


def _sk(sg):
    """space-free key of an unordered pair of lattice points / cells"""
    return "-".join("%d,%d" % p for p in sorted(sg))


def _corners(c):
    y, x = c
    return {(y, x), (y, x + 1), (y + 1, x), (y + 1, x + 1)}


def name2(vs):
    return [getattr(e, "id", repr(e)) for e in vs]


def _same(objs_a, objs_b):
    """equal as multisets of object identities"""
    return sorted(id(o) for o in objs_a) == sorted(id(o) for o in objs_b)


def check_frame(ctx, tag, f, h, w, anchor=None, depth=0):
    """f must be the frame of h x w cells; anchor: segment -> variable expected on
    it (None: read it off horizontal/vertical, which is what defines it)."""
    from cspuz import graph
    from cspuz.array import BoolArray1D
    from cspuz.expr import BoolVar
    from cspuz.grid_frame import BoolGridFrame, BoolInnerGridFrame

    def bad(key, what, **detail):
        detail.update({"frame": tag, "h": h, "w": w})
        ctx.violation("%s:%s" % (tag, key), what, detail)

    pts, segs = _segments(h, w)
    cells = [(y, x) for y in range(h) for x in range(w)]
    ctx.prop_case("frame", (tag, h, w, depth))
    if type(f) is not BoolGridFrame or f.height != h or f.width != w:
        return bad("class", "not a BoolGridFrame of the expected size", got=repr((type(f).__name__, getattr(f, "height", None), getattr(f, "width", None))))
    if tuple(f.horizontal.shape) != (h + 1, w) or tuple(f.vertical.shape) != (h, w + 1):
        return bad("shape", "horizontal/vertical do not have one entry per segment", shapes=[list(f.horizontal.shape), list(f.vertical.shape)])
    here = {}
    for (y, x) in pts:
        if (y, x + 1) in pts:
            here[frozenset(((y, x), (y, x + 1)))] = f.horizontal[y, x]
        if (y + 1, x) in pts:
            here[frozenset(((y, x), (y + 1, x)))] = f.vertical[y, x]
    if set(here) != segs or len({id(v) for v in here.values()}) != len(segs) or not all(isinstance(v, BoolVar) for v in here.values()):
        return bad("vars", "segments do not carry pairwise distinct variables")
    if anchor is not None:
        for sg in segs:
            if sg in anchor and here[sg] is not anchor[sg]:
                return bad("anchor:%s" % _sk(sg), "variable moved to another segment", segment=sorted(sg),
                           expected=getattr(anchor[sg], "id", None), got=getattr(here[sg], "id", None))
    var = here

    def name(v):
        if hasattr(v, "data"):
            return [getattr(e, "id", repr(e)) for e in v.data]
        return getattr(v, "id", repr(v))

    # __getitem__: doubled coordinates of the midpoint = sum of the two ends
    mids = {}
    for sg in segs:
        p, q = tuple(sg)
        mids[(p[0] + q[0], p[1] + q[1])] = sg
    window = [(Y, X) for Y in range(-3, 2 * h + 4) for X in range(-3, 2 * w + 4)]
    if depth == 0:
        # far outside: wrap-around candidates, ints no interpreter cache holds
        near_y, near_x = sorted({-1, 0, 1, 2 * h - 1, 2 * h}), sorted({-1, 0, 1, 2 * w - 1, 2 * w})
        seen = set(window)
        for (Y, X) in [(Y, X) for Y in far_values(2 * h) for X in near_x] + [(Y, X) for X in far_values(2 * w) for Y in near_y]:
            if (Y, X) not in seen:
                seen.add((Y, X))
                window.append((Y, X))
    for (Y, X) in window:
        Y, X = fresh(Y), fresh(X)
        ctx.prop_case("getitem", (tag, h, w, Y, X, depth))
        r = vlib.guarded(lambda: f[Y, X])
        if (Y, X) in mids:
            if r[0] != "ok" or r[1] is not var[mids[(Y, X)]]:
                bad("getitem:%d,%d" % (Y, X), "frame[Y, X] is not the variable on the segment with that midpoint",
                    coords=[Y, X], segment=sorted(mids[(Y, X)]), expected=name(var[mids[(Y, X)]]), got=name(r[1]))
        elif r != ("err", "IndexError"):
            bad("getitem:%d,%d" % (Y, X), "frame[Y, X] for a position that is not a segment midpoint must raise IndexError",
                coords=[Y, X], got=name(r[1]))
        if depth == 0 and "~" not in tag and -3 <= Y <= 2 * h + 3 and -3 <= X <= 2 * w + 3:
            # the key as a list / as a one-shot iterator of the same two ints
            for kn, key in (("list", [Y, X]), ("iterator", iter((Y, X))), ("generator", (v for v in (Y, X)))):
                ctx.prop_case("getitem-key", (tag, h, w, Y, X, kn))
                r2 = vlib.guarded(lambda: f[key])
                if r2[0] != r[0] or r2[1] is not r[1] and r2[1] != r[1]:
                    bad("getitem-%s:%d,%d" % (kn, Y, X), "frame[key] with the coordinates given as a %s differs from frame[Y, X]" % kn,
                        coords=[Y, X], with_tuple=name(r[1]), got=name(r2[1]))
    # cell_neighbors / vertex_neighbors
    at_point = {}       # lattice point -> variables of the segments ending there
    for sg in segs:
        for pt in sg:
            at_point.setdefault(pt, []).append(var[sg])
    around = {}         # cell -> variables of the segments joining two of its corners
    for c in cells:
        cs = sorted(_corners(c))
        around[c] = [var[frozenset((a, b))] for a in cs for b in cs if a < b and abs(a[0] - b[0]) + abs(a[1] - b[1]) == 1]
    cwin = [(y, x) for y in range(-3, h + 4) for x in range(-3, w + 4)]
    if depth == 0:
        seen = set(cwin)
        for (y, x) in [(y, x) for y in far_values(h) for x in sorted({0, w - 1, w})] + [(y, x) for x in far_values(w) for y in sorted({0, h - 1, h})]:
            if (y, x) not in seen:
                seen.add((y, x))
                cwin.append((y, x))
    for (y, x) in cwin:
        y, x = fresh(y), fresh(x)
        near = depth == 0 and "~" not in tag and -2 <= y <= h + 1 and -2 <= x <= w + 1
        for form in ((0, 1, 2, 3, 4, 5) if near else (0, 1)):
            # two ints / one tuple / a list / a one-shot iterator / keywords / keyword tuple
            kwargs = {}
            args = [(y, x), ((y, x),), ([y, x],), (iter((y, x)),), (), ()][form]
            if form >= 4:
                kwargs = {"x": x, "y": y} if form == 4 else {"y": (y, x)}
            ctx.prop_case("cell_neighbors", (tag, h, w, y, x, form, depth))
            r = vlib.guarded(lambda: f.cell_neighbors(*args, **kwargs))
            if (y, x) in cells:
                exp = around[(y, x)]
                if r[0] != "ok" or type(r[1]) is not BoolArray1D or len(exp) != 4 or not _same(r[1].data, exp):
                    bad("cell_neighbors:%d,%d" % (y, x), "cell_neighbors is not the set of the 4 sides of the cell",
                        cell=[y, x], expected=sorted(name(v) for v in exp), got=name(r[1]) if r[0] != "ok" else [name(v) for v in r[1]])
            elif r != ("err", "IndexError"):
                bad("cell_neighbors:%d,%d" % (y, x), "cell outside the frame must raise IndexError", cell=[y, x], got=name(r[1]))
            ctx.prop_case("vertex_neighbors", (tag, h, w, y, x, form, depth))
            if form == 3:
                args = (iter((y, x)),)
            r = vlib.guarded(lambda: f.vertex_neighbors(*args, **kwargs))
            if (y, x) in pts:
                exp = at_point.get((y, x), [])
                if r[0] != "ok" or type(r[1]) is not BoolArray1D or not _same(r[1].data, exp):
                    bad("vertex_neighbors:%d,%d" % (y, x), "vertex_neighbors is not the set of segments ending at the point",
                        point=[y, x], expected=sorted(name(v) for v in exp), got=name(r[1]) if r[0] != "ok" else [name(v) for v in r[1]])
            elif r != ("err", "IndexError"):
                bad("vertex_neighbors:%d,%d" % (y, x), "point outside the frame must raise IndexError", point=[y, x], got=name(r[1]))
    # all_edges / iteration: every segment exactly once, same order both ways
    ctx.prop_case("all_edges", (tag, h, w, depth))
    ae = vlib.guarded(lambda: list(f.all_edges().data))
    it = vlib.guarded(lambda: list(iter(f)))
    if ae[0] != "ok" or not _same(ae[1], var.values()):
        bad("all_edges", "all_edges does not enumerate every segment exactly once")
    if it[0] != "ok" or ae[0] != "ok" or [id(v) for v in it[1]] != [id(v) for v in ae[1]]:
        bad("iter", "iteration order differs from all_edges")
    # every iteration enumerates the edges, not only the first one / the only one alive
    if ae[0] == "ok":
        want = [id(v) for v in ae[1]]
        r = vlib.guarded(lambda: _interleaved(iter(f), iter(f)))
        if r[0] != "ok" or [id(v) for v in r[1][0]] != want or [id(v) for v in r[1][1]] != want:
            bad("iter-concurrent", "two iterations over the frame that are alive at the same time do not both enumerate all_edges()",
                got=r[1] if r[0] != "ok" else [name2(r[1][0]), name2(r[1][1])], expected=name2(ae[1]))
        r = vlib.guarded(lambda: (_take(iter(f), 1), list(iter(f)), [v for v in f]))
        if r[0] != "ok" or [id(v) for v in r[1][0]] != want[:1] or [id(v) for v in r[1][1]] != want or [id(v) for v in r[1][2]] != want:
            bad("iter-after-break", "an iteration that follows an abandoned iteration does not enumerate all_edges()",
                got=r[1] if r[0] != "ok" else [name2(x) for x in r[1]], expected=name2(ae[1]))
        r = vlib.guarded(lambda: list(f.all_edges().data))
        if r[0] != "ok" or [id(v) for v in r[1]] != want:
            bad("all_edges-again", "a second all_edges() differs from the first", got=r[1] if r[0] != "ok" else name2(r[1]), expected=name2(ae[1]))
        r = vlib.guarded(lambda: (list(iter(f.horizontal)), list(iter(f.vertical))))
        if r[0] != "ok" or not _same(r[1][0] + r[1][1], var.values()) or len(r[1][0]) != (h + 1) * w:
            bad("arrays-iter", "horizontal / vertical used as whole arrays do not hold exactly the frame's segments")
    # _from_grid_frame: edge k joins the lattice points its variable's segment joins
    ctx.prop_case("from_grid_frame", (tag, h, w, depth))
    r = vlib.guarded(lambda: graph._from_grid_frame(f))
    if r[0] != "ok":
        bad("from_grid_frame", "_from_grid_frame raised", got=r[1])
    else:
        es, g = r[1]
        ok = g.num_vertices == len(pts) and len(es) == len(g.edges) == len(segs)
        seen = set()
        if ok:
            for k, (a, b) in enumerate(g.edges):
                if not (0 <= a < len(pts) and 0 <= b < len(pts)):
                    ok = False
                    break
                sg = frozenset((pts[a], pts[b]))  # pts is in row-major order
                if sg not in segs or sg in seen or es[k] is not var[sg]:
                    ok = False
                    bad("from_grid_frame:%d" % k, "edge k of the list is not the variable on the segment joining graph edge k's endpoints",
                        k=k, graph_edge=[a, b], points=[list(pts[a]), list(pts[b])], got=name(es[k]),
                        expected=name(var[sg]) if sg in segs else None)
                    break
                seen.add(sg)
            if ok:
                for v in range(g.num_vertices):
                    if sorted(g.incident_edges[v]) != sorted([(b, k) for k, (a, b) in enumerate(g.edges) if a == v] + [(a, k) for k, (a, b) in enumerate(g.edges) if b == v]):
                        ok = False
        if not ok:
            bad("from_grid_frame", "inferred graph is not the lattice graph of the frame",
                num_vertices=g.num_vertices, n_edges=len(g.edges), n_vars=len(es))
    # dual: points become cells, the variable stays on its segment
    ctx.prop_case("dual", (tag, h, w, depth))
    r = vlib.guarded(lambda: f.dual())
    if r[0] != "ok" or type(r[1]) is not BoolInnerGridFrame:
        return bad("dual", "dual() did not return a BoolInnerGridFrame")
    d = r[1]
    check_inner(ctx, tag + ".dual", d, h + 1, w + 1, anchor=var, depth=depth)


def check_inner(ctx, tag, i, H, W, anchor=None, depth=0):
    """i must be the inner frame of a board of H x W cells (H, W >= 1); anchor maps
    an unordered pair of adjacent cells to the variable expected on their border."""
    from cspuz.expr import BoolVar
    from cspuz.grid_frame import BoolGridFrame, BoolInnerGridFrame

    def bad(key, what, **detail):
        detail.update({"frame": tag, "H": H, "W": W})
        ctx.violation("%s:%s" % (tag, key), what, detail)

    ctx.prop_case("inner", (tag, H, W, depth))
    cells, borders = _segments(H - 1, W - 1)  # cells of the board = lattice points of the (H-1) x (W-1) frame
    if type(i) is not BoolInnerGridFrame or i.height != H or i.width != W:
        return bad("class", "not a BoolInnerGridFrame of the expected size")
    if tuple(i.horizontal.shape) != (H - 1, W) or tuple(i.vertical.shape) != (H, W - 1):
        return bad("shape", "inner horizontal/vertical do not have one entry per border",
                   shapes=[list(i.horizontal.shape), list(i.vertical.shape)])
    here = {}
    for (y, x) in cells:
        if (y + 1, x) in cells:
            here[frozenset(((y, x), (y + 1, x)))] = i.horizontal[y, x]
        if (y, x + 1) in cells:
            here[frozenset(((y, x), (y, x + 1)))] = i.vertical[y, x]
    if set(here) != borders or len({id(v) for v in here.values()}) != len(borders) or not all(isinstance(v, BoolVar) for v in here.values()):
        return bad("vars", "borders do not carry pairwise distinct variables")
    if anchor is not None:
        for b in borders:
            if b in anchor and here[b] is not anchor[b]:
                return bad("dual_swaps:%s" % _sk(b), "the border between two cells of the dual is not the variable of the primal segment joining them",
                           cells=sorted(b), expected=getattr(anchor[b], "id", None), got=getattr(here[b], "id", None))
    it = vlib.guarded(lambda: list(iter(i)))
    if it[0] != "ok" or not _same(it[1], here.values()):
        bad("iter", "iteration over the inner frame does not enumerate every border once")
    elif it[0] == "ok":
        want = [id(v) for v in it[1]]
        r = vlib.guarded(lambda: _interleaved(iter(i), iter(i)))
        if r[0] != "ok" or [id(v) for v in r[1][0]] != want or [id(v) for v in r[1][1]] != want:
            bad("iter-concurrent", "two iterations over the inner frame that are alive at the same time do not both enumerate its borders")
        r = vlib.guarded(lambda: (_take(iter(i), 1), list(iter(i))))
        if r[0] != "ok" or [id(v) for v in r[1][0]] != want[:1] or [id(v) for v in r[1][1]] != want:
            bad("iter-after-break", "an iteration over the inner frame that follows an abandoned one does not enumerate its borders")
    r = vlib.guarded(lambda: i.dual())
    if r[0] != "ok" or type(r[1]) is not BoolGridFrame:
        return bad("dual", "dual() of an inner frame did not return a BoolGridFrame")
    dd = r[1]
    if depth < 1:
        check_frame(ctx, tag + ".dual", dd, H - 1, W - 1, anchor=here, depth=depth + 1)
    else:
        # dual of dual is the original: same size, same arrays element for element
        pass
    return here


def check_involution(ctx, tag, o):
    def bad(key, what, **detail):
        detail.update({"frame": tag})
        ctx.violation("%s:%s" % (tag, key), what, detail)
    ctx.prop_case("dual_involutive", (tag,))
    r = vlib.guarded(lambda: o.dual().dual())
    if r[0] != "ok":
        return bad("dual_involutive", "dual().dual() raised", got=r[1])
    oo = r[1]
    same = (type(oo) is type(o) and oo.height == o.height and oo.width == o.width and oo.solver is o.solver
            and tuple(oo.horizontal.shape) == tuple(o.horizontal.shape) and tuple(oo.vertical.shape) == tuple(o.vertical.shape)
            and [id(v) for v in oo.horizontal.data] == [id(v) for v in o.horizontal.data]
            and [id(v) for v in oo.vertical.data] == [id(v) for v in o.vertical.data])
    if not same:
        bad("dual_involutive", "dual of dual is not the original frame", height=[o.height, oo.height], width=[o.width, oo.width])


def session_failure(ctor, calls):
    """run the calls on ONE object; None if the LAST call behaves, else what is wrong with it:
    ("result", on this frame, on an unused frame) or ("arrays", state before the session, state after the call)"""
    o, s, given = build3(ctor)
    st = {}
    snap = vlib.guarded(state_dump, s, o, given)
    for op in calls[:-1]:
        st.pop("raw", None)
        vlib.guarded(obj_op, s, o, ctor, op, st)
    st.pop("raw", None)
    before = vlib.guarded(state_dump, s, o, given)
    used = vlib.guarded(obj_op, s, o, ctor, calls[-1], st)
    o2, s2, _ = build3(ctor)
    unused = vlib.guarded(obj_op, s2, o2, ctor, calls[-1], {})
    if used != unused:
        return ("result", used, unused)
    now = vlib.guarded(state_dump, s, o, given)
    if now != snap and before == snap:
        return ("arrays", snap, now)
    return None


def shrink_session(ctor, calls, kind):
    """drop calls that are not needed for the last call to go wrong in the same way (greedy, one at a time)"""
    calls = list(calls)
    i = 0
    budget = 400
    while i < len(calls) - 1 and budget > 0:
        budget -= 1
        cand = calls[:i] + calls[i + 1:]
        f = vlib.guarded(session_failure, ctor, cand)
        if f[0] == "ok" and f[1] is not None and f[1][0] == kind:
            calls = cand
        else:
            i += 1
    return calls


def check_history(ctx, tag, ctor, nm, script):
    """One frame object lives through the whole script.  Every call must give exactly what the same call gives on
    a frame nothing has been done with (built the same way on a fresh Solver, so variable ids are comparable),
    and must leave the frame's arrays -- and arrays the caller passed to the constructor -- as they were.
    Returns the used object (None when something already failed)."""
    def bad(key, what, **detail):
        detail.update({"frame": tag, "ctor": list(ctor), "script": nm})
        ctx.violation("%s:%s" % (tag, key), what, detail)

    def show(calls):
        return [" ".join(str(t) for t in x) for x in calls]

    r = vlib.guarded(build3, ctor)
    if r[0] != "ok":
        bad("ctor", "constructor raised", got=r[1])
        return None
    o, s, given = r[1]
    st = {}
    snap = vlib.guarded(state_dump, s, o, given)
    if snap[0] != "ok":
        bad("arrays", "the frame's arrays cannot be read", got=snap[1])
        return None
    for k, op in enumerate(script):
        ctx.prop_case("history:" + opname(op), (tag, ctor, nm, k, tuple(op)))
        st.pop("raw", None)
        used = vlib.guarded(obj_op, s, o, ctor, op, st)
        o2, s2, _ = build3(ctor)
        unused = vlib.guarded(obj_op, s2, o2, ctor, op, {})
        now = vlib.guarded(state_dump, s, o, given) if used == unused else None
        if used != unused or now != snap:
            kind = "result" if used != unused else "arrays"
            calls = script[:k + 1]
            if not any(v["key"] == "%s:%s:%s" % (tag, "history" if kind == "result" else "history-arrays", opname(op)) for v in ctx.violations):
                small = shrink_session(ctor, calls, kind)
                f = vlib.guarded(session_failure, ctor, small)
                if f[0] == "ok" and f[1] is not None and f[1][0] == kind:
                    calls = small
                    if kind == "result":
                        used, unused = f[1][1], f[1][2]
                    else:
                        now = f[1][2]
            if kind == "result":
                bad("history:" + opname(op), "the last call of this session on ONE frame object gives a different result than the same call on a frame nothing has been done with",
                    calls=show(calls), on_unused_frame=repr(unused)[:600], on_this_frame=repr(used)[:600], legend=legend(calls))
            else:
                bad("history-arrays:" + opname(op), "the last call of this session changed frame.horizontal / frame.vertical (shape or data) or an array the caller passed to the constructor",
                    calls=show(calls), before=repr(snap)[:600], after=repr(now)[:600], legend=legend(calls))
            return None
    return o


def given_anchor(cls, h, w, given):
    """segment (pair of lattice points; for an inner frame: pair of adjacent cells) -> the variable the caller's own
    array holds for it"""
    out = {}
    for nm, a in given:
        sh = tuple(a.shape)
        for y in range(sh[0]):
            for x in range(sh[1]):
                if cls == "F":
                    sg = ((y, x), (y, x + 1)) if nm == "h" else ((y, x), (y + 1, x))
                else:
                    sg = ((y, x), (y + 1, x)) if nm == "h" else ((y, x), (y, x + 1))
                out[frozenset(sg)] = a[y, x]
    return out


PAIR_SIZES = {"F": ((1, 1), (2, 3), (0, 2)), "I": ((2, 3),)}


def search_one(ctx, cls, h, w):
    r = vlib.guarded(lambda: build((cls, 0, h, w)))
    tag = "%s%dx%d" % (cls, h, w)
    if r[0] != "ok":
        ctx.violation(tag + ":ctor", "constructor raised", {"frame": tag, "cls": cls, "h": h, "w": w, "got": r[1]})
        return
    o, s = r[1]
    if cls == "F":
        check_frame(ctx, tag, o, h, w)
    else:
        check_inner(ctx, tag, o, h, w)
    check_involution(ctx, tag, o)
    # the same object once more: the geometric oracle must hold on a frame that has been through all of it
    n0 = len(ctx.violations)
    if cls == "F":
        check_frame(ctx, tag + "~again", o, h, w)
    else:
        check_inner(ctx, tag + "~again", o, h, w)
    check_involution(ctx, tag + "~again", o)
    for v in ctx.violations[n0:]:
        v["detail"]["note"] = "second pass of the same checks over the same frame object (the first pass found nothing at this place)"
    small = h <= 6 and w <= 6
    # other ways of calling the constructor give the same geometry
    if small or (h, w) in ((7, 9), (1, 130)):
        for form in FORMS:
            ctor = (cls + "v", 1 + (h + w) % 2 * 300, h, w, form)
            r = vlib.guarded(build3, ctor)
            if r[0] != "ok":
                ctx.violation("%s~%s:ctor" % (tag, form), "constructor raised", {"frame": tag, "ctor": list(ctor), "got": r[1]})
                continue
            # the variables the caller put on the segments (read off the caller's arrays) must be the frame's
            anchor = vlib.guarded(given_anchor, cls, h, w, r[1][2])
            if anchor[0] != "ok":
                ctx.violation("%s~%s:given" % (tag, form), "the arrays passed to the constructor can no longer be read", {"frame": tag, "ctor": list(ctor), "got": anchor[1]})
                continue
            if cls == "F":
                check_frame(ctx, "%s~%s" % (tag, form), r[1][0], h, w, anchor=anchor[1])
            else:
                check_inner(ctx, "%s~%s" % (tag, form), r[1][0], h, w, anchor=anchor[1])
            check_involution(ctx, "%s~%s" % (tag, form), r[1][0])
    # sessions on one object
    rng = size_rng(ctx, cls, h, w)
    ctors = [(cls, 0, h, w), (cls + "v", 2, h, w, "both"), (cls + "v", 0, h, w, "vt")]
    if cls == "F":
        ctors.append(("X", h, w, h + 1, w, h, w + 1))
    for ci, ctor in enumerate(ctors if small else ctors[:1]):
        for nm, sc in session_scripts(cls, h, w, rng, (3 if small else 1) if ci == 0 else 1, pairs=(ci == 0 and (h, w) in PAIR_SIZES[cls])):
            u = check_history(ctx, tag, ctor, nm, sc)
            if u is not None and nm in ("canon", "rand0") and ci < 2:
                if cls == "F":
                    check_frame(ctx, "%s~used-%s" % (tag, nm), u, h, w)
                else:
                    check_inner(ctx, "%s~used-%s" % (tag, nm), u, h, w)


def search(ctx):
    n = 7 if (ctx.thorough or getattr(ctx, "deep", False)) else 5
    for h in range(n):
        for w in range(n):
            search_one(ctx, "F", h, w)
    for H in range(1, n + 1):
        for W in range(1, n + 1):
            search_one(ctx, "I", H, W)
    for (h, w) in ([(1, 9), (9, 1), (0, 8), (8, 0), (7, 8)] if not ctx.thorough else [(1, 12), (12, 1), (0, 11), (11, 0), (9, 10), (10, 9)]):
        search_one(ctx, "F", h, w)
        search_one(ctx, "I", h + 1, w + 1)
    # beyond the exhaustive scope: larger boards, degenerate long ones, and sizes whose (doubled) coordinates,
    # vertex numbers and variable ids leave CPython's small-int cache (> 256)
    for (h, w) in [(7, 9), (9, 7), (0, 13), (13, 0), (10, 10), (1, 130), (130, 1), (0, 300), (300, 0)] + ([(16, 17), (2, 129), (129, 2)] if ctx.thorough else []):
        search_one(ctx, "F", h, w)
        if h <= 20 and w <= 20:
            search_one(ctx, "I", h + 1, w + 1)


def replay(ctx, rp):
    import re
    print(rp)
    v = rp.get("violation", {})
    m = re.match(r"([FI])(\d+)x(\d+)", v.get("key", ""))
    if not m:
        return 0
    search_one(ctx, m.group(1), int(m.group(2)), int(m.group(3)))
    for x in ctx.violations:
        print("violation:", x["key"], x["what"], x["detail"])
    return 1 if ctx.violations else 0
