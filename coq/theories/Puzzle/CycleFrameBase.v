(* C11 Tier 1 - pieces shared by the models solve_<p>_model of the loop puzzles (slitherlink, masyu,
   simpleloop, geradeweg, yajilin, castle_wall): the Solver state right after

       grid_frame = BoolGridFrame(solver, height, width)     # horizontal (height+1, width) first, then
       solver.add_answer_key(grid_frame)                     # vertical (height, width+1); keys in that order

   and the call  is_passed = graph.active_edges_single_cycle(solver, grid_frame)  (model of property C06,
   Graph/Cycle.v, auxiliary-variable route: use_graph_primitive resolves to False with the default
   configuration of the capture harness).  The variable ids of the frame are those of
   PuzzleBase.lattice (height+1) (width+1): horizontal[y, x] = hseg, vertical[y, x] = vseg.
   Definitions only, no proofs (see CycleCompose.v). *)
From Coq Require Import ZArith List Bool Arith.
From Cspuz Require Import Lib.PyErr Core.Expr Core.Program Graph.GraphModel Graph.Cycle
     Puzzle.PuzzleBase Puzzle.ModelBase.
Import ListNotations.
Local Open Scope nat_scope.

(* number of segments of a frame of h x w cells *)
Definition frame_n (h w : nat) : nat := S h * w + h * S w.
(* BoolGridFrame.horizontal / .vertical as flat lists (row-major) *)
Definition frame_hor (h w : nat) : list expr := map BVar (seq 0 (S h * w)).
Definition frame_ver (h w : nat) : list expr := map BVar (seq (S h * w) (h * S w)).
(* ids of horizontal[y, x] and vertical[y, x] *)
Definition frame_hid (h w y x : nat) : nat := y * w + x.
Definition frame_vid (h w y x : nat) : nat := S h * w + y * S w + x.
(* state after the declaration of the frame as the answer key *)
Definition frame_state (h w : nat) : state := bool_grid_state (frame_n h w) [].
(* the array active_edges_single_cycle returns on that state: shape (h+1, w+1), entry (y, x) = point (y, x) *)
Definition frame_passed (h w : nat) : list expr := map BVar (seq (frame_n h w) (S h * S w)).
Definition frame_pid (h w y x : nat) : nat := frame_n h w + y * S w + x.

(* graph.active_edges_single_cycle(solver, grid_frame) on the fresh frame *)
Definition frame_cycle (h w : nat) : res (state * passed_result) :=
  active_edges_single_cycle (frame_state h w) (AFrame h w (frame_hor h w) (frame_ver h w)) None false.
