(* C11: the program of solve_putteria is well formed on every board; composition with C02 (solve_reports). *)
From Coq Require Import ZArith List Bool Arith Lia.
From Cspuz Require Import Lib.PyErr Core.Expr Core.Program Backend.Z3 Backend.Z3Oracle Backend.Z3SolveProofs
     Backend.SolveLoop Backend.SolveZ3Proofs
     Puzzle.PuzzleBase Puzzle.ModelBase Puzzle.ModelLemmas Puzzle.SatAbs Puzzle.SolveCompose Puzzle.WfLemmas
     Puzzle.Rules_norinori Puzzle.Norinori Puzzle.NorinoriWf
     Puzzle.Rules_putteria Puzzle.Putteria Puzzle.PutteriaProofs.
Import ListNotations.
Local Open Scope nat_scope.

Lemma ok_not_both vs i j : ok vs true (not_both i j) = ok vs true (BVar i) && ok vs true (BVar j).
Proof. unfold not_both. autorewrite with okdb. reflexivity. Qed.
Lemma ok_nand vs i j : ok vs true (nand i j) = ok vs true (BVar i) && ok vs true (BVar j).
Proof. unfold nand. autorewrite with okdb. reflexivity. Qed.

Lemma forallb_if_single {A} (f : A -> bool) (c : bool) (a : A) :
  (c = true -> f a = true) -> forallb f (if c then [a] else []) = true.
Proof. destruct c; simpl; intros H; [rewrite H; reflexivity|reflexivity]. Qed.

Lemma putteria_constraints_ok h w region :
  forallb (ok (repeat DBool (h * w)) true) (putteria_constraints h w region) = true.
Proof.
  unfold putteria_constraints. rewrite !forallb_app, !forallb_map, !forallb_flat_map.
  repeat (apply andb_true_intro; split).
  - apply forallb_cells. intros y x Hy Hx. rewrite ok_not_both, !ok_cell by lia. reflexivity.
  - apply forallb_cells. intros y x Hy Hx. rewrite ok_not_both, !ok_cell by lia. reflexivity.
  - apply forallb_In. intros i _. autorewrite with okdb. rewrite ok_region_ct. reflexivity.
  - apply forallb_seq. intros y Hy. rewrite forallb_flat_map. apply forallb_seq. intros x1 Hx1.
    rewrite forallb_flat_map. apply forallb_seq. intros x2 Hx2.
    apply forallb_if_single. intros _. rewrite ok_nand, !ok_cell by lia. reflexivity.
  - apply forallb_seq. intros x Hx. rewrite forallb_flat_map. apply forallb_seq. intros y1 Hy1.
    rewrite forallb_flat_map. apply forallb_seq. intros y2 Hy2.
    apply forallb_if_single. intros _. rewrite ok_nand, !ok_cell by lia. reflexivity.
Qed.

Lemma putteria_model_wf pb st : solve_putteria_model pb = Ok st -> wf_state st /\ wf_keys st.
Proof.
  unfold solve_putteria_model. intros H. inversion H; subst st; clear H.
  apply wf_bool_grid_state. apply putteria_constraints_ok.
Qed.

Theorem putteria_solve_reports : forall oracle, oracle_sound_on oracle -> oracle_complete_on oracle ->
  forall h w region st,
  solve_putteria_model [[Z.of_nat h; Z.of_nat w]; region] = Ok st ->
  solve_reports oracle st (seq 0 (h * w)) (rules_putteria [[Z.of_nat h; Z.of_nat w]; region]).
Proof.
  intros oracle Os Oc h w region st Hst.
  apply (solve_reports_intro oracle no_graph); try assumption.
  - exact (putteria_model_wf _ _ Hst).
  - unfold solve_putteria_model in Hst. rewrite dim2_0, dim2_1 in Hst. inversion Hst; subst st. simpl.
    apply repeat_keys.
  - intros ans. exact (putteria_exact h w region st ans Hst).
Qed.
