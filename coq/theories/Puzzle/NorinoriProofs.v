(* C11 Tier 1 - norinori: for every board shape and region layout, the program
   posted by solve_norinori (model Norinori.v) admits exactly the grids obeying
   Rules_norinori. *)
From Coq Require Import ZArith List Bool Arith Lia.
From Cspuz Require Import Lib.PyErr Core.Expr Core.Program Puzzle.PuzzleBase Puzzle.SatAbs
     Puzzle.ModelBase Puzzle.ModelLemmas Puzzle.Rules_norinori Puzzle.Norinori.
Import ListNotations.
Local Open Scope nat_scope.

Lemma norinori_core h w region en :
  rules_norinori [[Z.of_nat h; Z.of_nat w]; region] (map (fun i => b2z (eb en i)) (seq 0 (h * w))) =
  satisfies no_graph en (bool_grid_state (h * w) (norinori_constraints h w region)).
Proof.
  unfold rules_norinori.
  replace (dim [[Z.of_nat h; Z.of_nat w]; region] 0) with h by (unfold dim, zn, getz, sec; simpl; rewrite Nat2Z.id; reflexivity).
  replace (dim [[Z.of_nat h; Z.of_nat w]; region] 1) with w by (unfold dim, zn, getz, sec; simpl; rewrite Nat2Z.id; reflexivity).
  change (sec [[Z.of_nat h; Z.of_nat w]; region] 1) with region.
  set (ans := map (fun i => b2z (eb en i)) (seq 0 (h * w))).
  assert (Hblack : forall y x, y < h -> x < w -> isb (at2 ans w y x) = eb en (cidx w (y, x))).
  { intros y x Hy Hx. unfold at2, ans. rewrite getz_map_seq by (apply (cidx_lt h w y x); assumption).
    apply b2z_isb. }
  replace (Nat.eqb (length ans) (h * w)) with true
    by (unfold ans; rewrite map_length, seq_length; symmetry; apply Nat.eqb_refl).
  replace (forallb is01 ans) with true
    by (unfold ans; rewrite forallb_map; symmetry; apply forallb_forall; intros; apply is01_b2z).
  unfold satisfies, bool_grid_state, norinori_constraints. cbn [Program.cons].
  rewrite forallb_app, !forallb_map. simpl andb.
  rewrite andb_comm. f_equal.
  - (* dominoes *)
    apply forallb_ext_in. intros [y x] Hc. apply cells_in in Hc. destruct Hc as [Hy Hx].
    rewrite holds_imp_ct_eq. rewrite (Hblack y x Hy Hx). f_equal.
    rewrite count_map. change 1%Z with (Z.of_nat 1). rewrite znat_eqb. f_equal.
    apply count_ext_in. intros [y' x'] Hn. destruct (nbr4_in h w y x y' x' Hy Hx Hn). apply Hblack; assumption.
  - (* two per region *)
    apply forallb_ext_in. intros i _.
    rewrite holds_ct_eq. change 2%Z with (Z.of_nat 2). rewrite znat_eqb. f_equal.
    unfold region_cells. rewrite count_map, count_filter.
    apply count_ext_in. intros [y x] Hc. apply cells_in in Hc. destruct Hc as [Hy Hx].
    rewrite (Hblack y x Hy Hx). reflexivity.
Qed.

Theorem norinori_exact h w region st ans :
  solve_norinori_model [[Z.of_nat h; Z.of_nat w]; region] = Ok st ->
  ((exists en, model_of no_graph en st /\ reads st en (seq 0 (h * w)) = ans)
   <-> rules_norinori [[Z.of_nat h; Z.of_nat w]; region] ans = true).
Proof.
  unfold solve_norinori_model.
  replace (dim [[Z.of_nat h; Z.of_nat w]; region] 0) with h by (unfold dim, zn, getz, sec; simpl; rewrite Nat2Z.id; reflexivity).
  replace (dim [[Z.of_nat h; Z.of_nat w]; region] 1) with w by (unfold dim, zn, getz, sec; simpl; rewrite Nat2Z.id; reflexivity).
  change (sec [[Z.of_nat h; Z.of_nat w]; region] 1) with region.
  intros H. inversion H; subst st; clear H.
  apply bool_grid_exact.
  - intros en. apply norinori_core.
  - intros a Ha. unfold rules_norinori in Ha.
    replace (dim [[Z.of_nat h; Z.of_nat w]; region] 0) with h in Ha by (unfold dim, zn, getz, sec; simpl; rewrite Nat2Z.id; reflexivity).
    replace (dim [[Z.of_nat h; Z.of_nat w]; region] 1) with w in Ha by (unfold dim, zn, getz, sec; simpl; rewrite Nat2Z.id; reflexivity).
    repeat (apply andb_true_iff in Ha; destruct Ha as [Ha ?]).
    apply Nat.eqb_eq in Ha. split; assumption.
Qed.
