(* C11 Tier 1 - putteria: for every board shape and region layout, the program
   posted by solve_putteria (model Putteria.v) admits exactly the grids obeying
   Rules_putteria. *)
From Coq Require Import ZArith List Bool Arith Lia.
From Cspuz Require Import Lib.PyErr Core.Expr Core.Program Puzzle.PuzzleBase Puzzle.SatAbs
     Puzzle.ModelBase Puzzle.ModelLemmas Puzzle.Rules_norinori Puzzle.Norinori
     Puzzle.Rules_putteria Puzzle.Putteria.
Import ListNotations.
Local Open Scope nat_scope.

Lemma holds_not_both en i j :
  holds no_graph en (not_both i j) = negb (eb en i) || negb (eb en j).
Proof. unfold holds, not_both. simpl. destruct (eb en i), (eb en j); reflexivity. Qed.
Lemma holds_nand en i j :
  holds no_graph en (nand i j) = negb (eb en i && eb en j).
Proof. unfold holds, nand. simpl. destruct (eb en i), (eb en j); reflexivity. Qed.

Lemma nbr4_right h w y x : S x < w -> In (y, S x) (nbr4 h w y x).
Proof.
  intros H. unfold nbr4. rewrite !in_app_iff. right; right; right.
  apply Nat.ltb_lt in H. rewrite H. left; reflexivity.
Qed.
Lemma nbr4_down h w y x : S y < h -> In (S y, x) (nbr4 h w y x).
Proof.
  intros H. unfold nbr4. rewrite !in_app_iff. right; left.
  apply Nat.ltb_lt in H. rewrite H. left; reflexivity.
Qed.
Lemma nbr4_cases h w y x y' x' :
  In (y', x') (nbr4 h w y x) ->
  (0 < y /\ y' = y - 1 /\ x' = x) \/ (S y < h /\ y' = S y /\ x' = x) \/
  (0 < x /\ y' = y /\ x' = x - 1) \/ (S x < w /\ y' = y /\ x' = S x).
Proof.
  unfold nbr4. rewrite !in_app_iff. intros [H|[H|[H|H]]].
  - destruct (Nat.ltb 0 y) eqn:E; simpl in H; [|contradiction].
    destruct H as [H|[]]. inversion H; subst. apply Nat.ltb_lt in E. left. auto.
  - destruct (Nat.ltb (S y) h) eqn:E; simpl in H; [|contradiction].
    destruct H as [H|[]]. inversion H; subst. apply Nat.ltb_lt in E. right; left. auto.
  - destruct (Nat.ltb 0 x) eqn:E; simpl in H; [|contradiction].
    destruct H as [H|[]]. inversion H; subst. apply Nat.ltb_lt in E. right; right; left. auto.
  - destruct (Nat.ltb (S x) w) eqn:E; simpl in H; [|contradiction].
    destruct H as [H|[]]. inversion H; subst. apply Nat.ltb_lt in E. right; right; right. auto.
Qed.

(* "no marked cell has a marked orthogonal neighbour" = "no two cells adjacent in a
   row are both marked, and no two cells adjacent in a column are" *)
Lemma adjacent_equiv h w (f : nat * nat -> bool) :
  forallb (fun '(y, x) => negb (f (y, x)) || negb (existsb f (nbr4 h w y x))) (cells h w) =
  forallb (fun '(y, x) => negb (f (y, x)) || negb (f (y, S x))) (cells h (w - 1)) &&
  forallb (fun '(y, x) => negb (f (y, x)) || negb (f (S y, x))) (cells (h - 1) w).
Proof.
  apply eq_true_iff_eq. rewrite andb_true_iff, !forallb_forall. split.
  - intros H. split; intros [y x] Hc; apply cells_in in Hc; destruct Hc as [Hy Hx].
    + destruct (f (y, x)) eqn:E; [|reflexivity]. simpl.
      assert (Hc : In (y, x) (cells h w)) by (apply cells_in; lia).
      specialize (H _ Hc). simpl in H. rewrite E in H. simpl in H.
      destruct (f (y, S x)) eqn:E2; [|reflexivity]. exfalso.
      apply negb_true_iff in H. 
      assert (Hex : existsb f (nbr4 h w y x) = true).
      { apply existsb_exists. exists (y, S x). split; [apply nbr4_right; lia|assumption]. }
      congruence.
    + destruct (f (y, x)) eqn:E; [|reflexivity]. simpl.
      assert (Hc : In (y, x) (cells h w)) by (apply cells_in; lia).
      specialize (H _ Hc). simpl in H. rewrite E in H. simpl in H.
      destruct (f (S y, x)) eqn:E2; [|reflexivity]. exfalso.
      apply negb_true_iff in H.
      assert (Hex : existsb f (nbr4 h w y x) = true).
      { apply existsb_exists. exists (S y, x). split; [apply nbr4_down; lia|assumption]. }
      congruence.
  - intros [H1 H2] [y x] Hc. apply cells_in in Hc. destruct Hc as [Hy Hx].
    destruct (f (y, x)) eqn:E; [|reflexivity]. simpl.
    apply negb_true_iff. destruct (existsb f (nbr4 h w y x)) eqn:Ex; [|reflexivity]. exfalso.
    apply existsb_exists in Ex. destruct Ex as [[y' x'] [Hin Hf]].
    destruct (nbr4_cases _ _ _ _ _ _ Hin) as [[Hp [? ?]]|[[Hp [? ?]]|[[Hp [? ?]]|[Hp [? ?]]]]]; subst.
    + assert (Hc : In (y - 1, x) (cells (h - 1) w)) by (apply cells_in; lia).
      specialize (H2 _ Hc). simpl in H2. replace (S (y - 1)) with y in H2 by lia.
      rewrite Hf, E in H2. discriminate.
    + assert (Hc : In (y, x) (cells (h - 1) w)) by (apply cells_in; lia).
      specialize (H2 _ Hc). simpl in H2. rewrite Hf, E in H2. discriminate.
    + assert (Hc : In (y, x - 1) (cells h (w - 1))) by (apply cells_in; lia).
      specialize (H1 _ Hc). simpl in H1. replace (S (x - 1)) with x in H1 by lia.
      rewrite Hf, E in H1. discriminate.
    + assert (Hc : In (y, x) (cells h (w - 1))) by (apply cells_in; lia).
      specialize (H1 _ Hc). simpl in H1. rewrite Hf, E in H1. discriminate.
Qed.

(* "two marked cells in one row or column never carry the same size" = the loops
   over x1 < x2 in each row and y1 < y2 in each column *)
Lemma pairs_equiv h w (f : nat * nat -> bool) (size : nat * nat -> nat) :
  forallb (fun '(y, x) => forallb (fun '(y', x') =>
     negb (f (y, x) && f (y', x') && (Nat.eqb y y' || Nat.eqb x x') && negb (Nat.eqb y y' && Nat.eqb x x')) ||
     negb (Nat.eqb (size (y, x)) (size (y', x')))) (cells h w)) (cells h w) =
  forallb (fun y => forallb (fun x1 => forallb (fun x2 =>
     if Nat.eqb (size (y, x1)) (size (y, x2)) then negb (f (y, x1) && f (y, x2)) else true)
     (seq (S x1) (w - S x1))) (seq 0 w)) (seq 0 h) &&
  forallb (fun x => forallb (fun y1 => forallb (fun y2 =>
     if Nat.eqb (size (y1, x)) (size (y2, x)) then negb (f (y1, x) && f (y2, x)) else true)
     (seq (S y1) (h - S y1))) (seq 0 h)) (seq 0 w).
Proof.
  apply eq_true_iff_eq. rewrite andb_true_iff, !forallb_forall. split.
  - intros H. split.
    + intros y Hy. apply forallb_forall. intros x1 Hx1. apply forallb_forall. intros x2 Hx2.
      apply in_seq in Hy. apply in_seq in Hx1. apply in_seq in Hx2.
      destruct (Nat.eqb (size (y, x1)) (size (y, x2))) eqn:Es; [|reflexivity].
      assert (Hc1 : In (y, x1) (cells h w)) by (apply cells_in; lia).
      assert (Hc2 : In (y, x2) (cells h w)) by (apply cells_in; lia).
      specialize (H _ Hc1). simpl in H. rewrite forallb_forall in H. specialize (H _ Hc2). simpl in H.
      rewrite Es, Nat.eqb_refl in H. simpl in H.
      replace (Nat.eqb x1 x2) with false in H by (symmetry; apply Nat.eqb_neq; lia).
      simpl in H. rewrite !andb_true_r, orb_false_r in H. exact H.
    + intros x Hx. apply forallb_forall. intros y1 Hy1. apply forallb_forall. intros y2 Hy2.
      apply in_seq in Hx. apply in_seq in Hy1. apply in_seq in Hy2.
      destruct (Nat.eqb (size (y1, x)) (size (y2, x))) eqn:Es; [|reflexivity].
      assert (Hc1 : In (y1, x) (cells h w)) by (apply cells_in; lia).
      assert (Hc2 : In (y2, x) (cells h w)) by (apply cells_in; lia).
      specialize (H _ Hc1). simpl in H. rewrite forallb_forall in H. specialize (H _ Hc2). simpl in H.
      rewrite Es, Nat.eqb_refl in H. simpl in H.
      replace (Nat.eqb y1 y2) with false in H by (symmetry; apply Nat.eqb_neq; lia).
      simpl in H. rewrite !andb_true_r, orb_false_r in H. exact H.
  - intros [H1 H2] [y x] Hc. apply forallb_forall. intros [y' x'] Hc'.
    apply cells_in in Hc. apply cells_in in Hc'.
    destruct (Nat.eqb (size (y, x)) (size (y', x'))) eqn:Es; [|apply orb_true_r].
    simpl. rewrite orb_false_r. apply negb_true_iff.
    destruct (f (y, x)) eqn:F1; [|reflexivity]. destruct (f (y', x')) eqn:F2; [|reflexivity]. simpl.
    destruct (Nat.eqb y y') eqn:Ey; destruct (Nat.eqb x x') eqn:Ex; simpl; try reflexivity; exfalso.
    + (* same row *)
      apply Nat.eqb_eq in Ey. subst y'. apply Nat.eqb_neq in Ex.
      assert (Hy : In y (seq 0 h)) by (apply in_seq; lia).
      specialize (H1 y Hy). rewrite forallb_forall in H1.
      destruct (Nat.lt_ge_cases x x') as [Hlt|Hge].
      * assert (Hx1 : In x (seq 0 w)) by (apply in_seq; lia).
        specialize (H1 x Hx1). rewrite forallb_forall in H1.
        assert (Hx2 : In x' (seq (S x) (w - S x))) by (apply in_seq; lia).
        specialize (H1 x' Hx2). rewrite Es, F1, F2 in H1. discriminate.
      * assert (Hx1 : In x' (seq 0 w)) by (apply in_seq; lia).
        specialize (H1 x' Hx1). rewrite forallb_forall in H1.
        assert (Hx2 : In x (seq (S x') (w - S x'))) by (apply in_seq; lia).
        specialize (H1 x Hx2). rewrite Nat.eqb_sym in Es. rewrite Es, F1, F2 in H1. discriminate.
    + (* same column *)
      apply Nat.eqb_eq in Ex. subst x'. apply Nat.eqb_neq in Ey.
      assert (Hx : In x (seq 0 w)) by (apply in_seq; lia).
      specialize (H2 x Hx). rewrite forallb_forall in H2.
      destruct (Nat.lt_ge_cases y y') as [Hlt|Hge].
      * assert (Hy1 : In y (seq 0 h)) by (apply in_seq; lia).
        specialize (H2 y Hy1). rewrite forallb_forall in H2.
        assert (Hy2 : In y' (seq (S y) (h - S y))) by (apply in_seq; lia).
        specialize (H2 y' Hy2). rewrite Es, F1, F2 in H2. discriminate.
      * assert (Hy1 : In y' (seq 0 h)) by (apply in_seq; lia).
        specialize (H2 y' Hy1). rewrite forallb_forall in H2.
        assert (Hy2 : In y (seq (S y') (h - S y'))) by (apply in_seq; lia).
        specialize (H2 y Hy2). rewrite Nat.eqb_sym in Es. rewrite Es, F1, F2 in H2. discriminate.
Qed.

Lemma forallb_ext {A} (f g : A -> bool) l : (forall x, f x = g x) -> forallb f l = forallb g l.
Proof. intros H. apply forallb_ext_in. intros; apply H. Qed.

Lemma putteria_core h w region en :
  rules_putteria [[Z.of_nat h; Z.of_nat w]; region] (map (fun i => b2z (eb en i)) (seq 0 (h * w))) =
  satisfies no_graph en (bool_grid_state (h * w) (putteria_constraints h w region)).
Proof.
  unfold rules_putteria.
  replace (dim [[Z.of_nat h; Z.of_nat w]; region] 0) with h by (unfold dim, zn, getz, sec; simpl; rewrite Nat2Z.id; reflexivity).
  replace (dim [[Z.of_nat h; Z.of_nat w]; region] 1) with w by (unfold dim, zn, getz, sec; simpl; rewrite Nat2Z.id; reflexivity).
  change (sec [[Z.of_nat h; Z.of_nat w]; region] 1) with region.
  set (ans := map (fun i => b2z (eb en i)) (seq 0 (h * w))).
  set (f := fun c : nat * nat => eb en (cidx w c)).
  set (size := putteria_size h w region).
  assert (Hhas : forall y x, y < h -> x < w -> isb (at2 ans w y x) = f (y, x)).
  { intros y x Hy Hx. unfold at2, ans, f. rewrite getz_map_seq by (apply (cidx_lt h w y x); assumption).
    apply b2z_isb. }
  replace (Nat.eqb (length ans) (h * w)) with true
    by (unfold ans; rewrite map_length, seq_length; symmetry; apply Nat.eqb_refl).
  replace (forallb is01 ans) with true
    by (unfold ans; rewrite forallb_map; symmetry; apply forallb_forall; intros; apply is01_b2z).
  cbn [andb].
  (* adjacency, stated with f *)
  replace (forallb (fun '(y, x) => negb (isb (at2 ans w y x)) ||
              negb (existsb (fun '(y0, x0) => isb (at2 ans w y0 x0)) (nbr4 h w y x))) (cells h w))
    with (forallb (fun '(y, x) => negb (f (y, x)) || negb (existsb f (nbr4 h w y x))) (cells h w)).
  2:{ apply forallb_ext_in. intros [y x] Hc. apply cells_in in Hc. destruct Hc as [Hy Hx].
      rewrite (Hhas y x Hy Hx). f_equal. f_equal.
      destruct (existsb f (nbr4 h w y x)) eqn:E.
      - symmetry. apply existsb_exists. apply existsb_exists in E. destruct E as [[y' x'] [Hin Hf]].
        exists (y', x'). split; [assumption|]. destruct (nbr4_in h w y x y' x' Hy Hx Hin). rewrite Hhas; assumption.
      - symmetry. apply not_true_is_false. intros E'. apply existsb_exists in E'. destruct E' as [[y' x'] [Hin Hf]].
        destruct (nbr4_in h w y x y' x' Hy Hx Hin). rewrite Hhas in Hf by assumption.
        assert (existsb f (nbr4 h w y x) = true) by (apply existsb_exists; eauto). congruence. }
  rewrite adjacent_equiv.
  (* pairs, stated with f and size *)
  replace (forallb (fun '(y, x) => forallb (fun '(y', x') =>
              negb (isb (at2 ans w y x) && isb (at2 ans w y' x') && (Nat.eqb y y' || Nat.eqb x x') &&
                    negb (Nat.eqb y y' && Nat.eqb x x')) ||
              negb (Nat.eqb (count (fun '(y'0, x'0) => (at2 region w y'0 x'0 =? at2 region w y x)%Z) (cells h w))
                            (count (fun '(y'0, x'0) => (at2 region w y'0 x'0 =? at2 region w y' x')%Z) (cells h w))))
              (cells h w)) (cells h w))
    with (forallb (fun '(y, x) => forallb (fun '(y', x') =>
              negb (f (y, x) && f (y', x') && (Nat.eqb y y' || Nat.eqb x x') && negb (Nat.eqb y y' && Nat.eqb x x')) ||
              negb (Nat.eqb (size (y, x)) (size (y', x')))) (cells h w)) (cells h w)).
  2:{ apply forallb_ext_in. intros [y x] Hc. apply cells_in in Hc. destruct Hc as [Hy Hx].
      apply forallb_ext_in. intros [y' x'] Hc'. apply cells_in in Hc'. destruct Hc' as [Hy' Hx'].
      rewrite (Hhas y x Hy Hx), (Hhas y' x' Hy' Hx'). reflexivity. }
  rewrite pairs_equiv.
  (* the posted program *)
  unfold satisfies, bool_grid_state, putteria_constraints. cbn [Program.cons]. fold size.
  rewrite !forallb_app, !forallb_map, !forallb_flat_map.
  set (A1 := forallb _ (cells h (w - 1))). set (A2 := forallb _ (cells (h - 1) w)).
  set (A1' := forallb _ (cells h (w - 1))). set (A2' := forallb _ (cells (h - 1) w)).
  assert (E1 : A1 = A1').
  { apply forallb_ext. intros [y x]. rewrite holds_not_both. reflexivity. }
  assert (E2 : A2 = A2').
  { apply forallb_ext. intros [y x]. rewrite holds_not_both. reflexivity. }
  set (R := forallb _ (seq 0 (n_regions region))). set (R' := forallb _ (seq 0 (n_regions region))).
  assert (ER : R = R').
  { apply forallb_ext. intros i.
    rewrite holds_ct_eq. change 1%Z with (Z.of_nat 1). rewrite znat_eqb. f_equal.
    unfold region_cells. rewrite count_map, count_filter.
    apply count_ext_in. intros [y x] Hc. apply cells_in in Hc. destruct Hc as [Hy Hx].
    rewrite (Hhas y x Hy Hx). reflexivity. }
  set (P1 := forallb _ (seq 0 h)). set (P2 := forallb _ (seq 0 w)).
  set (P1' := forallb _ (seq 0 h)). set (P2' := forallb _ (seq 0 w)).
  assert (EP1 : P1 = P1').
  { apply forallb_ext. intros y. rewrite forallb_flat_map. apply forallb_ext. intros x1.
    rewrite forallb_flat_map. apply forallb_ext. intros x2.
    destruct (Nat.eqb (size (y, x1)) (size (y, x2))); [|reflexivity].
    simpl. rewrite holds_nand, andb_true_r. reflexivity. }
  assert (EP2 : P2 = P2').
  { apply forallb_ext. intros x. rewrite forallb_flat_map. apply forallb_ext. intros y1.
    rewrite forallb_flat_map. apply forallb_ext. intros y2.
    destruct (Nat.eqb (size (y1, x)) (size (y2, x))); [|reflexivity].
    simpl. rewrite holds_nand, andb_true_r. reflexivity. }
  rewrite E1, E2, ER, EP1, EP2.
  destruct A1', A2', R', P1', P2'; reflexivity.
Qed.

Theorem putteria_exact h w region st ans :
  solve_putteria_model [[Z.of_nat h; Z.of_nat w]; region] = Ok st ->
  ((exists en, model_of no_graph en st /\ reads st en (seq 0 (h * w)) = ans)
   <-> rules_putteria [[Z.of_nat h; Z.of_nat w]; region] ans = true).
Proof.
  unfold solve_putteria_model.
  replace (dim [[Z.of_nat h; Z.of_nat w]; region] 0) with h by (unfold dim, zn, getz, sec; simpl; rewrite Nat2Z.id; reflexivity).
  replace (dim [[Z.of_nat h; Z.of_nat w]; region] 1) with w by (unfold dim, zn, getz, sec; simpl; rewrite Nat2Z.id; reflexivity).
  change (sec [[Z.of_nat h; Z.of_nat w]; region] 1) with region.
  intros H. inversion H; subst st; clear H.
  apply bool_grid_exact.
  - intros en. apply putteria_core.
  - intros a Ha. unfold rules_putteria in Ha.
    replace (dim [[Z.of_nat h; Z.of_nat w]; region] 0) with h in Ha by (unfold dim, zn, getz, sec; simpl; rewrite Nat2Z.id; reflexivity).
    replace (dim [[Z.of_nat h; Z.of_nat w]; region] 1) with w in Ha by (unfold dim, zn, getz, sec; simpl; rewrite Nat2Z.id; reflexivity).
    repeat (apply andb_true_iff in Ha; destruct Ha as [Ha ?]).
    apply Nat.eqb_eq in Ha. split; assumption.
Qed.
