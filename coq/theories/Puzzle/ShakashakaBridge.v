(* C11 Tier 1 - shakashaka, part 7: from the vocabulary of Rules_shakashaka.v (quarter indices, quarter_graph,
   component) and of the local test (sk_vstate) to the geometric setting of ShakashakaGeo.v. *)
From Coq Require Import ZArith List Bool Arith Lia.
From Cspuz Require Import Graph.GraphModel Graph.ReachProofs Puzzle.PuzzleBase Puzzle.ModelBase Puzzle.ModelLemmas
     Puzzle.Rules_shakashaka Puzzle.Shakashaka Puzzle.ShakashakaSem Puzzle.ShakashakaGeo.
Import ListNotations.
Local Open Scope nat_scope.

Lemma div4 c q : q < 4 -> Nat.div (4 * c + q) 4 = c /\ Nat.modulo (4 * c + q) 4 = q.
Proof.
  intros Hq. split.
  - symmetry. apply (Nat.div_unique (4 * c + q) 4 c q); lia.
  - symmetry. apply (Nat.mod_unique (4 * c + q) 4 c q); lia.
Qed.
Lemma divw w y x : x < w -> Nat.div (y * w + x) w = y /\ Nat.modulo (y * w + x) w = x.
Proof.
  intros Hx. split.
  - symmetry. apply (Nat.div_unique (y * w + x) w y x); lia.
  - symmetry. apply (Nat.mod_unique (y * w + x) w y x); lia.
Qed.

Section Bridge.
  Variables (h w : nat) (wc : nat -> bool) (ans : list Z).
  Hypothesis Hrange : range_rule ans = true.

  Lemma ans_range k : (0 <= getz ans k <= 4)%Z.
  Proof.
    unfold getz. destruct (Nat.lt_ge_cases k (length ans)) as [L|G].
    - unfold range_rule in Hrange. rewrite forallb_forall in Hrange.
      specialize (Hrange (nth k ans 0%Z) (nth_In _ _ L)). apply andb_true_iff in Hrange.
      destruct Hrange as [A B]. apply Z.leb_le in A. apply Z.leb_le in B. lia.
    - rewrite nth_overflow by lia. lia.
  Qed.

  (* the board as a function on Z x Z *)
  Definition cstZ (y x : Z) : nat :=
    if ((0 <=? y) && (y <? Z.of_nat h) && (0 <=? x) && (x <? Z.of_nat w))%Z
    then let k := Z.to_nat y * w + Z.to_nat x in if wc k then Z.to_nat (getz ans k) else 5
    else 5.

  Lemma cstZ_le y x : cstZ y x <= 5.
  Proof.
    unfold cstZ. destruct ((0 <=? y) && (y <? Z.of_nat h) && (0 <=? x) && (x <? Z.of_nat w))%Z; [|lia].
    cbv zeta. destruct (wc _); [|lia]. pose proof (ans_range (Z.to_nat y * w + Z.to_nat x)). lia.
  Qed.
  Lemma cstZ_out y x : ~ (0 <= y < Z.of_nat h /\ 0 <= x < Z.of_nat w)%Z -> cstZ y x = 5.
  Proof.
    intros H. unfold cstZ.
    destruct (Z.leb_spec 0 y), (Z.ltb_spec y (Z.of_nat h)), (Z.leb_spec 0 x), (Z.ltb_spec x (Z.of_nat w)); cbn [andb]; try reflexivity; lia.
  Qed.
  Lemma cstZ_in (y x : nat) : y < h -> x < w ->
    cstZ (Z.of_nat y) (Z.of_nat x) = if wc (y * w + x) then Z.to_nat (getz ans (y * w + x)) else 5.
  Proof.
    intros Hy Hx. unfold cstZ.
    destruct (Z.leb_spec 0 (Z.of_nat y)), (Z.ltb_spec (Z.of_nat y) (Z.of_nat h)), (Z.leb_spec 0 (Z.of_nat x)), (Z.ltb_spec (Z.of_nat x) (Z.of_nat w)); try lia.
    cbn [andb]. cbv zeta. rewrite !Nat2Z.id. reflexivity.
  Qed.

  (* ---- the local test *)
  Lemma vok_ext s s' : (forall k, k < 4 -> s k = s' k) -> vok s = vok s'.
  Proof.
    intros H. unfold vok. f_equal.
    - apply forallb_ext_in. intros i Hi. apply in_seq in Hi.
      assert (D : forall j, j < 8 -> Nat.div j 2 < 4) by (intros j Hj; apply Nat.div_lt_upper_bound; lia).
      assert (V1 : fst (vnext i) < 8) by (unfold vnext; destruct (Nat.even i); cbn [fst]; apply Nat.mod_upper_bound; lia).
      assert (V2 : snd (vnext i) < 8) by (unfold vnext; destruct (Nat.even i); cbn [snd]; apply Nat.mod_upper_bound; lia).
      rewrite !H by (apply D; lia). reflexivity.
    - f_equal. f_equal. apply count_ext_in. intros k Hk. apply in_seq in Hk. rewrite H by lia. reflexivity.
  Qed.


  Lemma sk_state_some y' x' : y' < h -> x' < w ->
    sk_state w wc (getz ans) (Some (y', x')) = cstZ (Z.of_nat y') (Z.of_nat x').
  Proof. intros Hy Hx. rewrite cstZ_in by assumption. reflexivity. Qed.

  Lemma vstate_cstZ (y x : nat) k : y <= h -> x <= w -> k < 4 ->
    sk_vstate h w wc (getz ans) y x k =
    match k with
    | 0 => cstZ (Z.of_nat y - 1) (Z.of_nat x - 1)
    | 1 => cstZ (Z.of_nat y) (Z.of_nat x - 1)
    | 2 => cstZ (Z.of_nat y) (Z.of_nat x)
    | _ => cstZ (Z.of_nat y - 1) (Z.of_nat x)
    end.
  Proof.
    intros Hy Hx Hk. unfold sk_vstate, sk_sector.
    destruct k as [|[|[|[|k]]]]; try lia.
    - destruct (Nat.ltb_spec 0 y), (Nat.ltb_spec 0 x); cbn [andb];
        try (cbn [sk_state]; rewrite cstZ_out by lia; reflexivity).
      rewrite sk_state_some by lia. f_equal; lia.
    - destruct (Nat.ltb_spec y h), (Nat.ltb_spec 0 x); cbn [andb];
        try (cbn [sk_state]; rewrite cstZ_out by lia; reflexivity).
      rewrite sk_state_some by lia. f_equal; lia.
    - destruct (Nat.ltb_spec y h), (Nat.ltb_spec x w); cbn [andb];
        try (cbn [sk_state]; rewrite cstZ_out by lia; reflexivity).
      rewrite sk_state_some by lia. reflexivity.
    - destruct (Nat.ltb_spec 0 y), (Nat.ltb_spec x w); cbn [andb];
        try (cbn [sk_state]; rewrite cstZ_out by lia; reflexivity).
      rewrite sk_state_some by lia. f_equal; lia.
  Qed.

  Lemma vok_vstate (y x : nat) : y <= h -> x <= w ->
    vok (sk_vstate h w wc (getz ans) y x) =
    vok4 (cstZ (Z.of_nat y - 1) (Z.of_nat x - 1)) (cstZ (Z.of_nat y) (Z.of_nat x - 1))
         (cstZ (Z.of_nat y) (Z.of_nat x)) (cstZ (Z.of_nat y - 1) (Z.of_nat x)).
  Proof.
    intros Hy Hx. unfold vok4. apply vok_ext. intros k Hk. rewrite vstate_cstZ by assumption.
    destruct k as [|[|[|[|k]]]]; try lia; reflexivity.
  Qed.

  Lemma local_ok_Lok : local_ok h w wc (getz ans) = true <-> Lok cstZ.
  Proof.
    unfold local_ok. rewrite forallb_forall. split.
    - intros H yu yd xl xr -> ->.
      destruct (Z_le_dec 0 yd), (Z_le_dec yd (Z.of_nat h)), (Z_le_dec 0 xr), (Z_le_dec xr (Z.of_nat w));
        try (rewrite !cstZ_out by lia; reflexivity).
      specialize (H (Z.to_nat yd, Z.to_nat xr) ltac:(apply cells_in; lia)). cbn [fst snd] in H.
      rewrite vok_vstate in H by lia. rewrite !Z2Nat.id in H by lia. exact H.
    - intros HL [y x] Hc. apply cells_in in Hc. cbn [fst snd]. rewrite vok_vstate by lia. apply HL; lia.
  Qed.

  (* ---- quarters: indices and coordinates *)
  Definition dec (n : nat) : quarter :=
    (Z.of_nat (Nat.div (Nat.div n 4) w), Z.of_nat (Nat.modulo (Nat.div n 4) w), Nat.modulo n 4).
  Definition enc (y x q : nat) : nat := 4 * (y * w + x) + q.
  Definition encZ (t : quarter) : nat := enc (Z.to_nat (fst (fst t))) (Z.to_nat (snd (fst t))) (snd t).

  Lemma dec_enc y x q : x < w -> q < 4 -> dec (enc y x q) = (Z.of_nat y, Z.of_nat x, q).
  Proof.
    intros Hx Hq. unfold dec, enc. destruct (div4 (y * w + x) q Hq) as [-> ->].
    destruct (divw w y x Hx) as [-> ->]. reflexivity.
  Qed.
  Lemma enc_lt y x q : y < h -> x < w -> q < 4 -> enc y x q < 4 * (h * w).
  Proof. intros. unfold enc. nia. Qed.
  Lemma enc_dec n : n < 4 * (h * w) ->
    enc (Nat.div (Nat.div n 4) w) (Nat.modulo (Nat.div n 4) w) (Nat.modulo n 4) = n /\
    Nat.div (Nat.div n 4) w < h /\ Nat.modulo (Nat.div n 4) w < w /\ Nat.modulo n 4 < 4.
  Proof.
    intros Hn. assert (Hw : 0 < w) by (destruct w; lia).
    pose proof (Nat.div_mod n 4 ltac:(lia)) as E1. pose proof (Nat.div_mod (Nat.div n 4) w ltac:(lia)) as E2.
    pose proof (Nat.mod_upper_bound n 4 ltac:(lia)) as B1. pose proof (Nat.mod_upper_bound (Nat.div n 4) w ltac:(lia)) as B2.
    assert (B3 : Nat.div n 4 < h * w) by (apply Nat.div_lt_upper_bound; lia).
    assert (B4 : Nat.div (Nat.div n 4) w < h) by (apply Nat.div_lt_upper_bound; lia).
    unfold enc. repeat split; lia.
  Qed.
  Lemma dec_board n : n < 4 * (h * w) ->
    (0 <= fst (fst (dec n)) < Z.of_nat h)%Z /\ (0 <= snd (fst (dec n)) < Z.of_nat w)%Z /\ snd (dec n) < 4.
  Proof. intros Hn. destruct (enc_dec n Hn) as [_ [A [B D]]]. unfold dec. cbn [fst snd]. lia. Qed.
  Lemma encZ_dec n : n < 4 * (h * w) -> encZ (dec n) = n.
  Proof. intros Hn. unfold encZ, dec. cbn [fst snd]. rewrite !Nat2Z.id. apply (enc_dec n Hn). Qed.
  Lemma dec_encZ t : (0 <= fst (fst t) < Z.of_nat h)%Z -> (0 <= snd (fst t) < Z.of_nat w)%Z -> snd t < 4 ->
    dec (encZ t) = t /\ encZ t < 4 * (h * w).
  Proof.
    destruct t as [[y x] q]. cbn [fst snd]. intros Hy Hx Hq. unfold encZ. cbn [fst snd]. split.
    - rewrite dec_enc by lia. rewrite !Z2Nat.id by lia. reflexivity.
    - apply enc_lt; lia.
  Qed.
  Lemma dec_inj n m : n < 4 * (h * w) -> m < 4 * (h * w) -> dec n = dec m -> n = m.
  Proof. intros Hn Hm E. rewrite <- (encZ_dec n Hn), <- (encZ_dec m Hm), E. reflexivity. Qed.

  (* ---- white quarters *)
  Lemma covers_cov z q : (0 <= z <= 4)%Z -> q < 4 -> covers z q = cov (Z.to_nat z) q.
  Proof.
    intros Hz Hq. assert (z = 0 \/ z = 1 \/ z = 2 \/ z = 3 \/ z = 4)%Z as [->|[->|[->|[->| ->]]]] by lia;
      destruct q as [|[|[|[|q]]]]; try lia; reflexivity.
  Qed.
  Lemma white_white_board t : white cstZ t ->
    (0 <= fst (fst t) < Z.of_nat h)%Z /\ (0 <= snd (fst t) < Z.of_nat w)%Z /\ snd t < 4.
  Proof.
    destruct t as [[y x] q]. intros [Hq Hw]. cbn [fst snd].
    destruct (Z_le_dec 0 y), (Z_lt_dec y (Z.of_nat h)), (Z_le_dec 0 x), (Z_lt_dec x (Z.of_nat w)); try lia;
      unfold wq in Hw; rewrite cstZ_out in Hw by lia; discriminate.
  Qed.
  Lemma wq_bridge n : n < 4 * (h * w) -> white_quarter wc ans n = wqt cstZ (dec n).
  Proof.
    intros Hn. destruct (enc_dec n Hn) as [E [A [B D]]].
    unfold white_quarter, dec. cbn [wqt]. unfold wq. rewrite cstZ_in by assumption.
    assert (Ev : Nat.div (Nat.div n 4) w * w + Nat.modulo (Nat.div n 4) w = Nat.div n 4).
    { assert (Hw : 0 < w) by (destruct w; lia). pose proof (Nat.div_mod (Nat.div n 4) w ltac:(lia)). lia. }
    rewrite Ev. destruct (wc (Nat.div n 4)); [|reflexivity]. cbn [andb].
    rewrite covers_cov by (try apply ans_range; exact D). reflexivity.
  Qed.
  Lemma wq_white n : n < 4 * (h * w) -> (white_quarter wc ans n = true <-> white cstZ (dec n)).
  Proof.
    intros Hn. rewrite (wq_bridge n Hn). destruct (dec_board n Hn) as [_ [_ D]].
    destruct (dec n) as [[y x] q]. cbn in *. tauto.
  Qed.
End Bridge.

(* ---- the quarter graph: edges = adjacency of quarters; reachability *)
Section Bridge2.
  Variables (h w : nat) (wc : nat -> bool) (ans : list Z).
  Hypothesis Hrange : range_rule ans = true.
  Notation g := (quarter_graph h w).
  Notation cst := (cstZ h w wc ans).
  Notation wqf := (white_quarter wc ans).
  Notation N := (4 * (h * w)).
  Notation dec := (dec w).
  Notation enc := (enc w).

  Lemma qg_edge n m :
    In (n, m) (edges g) <->
    exists y x, y < h /\ x < w /\
      ((n, m) = (enc y x 0, enc y x 1) \/ (n, m) = (enc y x 1, enc y x 2) \/ (n, m) = (enc y x 2, enc y x 3) \/
       (n, m) = (enc y x 3, enc y x 0) \/
       (S y < h /\ (n, m) = (enc y x 2, enc (S y) x 0)) \/ (S x < w /\ (n, m) = (enc y x 1, enc y (S x) 3))).
  Proof.
    unfold quarter_graph. cbn [edges]. rewrite in_flat_map. unfold ShakashakaBridge.enc. split.
    - intros [[y x] [Hc Hin]]. apply cells_in in Hc. exists y, x. split; [tauto|]. split; [tauto|].
      rewrite !in_app_iff in Hin. cbn [In] in Hin.
      replace (4 * (y * w + x) + 0) with (4 * (y * w + x)) by lia.
      replace (4 * (S y * w + x) + 0) with (4 * (S y * w + x)) by lia.
      destruct Hin as [[E|[E|[E|[E|[]]]]]|[Hin|Hin]]; try (inversion E; subst; tauto).
      + destruct (Nat.ltb_spec (S y) h); cbn [In] in Hin; [|contradiction].
        destruct Hin as [E|[]]. inversion E; subst. right. right. right. right. left. tauto.
      + destruct (Nat.ltb_spec (S x) w); cbn [In] in Hin; [|contradiction].
        destruct Hin as [E|[]]. inversion E; subst. right. right. right. right. right. tauto.
    - intros [y [x [Hy [Hx Hin]]]]. exists (y, x). split; [apply cells_in; tauto|].
      rewrite !in_app_iff. cbn [In].
      replace (4 * (y * w + x) + 0) with (4 * (y * w + x)) in Hin by lia.
      replace (4 * (S y * w + x) + 0) with (4 * (S y * w + x)) in Hin by lia.
      destruct Hin as [E|[E|[E|[E|[[L E]|[L E]]]]]]; inversion E; subst.
      + left. tauto.
      + left. tauto.
      + left. tauto.
      + left. tauto.
      + right. left. destruct (Nat.ltb_spec (S y) h); [left; reflexivity|lia].
      + right. right. destruct (Nat.ltb_spec (S x) w); [left; reflexivity|lia].
  Qed.

  Lemma edge_adj n m : In (n, m) (edges g) -> n < N /\ m < N /\ qadj (dec n) (dec m).
  Proof.
    intros H. apply qg_edge in H. destruct H as [y [x [Hy [Hx H]]]].
    assert (A : forall q, q < 4 -> qadj (Z.of_nat y, Z.of_nat x, q) (Z.of_nat y, Z.of_nat x, Nat.modulo (q + 1) 4)).
    { intros q Hq. apply adj_next. exact Hq. }
    destruct H as [E|[E|[E|[E|[[L E]|[L E]]]]]]; inversion E; subst;
      (split; [apply enc_lt; lia|split; [apply enc_lt; lia|]]); rewrite !dec_enc by lia.
    - apply (A 0). lia.
    - apply (A 1). lia.
    - apply (A 2). lia.
    - apply (A 3). lia.
    - rewrite Nat2Z.inj_succ. unfold Z.succ. apply adj_down.
    - rewrite Nat2Z.inj_succ. unfold Z.succ. apply adj_right.
  Qed.

  Lemma qadj_edge y x q y' x' q' :
    y < h -> x < w -> q < 4 -> y' < h -> x' < w -> q' < 4 ->
    qadj (Z.of_nat y, Z.of_nat x, q) (Z.of_nat y', Z.of_nat x', q') ->
    In (enc y x q, enc y' x' q') (edges g) \/ In (enc y' x' q', enc y x q) (edges g).
  Proof.
    intros Hy Hx Hq Hy' Hx' Hq' A.
    inversion A; subst.
    - assert (y' = y) by lia. assert (x' = x) by lia. subst y' x'.
      left. apply qg_edge. exists y, x. split; [lia|]. split; [lia|].
      destruct q as [|[|[|[|q]]]]; try lia; cbn; tauto.
    - assert (y' = y) by lia. assert (x' = x) by lia. subst y' x'.
      right. apply qg_edge. exists y, x. split; [lia|]. split; [lia|].
      destruct q as [|[|[|[|q]]]]; try lia; cbn; tauto.
    - assert (x' = x) by lia. assert (y = S y') by lia. subst x' y.
      right. apply qg_edge. exists y', x. split; [lia|]. split; [lia|]. right. right. right. right. left. split; [lia|reflexivity].
    - assert (x' = x) by lia. assert (y' = S y) by lia. subst x' y'.
      left. apply qg_edge. exists y, x. split; [lia|]. split; [lia|]. right. right. right. right. left. split; [lia|reflexivity].
    - assert (y' = y) by lia. assert (x = S x') by lia. subst y' x.
      right. apply qg_edge. exists y, x'. split; [lia|]. split; [lia|]. right. right. right. right. right. split; [lia|reflexivity].
    - assert (y' = y) by lia. assert (x' = S x) by lia. subst y' x'.
      left. apply qg_edge. exists y, x. split; [lia|]. split; [lia|]. right. right. right. right. right. split; [lia|reflexivity].
  Qed.

  Lemma qg_wf : wf_graph g = true.
  Proof.
    unfold wf_graph. apply forallb_forall. intros [a b] H. apply edge_adj in H. destruct H as [A [B _]].
    cbn [nv quarter_graph]. apply andb_true_iff. split; apply Nat.ltb_lt; assumption.
  Qed.

  Lemma nbrs_edges n m : In m (nbrs g all_edges_ok n) <-> (In (n, m) (edges g) \/ In (m, n) (edges g)).
  Proof.
    rewrite nbrs_spec. split.
    - intros [k [_ [H|H]]]; apply nth_error_In in H; tauto.
    - intros [H|H]; apply In_nth_error in H; destruct H as [k H]; exists k; (split; [reflexivity|tauto]).
  Qed.
  Lemma nbrs_adj n m : In m (nbrs g all_edges_ok n) -> n < N /\ m < N /\ qadj (dec n) (dec m).
  Proof.
    intros H. apply nbrs_edges in H. destruct H as [H|H]; apply edge_adj in H; destruct H as [A [B C]].
    - tauto.
    - split; [exact B|]. split; [exact A|]. apply qadj_sym. exact C.
  Qed.
  Lemma adj_nbrs n m : n < N -> m < N -> qadj (dec n) (dec m) -> In m (nbrs g all_edges_ok n).
  Proof.
    intros Hn Hm A. destruct (enc_dec h w n Hn) as [En [A1 [A2 A3]]]. destruct (enc_dec h w m Hm) as [Em [B1 [B2 B3]]].
    apply nbrs_edges. rewrite <- En, <- Em. apply qadj_edge; try assumption.
  Qed.

  Lemma reach_qreach s n :
    s < N -> reach g wqf all_edges_ok s n -> n < N /\ qreach cst (dec s) (dec n).
  Proof.
    intros Hs H. induction H as [v Hv|u v x H IH Hn Hx].
    - split; [exact Hs|]. apply qr_refl. apply (wq_white h w wc ans Hrange v Hs). exact Hv.
    - destruct (IH Hs) as [Lv Rv]. destruct (nbrs_adj v x Hn) as [_ [Lx A]]. split; [exact Lx|].
      eapply qr_step; [exact Rv|exact A|]. apply (wq_white h w wc ans Hrange x Lx). exact Hx.
  Qed.
  Lemma qreach_reach s : s < N -> forall t, qreach cst (dec s) t -> forall n, n < N -> dec n = t -> reach g wqf all_edges_ok s n.
  Proof.
    intros Hs t H. induction H as [Ws|t t' H IH A Wt'].
    - intros n Hn E. apply (dec_inj h w n s Hn Hs) in E. subst n. apply reach_refl.
      apply (wq_white h w wc ans Hrange s Hs). exact Ws.
    - intros n' Hn' E'. pose proof (qreach_end _ _ _ H) as Wt.
      destruct (white_white_board h w wc ans t Wt) as [B1 [B2 B3]].
      destruct (dec_encZ h w t B1 B2 B3) as [Et Lt].
      eapply reach_step; [apply (IH (encZ w t) Lt Et)| |].
      + apply adj_nbrs; [exact Lt|exact Hn'|]. rewrite Et, E'. exact A.
      + apply (wq_white h w wc ans Hrange n' Hn'). rewrite E'. exact Wt'.
  Qed.

  Theorem component_qreach s n :
    s < N -> (In n (component g wqf all_edges_ok s) <-> (n < N /\ qreach cst (dec s) (dec n))).
  Proof.
    intros Hs. rewrite (component_spec g wqf all_edges_ok s n qg_wf Hs). split.
    - apply reach_qreach. exact Hs.
    - intros [Hn H]. apply (qreach_reach s Hs _ H n Hn eq_refl).
  Qed.
End Bridge2.
