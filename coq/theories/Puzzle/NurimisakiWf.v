(* C11: the program of solve_nurimisaki is well formed on every board; composition with C02 (solve_reports). *)
From Coq Require Import ZArith List Bool Arith Lia.
From Cspuz Require Import Lib.PyErr Core.Expr Core.Program Graph.GraphModel Graph.Avc
     Backend.Z3 Backend.Z3Oracle Backend.Z3SolveProofs Backend.SolveLoop Backend.SolveZ3Proofs
     Puzzle.PuzzleBase Puzzle.ModelBase Puzzle.ModelLemmas Puzzle.SatAbs Puzzle.SolveCompose Puzzle.WfLemmas
     Puzzle.Akari Puzzle.AkariWf Puzzle.Rules_nurimisaki Puzzle.Nurimisaki Puzzle.NurimisakiProofs.
Import ListNotations.
Local Open Scope nat_scope.

Section M.
  Variables h w : nat.
  Let vs := repeat DBool (h * w).

  Lemma ok_wv y x : y < h -> x < w -> ok vs true (wv w (y, x)) = true.
  Proof. intros Hy Hx. unfold wv. apply ok_cell; assumption. Qed.

  Lemma ok_wv_inside l : inside h w l -> forallb (ok vs true) (map (wv w) l) = true.
  Proof. intros H. rewrite forallb_map. apply forallb_In. intros [y x] Hc. apply H in Hc. simpl in Hc. apply ok_wv; tauto. Qed.

  Lemma inside_firstn k l : inside h w l -> inside h w (firstn k l).
  Proof.
    intros H c Hc. apply H. rewrite <- (firstn_skipn k l). apply in_or_app. left. exact Hc.
  Qed.
  Lemma inside_rev l : inside h w l -> inside h w (rev l).
  Proof. intros H c Hc. apply H. apply in_rev. exact Hc. Qed.

  Lemma misaki_candidate_ok y x k d asc : forallb (ok vs true) (misaki_candidate h w y x k d asc) = true.
  Proof.
    unfold misaki_candidate. cbv zeta.
    set (r := ray h w y x (fst d) (snd d)).
    assert (Hr : inside h w r) by apply inside_ray.
    assert (Hops : forallb (ok vs true) (map (wv w) (if asc then firstn k r else rev (firstn k r))) = true).
    { apply ok_wv_inside. destruct asc; [|apply inside_rev]; apply inside_firstn; exact Hr. }
    destruct (Nat.eqb k (length r)).
    - cbn [forallb]. rewrite ok_and, Hops. reflexivity.
    - destruct (Nat.ltb k (length r)) eqn:E; [|reflexivity]. apply Nat.ltb_lt in E.
      cbn [forallb]. rewrite ok_and, forallb_app, Hops. cbn [forallb]. rewrite ok_not.
      pose proof (Hr _ (nth_In r (0, 0) E)) as Hn. destruct (nth k r (0, 0)) as [y' x']. simpl in Hn.
      rewrite ok_wv by tauto. reflexivity.
  Qed.

  Lemma misaki_candidates_ok y x c : forallb (ok vs true) (misaki_candidates h w y x c) = true.
  Proof.
    unfold misaki_candidates. destruct (c =? 1)%Z; [reflexivity|]. cbv zeta.
    rewrite !forallb_app, !misaki_candidate_ok. reflexivity.
  Qed.

  Lemma ok_fold_or_nodes l : forallb (ok vs true) l = true -> ok vs true (fold_or_nodes l) = true.
  Proof. intros H. unfold fold_or_nodes. destruct l; [reflexivity|]. rewrite ok_or. exact H. Qed.

  Lemma misaki_cell_ok grid y x : y < h -> x < w -> forallb (ok vs true) (misaki_cell h w grid (y, x)) = true.
  Proof.
    intros Hy Hx. unfold misaki_cell. cbv zeta.
    assert (Hnb : ok vs false (ct_vars (map (cidx w) (nbr4 h w y x))) = true).
    { apply ok_ct_inside. apply inside_nbr4; assumption. }
    destruct (at2 grid w y x <? 0)%Z.
    - autorewrite with okdb. rewrite Hnb, ok_wv by assumption. reflexivity.
    - cbn [forallb]. rewrite ok_wv by assumption. autorewrite with okdb. rewrite Hnb.
      destruct (at2 grid w y x =? 0)%Z; [reflexivity|]. cbn [forallb].
      rewrite ok_fold_or_nodes; [reflexivity|apply misaki_candidates_ok].
  Qed.

  Lemma nurimisaki_constraints_ok grid : forallb (ok vs true) (nurimisaki_constraints h w grid) = true.
  Proof.
    unfold nurimisaki_constraints. rewrite !forallb_app, !forallb_map, forallb_flat_map.
    repeat (apply andb_true_intro; split).
    - apply forallb_cells. intros y x Hy Hx. unfold block_or. autorewrite with okdb.
      rewrite !ok_wv by lia. reflexivity.
    - apply forallb_cells. intros y x Hy Hx. unfold block_nand. autorewrite with okdb.
      rewrite !ok_wv by lia. reflexivity.
    - apply forallb_cells. intros y x Hy Hx. apply misaki_cell_ok; assumption.
  Qed.
End M.

Lemma nurimisaki_model_shape pb st : solve_nurimisaki_model pb = Ok st ->
  (wf_state st /\ wf_keys st) /\ exists r, keys st = repeat true (dim pb 0 * dim pb 1) ++ r.
Proof.
  unfold solve_nurimisaki_model. set (h := dim pb 0). set (w := dim pb 1).
  destruct (existsb _ _); [discriminate|].
  destruct (post_avc _ _ _ false false) as [st1|] eqn:E; [|discriminate].
  intros H. inversion H; subst st; clear H.
  destruct (post_avc_wf _ _ _ _ _ E) as [WK [Hv Hk]].
  - reflexivity.
  - unfold wf_keys; simpl. rewrite !repeat_length. reflexivity.
  - simpl. apply ok_grid_vars.
  - split.
    + eapply wf_ensure_prefix; [exact WK|exact Hv|]. simpl. apply nurimisaki_constraints_ok.
    + eexists. simpl. rewrite Hk. reflexivity.
Qed.

Lemma nurimisaki_model_wf pb st : solve_nurimisaki_model pb = Ok st -> wf_state st /\ wf_keys st.
Proof. intros H. exact (proj1 (nurimisaki_model_shape pb st H)). Qed.

Theorem nurimisaki_solve_reports : forall oracle, oracle_sound_on oracle -> oracle_complete_on oracle ->
  forall h w grid st,
  solve_nurimisaki_model [[Z.of_nat h; Z.of_nat w]; grid] = Ok st ->
  solve_reports oracle st (seq 0 (h * w)) (rules_nurimisaki [[Z.of_nat h; Z.of_nat w]; grid]).
Proof.
  intros oracle Os Oc h w grid st Hst.
  apply (solve_reports_intro oracle gsem_avc); try assumption.
  - exact (nurimisaki_model_wf _ _ Hst).
  - destruct (nurimisaki_model_shape _ _ Hst) as [_ [r Hk]]. rewrite dim2_0, dim2_1 in Hk. rewrite Hk.
    intros i. apply keys_prefix.
  - intros ans. exact (nurimisaki_exact h w grid st ans Hst).
Qed.
