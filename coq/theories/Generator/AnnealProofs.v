(* C19 — proofs about the generate_problem state machine (Generator/Anneal.v):
   soundness of the returned problem and reachability of every problem that is
   handed to the solver. *)
From Coq Require Import ZArith List Bool Lia.
From Cspuz Require Import Lib.PyErr Generator.XorShift Generator.Anneal.
Import ListNotations.
Open Scope Z_scope.

Section AnnealProofs.
  Variables P A W : Type.
  Variable solver : P -> W -> option A * W.
  Variable uniqueness : A -> W -> bool * W.
  Variable score : A -> W -> Z * W.
  Variable pretest : option (P -> W -> bool * W).
  Variable clue_penalty : option (P -> W -> Z * W).
  Variable accept : nat -> Z -> Z -> Z -> bool.
  Variable neighbours : P -> R (list P).

  Notation try_neighbours := (try_neighbours P A W solver uniqueness score pretest clue_penalty accept).
  Notation steps := (steps P A W solver uniqueness score pretest clue_penalty accept neighbours).
  Notation generate := (generate P A W solver uniqueness score pretest clue_penalty accept neighbours).

  (* "the solver reported p satisfiable and the uniqueness test accepted its answer",
     as the last two callback calls before the world state w_end; the pretest (when
     given) let p through just before *)
  Definition accepted (p : P) (w_end : W) : Prop :=
    exists w0 w1 w2 ans,
      match pretest with
      | None => w0 = w1
      | Some f => f p w0 = (true, w1)
      end /\
      solver p w1 = (Some ans, w2) /\ uniqueness ans w2 = (true, w_end).

  Definition solved_in (tr : list (event P)) (p : P) : Prop := exists sat, In (EvSolve p sat) tr.

  Lemma try_neighbours_found step cs : forall ns e p e',
    try_neighbours step cs ns e = Found p e' ->
    In p ns /\ accepted p (e_world e') /\
    exists tr, e_trace e' = e_trace e ++ tr ++ [EvSolve p true] /\
               forall q, solved_in tr q -> In q ns.
  Proof.
    induction ns as [|q rest IH]; intros e p e' H; cbn [Anneal.try_neighbours] in H; [discriminate|].
    destruct (match pretest with None => (true, e_world e) | Some f => f q (e_world e) end) as [pass w1] eqn:EP.
    destruct pass; cbn [negb] in H.
    2:{ apply IH in H. destruct H as (Hin & Hacc & tr & Htr & Hq). cbn [e_trace] in Htr.
        split; [right; exact Hin|]. split; [exact Hacc|]. exists tr. split; [exact Htr|].
        intros q' Hq'. right. apply Hq; exact Hq'. }
    destruct (solver q w1) as [r w2] eqn:ES.
    destruct r as [ans|].
    2:{ apply IH in H. destruct H as (Hin & Hacc & tr & Htr & Hq). cbn [e_trace] in Htr.
        split; [right; exact Hin|]. split; [exact Hacc|].
        exists (EvSolve q false :: tr). split.
        - rewrite Htr, <- app_assoc. reflexivity.
        - intros q' [sat [Hq'|Hq']].
          + inversion Hq'; subst. left; reflexivity.
          + right. apply Hq. exists sat; exact Hq'. }
    destruct (uniqueness ans w2) as [u w3] eqn:EU.
    destruct u.
    { inversion H; subst. cbn [e_world e_trace].
      split; [left; reflexivity|]. split.
      - exists (e_world e), w1, w2, ans. split; [|split; assumption].
        destruct pretest; [exact EP|]. inversion EP; reflexivity.
      - exists []. split; [reflexivity|]. intros q' [sat []]. }
    destruct (score ans w3) as [base w4] eqn:ESc.
    destruct (penalty_of P W clue_penalty q w4) as [pen w5] eqn:EPn.
    destruct (match cs with
              | None => (true, e_rng e)
              | Some c => if c <=? base - pen then (true, e_rng e)
                          else let '(x, s') := next (e_rng e) in (accept step c (base - pen) x, s')
              end) as [update s'] eqn:EUp.
    destruct update; [discriminate|].
    apply IH in H. destruct H as (Hin & Hacc & tr & Htr & Hq). cbn [e_trace] in Htr.
    split; [right; exact Hin|]. split; [exact Hacc|].
    exists (EvSolve q true :: tr). split.
    - rewrite Htr, <- app_assoc. reflexivity.
    - intros q' [sat [Hq'|Hq']].
      + inversion Hq'; subst. left; reflexivity.
      + right. apply Hq. exists sat; exact Hq'.
  Qed.

  (* the trace only grows, and everything added was offered by the neighbour list *)
  Lemma try_neighbours_trace step cs : forall ns e,
    let r := try_neighbours step cs ns e in
    let e' := match r with Found _ e' | Moved _ _ e' | Exhausted e' => e' end in
    (exists tr, e_trace e' = e_trace e ++ tr /\ forall q, solved_in tr q -> In q ns) /\
    match r with Found p _ | Moved p _ _ => In p ns | Exhausted _ => True end.
  Proof.
    induction ns as [|q rest IH]; intros e; cbn [Anneal.try_neighbours].
    - split; [|exact I]. exists []. split; [rewrite app_nil_r; reflexivity|]. intros q' [sat []].
    - destruct (match pretest with None => (true, e_world e) | Some f => f q (e_world e) end) as [pass w1] eqn:EP.
      destruct pass; cbn [negb].
      2:{ specialize (IH (mkenv w1 (e_rng e) (e_trace e))). cbn zeta in IH.
          destruct IH as [(tr & Htr & Hq) Hr]. cbn [e_trace] in Htr. split.
          - exists tr. split; [exact Htr|]. intros q' Hq'. right. apply Hq; exact Hq'.
          - destruct (try_neighbours step cs rest (mkenv w1 (e_rng e) (e_trace e))); auto; right; exact Hr. }
      destruct (solver q w1) as [r w2] eqn:ES.
      destruct r as [ans|].
      2:{ specialize (IH (mkenv w2 (e_rng e) (e_trace e ++ [EvSolve q false]))). cbn zeta in IH.
          destruct IH as [(tr & Htr & Hq) Hr]. cbn [e_trace] in Htr. split.
          - exists (EvSolve q false :: tr). split; [rewrite Htr, <- app_assoc; reflexivity|].
            intros q' [sat [Hq'|Hq']]; [inversion Hq'; subst; left; reflexivity|].
            right. apply Hq. exists sat; exact Hq'.
          - destruct (try_neighbours step cs rest _); auto; right; exact Hr. }
      destruct (uniqueness ans w2) as [u w3] eqn:EU.
      destruct u.
      { cbn [e_trace]. split; [|left; reflexivity].
        exists [EvSolve q true]. split; [reflexivity|].
        intros q' [sat [Hq'|[]]]. inversion Hq'; subst. left; reflexivity. }
      destruct (score ans w3) as [base w4] eqn:ESc.
      destruct (penalty_of P W clue_penalty q w4) as [pen w5] eqn:EPn.
      destruct (match cs with
                | None => (true, e_rng e)
                | Some c => if c <=? base - pen then (true, e_rng e)
                            else let '(x, s') := next (e_rng e) in (accept step c (base - pen) x, s')
                end) as [update s'] eqn:EUp.
      destruct update.
      { cbn [e_trace]. split; [|left; reflexivity].
        exists [EvSolve q true]. split; [reflexivity|].
        intros q' [sat [Hq'|[]]]. inversion Hq'; subst. left; reflexivity. }
      specialize (IH (mkenv w5 s' (e_trace e ++ [EvSolve q true]))). cbn zeta in IH.
      destruct IH as [(tr & Htr & Hq) Hr]. cbn [e_trace] in Htr. split.
      + exists (EvSolve q true :: tr). split; [rewrite Htr, <- app_assoc; reflexivity|].
        intros q' [sat [Hq'|Hq']]; [inversion Hq'; subst; left; reflexivity|].
        right. apply Hq. exists sat; exact Hq'.
      + destruct (try_neighbours step cs rest _); auto; right; exact Hr.
  Qed.

  (* problems reachable from the initial one through neighbour lists *)
  Inductive reachable (p0 : P) : P -> Prop :=
    | reach_init : reachable p0 p0
    | reach_step cur s ns s' q :
        reachable p0 cur -> neighbours cur s = Done ns s' -> In q ns -> reachable p0 q.

  (* q is offered as a neighbour of a reachable current problem *)
  Definition offered (p0 q : P) : Prop :=
    exists cur s ns s', reachable p0 cur /\ neighbours cur s = Done ns s' /\ In q ns.

  Lemma steps_sound p0 : forall n step cur cs e r e',
    reachable p0 cur ->
    steps n step cur cs e = Finished r e' ->
    (forall p, r = Some p -> offered p0 p /\ accepted p (e_world e') /\
                             exists tr, e_trace e' = tr ++ [EvSolve p true]) /\
    exists tr, e_trace e' = e_trace e ++ tr /\ forall q, solved_in tr q -> offered p0 q.
  Proof.
    induction n as [|n IH]; intros step cur cs e r e' Hreach H; cbn [Anneal.steps] in H.
    - inversion H; subst. split; [intros p Hp; discriminate|].
      exists []. split; [rewrite app_nil_r; reflexivity|]. intros q [sat []].
    - destruct (neighbours cur (e_rng e)) as [ns s1| |] eqn:EN; try discriminate.
      pose proof (try_neighbours_trace step cs ns (mkenv (e_world e) s1 (e_trace e))) as HT.
      cbn zeta in HT.
      assert (Hoff : forall q, In q ns -> offered p0 q).
      { intros q Hq. exists cur, (e_rng e), ns, s1. auto. }
      destruct (try_neighbours step cs ns (mkenv (e_world e) s1 (e_trace e))) as [q e1|q sc e1|e1] eqn:ET.
      + inversion H; subst.
        apply try_neighbours_found in ET. destruct ET as (Hin & Hacc & tr & Htr & Hq). cbn [e_trace] in Htr.
        split.
        * intros p Hp. inversion Hp; subst. split; [apply Hoff; exact Hin|]. split; [exact Hacc|].
          exists (e_trace e ++ tr). rewrite Htr, app_assoc. reflexivity.
        * exists (tr ++ [EvSolve q true]). split; [exact Htr|].
          intros q' [sat Hq']. apply in_app_or in Hq'. destruct Hq' as [Hq'|[Hq'|[]]].
          -- apply Hoff. apply Hq. exists sat; exact Hq'.
          -- inversion Hq'; subst. apply Hoff; exact Hin.
      + destruct HT as [(tr & Htr & Hq) Hin]. cbn [e_trace] in Htr.
        assert (Hr' : reachable p0 q) by (eapply reach_step; eauto).
        specialize (IH (S step) q (Some sc) e1 r e' Hr' H). destruct IH as [IH1 (tr2 & Htr2 & Hq2)].
        split; [exact IH1|].
        exists (tr ++ tr2). split; [rewrite Htr2, Htr, app_assoc; reflexivity|].
        intros q' [sat Hq']. apply in_app_or in Hq'. destruct Hq' as [Hq'|Hq'].
        * apply Hoff. apply Hq. exists sat; exact Hq'.
        * apply Hq2. exists sat; exact Hq'.
      + destruct HT as [(tr & Htr & Hq) _]. cbn [e_trace] in Htr.
        specialize (IH (S step) cur cs e1 r e' Hreach H). destruct IH as [IH1 (tr2 & Htr2 & Hq2)].
        split; [exact IH1|].
        exists (tr ++ tr2). split; [rewrite Htr2, Htr, app_assoc; reflexivity|].
        intros q' [sat Hq']. apply in_app_or in Hq'. destruct Hq' as [Hq'|Hq'].
        * apply Hoff. apply Hq. exists sat; exact Hq'.
        * apply Hq2. exists sat; exact Hq'.
  Qed.

  (* generate_problem: a returned problem was offered by the neighbour generator from a
     reachable problem, was the argument of the last solver call, which reported it
     satisfiable, and the uniqueness test accepted that answer; every problem ever
     handed to the solver is the initial one or was offered in the same way *)
  Theorem generate_sound initial max_steps solve_initial w0 s0 r e :
    generate initial max_steps solve_initial w0 s0 = Finished r e ->
    (forall p, r = Some p ->
        offered initial p /\ accepted p (e_world e) /\ exists tr, e_trace e = tr ++ [EvSolve p true]) /\
    (forall q, solved_in (e_trace e) q -> q = initial \/ offered initial q).
  Proof.
    unfold Anneal.generate.
    set (n := match max_steps with Some n => n | None => DEFAULT_MAX_STEPS end).
    destruct solve_initial.
    - destruct (solver initial w0) as [r0 w1] eqn:ES. destruct r0 as [ans|].
      + destruct (score ans w1) as [base w2]. destruct (penalty_of P W clue_penalty initial w2) as [pen w3].
        intros H. apply steps_sound with (p0 := initial) in H; [|constructor].
        destruct H as [H1 (tr & Htr & Hq)]. cbn [e_trace] in Htr. split; [exact H1|].
        intros q [sat Hq']. rewrite Htr in Hq'. destruct Hq' as [Hq'|Hq'].
        * inversion Hq'; left; reflexivity.
        * right. apply Hq. exists sat; exact Hq'.
      + intros H; inversion H; subst. split; [intros p Hp; discriminate|].
        cbn [e_trace]. intros q [sat [Hq'|[]]]. inversion Hq'; left; reflexivity.
    - intros H. apply steps_sound with (p0 := initial) in H; [|constructor].
      destruct H as [H1 (tr & Htr & Hq)]. cbn [e_trace] in Htr. split; [exact H1|].
      intros q Hq'. right. apply Hq. rewrite Htr in Hq'. exact Hq'.
  Qed.
End AnnealProofs.
