(* C12 — model of cspuz/array.py::_elementwise, of every operator / then / cond /
   fold_* method of the four array classes and of BoolExpr / IntExpr, of
   cspuz/constraints.py::cond / then, and of CPython's binary-operator and
   rich-comparison protocol restricted to the classes involved.
   [Err NotImplementedErr] stands for the Python value NotImplemented being
   *returned*.  No proofs in this file. *)
From Coq Require Import ZArith List Bool.
From Cspuz Require Import Lib.PyErr Core.Expr Core.Build.
Import ListNotations.
Open Scope Z_scope.
Open Scope res_scope.

(* ------------------------------------------------------------------ values *)

Inductive kind := KB | KI.                        (* Bool* / Int* array class *)
Inductive shape := S1 (n : Z) | S2 (h w : Z).     (* the tuple Array.shape *)

Inductive pyval :=
  | VE (e : expr)                                 (* scalar: literal, None, variable, BoolExpr, IntExpr *)
  | VA (k : kind) (sh : shape) (data : list expr). (* BoolArray1D/2D, IntArray1D/2D *)

Definition kind_eqb (a b : kind) : bool :=
  match a, b with KB, KB | KI, KI => true | _, _ => false end.

Definition shape_eqb (a b : shape) : bool :=
  match a, b with
  | S1 n, S1 m => n =? m
  | S2 h w, S2 h' w' => (h =? h') && (w =? w')
  | _, _ => false
  end.

Definition shape_size (sh : shape) : Z :=
  match sh with S1 n => n | S2 h w => h * w end.

Definition zlen {A} (l : list A) : Z := Z.of_nat (length l).

(* what the constructors Array1D / Array2D(data, shape) guarantee *)
Definition wf_val (v : pyval) : bool :=
  match v with
  | VE _ => true
  | VA _ (S1 n) d => n =? zlen d
  | VA _ (S2 h w) d => (0 <=? h) && (0 <=? w) && (h * w =? zlen d)
  end.

(* array.py::_is_bool_like / _is_int_like  (bool is excluded from int-like) *)
Definition is_bool_like (v : pyval) : bool :=
  match v with
  | VE e => is_bool_expr_like e
  | VA KB _ _ => true
  | VA KI _ _ => false
  end.
Definition is_int_like (v : pyval) : bool :=
  match v with
  | VE e => is_int_expr_like e
  | VA KI _ _ => true
  | VA KB _ _ => false
  end.

(* -------------------------------------------------------------- _elementwise *)

(* the type table; None = "unknown operator" (ValueError) *)
Definition elem_typecheck (o : op) (ops : list pyval) : option bool :=
  match o with
  | EQ | NE | LE | LT | GE | GT | ADD | SUB =>
      Some (Nat.eqb (length ops) 2 && forallb is_int_like ops)
  | AND | OR | IFF | XOR | IMP =>
      Some (Nat.eqb (length ops) 2 && forallb is_bool_like ops)
  | NOT => Some (match ops with [a] => is_bool_like a | _ => false end)
  | NEG => Some (match ops with [a] => is_int_like a | _ => false end)
  | ALLDIFF => Some (forallb is_int_like ops)
  | IF => Some (match ops with
                | [c; t; f] => is_bool_like c && is_int_like t && is_int_like f
                | _ => false
                end)
  | _ => None
  end.

Definition shape_ok (sh : shape) (v : pyval) : bool :=
  match v with VE _ => true | VA _ s _ => shape_eqb s sh end.

(* operand j at position i: operand.data[i] for arrays, the scalar itself otherwise *)
Definition operand_at (i : nat) (v : pyval) : res expr :=
  match v with
  | VE e => Ok e
  | VA _ _ d => match nth_error d i with Some e => Ok e | None => Err IndexError end
  end.

Definition mk_node (o : op) (args : list expr) : expr :=
  if is_bool_op o then BNode o args else INode o args.

Definition kind_of_op (o : op) : kind := if is_bool_op o then KB else KI.

Definition elementwise (o : op) (sh : shape) (ops : list pyval) : res pyval :=
  match elem_typecheck o ops with
  | None => Err ValueError
  | Some false => Err NotImplementedErr
  | Some true =>
      if negb (forallb (shape_ok sh) ops) then Err ValueError
      else
        let* data := mapM (fun i => let* args := mapM (operand_at i) ops in Ok (mk_node o args))
                          (seq 0 (Z.to_nat (shape_size sh))) in
        match sh with
        | S1 _ => Ok (VA (kind_of_op o) (S1 (zlen data)) data)
        | S2 h w => if zlen data =? h * w then Ok (VA (kind_of_op o) sh data) else Err ValueError
        end
  end.

(* ------------------------------------------- expr.py::_make_*_expr on pyvals *)

Fixpoint scalars (l : list pyval) : option (list expr) :=
  match l with
  | [] => Some []
  | VE e :: r => match scalars r with Some r' => Some (e :: r') | None => None end
  | VA _ _ _ :: _ => None
  end.

(* an array operand fails every isinstance test of _make_bool_expr / _make_int_expr *)
Definition make_bool_v (o : op) (args : list pyval) : res pyval :=
  match scalars args with
  | Some es => rmap VE (make_bool_expr o es)
  | None => if is_bool_op o then Err NotImplementedErr else Err ValueError
  end.
Definition make_int_v (o : op) (args : list pyval) : res pyval :=
  match scalars args with
  | Some es => rmap VE (make_int_expr o es)
  | None => if is_int_op o then Err NotImplementedErr else Err ValueError
  end.

(* "if r is NotImplemented: <alt>" *)
Definition if_ni (r alt : res pyval) : res pyval :=
  match r with Err NotImplementedErr => alt | _ => r end.

Definition ni_to_typeerror (r : res pyval) : res pyval := if_ni r (Err TypeError).

(* ------------------------------------------ constraints.py::cond / then *)

Definition bool_array_shape (v : pyval) : option shape :=
  match v with VA KB sh _ => Some sh | _ => None end.
Definition int_array_shape (v : pyval) : option shape :=
  match v with VA KI sh _ => Some sh | _ => None end.

Definition fn_cond (c t f : pyval) : res pyval :=
  match bool_array_shape c, int_array_shape t, int_array_shape f with
  | Some sh, _, _ | None, Some sh, _ | None, None, Some sh =>
      ni_to_typeerror (elementwise IF sh [c; t; f])
  | None, None, None => ni_to_typeerror (make_int_v IF [c; t; f])
  end.

Definition fn_then (x y : pyval) : res pyval :=
  match bool_array_shape x, bool_array_shape y with
  | Some sh, _ | None, Some sh => ni_to_typeerror (elementwise IMP sh [x; y])
  | None, None => ni_to_typeerror (make_bool_v IMP [x; y])
  end.

(* expr.py::BoolExpr.cond / BoolExpr.then *)
Definition is_int_expr_like_v (v : pyval) : bool :=
  match v with VE e => is_int_expr_like e | _ => false end.
Definition is_bool_expr_like_v (v : pyval) : bool :=
  match v with VE e => is_bool_expr_like e | _ => false end.

Definition expr_cond (self t f : pyval) : res pyval :=
  if is_int_expr_like_v t && is_int_expr_like_v f
  then ni_to_typeerror (make_int_v IF [self; t; f])
  else ni_to_typeerror (fn_cond self t f).

Definition expr_then (self other : pyval) : res pyval :=
  if is_bool_expr_like_v other
  then ni_to_typeerror (make_bool_v IMP [self; other])
  else ni_to_typeerror (fn_then self other).

(* ------------------------------------------------------------ method tables *)

Inductive mclass := CBoolExpr | CIntExpr | CBoolArray1D | CIntArray1D | CBoolArray2D | CIntArray2D.

Inductive mname :=
  | m_cond | m_then | m_invert | m_and | m_rand | m_or | m_ror | m_eq | m_ne | m_xor | m_rxor
  | m_fold_or | m_fold_and | m_count_true
  | m_neg | m_add | m_radd | m_sub | m_rsub | m_ge | m_gt | m_le | m_lt | m_alldifferent.

Inductive marg := MSelf | MArg (n : nat).

(* the body shapes the method definitions have *)
Inductive body :=
  | BElem (o : op) (args : list marg)       (* return _elementwise(Op.o, self.shape, [..]) *)
  | BElemTE (o : op) (args : list marg)     (* res = _elementwise(..); if res is NotImplemented: raise TypeError; return res *)
  | BMakeBool (o : op) (args : list marg)   (* return _make_bool_expr(Op.o, [..]) *)
  | BMakeInt (o : op) (args : list marg)    (* return _make_int_expr(Op.o, [..]) *)
  | BNodeData (o : op)                      (* return BoolExpr(Op.o, self.data) *)
  | BReturnSelf                             (* return self *)
  | BCountTrueData                          (* return cspuz.constraints.count_true(self.data) *)
  | BSelfCond (t f : Z)                     (* return self.cond(t, f) *)
  | BExprCond                               (* the body of BoolExpr.cond *)
  | BExprThen.                              (* the body of BoolExpr.then *)

Definition mclass_code (c : mclass) : nat :=
  match c with CBoolExpr => 0 | CIntExpr => 1 | CBoolArray1D => 2 | CIntArray1D => 3
             | CBoolArray2D => 4 | CIntArray2D => 5 end%nat.
Definition mname_code (m : mname) : nat :=
  match m with
  | m_cond => 0 | m_then => 1 | m_invert => 2 | m_and => 3 | m_rand => 4 | m_or => 5 | m_ror => 6
  | m_eq => 7 | m_ne => 8 | m_xor => 9 | m_rxor => 10 | m_fold_or => 11 | m_fold_and => 12
  | m_count_true => 13 | m_neg => 14 | m_add => 15 | m_radd => 16 | m_sub => 17 | m_rsub => 18
  | m_ge => 19 | m_gt => 20 | m_le => 21 | m_lt => 22 | m_alldifferent => 23
  end%nat.

Definition bool_array_methods : list (mname * body) :=
  [ (m_cond, BElemTE IF [MSelf; MArg 0; MArg 1]);
    (m_then, BElemTE IMP [MSelf; MArg 0]);
    (m_invert, BElem NOT [MSelf]);
    (m_and, BElem AND [MSelf; MArg 0]);
    (m_rand, BElem AND [MArg 0; MSelf]);
    (m_or, BElem OR [MSelf; MArg 0]);
    (m_ror, BElem OR [MArg 0; MSelf]);
    (m_eq, BElem IFF [MSelf; MArg 0]);
    (m_ne, BElem XOR [MSelf; MArg 0]);
    (m_xor, BElem XOR [MSelf; MArg 0]);
    (m_rxor, BElem XOR [MArg 0; MSelf]);
    (m_fold_or, BNodeData OR);
    (m_fold_and, BNodeData AND);
    (m_count_true, BCountTrueData) ].

Definition int_array_methods : list (mname * body) :=
  [ (m_neg, BElem NEG [MSelf]);
    (m_add, BElem ADD [MSelf; MArg 0]);
    (m_radd, BElem ADD [MArg 0; MSelf]);
    (m_sub, BElem SUB [MSelf; MArg 0]);
    (m_rsub, BElem SUB [MArg 0; MSelf]);
    (m_eq, BElem EQ [MSelf; MArg 0]);
    (m_ne, BElem NE [MSelf; MArg 0]);
    (m_ge, BElem GE [MSelf; MArg 0]);
    (m_gt, BElem GT [MSelf; MArg 0]);
    (m_le, BElem LE [MSelf; MArg 0]);
    (m_lt, BElem LT [MSelf; MArg 0]);
    (m_alldifferent, BNodeData ALLDIFF) ].

Definition bool_expr_methods : list (mname * body) :=
  [ (m_cond, BExprCond);
    (m_then, BExprThen);
    (m_invert, BMakeBool NOT [MSelf]);
    (m_and, BMakeBool AND [MSelf; MArg 0]);
    (m_rand, BMakeBool AND [MArg 0; MSelf]);
    (m_or, BMakeBool OR [MSelf; MArg 0]);
    (m_ror, BMakeBool OR [MArg 0; MSelf]);
    (m_eq, BMakeBool IFF [MSelf; MArg 0]);
    (m_ne, BMakeBool XOR [MSelf; MArg 0]);
    (m_xor, BMakeBool XOR [MSelf; MArg 0]);
    (m_rxor, BMakeBool XOR [MArg 0; MSelf]);
    (m_fold_or, BReturnSelf);
    (m_fold_and, BReturnSelf);
    (m_count_true, BSelfCond 1 0) ].

Definition int_expr_methods : list (mname * body) :=
  [ (m_neg, BMakeInt NEG [MSelf]);
    (m_add, BMakeInt ADD [MSelf; MArg 0]);
    (m_radd, BMakeInt ADD [MArg 0; MSelf]);
    (m_sub, BMakeInt SUB [MSelf; MArg 0]);
    (m_rsub, BMakeInt SUB [MArg 0; MSelf]);
    (m_eq, BMakeBool EQ [MSelf; MArg 0]);
    (m_ne, BMakeBool NE [MSelf; MArg 0]);
    (m_ge, BMakeBool GE [MSelf; MArg 0]);
    (m_gt, BMakeBool GT [MSelf; MArg 0]);
    (m_le, BMakeBool LE [MSelf; MArg 0]);
    (m_lt, BMakeBool LT [MSelf; MArg 0]) ].

(* the table the model runs on (what the source is expected to say); the table
   regenerated from the source on every run is Gen/DunderTable.v *)
Definition methods_of (c : mclass) : list (mname * body) :=
  match c with
  | CBoolExpr => bool_expr_methods
  | CIntExpr => int_expr_methods
  | CBoolArray1D | CBoolArray2D => bool_array_methods
  | CIntArray1D | CIntArray2D => int_array_methods
  end.

Definition expected_table : list (mclass * mname * body) :=
  flat_map (fun c => map (fun '(m, b) => (c, m, b)) (methods_of c))
           [CBoolExpr; CIntExpr; CBoolArray1D; CIntArray1D; CBoolArray2D; CIntArray2D].

Fixpoint assoc_m (m : mname) (l : list (mname * body)) : option body :=
  match l with
  | [] => None
  | (m', b) :: r => if Nat.eqb (mname_code m) (mname_code m') then Some b else assoc_m m r
  end.

Definition lookup_method (c : mclass) (m : mname) : option body := assoc_m m (methods_of c).

(* ------------------------------------------------------------ running a body *)

Definition shape_of (v : pyval) : option shape :=
  match v with VA _ sh _ => Some sh | VE _ => None end.

Fixpoint margs (self : pyval) (args : list pyval) (l : list marg) : option (list pyval) :=
  match l with
  | [] => Some []
  | a :: r =>
      match (match a with MSelf => Some self | MArg n => nth_error args n end), margs self args r with
      | Some v, Some vs => Some (v :: vs)
      | _, _ => None
      end
  end.

Definition run_body (b : body) (self : pyval) (args : list pyval) : res pyval :=
  match b with
  | BElem o l =>
      match shape_of self, margs self args l with
      | Some sh, Some vs => elementwise o sh vs
      | _, _ => Err OtherError
      end
  | BElemTE o l =>
      match shape_of self, margs self args l with
      | Some sh, Some vs => ni_to_typeerror (elementwise o sh vs)
      | _, _ => Err OtherError
      end
  | BMakeBool o l =>
      match margs self args l with Some vs => make_bool_v o vs | None => Err OtherError end
  | BMakeInt o l =>
      match margs self args l with Some vs => make_int_v o vs | None => Err OtherError end
  | BNodeData o =>
      match self with VA _ _ d => Ok (VE (BNode o d)) | VE _ => Err OtherError end
  | BReturnSelf => Ok self
  | BCountTrueData =>
      match self with VA _ _ d => rmap VE (count_true d) | VE _ => Err OtherError end
  | BSelfCond t f => expr_cond self (VE (PyInt t)) (VE (PyInt f))
  | BExprCond =>
      match args with [t; f] => expr_cond self t f | _ => Err OtherError end
  | BExprThen =>
      match args with [o] => expr_then self o | _ => Err OtherError end
  end.

(* --------------------------------------------- Python classes and the protocol *)

Inductive pycls :=
  | PBool | PInt | PNone                       (* builtins: their operators return NotImplemented on cspuz objects *)
  | PBoolExpr | PBoolVar | PIntExpr | PIntVar
  | PArr (c : mclass).

Definition class_of (v : pyval) : pycls :=
  match v with
  | VE (PyBool _) => PBool
  | VE (PyInt _) => PInt
  | VE PyNone => PNone
  | VE (BVar _) => PBoolVar
  | VE (IVar _ _ _) => PIntVar
  | VE (BNode _ _) => PBoolExpr
  | VE (INode _ _) => PIntExpr
  | VA KB (S1 _) _ => PArr CBoolArray1D
  | VA KI (S1 _) _ => PArr CIntArray1D
  | VA KB (S2 _ _) _ => PArr CBoolArray2D
  | VA KI (S2 _ _) _ => PArr CIntArray2D
  end.

Definition pycls_code (c : pycls) : nat :=
  match c with
  | PBool => 0 | PInt => 1 | PNone => 2 | PBoolExpr => 3 | PBoolVar => 4 | PIntExpr => 5 | PIntVar => 6
  | PArr c => 7 + mclass_code c
  end%nat.
Definition pycls_eqb (a b : pycls) : bool := Nat.eqb (pycls_code a) (pycls_code b).

Definition is_builtin (c : pycls) : bool :=
  match c with PBool | PInt | PNone => true | _ => false end.

(* the class whose __dict__ provides the operator methods (BoolVar / IntVar define none) *)
Definition method_class (c : pycls) : option mclass :=
  match c with
  | PBoolExpr | PBoolVar => Some CBoolExpr
  | PIntExpr | PIntVar => Some CIntExpr
  | PArr c => Some c
  | _ => None
  end.

(* issubclass(b, a) and b is not a *)
Definition proper_subclass (b a : pycls) : bool :=
  match b, a with
  | PBoolVar, PBoolExpr | PIntVar, PIntExpr | PBool, PInt => true
  | _, _ => false
  end.

(* v.m(args...) as the interpreter's slot wrappers see it: a missing method, or a
   builtin on a foreign operand, gives NotImplemented *)
Definition try_method (v : pyval) (m : mname) (args : list pyval) : res pyval :=
  match method_class (class_of v) with
  | None => Err NotImplementedErr
  | Some c =>
      match lookup_method c m with
      | None => Err NotImplementedErr
      | Some b => run_body b v args
      end
  end.

Inductive pyop := OAnd | OOr | OXor | OAdd | OSub | OEq | ONe | OLt | OLe | OGt | OGe.

Definition is_compare (o : pyop) : bool :=
  match o with OEq | ONe | OLt | OLe | OGt | OGe => true | _ => false end.

Definition lname (o : pyop) : mname :=
  match o with
  | OAnd => m_and | OOr => m_or | OXor => m_xor | OAdd => m_add | OSub => m_sub
  | OEq => m_eq | ONe => m_ne | OLt => m_lt | OLe => m_le | OGt => m_gt | OGe => m_ge
  end.
(* reflected (arithmetic) / swapped (comparison) method *)
Definition rname (o : pyop) : mname :=
  match o with
  | OAnd => m_rand | OOr => m_ror | OXor => m_rxor | OAdd => m_radd | OSub => m_rsub
  | OEq => m_eq | ONe => m_ne | OLt => m_gt | OLe => m_ge | OGt => m_lt | OGe => m_le
  end.

(* Objects/typeobject.c SLOT1BINFULL + Objects/abstract.c binary_op1: no class of
   this lattice overrides a reflected method of its base, so the
   "subclass first" rule never fires for the arithmetic operators *)
Definition py_arith (o : pyop) (a b : pyval) : res pyval :=
  if_ni (try_method a (lname o) [b])
        (if pycls_eqb (class_of a) (class_of b) then Err TypeError
         else ni_to_typeerror (try_method b (rname o) [a])).

(* Objects/object.c do_richcompare; [same] is "a is b" *)
Definition py_compare (o : pyop) (same : bool) (a b : pyval) : res pyval :=
  let fwd := try_method a (lname o) [b] in
  let rev := try_method b (rname o) [a] in
  let fallback :=
    match o with
    | OEq => Ok (VE (PyBool same))
    | ONe => Ok (VE (PyBool (negb same)))
    | _ => Err TypeError
    end in
  if proper_subclass (class_of b) (class_of a)
  then if_ni rev (if_ni fwd fallback)
  else if_ni fwd (if_ni rev fallback).

(* a op b for operands of which at least one is a cspuz object *)
Definition py_binop (o : pyop) (same : bool) (a b : pyval) : res pyval :=
  if is_builtin (class_of a) && is_builtin (class_of b) then Err OtherError
  else if is_compare o then py_compare o same a b else py_arith o a b.

Inductive pyunop := UInvert | UNeg.
Definition py_unop (u : pyunop) (a : pyval) : res pyval :=
  if is_builtin (class_of a) then Err OtherError
  else
    match method_class (class_of a) with
    | None => Err TypeError
    | Some c =>
        match lookup_method c (match u with UInvert => m_invert | UNeg => m_neg end) with
        | None => Err TypeError
        | Some b => run_body b a []
        end
    end.

(* x.m(args...) written explicitly by the user (AttributeError is outside the model) *)
Definition call_method (v : pyval) (m : mname) (args : list pyval) : res pyval :=
  match method_class (class_of v) with
  | None => Err OtherError
  | Some c => match lookup_method c m with None => Err OtherError | Some b => run_body b v args end
  end.

(* lookup in a (class, method, body) table, e.g. the generated Gen/DunderTable.v *)
Fixpoint lookup_row (t : list (mclass * mname * body)) (c : mclass) (m : mname) : option body :=
  match t with
  | [] => None
  | (c', m', b) :: r =>
      if Nat.eqb (mclass_code c) (mclass_code c') && Nat.eqb (mname_code m) (mname_code m')
      then Some b else lookup_row r c m
  end.

(* ---------------------------------------------------------------------------
   Interpretation of the tables the translator (harness/pC12.py) reads from the
   source: the isinstance predicates and the type-check chain of _elementwise *)

(* classes named in isinstance tests *)
Inductive dcls := DBoolExpr | DIntExpr | DBool | DInt
                | DBoolArray1D | DBoolArray2D | DIntArray1D | DIntArray2D.

Definition isinstance (c : pycls) (d : dcls) : bool :=
  match d, c with
  | DBoolExpr, (PBoolExpr | PBoolVar) => true
  | DIntExpr, (PIntExpr | PIntVar) => true
  | DBool, PBool => true
  | DInt, (PInt | PBool) => true               (* bool is a subclass of int *)
  | DBoolArray1D, PArr CBoolArray1D => true
  | DBoolArray2D, PArr CBoolArray2D => true
  | DIntArray1D, PArr CIntArray1D => true
  | DIntArray2D, PArr CIntArray2D => true
  | _, _ => false
  end.

(* return isinstance(value, (pos...)) [and not isinstance(value, neg)] *)
Record likedef := { like_pos : list dcls; like_neg : list dcls }.
Definition like_eval (d : likedef) (c : pycls) : bool :=
  existsb (isinstance c) (like_pos d) && negb (existsb (isinstance c) (like_neg d)).

Inductive likename := LBoolLike | LIntLike.
Definition like_fn (p : likename) : pyval -> bool :=
  match p with LBoolLike => is_bool_like | LIntLike => is_int_like end.

Inductive tcrow :=
  | TCAll (ops : list op) (n : option nat) (p : likename)   (* [len(operands) != n or] not all(map(p, operands)) *)
  | TCEach (ops : list op) (ps : list likename).            (* len(operands) != |ps| or not (p0(operands[0]) and ...) *)

Fixpoint each_ok (ps : list likename) (ops : list pyval) : bool :=
  match ps, ops with
  | [], [] => true
  | p :: ps', v :: ops' => like_fn p v && each_ok ps' ops'
  | _, _ => false
  end.

Definition tcrow_ops (r : tcrow) : list op := match r with TCAll o _ _ | TCEach o _ => o end.
Definition tcrow_eval (r : tcrow) (ops : list pyval) : bool :=
  match r with
  | TCAll _ None p => forallb (like_fn p) ops
  | TCAll _ (Some n) p => Nat.eqb (length ops) n && forallb (like_fn p) ops
  | TCEach _ ps => each_ok ps ops
  end.

(* the if / elif chain; falling off the end is "raise ValueError" *)
Fixpoint tc_eval (table : list tcrow) (o : op) (ops : list pyval) : option bool :=
  match table with
  | [] => None
  | r :: t => if existsb (op_eqb o) (tcrow_ops r) then Some (tcrow_eval r ops) else tc_eval t o ops
  end.
