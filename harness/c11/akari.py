"""C11 plug-in: akari (solve_akari(height, width, problem)); -2 white, -1 black, 0..4 numbered black."""
import c11lib as L

NAME = "akari"
MODULE = "cspuz.puzzle.akari"
FUNC = "solve_akari"
TIER1 = ("Akari", "solve_akari_model")
VALUES = [-2, -1, 0, 1, 2, 3, 4]


def call(mod, pb):
    return mod.solve_akari(pb["h"], pb["w"], pb["grid"])


def ncand(pb):
    return 2 ** (pb['h'] * pb['w'])


def encode(pb):
    return [[pb["h"], pb["w"]], L.flat(pb["grid"])]


def families(tier, rng):
    th = tier == "thorough"
    for (h, w) in [(1, 1), (1, 2), (2, 1), (1, 3), (3, 1)] + ([(2, 2)] if th else []):
        for g in L.all_grids(h, w, VALUES):
            yield {"h": h, "w": w, "grid": g}
    if not th:
        for g in L.sample(rng, L.all_grids(2, 2, VALUES), 150):
            yield {"h": 2, "w": 2, "grid": g}
    for (h, w) in [(2, 3), (3, 2), (3, 3), (2, 4), (4, 2), (3, 4), (4, 4)]:
        for _ in range(150 if th else 20):
            yield {"h": h, "w": w, "grid": L.random_grid(rng, h, w, VALUES, 0.65)}


def tier2(tier, rng):
    th = tier == "thorough"
    for (h, w) in [(1, 1), (1, 2), (2, 1)]:
        for g in L.all_grids(h, w, VALUES):
            yield {"h": h, "w": w, "grid": g}
    for (h, w) in [(2, 2), (2, 3), (3, 3)]:
        for g in [L.random_grid(rng, h, w, VALUES, 0.65) for _ in range(30 if th else 6)]:
            yield {"h": h, "w": w, "grid": g}


def tier1_problems(tier, rng):
    """program-capture tie: every grid of the tiniest boards, random grids (mostly white, with long runs) on
    small, non-square and larger boards, all-white and all-black boards"""
    th = tier == "thorough"
    for (h, w) in [(1, 1), (1, 2), (2, 1)]:
        for g in L.all_grids(h, w, VALUES):
            yield {"h": h, "w": w, "grid": g}
    for (h, w) in [(1, 3), (3, 1), (2, 2)]:
        for g in L.sample(rng, L.all_grids(h, w, VALUES), 200 if th else 25):
            yield {"h": h, "w": w, "grid": g}
    for (h, w) in [(2, 3), (3, 2), (3, 3), (2, 5), (5, 2), (4, 4), (3, 6), (6, 5), (1, 7), (7, 1), (8, 8)]:
        for p in ([0.5, 0.7, 0.85, 0.85] * (3 if th else 1)):
            yield {"h": h, "w": w, "grid": L.random_grid(rng, h, w, VALUES, p)}
        yield {"h": h, "w": w, "grid": [[-2] * w for _ in range(h)]}
        yield {"h": h, "w": w, "grid": [[rng.choice(VALUES[1:]) for _ in range(w)] for _ in range(h)]}
    for (h, w) in [(0, 0), (0, 2), (2, 0)]:
        yield {"h": h, "w": w, "grid": [[] for _ in range(h)]}
