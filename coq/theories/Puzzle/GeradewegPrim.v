(* C11 Tier 1, native-operator route - cspuz/puzzle/geradeweg.py::solve_geradeweg when
   cspuz.config.use_graph_primitive is on (the default with the csugar / enigma_csp / cspuz_core backends):
   is_passed = graph.active_edges_single_cycle(solver, grid_frame) declares the array is_passed (the same fresh
   Booleans, right after the frame, as on the auxiliary-variable route), posts one degree constraint per cell
   (count_true(incident segments) == is_passed[i].cond(2, 0)) and ONE native node
   Op.GRAPH_ACTIVE_VERTICES_CONNECTED over the line graph of the frame graph (model
   Graph/Cycle.v::active_edges_single_cycle with prim = true, property C06; the native node means
   Cycle.gsem_c06).  No rank / root variables are declared; everything else solve_geradeweg posts is unchanged
   (Geradeweg.v::geradeweg_constraints; these constraints mention the frame variables and the is_passed
   variables, whose ids do not move).
   Error points: as Geradeweg.v::solve_geradeweg_model, except for boards with height <= 0 AND width <= 0 (the
   frame of height - 1 x width - 1 cells then has two negative dimensions): the auxiliary-variable route raises
   ValueError there (int_array(0, 0, -1) inside the graph call for height = 0 or width = 0) while the native route
   runs through (CyclePrimCompose.frame_cycle_prim_z; the loops over the cells are empty).  For height = width = 0
   the program is the single native node over the empty graph, it has the empty reading as its only one, and the
   rules accept exactly the empty answer on the board without cells: the theorem covers this case too.  Exactly
   one of height, width <= 0: ValueError from Array2D.__init__, as before.
   Theorem geradeweg_exact_prim: same statement as GeradewegProofs.geradeweg_exact, for the evaluator gsem_c06;
   the graph side is CyclePrimCompose.cycle_frame_prim_compose, the module side GeradewegProofs.gw_clues_core
   (which holds for every evaluator). *)
From Coq Require Import ZArith List Bool Arith Lia.
From Cspuz Require Import Lib.PyErr Core.Expr Core.Program Graph.GraphModel Graph.Cycle
     Puzzle.PuzzleBase Puzzle.SatAbs Puzzle.ModelBase Puzzle.ModelLemmas
     Puzzle.CycleFrameBase Puzzle.CycleCompose Puzzle.CyclePrimCompose
     Puzzle.Rules_geradeweg Puzzle.Geradeweg Puzzle.GeradewegProofs.
Import ListNotations.
Local Open Scope nat_scope.

Definition solve_geradeweg_model_prim (pb : problem) : res state :=
  let H := dim pb 0 in let W := dim pb 1 in
  match frame_cycle_prim_z (getz (sec pb 0) 0 - 1) (getz (sec pb 0) 1 - 1) with
  | Ok (st1, _) =>
      if Nat.ltb (length (sec pb 1)) (H * W) then Err IndexError
      else Ok (ensure st1 (if Nat.eqb H 0 || Nat.eqb W 0 then []   (* range(height) / range(width) is empty *)
                           else geradeweg_constraints (H - 1) (W - 1) (sec pb 1)))
  | Err e => Err e
  end.

Theorem geradeweg_exact_prim h w clues st ans :
  solve_geradeweg_model_prim [[Z.of_nat h; Z.of_nat w]; clues] = Ok st ->
  ((exists en, model_of gsem_c06 en st /\ reads st en (seq 0 (h * (w - 1) + (h - 1) * w)) = ans)
   <-> rules_geradeweg [[Z.of_nat h; Z.of_nat w]; clues] ans = true).
Proof.
  unfold solve_geradeweg_model_prim, rules_geradeweg.
  change (sec [[Z.of_nat h; Z.of_nat w]; clues] 1) with clues.
  change (sec [[Z.of_nat h; Z.of_nat w]; clues] 0) with [Z.of_nat h; Z.of_nat w].
  change (getz [Z.of_nat h; Z.of_nat w] 0) with (Z.of_nat h).
  change (getz [Z.of_nat h; Z.of_nat w] 1) with (Z.of_nat w).
  destruct (gw_dims h w [clues]) as [-> ->].
  destruct h as [|h]; [destruct w as [|w]|destruct w as [|w]].
  2:{ rewrite frame_cycle_prim_z_one_neg by lia. intros H; discriminate H. }
  2:{ rewrite frame_cycle_prim_z_one_neg by lia. intros H; discriminate H. }
  { (* the board without cells *)
    change (Z.of_nat 0 - 1)%Z with (-1)%Z. rewrite frame_cycle_prim_z_empty. cbn [Nat.mul Nat.ltb Nat.leb].
    intros Hst. inversion Hst; subst st. clear Hst.
    change (0 * (0 - 1) + (0 - 1) * 0) with 0.
    cbn [Nat.eqb orb]. rewrite (empty_avc_models [] ans eq_refl).
    destruct ans as [|a r]; [split; reflexivity|]. split; intros H; discriminate H. }
  replace (Z.of_nat (S h) - 1)%Z with (Z.of_nat h) by lia. replace (Z.of_nat (S w) - 1)%Z with (Z.of_nat w) by lia.
  rewrite frame_cycle_prim_z_nat.
  replace (S h - 1) with h by lia. replace (S w - 1) with w by lia.
  destruct (frame_cycle_prim h w) as [[st1 res]|e] eqn:Hcall; [|discriminate].
  destruct (Nat.ltb (length clues) (S h * S w)); [discriminate|].
  cbn [Nat.eqb orb]. intros Hst. inversion Hst; subst st. clear Hst.
  destruct (cycle_frame_prim_compose h w (geradeweg_constraints h w clues) (gw_local h w clues)
              st1 res ans Hcall (fun en Hp => gw_clues_core gsem_c06 h w clues en Hp)) as [_ EX].
  change (S h * w + h * S w) with (frame_n h w). rewrite EX, gw_n_lattice_frame. reflexivity.
Qed.

(* the model accepts every board with height, width >= 1 and enough clue entries (the premise of
   geradeweg_exact_prim is satisfiable) *)
Lemma geradeweg_model_prim_total h w clues :
  1 <= h -> 1 <= w -> h * w <= length clues ->
  exists st, solve_geradeweg_model_prim [[Z.of_nat h; Z.of_nat w]; clues] = Ok st.
Proof.
  intros Hh Hw Hl. unfold solve_geradeweg_model_prim.
  change (sec [[Z.of_nat h; Z.of_nat w]; clues] 1) with clues.
  change (sec [[Z.of_nat h; Z.of_nat w]; clues] 0) with [Z.of_nat h; Z.of_nat w].
  change (getz [Z.of_nat h; Z.of_nat w] 0) with (Z.of_nat h).
  change (getz [Z.of_nat h; Z.of_nat w] 1) with (Z.of_nat w).
  destruct (gw_dims h w [clues]) as [-> ->].
  replace (Z.of_nat h - 1)%Z with (Z.of_nat (h - 1)) by lia. replace (Z.of_nat w - 1)%Z with (Z.of_nat (w - 1)) by lia.
  rewrite frame_cycle_prim_z_nat.
  destruct (frame_cycle_prim_ok (h - 1) (w - 1)) as [st1 [Hc _]]. rewrite Hc.
  replace (Nat.ltb (length clues) (h * w)) with false by (symmetry; apply Nat.ltb_ge; exact Hl).
  eexists. reflexivity.
Qed.

Example geradeweg_model_prim_ok : exists st, solve_geradeweg_model_prim [[2; 2]; [2; 0; 0; 0]]%Z = Ok st.
Proof. apply (geradeweg_model_prim_total 2 2 [2; 0; 0; 0]%Z); simpl; lia. Qed.
