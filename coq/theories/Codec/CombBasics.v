(* Basic facts about the primitives of Codec/Comb.v. *)
From Coq Require Import ZArith List Ascii Bool NArith Lia.
From Cspuz Require Import Lib.PyErr Codec.Comb Codec.CombWf.
Import ListNotations.
Local Open Scope Z_scope.

(* ------------------------------------------------------------------ equality tests *)
Lemma ascii_eqb_eq a b : ascii_eqb a b = true <-> a = b.
Proof.
  unfold ascii_eqb. rewrite N.eqb_eq. split; intros H.
  - rewrite <- (ascii_N_embedding a), <- (ascii_N_embedding b), H. reflexivity.
  - subst; reflexivity.
Qed.

Lemma ascii_eqb_refl a : ascii_eqb a a = true.
Proof. apply ascii_eqb_eq; reflexivity. Qed.

Lemma ascii_eqb_neq a b : ascii_eqb a b = false <-> a <> b.
Proof.
  split; intros H.
  - intros E. apply ascii_eqb_eq in E. congruence.
  - destruct (ascii_eqb a b) eqn:E; auto. apply ascii_eqb_eq in E. contradiction.
Qed.

Lemma str_eqb_eq a b : str_eqb a b = true <-> a = b.
Proof.
  revert b; induction a as [|x a IH]; intros [|y b]; simpl; split; intros H; try discriminate; auto.
  - apply andb_true_iff in H as [H1 H2]. apply ascii_eqb_eq in H1. apply IH in H2. congruence.
  - inversion H; subst. rewrite ascii_eqb_refl. simpl. apply IH. reflexivity.
Qed.

(* induction principle for the nested type pv *)
Section PvInd.
  Variable P : pv -> Prop.
  Hypothesis Hint : forall z, P (VInt z).
  Hypothesis Hstr : forall s, P (VStr s).
  Hypothesis Hnone : P VNone.
  Hypothesis Hlist : forall l, Forall P l -> P (VList l).
  Hypothesis Htup : forall l, Forall P l -> P (VTup l).
  Fixpoint pv_ind' (v : pv) : P v :=
    match v with
    | VInt z => Hint z
    | VStr s => Hstr s
    | VNone => Hnone
    | VList l => Hlist l ((fix go (l : list pv) : Forall P l :=
                             match l with [] => Forall_nil P | x :: t => Forall_cons x (pv_ind' x) (go t) end) l)
    | VTup l => Htup l ((fix go (l : list pv) : Forall P l :=
                           match l with [] => Forall_nil P | x :: t => Forall_cons x (pv_ind' x) (go t) end) l)
    end.
End PvInd.

Definition pv_list_eqb :=
  fix list_eqb (l m : list pv) {struct l} : bool :=
    match l, m with
    | [], [] => true
    | x :: l', y :: m' => pv_eqb x y && list_eqb l' m'
    | _, _ => false
    end.

Lemma pv_list_eqb_sound l :
  Forall (fun a => forall b, pv_eqb a b = true -> a = b) l ->
  forall m, pv_list_eqb l m = true -> l = m.
Proof.
  induction 1 as [|x l Hx Hl IH]; intros [|y m] H; simpl in H; try discriminate; auto.
  apply andb_true_iff in H as [H1 H2]. f_equal; auto.
Qed.

Lemma pv_eqb_true a : forall b, pv_eqb a b = true -> a = b.
Proof.
  induction a using pv_ind'; intros [ | | | | ] E; simpl in E; try discriminate.
  - apply Z.eqb_eq in E. congruence.
  - apply str_eqb_eq in E. congruence.
  - reflexivity.
  - f_equal. apply (pv_list_eqb_sound l H _ E).
  - f_equal. apply (pv_list_eqb_sound l H _ E).
Qed.

(* ------------------------------------------------------------------ prefixes *)
Lemma is_prefix_app a r : is_prefix a (a ++ r) = true.
Proof. induction a as [|x a IH]; simpl; [reflexivity|]. rewrite ascii_eqb_refl. exact IH. Qed.

Lemma is_prefix_head c a d s : is_prefix (c :: a) (d :: s) = true -> c = d.
Proof. simpl. intros H. apply andb_true_iff in H as [H _]. apply ascii_eqb_eq; auto. Qed.

(* ------------------------------------------------------------------ all characters *)
Lemma all_chars_complete ch : In ch all_chars.
Proof.
  unfold all_chars. rewrite <- (ascii_nat_embedding ch).
  apply in_map. apply in_seq. pose proof (nat_ascii_bounded ch). lia.
Qed.

Lemma disjoint_spec f g ch : disjoint f g = true -> f ch = true -> g ch = false.
Proof.
  unfold disjoint. rewrite forallb_forall. intros H Hf.
  specialize (H ch (all_chars_complete ch)). rewrite Hf in H. simpl in H.
  destruct (g ch); [discriminate H|reflexivity].
Qed.

Lemma forall_chars (P : ascii -> bool) : forallb P all_chars = true -> forall ch, P ch = true.
Proof. rewrite forallb_forall. intros H ch. apply H, all_chars_complete. Qed.

(* ------------------------------------------------------------------ character tables (checked by computation) *)
Definition dv (c : ascii) : Z := match digit_val c with Some d => d | None => 0 end.

(* a character that is a plain lower-case digit of base b *)
Definition cleanb (b : Z) (c : ascii) : bool :=
  match digit_val c with Some d => (d <? b) && is_alnum_lower_c c | None => false end.

Definition res_is (r : res Z) (v : Z) : bool := match r with Ok a => a =? v | Err _ => false end.

Lemma alnum_char_facts ch : is_alnum_lower_c ch = true ->
  digit_val ch = Some (dv ch) /\ 0 <= dv ch < 36 /\ py_int [ch] 36 = Ok (dv ch) /\ base36_char (dv ch) = ch
  /\ is_space_c ch = false /\ ascii_eqb ch "_"%char = false /\ ascii_eqb ch "+"%char = false
  /\ ascii_eqb ch "-"%char = false /\ isdigit_c ch = in_range 48 57 (ord ch).
Proof.
  revert ch.
  assert (H : forall ch, (negb (is_alnum_lower_c ch) ||
     (match digit_val ch with Some d => d =? dv ch | None => false end
      && (0 <=? dv ch) && (dv ch <? 36) && res_is (py_int [ch] 36) (dv ch) && ascii_eqb (base36_char (dv ch)) ch
      && negb (is_space_c ch) && negb (ascii_eqb ch "_"%char) && negb (ascii_eqb ch "+"%char)
      && negb (ascii_eqb ch "-"%char) && Bool.eqb (isdigit_c ch) (in_range 48 57 (ord ch)))) = true).
  { apply forall_chars. vm_compute. reflexivity. }
  intros ch Hc. specialize (H ch). rewrite Hc in H. simpl in H.
  repeat (apply andb_true_iff in H as [H ?]).
  destruct (digit_val ch) eqn:Ed; try discriminate. apply Z.eqb_eq in H.
  unfold res_is in *. destruct (py_int [ch] 36) eqn:Ep; try discriminate.
  repeat match goal with
         | H : negb _ = true |- _ => apply negb_true_iff in H
         | H : (_ =? _) = true |- _ => apply Z.eqb_eq in H
         | H : (_ <=? _) = true |- _ => apply Z.leb_le in H
         | H : (_ <? _) = true |- _ => apply Z.ltb_lt in H
         | H : ascii_eqb _ _ = true |- _ => apply ascii_eqb_eq in H
         | H : Bool.eqb _ _ = true |- _ => apply Bool.eqb_prop in H
         end.
  subst. repeat split; auto; try congruence; try lia.
Qed.

Lemma hex_char_facts ch : is_hex_c ch = true ->
  is_alnum_lower_c ch = true /\ dv ch < 16 /\ py_int [ch] 16 = Ok (dv ch).
Proof.
  revert ch.
  assert (H : forall ch, (negb (is_hex_c ch) ||
     (is_alnum_lower_c ch && (dv ch <? 16) && res_is (py_int [ch] 16) (dv ch))) = true).
  { apply forall_chars. vm_compute. reflexivity. }
  intros ch Hc. specialize (H ch). rewrite Hc in H. simpl in H.
  repeat (apply andb_true_iff in H as [H ?]).
  unfold res_is in *. destruct (py_int [ch] 16) eqn:Ep; try discriminate.
  apply Z.eqb_eq in H0. apply Z.ltb_lt in H1. subst. auto.
Qed.

Lemma clean16_not_x ch : cleanb 16 ch = true ->
  ascii_eqb ch "x"%char = false /\ ascii_eqb ch "X"%char = false.
Proof.
  revert ch.
  assert (H : forall ch, (negb (cleanb 16 ch) || (negb (ascii_eqb ch "x"%char) && negb (ascii_eqb ch "X"%char))) = true).
  { apply forall_chars. vm_compute. reflexivity. }
  intros ch Hc. specialize (H ch). rewrite Hc in H. simpl in H.
  apply andb_true_iff in H as [H1 H2]. apply negb_true_iff in H1, H2. auto.
Qed.

Definition digits36 : list Z := map Z.of_nat (seq 0 36).

Lemma digit_facts v : 0 <= v < 36 ->
  to_base 36 v = [base36_char v] /\ is_alnum_lower_c (base36_char v) = true /\ digit_val (base36_char v) = Some v.
Proof.
  intros Hv.
  assert (H : forallb (fun v => str_eqb (to_base 36 v) [base36_char v] && is_alnum_lower_c (base36_char v)
                                && match digit_val (base36_char v) with Some d => d =? v | None => false end) digits36 = true).
  { vm_compute. reflexivity. }
  rewrite forallb_forall in H. specialize (H v).
  assert (In v digits36).
  { unfold digits36. replace v with (Z.of_nat (Z.to_nat v)) by lia. apply in_map. apply in_seq. lia. }
  specialize (H H0). repeat (apply andb_true_iff in H as [H ?]).
  apply str_eqb_eq in H. destruct (digit_val (base36_char v)); try discriminate. apply Z.eqb_eq in H1. subst. auto.
Qed.

Lemma dv_base36_char v : 0 <= v < 36 -> dv (base36_char v) = v.
Proof. intros H. unfold dv. destruct (digit_facts v H) as (_ & _ & E). rewrite E. reflexivity. Qed.

Lemma cleanb_base36_char b v : 0 <= v < b -> b <= 36 -> cleanb b (base36_char v) = true.
Proof.
  intros H Hb. unfold cleanb. destruct (digit_facts v ltac:(lia)) as (_ & E1 & E2).
  rewrite E2, E1. rewrite andb_true_r. apply Z.ltb_lt. lia.
Qed.

(* ------------------------------------------------------------------ positional notation *)
Definition step (b : Z) (acc : Z) (c : ascii) : Z := acc * b + dv c.
Definition valacc (b : Z) (a : Z) (ds : str) : Z := fold_left (step b) ds a.

Lemma valacc_app b a xs ys : valacc b a (xs ++ ys) = valacc b (valacc b a xs) ys.
Proof. unfold valacc. apply fold_left_app. Qed.

Lemma to_base_go_spec b : 2 <= b <= 36 -> forall fuel n acc,
  0 <= n < b ^ Z.of_nat fuel ->
  exists ds, to_base_go b fuel n acc = ds ++ acc /\ forallb (cleanb b) ds = true /\ valacc b 0 ds = n
             /\ (0 < n -> ds <> []).
Proof.
  intros Hb. induction fuel as [|f IH]; intros n acc Hn.
  - simpl in Hn. assert (n = 0) by lia. subst. exists []. simpl. repeat split; auto. lia.
  - simpl. destruct (Z.leb_spec n 0).
    + assert (n = 0) by lia. subst. exists []. simpl. repeat split; auto. lia.
    + assert (Hq : 0 <= n / b < b ^ Z.of_nat f).
      { split. apply Z.div_pos; lia.
        apply Z.div_lt_upper_bound; try lia.
        replace (Z.of_nat (S f)) with (Z.succ (Z.of_nat f)) in Hn by lia.
        rewrite Z.pow_succ_r in Hn by lia. lia. }
      destruct (IH (n / b) (base36_char (n mod b) :: acc) Hq) as (ds & E & Hc & Hv & _).
      exists (ds ++ [base36_char (n mod b)]).
      assert (Hm : 0 <= n mod b < b) by (apply Z.mod_pos_bound; lia).
      repeat split.
      * rewrite E. rewrite <- app_assoc. reflexivity.
      * rewrite forallb_app, Hc. simpl. rewrite cleanb_base36_char; auto; lia.
      * rewrite valacc_app, Hv. unfold valacc; simpl. unfold step. rewrite dv_base36_char by lia.
        rewrite (Z.div_mod n b) at 3 by lia. lia.
      * intros _ E'. destruct ds; discriminate.
Qed.

Lemma pow_fuel_bound b n : 2 <= b -> 0 < n -> n < b ^ Z.of_nat (digits_fuel n).
Proof.
  intros Hb Hn. unfold digits_fuel.
  pose proof (Z.log2_spec n Hn) as [_ H2]. pose proof (Z.log2_nonneg n).
  replace (Z.of_nat (S (Z.to_nat (Z.log2 n)))) with (Z.succ (Z.log2 n)) by lia.
  eapply Z.lt_le_trans; [exact H2|]. apply Z.pow_le_mono_l. lia.
Qed.

Lemma to_base_spec b n : 2 <= b <= 36 -> 0 <= n ->
  to_base b n <> [] /\ forallb (cleanb b) (to_base b n) = true /\ valacc b 0 (to_base b n) = n.
Proof.
  intros Hb Hn. unfold to_base. destruct (Z.eqb_spec n 0).
  - subst. split; [discriminate|split].
    + simpl. change "0"%char with (base36_char 0). rewrite cleanb_base36_char; auto; lia.
    + unfold valacc; simpl. unfold step. change "0"%char with (base36_char 0). rewrite dv_base36_char; lia.
  - destruct (to_base_go_spec b Hb (digits_fuel n) n []) as (ds & E & Hc & Hv & Hne).
    { split; [lia|]. apply pow_fuel_bound; lia. }
    rewrite E, app_nil_r. repeat split; auto. apply Hne. lia.
Qed.

(* ------------------------------------------------------------------ int() on clean digit strings *)
Lemma cleanb_facts b c : cleanb b c = true ->
  digit_val c = Some (dv c) /\ dv c < b /\ is_alnum_lower_c c = true.
Proof.
  unfold cleanb, dv. destruct (digit_val c); try discriminate. intros H.
  apply andb_true_iff in H as [H1 H2]. apply Z.ltb_lt in H1. auto.
Qed.

Lemma parse_digits_clean b ds : forallb (cleanb b) ds = true ->
  forall acc, parse_digits b ds false acc = Some (valacc b acc ds).
Proof.
  induction ds as [|c ds IH]; simpl; intros H acc; auto.
  apply andb_true_iff in H as [Hc Hds].
  destruct (cleanb_facts b c Hc) as (E & Hlt & Hal).
  destruct (alnum_char_facts c Hal) as (_ & _ & _ & _ & _ & Hus & _).
  rewrite Hus, E. apply Z.ltb_lt in Hlt. rewrite Hlt. rewrite IH by auto. reflexivity.
Qed.

Lemma lstrip_clean b c ds : cleanb b c = true -> lstrip (c :: ds) = c :: ds.
Proof.
  intros Hc. simpl. destruct (cleanb_facts b c Hc) as (_ & _ & Hal).
  destruct (alnum_char_facts c Hal) as (_ & _ & _ & _ & Hs & _). rewrite Hs. reflexivity.
Qed.

Lemma rstrip_clean b ds : forallb (cleanb b) ds = true -> rstrip ds = ds.
Proof.
  intros H. unfold rstrip. destruct (rev ds) as [|c t] eqn:E.
  - simpl. apply (f_equal (@rev _)) in E. rewrite rev_involutive in E. simpl in E. congruence.
  - assert (Hc : cleanb b c = true).
    { rewrite forallb_forall in H. apply H. apply in_rev. rewrite E. left; reflexivity. }
    rewrite (lstrip_clean b c t Hc). rewrite <- E. apply rev_involutive.
Qed.

Lemma py_int_clean b ds : ds <> [] -> forallb (cleanb b) ds = true ->
  py_int ds b = Ok (valacc b 0 ds).
Proof.
  intros Hne Hc. unfold py_int.
  destruct ds as [|c ds]; [congruence|].
  pose proof Hc as Hc0. simpl in Hc0. apply andb_true_iff in Hc0 as [Hc1 Hc2].
  rewrite (lstrip_clean b c ds Hc1). rewrite (rstrip_clean b (c :: ds) Hc).
  destruct (cleanb_facts b c Hc1) as (_ & _ & Hal).
  destruct (alnum_char_facts c Hal) as (_ & _ & _ & _ & _ & Hus & Hpl & Hmi & _).
  unfold int_sign. rewrite Hpl, Hmi. simpl fst; simpl snd.
  assert (Hpre : int_prefix b (c :: ds) = c :: ds).
  { unfold int_prefix. destruct (Z.eqb_spec b 16); auto. subst b. destruct ds as [|c1 t]; auto.
    simpl in Hc2. apply andb_true_iff in Hc2 as [Hc2 _].
    destruct (clean16_not_x c1 Hc2) as [E1 E2]. rewrite E1, E2. simpl. rewrite andb_false_r. reflexivity. }
  rewrite Hpre. unfold int_body. rewrite Hus. rewrite (parse_digits_clean b (c :: ds) Hc). reflexivity.
Qed.

Lemma py_int_to_base b n : 2 <= b <= 36 -> 0 <= n -> py_int (to_base b n) b = Ok n.
Proof.
  intros Hb Hn. destruct (to_base_spec b n Hb Hn) as (Hne & Hc & Hv).
  rewrite py_int_clean; auto. rewrite Hv. reflexivity.
Qed.

(* ------------------------------------------------------------------ runs *)
Lemma run_eq_spec sp l lim :
  firstn (run_eq sp l lim) l = repeat sp (run_eq sp l lim) /\ (run_eq sp l lim <= lim)%nat
  /\ (run_eq sp l lim <= length l)%nat.
Proof.
  revert l; induction lim as [|k IH]; intros l; simpl.
  - destruct l; simpl; repeat split; auto; lia.
  - destruct l as [|x t]; simpl.
    + repeat split; auto; lia.
    + destruct (pv_eqb x sp) eqn:E; simpl.
      * apply pv_eqb_true in E. subst. destruct (IH t) as (H1 & H2 & H3).
        rewrite H1. repeat split; auto; lia.
      * repeat split; auto; lia.
Qed.

Lemma firstn_skipn_nth {A} (l : list A) idx v :
  nth_error l idx = Some v -> skipn idx l = v :: skipn (S idx) l.
Proof.
  revert l; induction idx; intros [|x l] H; simpl in *; try discriminate.
  - inversion H; reflexivity.
  - apply IHidx in H. rewrite H. reflexivity.
Qed.
