"""C13 — array indexing and slicing follow Python nested-list semantics."""
import collections
import copy
import itertools

import os
import vlib

PROPS = "Props/C13.v"
RULE = ("correspondence: every (shape, key) case is run through cspuz's IntArray2D/BoolArray2D/IntArray1D "
        "__getitem__/flatten/reshape and through the extracted Coq model (getitem2/getitem1/reshape); "
        "search: the same keys on real Python lists of lists (axis-checked) vs the implementation, and the Coq "
        "specification spec_getitem2 vs real Python lists.  A case is non-trivial when it is a distinct "
        "(kind, shape, key) triple; keys are int indices in [-len-2, len+1], slices with bounds in "
        "[-B, B] + None and steps in [-S, S] + None (0 included), pairs of those, and coordinate lists.  "
        "Hardening stream (same two ties, the key is additionally tagged with its FORM): coordinate keys given as "
        "one-shot / non-list iterables (zip, generator, iter, map, reversed, filter, chain, islice, deque, dict view, "
        "user iterator, list subclass, namedtuple pairs) -- the model and the nested-list oracle see the materialised "
        "list; ints created at run time far outside the small-int cache (257 .. 10**30) as indices, slice bounds, "
        "steps, coordinates, on axes of length 260/300 too; bool / int-subclass / __index__ keys; larger shapes "
        "(3x10, 10x3, 7x7, 4x5, 5x5, 2x7) with steps up to +-5 and (slice, slice) pairs non-trivial on BOTH axes; "
        "chained indexing a[k1][k2]; histories (same key object twice, result mutated then re-indexed, array data and "
        "key unchanged, flatten/reshape/1-D slices do not alias); arrays constructed from nested one-shot iterables.")
TRUSTED = [
    "the fail-closed pure-integer translator harness/pyint_translate.py (array.py::_range_size -> Gen/PyIntArray.v on every run; theorem range_size_from_source)",
    "CPython slice.indices / range / list indexing semantics as transcribed in Array/Slice.v (slice_indices, py_range, py_index); validated on every run against the real interpreter (kind 'spec-vs-pylist')",
    "reading of the property: an integer index on an axis raises IndexError exactly when it is out of range for that axis (also when the other axis selects nothing)",
]
ASSUMPTIONS = [
    "array elements are opaque; the model is polymorphic in the element type",
    "keys are ints / slices of ints-or-None / pairs / lists of int pairs (other key types raise TypeError in Python and are outside the model)",
    "an iterable of coordinate pairs stands for the list of the pairs it yields (the model and the oracle see list(key)); a second use of an exhausted one-shot key selects nothing, as the comprehension over it would",
    "bool / int-subclass indices and __index__ slice bounds stand for their integer value (as they do for Python lists)",
]

ERR = {1: "IndexError", 2: "KeyError", 3: "AssertionError", 4: "TypeError", 5: "ValueError",
       6: "RecursionError", 7: "NotImplementedError", 8: "Other"}


def parse_reply(r):
    t = r.split()
    if t[0] == "E":
        return ("err", ERR[int(t[1])])
    if t[0] == "S":
        return ("ok", ("S", int(t[1])))
    if t[0] == "1":
        return ("ok", ("1", tuple(int(x) for x in t[1:])))
    if t[0] == "2":
        i = t.index(":")
        return ("ok", ("2", int(t[1]), int(t[2]), tuple(int(x) for x in t[i + 1:])))
    if t[0] == "EXN":
        return ("exn", r)
    raise RuntimeError("bad model reply " + r)


def key_tok(k):
    if isinstance(k, int):
        return "i %d" % int(k)
    f = lambda v: "_" if v is None else str(v)  # noqa
    return "s %s %s %s" % (f(k.start), f(k.stop), f(k.step))


def key2_tok(k):
    if isinstance(k, list):
        return "L " + " ".join("%d %d" % p for p in k)
    if isinstance(k, tuple):
        return "2 %s %s" % (key_tok(k[0]), key_tok(k[1]))
    return "1 " + key_tok(k)


def key_repr(k):
    if isinstance(k, tuple):
        return [key_repr(k[0]), key_repr(k[1])]
    if isinstance(k, slice):
        return "slice(%r,%r,%r)" % (k.start, k.stop, k.step)
    return k


def mk_array(h, w, kind):
    from cspuz.array import BoolArray2D, IntArray2D
    from cspuz.expr import BoolVar, IntVar
    if kind == "int":
        data = [IntVar(i, 0, 1) for i in range(h * w)]
        return IntArray2D(data, (h, w)), data
    data = [BoolVar(i) for i in range(h * w)]
    return BoolArray2D(data, (h, w)), data


def norm_impl(r, idx):
    from cspuz.array import Array1D, Array2D
    if isinstance(r, Array2D):
        return ("2", r.shape[0], r.shape[1], tuple(idx[id(e)] for e in r.data))
    if isinstance(r, Array1D):
        return ("1", tuple(idx[id(e)] for e in r.data))
    return ("S", idx[id(r)])


def impl_get(arr, idx, k):
    def f():
        r = arr[k]
        # the class of the result must follow the class of the array
        from cspuz.array import Array1D, Array2D
        if isinstance(r, (Array1D, Array2D)):
            want = type(arr).__name__.replace("2D", "")
            assert type(r).__name__.startswith(want), "result class %s" % type(r).__name__
        return norm_impl(r, idx)
    return vlib.guarded(f)


def pylist_get1(vals, k):
    """the reference for a 1-D array: the same index on a real Python list."""
    lst = list(vals)

    def f():
        r = lst[k]
        return ("1", tuple(r)) if isinstance(k, slice) else ("S", r)
    return vlib.guarded(f)


def pylist_get(h, w, k, vals=None):
    """the reference: the same index on a real Python list of lists."""
    if vals is None:
        rows = [[y * w + x for x in range(w)] for y in range(h)]
    else:
        rows = [list(vals[y * w:(y + 1) * w]) for y in range(h)]

    def axis_check(n, i):
        if isinstance(i, int) and not (-n <= i < n):
            raise IndexError

    def f():
        if isinstance(k, list):
            out = []
            for (y, x) in k:
                axis_check(h, y)
                axis_check(w, x)
                out.append(rows[y][x])
            return ("1", tuple(out))
        ky, kx = k if isinstance(k, tuple) else (k, slice(None))
        if isinstance(ky, slice):
            range(*ky.indices(h))
        axis_check(h, ky)
        if isinstance(kx, slice):
            range(*kx.indices(w))
        axis_check(w, kx)
        if isinstance(ky, int) and isinstance(kx, int):
            return ("S", rows[ky][kx])
        if isinstance(ky, int):
            return ("1", tuple(rows[ky][kx]))
        if isinstance(kx, int):
            return ("1", tuple(r[kx] for r in rows[ky]))
        sel = [r[kx] for r in rows[ky]]
        ww = len(range(*kx.indices(w)))
        return ("2", len(sel), ww, tuple(v for r in sel for v in r))
    return vlib.guarded(f)


def axis_keys(n, B, S, rng, cap):
    ints = list(range(-n - 2, n + 2))
    bounds = [None] + list(range(-B, B + 1))
    steps = [None] + list(range(-S, S + 1))
    sl = [slice(a, b, c) for a in bounds for b in bounds for c in steps]
    if cap and len(sl) > cap:
        sl = rng.sample(sl, cap)
    return ints, sl


def gen_cases(ctx):
    rng = ctx.rng
    if ctx.thorough:
        shapes = [(h, w) for h in range(0, 5) for w in range(0, 5)] + [(1, 6), (6, 1), (2, 7), (7, 2)]
        B, S, cap, other = 9, 4, None, 10
    else:
        shapes = [(h, w) for h in range(0, 4) for w in range(0, 4)] + [(1, 5), (5, 1), (2, 5), (3, 4)]
        B, S, cap, other = 7, 3, 500, 6
    for (h, w) in shapes:
        yi, ys = axis_keys(h, B, S, rng, cap)
        xi, xs = axis_keys(w, B, S, rng, cap)
        rep_y = yi + rng.sample(ys, min(other, len(ys))) + [slice(None), slice(None, None, -1), slice(B, None, -1), slice(None, -B - 1, -1)]
        rep_x = xi + rng.sample(xs, min(other, len(xs))) + [slice(None), slice(None, None, -1), slice(B, None, -1), slice(None, -B - 1, -1)]
        for ky in yi + ys:
            for kx in rep_x:
                yield h, w, (ky, kx)
        for kx in xs:
            for ky in rep_y:
                yield h, w, (ky, kx)
        for ky in yi + ys:
            yield h, w, ky
        for _ in range(20 if not ctx.thorough else 100):
            n = rng.randint(0, 5)
            yield h, w, [(rng.randint(-h - 1, h), rng.randint(-w - 1, w)) for _ in range(n)]


# ------------------------------------------------------------------ hardening stream: key forms

class _I(int):
    """an int subclass (IntEnum-like): a legal index wherever an int is."""


class _Idx:
    """not an int, but a legal slice bound through __index__ (numpy-integer-like)."""

    def __init__(self, v):
        self.v = v

    def __index__(self):
        return self.v

    def __eq__(self, o):
        return isinstance(o, _Idx) and o.v == self.v

    def __hash__(self):
        return hash(self.v)

    def __repr__(self):
        return "_Idx(%d)" % self.v


class _OneShot:
    """a user-defined iterator (can be consumed once)."""

    def __init__(self, l):
        self.it = iter(list(l))

    def __iter__(self):
        return self

    def __next__(self):
        return next(self.it)


class _ReIter:
    """a user-defined iterable that is not a sequence (only __iter__)."""

    def __init__(self, l):
        self.l = list(l)

    def __iter__(self):
        return iter(self.l)


class _L(list):
    pass


_P = collections.namedtuple("_P", "y x")


def _fresh(v):
    """an int object created at run time (never a shared constant; outside [-5, 256] never a cached one)."""
    return int(str(int(v)))


def _b(v):
    return bool(v) if v in (0, 1) else v


def _genfn(l):
    for p in l:
        yield p


COORD_FORMS = {
    "list": lambda k: k,
    "zip": lambda k: zip([p[0] for p in k], [p[1] for p in k]),
    "gen": lambda k: (p for p in k),
    "genfn": _genfn,
    "iter": lambda k: iter(k),
    "map": lambda k: map(tuple, [list(p) for p in k]),
    "reversed": lambda k: reversed(k[::-1]),
    "filter": lambda k: filter(None, k),
    "chain": lambda k: itertools.chain(k[:len(k) // 2], iter(k[len(k) // 2:])),
    "islice": lambda k: itertools.islice(iter(k), None),
    "oneshot": _OneShot,
    "deque": collections.deque,
    "dictvalues": lambda k: dict(enumerate(k)).values(),
    "reiter": _ReIter,
    "listsub": _L,
    "namedtuple": lambda k: [_P(y, x) for (y, x) in k],
    "intsub": lambda k: [(_I(y), _I(x)) for (y, x) in k],
    "bool": lambda k: [(_b(y), _b(x)) for (y, x) in k],
}
ONE_SHOT = ("zip", "gen", "genfn", "iter", "map", "reversed", "filter", "chain", "islice", "oneshot")
# forms that keep the entries as they are (usable for malformed entries too)
STRUCT_FORMS = ("gen", "genfn", "iter", "reversed", "chain", "islice", "oneshot", "deque", "dictvalues", "reiter", "listsub")
PAIR_FORMS = ("fresh", "intsub", "bool", "index")


def dress_axis(a, form):
    conv = {"fresh": _fresh, "intsub": _I, "bool": _b, "index": _Idx}[form]
    if isinstance(a, int):
        return a if form == "index" else conv(a)   # an __index__ object is not an int index for cspuz
    f = lambda v: None if v is None else conv(v)  # noqa
    return slice(f(a.start), f(a.stop), f(a.step))


def dress(k, form):
    """a new key object for the canonical key k (ints / None only) in the given form."""
    if form is None:
        return k
    if isinstance(k, list):
        return COORD_FORMS[form]([(_fresh(y), _fresh(x)) for (y, x) in k])
    if isinstance(k, tuple):
        return (dress_axis(k[0], form), dress_axis(k[1], form))
    return dress_axis(k, form)


def kk_of(k):
    return ("L", tuple(k)) if isinstance(k, list) else key_repr(k)


BIGS = [257, 258, 1000, 4096, 65535, 2 ** 31 - 1, 2 ** 31, 2 ** 32 + 1, 2 ** 63 - 1, 2 ** 63, 2 ** 64 + 3, 10 ** 30]
BIG_STEPS = [None, 1, -1, 2, -2, 3, -5, 128, -129, 256, 257, -257, 258, -1000, 2 ** 31, -2 ** 31, 2 ** 63,
             -2 ** 63 - 1, 2 ** 64 + 3, -10 ** 30]
S2 = [(2, 3), (3, 1), (0, 2), (1, 300), (300, 1), (2, 260)]
S5 = [(3, 10), (10, 3), (7, 7), (4, 5), (5, 5), (2, 7)]
S1 = [(2, 3), (4, 6), (3, 3), (1, 1), (0, 0), (0, 2), (1, 300)]
SMALL = [(h, w) for h in range(0, 4) for w in range(0, 4)] + [(1, 5), (5, 1), (2, 5), (3, 4)]
ALL_STEPS = [None, 1, 2, 3, 4, 5, -1, -2, -3, -4, -5]
STRIDES = [2, 3, 4, 5, -2, -3, -4, -5]


def big_axis_keys(n, rng, nsl):
    near = sorted({n - 2, n - 1, n, n + 1, -n + 1, -n, -n - 1, -n - 2, 0, 1, -1, 255, 256, 257, -255, -256, -257, -258})
    big = BIGS + [-v for v in BIGS]
    bounds = [None] + near + big
    sl = [slice(rng.choice(bounds), rng.choice(bounds), rng.choice(BIG_STEPS)) for _ in range(nsl)]
    if n > 256:   # the interior of a long axis: valid positions that are not small ints
        sl += [slice(257, None), slice(None, 257), slice(n - 1, 256, -1), slice(-1, -n + 256, -7), slice(256, 258),
               slice(258, 256, -1), slice(None, None, 129), slice(None, None, -129), slice(257, n, 13),
               slice(-n + 257, None, 1), slice(n + 2 ** 64, 257, -3)]
    return near + big, sl


def cand(n):
    return [None, 0, 1, 2, n // 2, n - 2, n - 1, n, n + 1, n + 3, -1, -2, -n + 1, -n, -n - 1, -n - 3]


def rand_slice(n, rng, steps=ALL_STEPS):
    c = cand(n)
    return slice(rng.choice(c), rng.choice(c), rng.choice(steps))


def rand_axis_key(n, rng):
    if rng.random() < 0.35:
        return rng.randint(-n - 1, n)
    return rand_slice(n, rng)


def rand_coords(h, w, rng, n=None, p_bad=0.1):
    n = rng.randint(0, 5) if n is None else n
    out = []
    for _ in range(n):
        if h and w and rng.random() >= p_bad:
            out.append((rng.randint(-h, h - 1), rng.randint(-w, w - 1)))
        else:
            out.append((rng.randint(-h - 1, h), rng.randint(-w - 1, w)))
    return out


def rand_key2(h, w, rng):
    r = rng.random()
    if r < 0.15:
        return rand_axis_key(h, rng)
    if r < 0.3:
        return rand_coords(h, w, rng)
    return (rand_axis_key(h, rng), rand_axis_key(w, rng))


def coord_lists(h, w, rng):
    """coordinate lists for the one-shot forms: empty, short, long, duplicates, one off-board pair at each position."""
    def valid():
        return (rng.randint(-h, h - 1), rng.randint(-w, w - 1))

    def oor():
        return rng.choice([(h, 0), (0, w), (-h - 1, 0), (0, -w - 1), (h + 300, w + 300), (-2 ** 40, 0), (0, 10 ** 20),
                           (h - 1, 2 ** 64), (-2 ** 63 - 1, -1)])
    out = [[]]
    if h and w:
        out.append([valid()])
        for n in (2, 3, 6):
            out.append([valid() for _ in range(n)])
        v = [valid() for _ in range(4)]
        out.append(v + v[::-1] + v[:1])
        out.append([valid() for _ in range(rng.randint(25, 40))])
        out.append([(y, x) for y in range(h) for x in range(w)][-64:])
        out.append([(y % h, (w - 1 - y) % w) for y in range(max(h, w))])      # anti-diagonal
        if w > 256:
            out.append([(0, 256), (0, 257), (-1, -257), (0, w - 1), (0, -w), (0, 299 - 42)])
        base = [valid() for _ in range(4)]
        for pos in (0, 2, 4):
            out.append(base[:pos] + [oor()] + base[pos:])
    out.append([oor()])
    out.append([oor(), oor()])
    return out


def gen_extra(ctx):
    """the hardening stream: yields (h, w, canonical key, form)."""
    rng = ctx.rng
    T = ctx.thorough
    coord_forms = list(COORD_FORMS)
    # -- class 1: coordinate keys in every iterable form
    for (h, w) in S1:
        for l in coord_lists(h, w, rng):
            for form in coord_forms:
                yield h, w, l, form
    for (h, w) in SMALL + S5:
        for _ in range(60 if T else 20):
            yield h, w, rand_coords(h, w, rng), rng.choice(ONE_SHOT)
    # -- class 2: run-time ints far outside the small-int cache, long axes
    nsl, nb = (120, 600) if T else (40, 150)
    rep = [0, -1, slice(None), slice(None, None, -1), slice(1, None, 2)]
    for (h, w) in S2:
        yi, ys = big_axis_keys(h, rng, nsl)
        xi, xs = big_axis_keys(w, rng, nsl)
        for ky in yi + ys:
            for kx in rep:
                yield h, w, (ky, kx), "fresh"
        for kx in xi + xs:
            for ky in rep:
                yield h, w, (ky, kx), "fresh"
        for _ in range(nb):
            yield h, w, (rng.choice(yi + ys), rng.choice(xi + xs)), "fresh"
        for ky in yi + ys:
            yield h, w, ky, "fresh"
        for _ in range(40):
            l = rand_coords(h, w, rng, rng.randint(1, 6), 0.0)
            if rng.random() < 0.3:
                l.insert(rng.randint(0, len(l)), (rng.choice(yi), rng.choice(xi)))
            yield h, w, l, rng.choice(coord_forms)
    # -- class 5: larger shapes, steps up to +-5, both axes non-trivial
    n5 = 8000 if T else 2500
    for (h, w) in S5:
        def full_rev(n, s):
            return [slice(None, None, s), slice(n - 1, None, s), slice(-1, -n - 1, s), slice(n + 3, -n - 3, s)]
        for sy in range(-5, 0):
            for sx in range(-5, 0):
                for ky in full_rev(h, sy):
                    for kx in full_rev(w, sx):
                        yield h, w, (ky, kx), None
        for sy in STRIDES:
            for sx in STRIDES:
                yield h, w, (slice(None, None, sy), slice(None, None, sx)), None
        for _ in range(n5):
            yield h, w, (rand_slice(h, rng, STRIDES), rand_slice(w, rng, STRIDES)), None
        for _ in range(n5 // 2):
            yield h, w, (rand_slice(h, rng, [-1, -2, -3, -4, -5]), rand_slice(w, rng, [-1, -2, -3, -4, -5])), None
        for _ in range(n5 // 2):
            yield h, w, (rand_slice(h, rng), rand_slice(w, rng)), None
        for y in range(-h - 1, h + 1):
            for _ in range(6):
                yield h, w, (y, rand_slice(w, rng)), None
        for x in range(-w - 1, w + 1):
            for _ in range(6):
                yield h, w, (rand_slice(h, rng), x), None
        for _ in range(40):
            yield h, w, rand_slice(h, rng), None
        for _ in range(10):
            yield h, w, rand_coords(h, w, rng, rng.randint(20, 45), 0.02), rng.choice(coord_forms)
    # small shapes: (slice, slice) pairs with a stride or a reversal on BOTH axes
    bnd = [None] + list(range(-7, 8))
    nt = [-3, -2, -1, 2, 3]
    for (h, w) in SMALL:
        for _ in range(2000 if T else 600):
            yield h, w, (slice(rng.choice(bnd), rng.choice(bnd), rng.choice(nt)),
                         slice(rng.choice(bnd), rng.choice(bnd), rng.choice(nt))), None
    # -- class 6: bool / int-subclass / __index__ keys
    for (h, w) in [(2, 2), (2, 3), (3, 2), (1, 2), (2, 1), (0, 2)]:
        ax = [0, 1, -1, slice(None, None, -1)] + [slice(a, b, c) for a in (None, 0, 1) for b in (None, 0, 1) for c in (None, 1)]
        for ky in ax:
            yield h, w, ky, "bool"
            for kx in ax:
                yield h, w, (ky, kx), "bool"
    for _ in range(12000 if T else 4000):
        h, w = rng.choice(SMALL + S5)
        k = rand_key2(h, w, rng)
        if isinstance(k, list):
            yield h, w, k, rng.choice(("intsub", "bool", "namedtuple"))
        else:
            yield h, w, k, rng.choice(("intsub", "index", "fresh"))


def gen_chains(ctx):
    """chained indexing a[k1][k2] (k1 selects an array): yields (h, w, k1, k2, dim of a[k1], expected)."""
    rng = ctx.rng
    shapes = [s for s in SMALL + S5 if s[0] and s[1]]
    n = 20000 if ctx.thorough else 6000
    for _ in range(n):
        h, w = rng.choice(shapes)
        k1 = rand_key2(h, w, rng)
        p1 = pylist_get(h, w, k1)
        if p1[0] != "ok" or p1[1][0] == "S":
            continue
        if p1[1][0] == "2":
            _, h2, w2, vals = p1[1]
            k2 = rand_key2(h2, w2, rng)
            yield h, w, k1, k2, "2", pylist_get(h2, w2, k2, vals)
        else:
            vals = p1[1][1]
            k2 = rand_axis_key(len(vals), rng)
            yield h, w, k1, k2, "1", pylist_get1(vals, k2)


# malformed coordinate entries: outside the model; a one-shot carrier must behave like the list carrier
MALFORMED = [
    [(0, 0), [0, 1]], [(0, 1, 2)], [(0,)], [(0, 0), (1.0, 1)], [(0, 0), None], ["ab"], [(0, 0), (5, 0), "x"],
    [(5, 0), [0, 0]], [((0, 0), (1, 1))], [(0, 0), (None, 1)], [(0, slice(None))], [(1, 2), 3], [(0, 0), (1, 1), ()],
]


def raw_get(arr, ko):
    def f():
        r = arr[ko]
        from cspuz.array import Array1D, Array2D
        if isinstance(r, (Array1D, Array2D)):
            want = type(arr).__name__.replace("2D", "").replace("1D", "")
            assert type(r).__name__.startswith(want), "result class %s" % type(r).__name__
        return r
    return vlib.guarded(f)


def impl_chain(arr, idx, k1, k2):
    r1 = raw_get(arr, k1)
    if r1[0] != "ok":
        return r1
    return norm_raw(raw_get(r1[1], k2), idx)


def norm_raw(raw, idx):
    if raw[0] != "ok":
        return raw
    return vlib.guarded(norm_impl, raw[1], idx)


def key_snapshot(ko):
    if isinstance(ko, (int, slice, tuple)):
        return copy.deepcopy(ko)
    return list(ko)


def history_problems(h, w, k, form, store):
    """same key object twice; results mutated, then re-indexed; array and key unchanged.
    returns (expected, [(what, observed)])"""
    akind = "int" if (h + w) % 2 else "bool"
    if (h, w) not in store:
        arr, data = mk_array(h, w, akind)
        store[(h, w)] = (arr, {id(e): i for i, e in enumerate(data)})
    arr, idx = store[(h, w)]
    rowmajor = tuple(range(h * w))

    def data_ok():
        return (arr.shape == (h, w) and isinstance(arr.data, list)
                and tuple(idx.get(id(e), -1) for e in arr.data) == rowmajor)
    po = pylist_get(h, w, k)
    probs = []
    oneshot = isinstance(k, list) and form in ONE_SHOT
    ko = dress(k, form)
    before = None if oneshot else key_snapshot(ko)
    raw1 = raw_get(arr, ko)
    n1 = norm_raw(raw1, idx)
    if n1 != po:
        probs.append(("first use", n1))
    if not oneshot and key_snapshot(ko) != before:
        probs.append(("the key object was modified by indexing", repr(ko)))
    raw2 = raw_get(arr, ko)
    n2 = norm_raw(raw2, idx)
    exp2 = po
    if oneshot:
        # an exhausted iterator selects nothing; one that stopped at an off-board pair resumes after it
        bad = [i for i, (y, x) in enumerate(k) if not (-h <= y < h and -w <= x < w)]
        exp2 = pylist_get(h, w, k[bad[0] + 1:] if bad else [])
    if n2 != exp2:
        probs.append(("second use of the same key object", n2))
    for raw in (raw1, raw2):
        if raw[0] == "ok" and hasattr(raw[1], "data"):
            raw[1].data.reverse()
            if raw[1].data:
                raw[1].data.pop()
            raw[1].data.append(None)
    if not data_ok():
        probs.append(("the array's data / shape changed (indexing, or mutating the returned array)",
                      [list(arr.shape), [idx.get(id(e), -1) for e in arr.data][:40]]))
        del store[(h, w)]
        return po, probs
    n3 = norm_raw(raw_get(arr, dress(k, form)), idx)
    if n3 != po:
        probs.append(("indexing again after the earlier result was mutated", n3))
    return po, probs


def alias_problems(h, w):
    """flatten / reshape / 1-D slices return fresh row-major data (mutating them leaves the source intact)."""
    from cspuz.array import Array1D
    probs = []
    rowmajor = tuple(range(h * w))
    for akind in ("int", "bool"):
        arr, data = mk_array(h, w, akind)
        idx = {id(e): i for i, e in enumerate(data)}
        a1 = (type(arr.flatten()))(data)

        def ids(a):
            return tuple(idx.get(id(e), -1) for e in a.data)

        def spoil(r):
            r.data.reverse()
            if r.data:
                r.data.pop()
            r.data.append(None)
        for name, src, f, want in [
            ("flatten", arr, lambda: arr.flatten(), ("1", rowmajor)),
            ("reshape", arr, lambda: arr.reshape((w, h)), ("2", w, h, rowmajor)),
            ("reshape-1d", a1, lambda: a1.reshape((h, w)), ("2", h, w, rowmajor)),
            ("slice-1d", a1, lambda: a1[:], ("1", rowmajor)),
            ("slice-1d-rev", a1, lambda: a1[::-1], ("1", rowmajor[::-1])),
            ("full-2d", arr, lambda: arr[:, :], ("2", h, w, rowmajor)),
            ("full-2d-single", arr, lambda: arr[:], ("2", h, w, rowmajor)),
        ]:
            for rnd in (1, 2):
                r = vlib.guarded(f)
                got = norm_raw(r, idx)
                if got != ("ok", want):
                    probs.append((akind, name, "call %d" % rnd, got, want))
                if r[0] == "ok":
                    spoil(r[1])
                if ids(src) != rowmajor or (isinstance(src, Array1D) and src.shape != (h * w,)) or \
                        (not isinstance(src, Array1D) and src.shape != (h, w)):
                    probs.append((akind, name, "source changed after mutating the result", ids(src)[:40], rowmajor[:40]))
                    return probs
    return probs


NEST_FORMS = {
    "list-of-lists": lambda rows: [list(r) for r in rows],
    "tuple-of-tuples": lambda rows: tuple(tuple(r) for r in rows),
    "gen-of-gens": lambda rows: ((e for e in r) for r in rows),
    "map-iter": lambda rows: map(iter, rows),
    "list-of-gens": lambda rows: [(e for e in r) for r in rows],
    "iter-of-lists": lambda rows: iter([list(r) for r in rows]),
    "zip-cols": lambda rows: zip(*[[r[x] for r in rows] for x in range(len(rows[0]))]) if rows[0] else [() for _ in rows],
    "reversed": lambda rows: reversed([list(r) for r in rows][::-1]),
}


def construct_problems(h, w, form):
    """an array built from a nested iterable IS that list of lists: shape, row-major data, a[y, x] is rows[y][x]."""
    from cspuz.array import IntArray2D, BoolArray2D, IntArray1D, BoolArray1D
    from cspuz.expr import IntVar, BoolVar
    probs = []
    for akind in ("int", "bool"):
        flat = [IntVar(i, 0, 1) for i in range(h * w)] if akind == "int" else [BoolVar(i) for i in range(h * w)]
        idx = {id(e): i for i, e in enumerate(flat)}
        rows = [flat[y * w:(y + 1) * w] for y in range(h)]
        C2, C1 = (IntArray2D, IntArray1D) if akind == "int" else (BoolArray2D, BoolArray1D)
        want = ("ok", ("2", h, w, tuple(range(h * w))))
        got = vlib.guarded(lambda: norm_impl(C2(NEST_FORMS[form](rows)), idx))
        if got != want:
            probs.append((akind, "nested", got, want))
        elif h and w:
            a = C2(NEST_FORMS[form](rows))
            bad = [(y, x) for y in range(h) for x in range(w) if a[y, x] is not rows[y][x] or a[y][x] is not rows[y][x]]
            if bad:
                probs.append((akind, "cells", bad[:5], []))
        for nm, mk in (("flat-gen", lambda: C2((e for e in flat), (h, w))), ("flat-iter", lambda: C2(iter(flat), (h, w))),
                       ("flat-map", lambda: C2(map(lambda e: e, flat), (h, w)))):
            got = vlib.guarded(lambda: norm_impl(mk(), idx))
            if got != want:
                probs.append((akind, nm, got, want))
        for nm, mk in (("1d-gen", lambda: C1(e for e in flat)), ("1d-reversed", lambda: C1(reversed(flat[::-1])))):
            got = vlib.guarded(lambda: norm_impl(mk(), idx))
            if got != ("ok", ("1", tuple(range(h * w)))):
                probs.append((akind, nm, got, ("1", tuple(range(h * w)))))
    return probs


def translate(ctx):
    """tie T for the arithmetic core: array.py::_range_size is translated from source into Gen/PyIntArray.v on every
    run; Array/RangeSizeGen.v proves it equal to the model's range_size (Props/C13.v::range_size_from_source)"""
    import pyint_translate as T
    src = open(os.path.join(vlib.REPO, "cspuz", "array.py")).read()
    txt = T.HEADER % ("cspuz/array.py::_range_size", "step (after `if step == 0: raise`), -step")
    txt += T.translate_function(src, "_range_size", "range_size_py", nonzero=["step", "-step"])
    vlib.write_if_changed(os.path.join(vlib.THEORIES, "Gen", "PyIntArray.v"), txt)


def correspond(ctx):
    m = ctx.model("C13")
    arrays = {}
    ctx._c13_arrays = arrays

    def array_for(h, w):
        if (h, w) not in arrays:
            arr, data = mk_array(h, w, "int" if (h + w) % 2 == 0 else "bool")
            arrays[(h, w)] = (arr, {id(e): i for i, e in enumerate(data)})
        return arrays[(h, w)]
    reqs, cases = [], []
    for (h, w, k) in gen_cases(ctx):
        reqs.append("G2 %d %d %s" % (h, w, key2_tok(k)))
        reqs.append("P2 %d %d %s" % (h, w, key2_tok(k)))
        cases.append((h, w, k))
    outs = m.batch(reqs)
    ctx._c13 = []
    for i, (h, w, k) in enumerate(cases):
        arr, idx = array_for(h, w)
        mo = parse_reply(outs[2 * i])
        so = parse_reply(outs[2 * i + 1])
        io = impl_get(arr, idx, k)
        kk = ("L", tuple(k)) if isinstance(k, list) else key_repr(k)
        ctx.corr("getitem2", (h, w, repr(kk)), mo, io)
        ctx._c13.append((h, w, k, None, so, io))
    # hardening stream: the same tie, the key handed to cspuz in its FORM (the model sees the canonical key)
    reqs, cases, seen = [], [], {}
    for (h, w, k, form) in gen_extra(ctx):
        tok = "%d %d %s" % (h, w, key2_tok(k))
        if tok not in seen:
            seen[tok] = len(reqs)
            reqs.append("G2 " + tok)
            reqs.append("P2 " + tok)
        cases.append((h, w, k, form, seen[tok]))
    outs = m.batch(reqs)
    for (h, w, k, form, j) in cases:
        arr, idx = array_for(h, w)
        mo, so = parse_reply(outs[j]), parse_reply(outs[j + 1])
        io = impl_get(arr, idx, dress(k, form))
        ctx.count("form:%s" % form)
        ctx.corr("getitem2-form", (h, w, repr(kk_of(k)), form), mo, io)
        ctx._c13.append((h, w, k, form, so, io))
    # chained indexing: the model applied to its own result
    chains = list(gen_chains(ctx))
    outs = m.batch(["CH %d %d %s ; %s" % (h, w, key2_tok(k1), key2_tok(k2) if dim == "2" else "1 " + key_tok(k2))
                    for (h, w, k1, k2, dim, po) in chains])
    ctx._c13_chains = []
    for (h, w, k1, k2, dim, po), o in zip(chains, outs):
        arr, idx = array_for(h, w)
        io = impl_chain(arr, idx, k1, k2)
        ctx.corr("getitem-chain", (h, w, repr(kk_of(k1)), repr(kk_of(k2))), parse_reply(o), io)
        ctx._c13_chains.append((h, w, k1, k2, po, io))
    # 1-D arrays, flatten, reshape
    from cspuz.array import IntArray1D, BoolArray1D
    from cspuz.expr import IntVar, BoolVar
    reqs, cases = [], []
    for n in range(0, 7 if ctx.thorough else 6):
        ints, sl = axis_keys(n, 7, 3, ctx.rng, None if ctx.thorough else 600)
        for k in ints + sl:
            reqs.append("G1 %d %s" % (n, key_tok(k)))
            cases.append((n, k))
    outs = m.batch(reqs)
    for (n, k), o in zip(cases, outs):
        data = [IntVar(i, 0, 1) for i in range(n)] if n % 2 else [BoolVar(i) for i in range(n)]
        arr = IntArray1D(data) if n % 2 else BoolArray1D(data)
        idx = {id(e): i for i, e in enumerate(data)}
        io = impl_get(arr, idx, k)
        ctx.corr("getitem1", (n, repr(key_repr(k))), parse_reply(o), io)
    # hardening: 1-D arrays with run-time big ints (a long axis too) and bool / int-subclass / __index__ keys
    reqs, cases = [], []
    for n in (0, 3, 260, 300):
        ints, sl = big_axis_keys(n, ctx.rng, 150 if ctx.thorough else 60)
        for k in ints + sl:
            cases.append((n, k, "fresh"))
    for n in range(0, 6):
        for _ in range(60):
            cases.append((n, rand_axis_key(n, ctx.rng), ctx.rng.choice(("intsub", "bool", "index"))))
    for n in (1, 2, 3):
        for k in [0, 1, -1] + [slice(a, b, c) for a in (None, 0, 1) for b in (None, 0, 1) for c in (None, 1, -1)]:
            cases.append((n, k, "bool"))
    outs = m.batch(["G1 %d %s" % (n, key_tok(k)) for (n, k, form) in cases])
    arr1 = {}
    ctx._c13_1d = []
    for (n, k, form), o in zip(cases, outs):
        if n not in arr1:
            data = [IntVar(i, 0, 1) for i in range(n)] if n % 2 else [BoolVar(i) for i in range(n)]
            arr1[n] = (IntArray1D(data) if n % 2 else BoolArray1D(data), {id(e): i for i, e in enumerate(data)})
        arr, idx = arr1[n]
        io = impl_get(arr, idx, dress(k, form))
        ctx.count("form1d:%s" % form)
        ctx.corr("getitem1-form", (n, repr(key_repr(k)), form), parse_reply(o), io)
        ctx._c13_1d.append((n, k, form, io))
    ctx._c13_arr1 = arr1
    reqs, cases = [], []
    big_rs = [(300, 1, 300), (300, 300, 1), (300, 15, 20), (300, 20, 15), (300, 2, 150), (300, 299, 1), (300, 17, 18),
              (0, 4294967297, 0), (0, 0, 2 ** 61 + 1), (1, 2 ** 64, 0), (1, 10 ** 30, 10 ** 30), (258, 2, 129), (258, 129, 2), (257, 257, 1), (257, 1, 256)]
    for (n, h, w) in [(n, h, w) for n in range(0, 13) for h in range(0, 5) for w in range(0, 5)] + big_rs:
        reqs.append("RS %d %d %d" % (n, h, w))
        cases.append((n, h, w))
    outs = m.batch(reqs)
    for (n, h, w), o in zip(cases, outs):
        data = [IntVar(i, 0, 1) for i in range(n)]
        idx = {id(e): i for i, e in enumerate(data)}
        a1 = IntArray1D(data)
        io = vlib.guarded(lambda: norm_impl(a1.reshape((_fresh(h), _fresh(w))), idx))
        ctx.corr("reshape1", (n, h, w), parse_reply(o), io)
        if n == h * w and n < 200:
            from cspuz.array import IntArray2D
            a2 = IntArray2D(data, (h, w))
            for (h2, w2) in [(w, h), (1, n), (n, 1), (h, w + 1)]:
                o2 = m.call("RS %d %d %d" % (n, h2, w2))
                io = vlib.guarded(lambda: norm_impl(a2.reshape((h2, w2)), idx))
                ctx.corr("reshape2", (n, h, w, h2, w2), parse_reply(o2), io)
            io = vlib.guarded(lambda: norm_impl(a2.flatten(), idx))
            ctx.corr("flatten", (h, w), ("ok", ("1", tuple(range(n)))), io)


def _vkey(h, w, kk, form):
    return "getitem:%dx%d:%r" % (h, w, kk) + (":" + form if form else "")


def _prop_stream(ctx):
    """(h, w, key, form, spec outcome or None, implementation outcome) for every indexed case."""
    got = getattr(ctx, "_c13", None)
    if got:
        for t in got:
            yield t
        return
    # correspondence could not run (model build broken): run the implementation directly
    store = {}
    for (h, w, k, form) in itertools.chain(((h, w, k, None) for (h, w, k) in gen_cases(ctx)), gen_extra(ctx)):
        if (h, w) not in store:
            arr, data = mk_array(h, w, "int")
            store[(h, w)] = (arr, {id(e): i for i, e in enumerate(data)})
        arr, idx = store[(h, w)]
        yield h, w, k, form, None, impl_get(arr, idx, dress(k, form))


def search(ctx):
    """the property itself: implementation vs real Python lists of lists; also the
    Coq specification vs real Python lists (validation of the trusted spec)."""
    rng = ctx.rng
    hist = []
    for (h, w, k, form, so, io) in _prop_stream(ctx):
        po = pylist_get(h, w, k)
        kk = kk_of(k)
        if form is None:
            ctx.prop_case("impl-vs-pylist", (h, w, repr(kk)))
        else:
            ctx.prop_case("impl-vs-pylist-form", (h, w, repr(kk), form))
        if so is not None and so != po:
            ctx.mismatches.append({"kind": "spec-vs-pylist", "input": [h, w, repr(kk)], "model": so, "impl": po})
        if io != po:
            d = {"shape": [h, w], "key": repr(kk), "python_lists": po, "cspuz": io}
            if form:
                d["form"] = form
            ctx.violation(_vkey(h, w, kk, form), "a[key] differs from the nested-list result"
                          + (" (key given as %s)" % form if form else ""), d)
        # histories: every hardening case, a sample of the exhaustive ones
        if form is not None or rng.random() < (0.1 if ctx.deep else 0.03):
            hist.append((h, w, k, form))
    # chained indexing a[k1][k2] vs the same two steps on Python lists
    chains = getattr(ctx, "_c13_chains", None)
    if chains is None:
        chains = []
        for (h, w, k1, k2, dim, po) in gen_chains(ctx):
            arr, data = mk_array(h, w, "int")
            chains.append((h, w, k1, k2, po, impl_chain(arr, {id(e): i for i, e in enumerate(data)}, k1, k2)))
    for (h, w, k1, k2, po, io) in chains:
        kk1, kk2 = kk_of(k1), kk_of(k2)
        ctx.prop_case("chain-vs-pylist", (h, w, repr(kk1), repr(kk2)))
        if io != po:
            ctx.violation("chain:%dx%d:%r:%r" % (h, w, kk1, kk2), "a[k1][k2] differs from the nested-list result",
                          {"check": "chain", "shape": [h, w], "key": repr(kk1), "key2": repr(kk2),
                           "python_lists": po, "cspuz": io})
    # 1-D arrays in key forms vs a real Python list; the shared 1-D arrays are unchanged
    for (n, k, form, io) in getattr(ctx, "_c13_1d", []):
        po = pylist_get1(range(n), k)
        ctx.prop_case("impl1d-vs-pylist-form", (n, repr(key_repr(k)), form))
        if io != po:
            ctx.violation("getitem1:%d:%r:%s" % (n, key_repr(k), form), "a[key] on a 1-D array differs from the list result",
                          {"check": "1d", "shape": [n, 1], "key": repr(key_repr(k)), "form": form, "python_lists": po, "cspuz": io})
    for n, (arr, idx) in sorted(getattr(ctx, "_c13_arr1", {}).items()):
        ctx.prop_case("data-unchanged-1d", (n,))
        now = [idx.get(id(e), -1) for e in arr.data]
        if arr.shape != (n,) or now != list(range(n)):
            ctx.violation("data-changed-1d:%d" % n, "indexing modified the 1-D array it was applied to",
                          {"check": "data", "shape": [n, 1], "shape_now": list(arr.shape), "data_now": now[:60]})
    # class 3: same key object twice, results mutated then re-indexed, array / key unchanged
    store = {}
    for (h, w, k, form) in hist:
        po, probs = history_problems(h, w, k, form, store)
        kk = kk_of(k)
        ctx.prop_case("history", (h, w, repr(kk), form))
        if probs:
            ctx.violation("history:" + _vkey(h, w, kk, form), "indexing is not repeatable / aliases state: " + probs[0][0],
                          {"check": "history", "shape": [h, w], "key": repr(kk), "form": form, "python_lists": po,
                           "problems": [[a, repr(b)] for a, b in probs]})
    for (h, w) in sorted(set(SMALL + S5 + [(0, 5), (1, 300)])):
        ctx.prop_case("alias", (h, w))
        probs = alias_problems(h, w)
        if probs:
            ctx.violation("alias:%dx%d:%s" % (h, w, probs[0][1]), "flatten / reshape / full slice is not a fresh row-major copy",
                          {"check": "alias", "shape": [h, w], "problems": [repr(p) for p in probs[:5]]})
    # the arrays shared by all correspondence cases must still be what they were
    for (h, w), (arr, idx) in sorted(getattr(ctx, "_c13_arrays", {}).items()):
        ctx.prop_case("data-unchanged", (h, w))
        now = [idx.get(id(e), -1) for e in arr.data]
        if arr.shape != (h, w) or now != list(range(h * w)):
            ctx.violation("data-changed:%dx%d" % (h, w), "indexing modified the array it was applied to",
                          {"check": "data", "shape": [h, w], "shape_now": list(arr.shape), "data_now": now[:60]})
    # class 1 at construction: nested one-shot iterables are the list of lists they yield
    for (h, w) in [(1, 0), (1, 1), (1, 4), (2, 3), (3, 2), (4, 4), (3, 10), (7, 7), (1, 300)]:
        for form in NEST_FORMS:
            ctx.prop_case("construct", (h, w, form))
            probs = construct_problems(h, w, form)
            if probs:
                ctx.violation("construct:%dx%d:%s" % (h, w, form), "an array built from nested iterables is not that list of lists",
                              {"check": "construct", "shape": [h, w], "form": form, "problems": [repr(p) for p in probs[:5]]})
    # malformed coordinate entries: outside the model; the carrier of the entries must not matter
    arr, data = mk_array(2, 3, "bool")
    idx = {id(e): i for i, e in enumerate(data)}
    for mi, l in enumerate(MALFORMED):
        ref = norm_raw(raw_get(arr, list(l)), idx)
        for form in STRUCT_FORMS:
            ctx.prop_case("malformed-form-vs-list", (mi, form))
            got = norm_raw(raw_get(arr, COORD_FORMS[form](list(l))), idx)
            if got != ref:
                ctx.violation("malformed:%d:%s" % (mi, form), "an index array with a malformed entry behaves differently when "
                              "given as %s than as a list" % form,
                              {"check": "malformed", "shape": [2, 3], "entries": repr(l), "form": form,
                               "as_list": ref, "as_form": got})


def _unkk(kk):
    one = lambda x: eval(x, {"slice": slice}) if isinstance(x, str) else x  # noqa  (reprs written by this harness)
    if isinstance(kk, tuple) and kk and kk[0] == "L":
        return list(kk[1])
    if isinstance(kk, list):
        return (one(kk[0]), one(kk[1]))
    return one(kk)


def replay(ctx, rp):
    v = rp.get("violation", {}).get("detail", {})
    print(rp)
    if not v:
        return 0
    h, w = v["shape"]
    check = v.get("check")
    if check == "alias":
        probs = alias_problems(h, w)
        print("problems:", probs[:5])
        return 1 if probs else 0
    if check == "construct":
        probs = construct_problems(h, w, v["form"])
        print("problems:", probs[:5])
        return 1 if probs else 0
    if check == "data":
        print("array data changed during the run; re-run ./check C13")
        return 1
    arr, data = mk_array(h, w, "int")
    idx = {id(e): i for i, e in enumerate(data)}
    if check == "malformed":
        l = eval(v["entries"], {"slice": slice})
        ref = norm_raw(raw_get(arr, list(l)), idx)
        got = norm_raw(raw_get(arr, COORD_FORMS[v["form"]](list(l))), idx)
        print("as list:", ref, " as", v["form"], ":", got)
        return 1 if got != ref else 0
    k = _unkk(eval(v["key"], {"slice": slice}))
    form = v.get("form")
    if check == "1d":
        from cspuz.array import IntArray1D
        from cspuz.expr import IntVar
        data = [IntVar(i, 0, 1) for i in range(h)]
        io = impl_get(IntArray1D(data), {id(e): i for i, e in enumerate(data)}, dress(k, form))
        po = pylist_get1(range(h), k)
        print("cspuz:", io, " python list:", po, " form:", form)
        return 1 if io != po else 0
    if check == "chain":
        k2 = _unkk(eval(v["key2"], {"slice": slice}))
        p1 = pylist_get(h, w, k)[1]
        po = pylist_get(p1[1], p1[2], k2, p1[3]) if p1[0] == "2" else pylist_get1(p1[1], k2)
        io = impl_chain(arr, idx, k, k2)
        print("cspuz:", io, " python lists:", po)
        return 1 if io != po else 0
    if check == "history":
        po, probs = history_problems(h, w, k, form, {})
        print("python lists:", po, " problems:", probs)
        return 1 if probs else 0
    io, po = impl_get(arr, idx, dress(k, form)), pylist_get(h, w, k)
    print("cspuz:", io, " python lists:", po, " form:", form)
    return 1 if io != po else 0
