(* C11 Tier 1 - model of cspuz/puzzle/compass.py::solve_compass(height, width, problem), all board shapes:
       roots = map(lambda x: (x[0], x[1]), problem)
       division = solver.int_array((height, width), 0, len(problem) - 1)
       graph.division_connected(solver, division, len(problem), roots=roots)
       solver.add_answer_key(division)
       for i, (y, x, up, lf, dw, rg) in enumerate(problem):
           solver.ensure(division[y, x] == i)
           if up >= 0: solver.ensure(count_true(division[:y, :] == i) == up)
           if dw >= 0: solver.ensure(count_true(division[(y + 1):, :] == i) == dw)
           if lf >= 0: solver.ensure(count_true(division[:, :x] == i) == lf)
           if rg >= 0: solver.ensure(count_true(division[:, (x + 1):] == i) == rg)
   There is ONE call into cspuz.graph: the model of property C05 (Graph/Division.v::division_connected), grid
   form, one group per compass, roots = the compass cells as tuples (y, x) in problem order, allow_empty_group
   False, auxiliary-variable encoding (config.use_graph_primitive is False for the z3 backend the capture harness
   runs with).  The answer keys are the division variables themselves (ids 0 .. h*w-1, flagged after the call);
   the variables of the connectivity encoding (rank, is_root, spanning_forest: ids h*w .. 3*h*w+#edges-1) follow.
   count_true over an empty slice is the node INT_CONSTANT 0; over a non-empty slice ADD of (cell == i).cond(1, 0),
   row-major.
   Error points, as in the Python:
     - no compass: int_array(.., 0, -1) raises ValueError;
     - a board without cells (and at least one compass): ValueError in division_connected (rank = int_array(0, 0, -1));
     - a compass outside the board (y >= height or x >= width): IndexError (in division_connected when y*width+x is
       no vertex, else at division[y, x]).
   The problem uses the encoding of Rules_compass.v ([[h; w]; 6 values per compass]).  Two kinds of input lie outside
   that alphabet and are rejected by the model with ValueError before anything else:
     - a clue list whose length is not a multiple of 6: it stands for a last tuple with fewer than 6 entries, on which
       the Python raises ValueError (tuple unpacking) when that tuple has at least 2 entries and everything else is
       in range - the only such problems the plug-in generates;
     - a negative compass coordinate (Python's negative indexing would wrap around; the rules have no such
       compass): the plug-in's problems never contain one.
   No proofs here. *)
From Coq Require Import ZArith List Bool Arith.
From Cspuz Require Import Lib.PyErr Core.Expr Core.Program Graph.GraphModel Graph.Division
     Puzzle.PuzzleBase Puzzle.ModelBase.
Import ListNotations.
Local Open Scope nat_scope.

(* the cells of rows y0 .. y0+ny-1, columns x0 .. x0+nx-1, row-major (a 2-D slice, flattened) *)
Definition cp_rect (y0 ny x0 nx : nat) : list (nat * nat) :=
  flat_map (fun y => map (fun x => (y, x)) (seq x0 nx)) (seq y0 ny).

(* entry j of compass i: 0 y, 1 x, 2 up, 3 left, 4 down, 5 right *)
Definition cp_field (cps : list Z) (i j : nat) : Z := getz cps (6 * i + j).

(* division[y, x] *)
Definition cp_div (k w : nat) (c : nat * nat) : expr := IVar (cidx w c) 0 (Z.of_nat k - 1).

(* count_true(division[slice] == i) *)
Definition cp_count (k w i : nat) (cs : list (nat * nat)) : expr :=
  match cs with
  | [] => INode INT_CONSTANT [PyInt 0]
  | _ => INode ADD (map (fun c => INode IF [BNode EQ [cp_div k w c; PyInt (Z.of_nat i)]; PyInt 1; PyInt 0]) cs)
  end.

(* if c >= 0: solver.ensure(count_true(division[slice] == i) == c) *)
Definition cp_clue (k w i : nat) (cs : list (nat * nat)) (c : Z) : list expr :=
  if (0 <=? c)%Z then [BNode EQ [cp_count k w i cs; PyInt c]] else [].

(* one iteration of the loop over the compasses *)
Definition cp_compass (h w : nat) (cps : list Z) (k i : nat) : list expr :=
  let f := cp_field cps i in
  let y := zn (f 0) in let x := zn (f 1) in
  BNode EQ [cp_div k w (y, x); PyInt (Z.of_nat i)] ::
  cp_clue k w i (cp_rect 0 y 0 w) (f 2) ++
  cp_clue k w i (cp_rect (S y) (h - S y) 0 w) (f 4) ++
  cp_clue k w i (cp_rect 0 h 0 x) (f 3) ++
  cp_clue k w i (cp_rect 0 h (S x) (w - S x)) (f 5).

Definition cp_root (cps : list Z) (i : nat) : root_arg := RTup [cp_field cps i 0; cp_field cps i 1].

Definition cp_nonneg (cps : list Z) (i : nat) : bool := ((0 <=? cp_field cps i 0) && (0 <=? cp_field cps i 1))%Z.
Definition cp_in_board (h w : nat) (cps : list Z) (i : nat) : bool :=
  ((cp_field cps i 0 <? Z.of_nat h) && (cp_field cps i 1 <? Z.of_nat w))%Z.

Definition solve_compass_model (pb : problem) : res state :=
  let h := dim pb 0 in let w := dim pb 1 in let cps := sec pb 1 in
  let k := Nat.div (length cps) 6 in
  if negb (Nat.eqb (Nat.modulo (length cps) 6) 0) then Err ValueError
  else if negb (forallb (cp_nonneg cps) (seq 0 k)) then Err ValueError
  else
    match int_array empty_state (h * w) 0 (Z.of_nat k - 1) with
    | Err e => Err e
    | Ok (st0, division) =>
        match division_connected st0 (D2 h w division) k None (Some (map (cp_root cps) (seq 0 k))) false false with
        | Err e => Err e
        | Ok st1 =>
            if forallb (cp_in_board h w cps) (seq 0 k) then
              Ok {| vars := vars st1;
                    keys := repeat true (h * w) ++ skipn (h * w) (keys st1);
                    cons := cons st1 ++ flat_map (cp_compass h w cps k) (seq 0 k) |}
            else Err IndexError
        end
    end.
