(* C11 Tier 1 - model of cspuz/puzzle/aquarium.py::solve_aquarium (after fix 97459c5), all board shapes:
       is_water = solver.bool_array((height, width)); solver.add_answer_key(is_water)
       for y: if clue_row[y] >= 0: ensure(count_true(is_water[y, :]) == clue_row[y])
       for x: if clue_col[x] >= 0: ensure(count_true(is_water[:, x]) == clue_col[x])
       block_id[y][x] = index of the block containing (y, x)
       for y: for x:
           for x2 in range(x + 1, width):                       # the next cell of the same tank in this row
               if block_id[y][x] == block_id[y][x2]: ensure(is_water[y, x] == is_water[y, x2]); break
           if y < height - 1 and block_id[y][x] == block_id[y + 1][x]:
               ensure(is_water[y, x].then(is_water[y + 1, x]))
   The problem uses the encoding of Rules_aquarium.v ([[h; w]; region ids; row clues; column clues]).
   A clue list shorter than the board raises IndexError in the clue loops.  No proofs here. *)
From Coq Require Import ZArith List Bool Arith.
From Cspuz Require Import Lib.PyErr Core.Expr Core.Program Graph.GraphModel Puzzle.PuzzleBase Puzzle.ModelBase.
Import ListNotations.
Local Open Scope nat_scope.

(* the column of the next cell to the right of (y, x) carrying the same region id *)
Definition next_same (region : list Z) (w y x : nat) : option nat :=
  find (fun x2 => (at2 region w y x =? at2 region w y x2)%Z) (seq (S x) (w - S x)).

Definition clue_constraint (ids : list nat) (c : Z) : list expr :=
  if (0 <=? c)%Z then [BNode EQ [ct_vars ids; PyInt c]] else [].

Definition aquarium_constraints (h w : nat) (region rows cols : list Z) : list expr :=
  flat_map (fun y => clue_constraint (map (fun x => cidx w (y, x)) (seq 0 w)) (getz rows y)) (seq 0 h) ++
  flat_map (fun x => clue_constraint (map (fun y => cidx w (y, x)) (seq 0 h)) (getz cols x)) (seq 0 w) ++
  flat_map (fun '(y, x) =>
      (match next_same region w y x with
       | Some x2 => [BNode IFF [BVar (cidx w (y, x)); BVar (cidx w (y, x2))]]
       | None => []
       end) ++
      (if Nat.ltb (S y) h && (at2 region w y x =? at2 region w (S y) x)%Z
       then [BNode IMP [BVar (cidx w (y, x)); BVar (cidx w (S y, x))]] else []))
    (cells h w).

Definition solve_aquarium_model (pb : problem) : res state :=
  let h := dim pb 0 in let w := dim pb 1 in
  if Nat.ltb (length (sec pb 2)) h then Err IndexError
  else if Nat.ltb (length (sec pb 3)) w then Err IndexError
  else Ok (bool_grid_state (h * w) (aquarium_constraints h w (sec pb 1) (sec pb 2) (sec pb 3))).

(* well-formedness of the problem: every tank (the cells carrying one region id) is orthogonally connected *)
Definition tanks_connected (h w : nat) (region : list Z) : Prop :=
  forall i : Z, connected (board h w) (fun v => (getz region v =? i)%Z).
