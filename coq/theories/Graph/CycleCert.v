(* C06 -- the certificate behind the non-primitive encoding of
   _active_edges_single_cycle (is_passed / rank / is_root as plain functions)
   and its equivalence with the graph-theoretic specification single_cycle.
   No expressions here. *)
From Coq Require Import ZArith List Bool Arith Lia.
From Cspuz Require Import Graph.GraphModel Graph.ReachProofs Graph.Cycle Graph.CycleLemmas.
Import ListNotations.
Open Scope nat_scope.

Lemma incident_edge_lt g v w k : In (w, k) (incident g v) -> k < length (edges g).
Proof.
  intros H. apply incident_spec in H. apply nth_error_Some. destruct H as [H|H]; rewrite H; discriminate.
Qed.

Lemma incident_vertex_lt g v w k :
  wf_graph g = true -> In (w, k) (incident g v) -> v < nv g /\ w < nv g.
Proof.
  intros Hwf H. apply incident_spec in H.
  destruct H as [H|H]; apply (wf_graph_edge g k _ _ Hwf) in H; tauto.
Qed.

Section Cert.
  Variable g : graph.
  Variable A : nat -> bool.

  Definition efl (je : nat * nat) : bool := A (snd je).

  Lemma degree_alt v : degree g A v = length (filter efl (incident g v)).
  Proof. unfold degree. apply filter_length_ext. intros [j k] _. reflexivity. Qed.

  Lemma degree_pos_intro v w k : In (w, k) (incident g v) -> A k = true -> 0 < degree g A v.
  Proof.
    intros Hin Ha. rewrite degree_alt.
    assert (H : In (w, k) (filter efl (incident g v))) by (apply filter_In; split; assumption).
    destruct (filter efl (incident g v)); [destruct H|simpl; lia].
  Qed.

  Lemma degree_pos_elim v :
    0 < degree g A v -> exists w k, In (w, k) (incident g v) /\ A k = true.
  Proof.
    rewrite degree_alt. destruct (filter efl (incident g v)) as [|[w k] l] eqn:Hf; simpl; [lia|].
    intros _. exists w, k.
    assert (H : In (w, k) (filter efl (incident g v))) by (rewrite Hf; left; reflexivity).
    apply filter_In in H. exact H.
  Qed.

  Lemma no_active_degree v : no_active g A -> degree g A v = 0.
  Proof.
    intros Hn. destruct (degree g A v) eqn:Hd; [reflexivity|]. exfalso.
    destruct (degree_pos_elim v) as [w [k [Hin Ha]]]; [lia|].
    rewrite (Hn k (incident_edge_lt g v w k Hin)) in Ha. discriminate.
  Qed.

  (* #{(j, e) in incident(i) | e active and rank_j >= rank_i} *)
  Definition cnt_ge (r : nat -> Z) (i : nat) : nat :=
    length (filter (fun je => efl je && (r i <=? r (fst je))%Z) (incident g i)).

  Definition cert (P : nat -> bool) (r : nat -> Z) (R : nat -> bool) : Prop :=
    (forall i, i < nv g -> degree g A i = if P i then 2 else 0) /\
    (forall i, i < nv g -> P i = true -> cnt_ge r i <= if R i then 2 else 1) /\
    length (filter R (seq 0 (nv g))) = 1.

  Hypothesis Hwf : wf_graph g = true.

  Lemma cert_ext P r R P' r' R' :
    (forall i, i < nv g -> P i = P' i /\ r i = r' i /\ R i = R' i) ->
    cert P r R -> cert P' r' R'.
  Proof.
    intros He [H1 [H2 H3]]. split; [|split].
    - intros i Hi. destruct (He i Hi) as [<- _]. apply H1; exact Hi.
    - intros i Hi HP. destruct (He i Hi) as [EP [Er ER]]. rewrite <- ER.
      rewrite <- EP in HP. specialize (H2 i Hi HP).
      replace (cnt_ge r' i) with (cnt_ge r i); [exact H2|].
      unfold cnt_ge. apply filter_length_ext. intros [j k] Hin. simpl.
      destruct (incident_vertex_lt g i j k Hwf Hin) as [_ Hj].
      destruct (He j Hj) as [_ [Erj _]]. rewrite Er, Erj. reflexivity.
    - rewrite <- H3. apply filter_length_ext. intros i Hi. apply in_seq in Hi.
      destruct (He i) as [_ [_ ER]]; [lia|]. symmetry; exact ER.
  Qed.

  Lemma cert_passed P r R : cert P r R -> forall i, i < nv g -> P i = visited g A i.
  Proof.
    intros [H1 _] i Hi. unfold visited. rewrite (H1 i Hi). destruct (P i); reflexivity.
  Qed.

  Lemma cert_descend P r R rho :
    cert P r R -> (forall i, i < nv g -> (0 <= r i)%Z) ->
    (forall i, i < nv g -> R i = true -> i = rho) ->
    forall k v, v < nv g -> P v = true -> Z.to_nat (r v) <= k ->
                reach g all_vertices_ok A v rho.
  Proof.
    intros [H1 [H2 H3]] Hr Huniq k. induction k as [k IH] using lt_wf_ind. intros v Hv HP Hk.
    destruct (R v) eqn:HR.
    - rewrite <- (Huniq v Hv HR). apply reach_refl. reflexivity.
    - pose proof (H2 v Hv HP) as Hc. rewrite HR in Hc.
      pose proof (H1 v Hv) as Hd. rewrite HP in Hd. rewrite degree_alt in Hd.
      destruct (filter_and_lt_witness efl (fun je => (r v <=? r (fst je))%Z) (incident g v))
        as [[j e] [Hin [Ha Hq]]].
      { unfold cnt_ge in Hc. lia. }
      simpl in Hq. apply Z.leb_gt in Hq. unfold efl in Ha. simpl in Ha.
      destruct (incident_vertex_lt g v j e Hwf Hin) as [_ Hj].
      assert (HPj : P j = true).
      { assert (Hdj : 0 < degree g A j).
        { apply (degree_pos_intro j v e); [apply incident_sym; exact Hin|exact Ha]. }
        rewrite (H1 j Hj) in Hdj. destruct (P j); [reflexivity|lia]. }
      apply reach_step_l with j; [reflexivity| |].
      + apply nbrs_incident. exists e. split; assumption.
      + pose proof (Hr j Hj). pose proof (Hr v Hv).
        apply (IH (Z.to_nat (r j))); try assumption; lia.
  Qed.

  Theorem cert_sound P r R :
    cert P r R -> (forall i, i < nv g -> (0 <= r i)%Z) -> single_cycle g A.
  Proof.
    intros Hc Hr. right. split.
    - intros v Hv. destruct Hc as [H1 _]. rewrite (H1 v Hv). destruct (P v); auto.
    - pose proof Hc as [H1 [H2 H3]].
      destruct (length_one _ H3) as [rho Hrho].
      assert (Huniq : forall i, i < nv g -> R i = true -> i = rho).
      { intros i Hi HR. apply (filter_single_unique R (seq 0 (nv g)) rho Hrho); [|exact HR].
        apply in_seq. lia. }
      assert (Hdown : forall v, v < nv g -> 0 < degree g A v -> reach g all_vertices_ok A v rho).
      { intros v Hv Hd. apply (cert_descend P r R rho Hc Hr Huniq (Z.to_nat (r v)) v Hv); [|lia].
        rewrite (H1 v Hv) in Hd. destruct (P v); [reflexivity|lia]. }
      intros u v Hu Hv Hdu Hdv. apply reach_trans with rho; [apply Hdown; assumption|].
      apply reach_sym. apply Hdown; assumption.
  Qed.

  Lemma cert_trivial :
    1 <= nv g -> (forall v, v < nv g -> degree g A v = 0) ->
    cert (fun _ => false) (fun _ => 0%Z) (fun i => i =? 0).
  Proof.
    intros Hn Hd. split; [|split].
    - intros i Hi. apply Hd; exact Hi.
    - intros i _ H; discriminate.
    - rewrite filter_eqb_seq. destruct (Nat.leb_spec 0 0); [|lia].
      destruct (Nat.ltb_spec 0 (0 + nv g)); [reflexivity|lia].
  Qed.

  Theorem cert_complete :
    1 <= nv g -> single_cycle g A ->
    exists P r R, (forall i, (0 <= r i <= Z.of_nat (nv g) - 1)%Z) /\ cert P r R.
  Proof.
    intros Hn [Hno|[Hdeg Hconn]].
    - exists (fun _ => false), (fun _ => 0%Z), (fun i => i =? 0). split; [intros; lia|].
      apply cert_trivial; [exact Hn|]. intros v _. apply no_active_degree; exact Hno.
    - destruct (filter (visited g A) (seq 0 (nv g))) as [|rho l] eqn:Hf.
      + exists (fun _ => false), (fun _ => 0%Z), (fun i => i =? 0). split; [intros; lia|].
        apply cert_trivial; [exact Hn|]. intros v Hv.
        destruct (degree g A v) eqn:Hd; [reflexivity|]. exfalso.
        assert (Hin : In v (filter (visited g A) (seq 0 (nv g)))).
        { apply filter_In. split; [apply in_seq; lia|]. unfold visited. rewrite Hd. reflexivity. }
        rewrite Hf in Hin. destruct Hin.
      + assert (Hr0 : In rho (filter (visited g A) (seq 0 (nv g)))) by (rewrite Hf; left; reflexivity).
        apply filter_In in Hr0. destruct Hr0 as [Hrho Hvis]. apply in_seq in Hrho.
        assert (Hrl : rho < nv g) by lia.
        assert (Hdr : 0 < degree g A rho) by (unfold visited in Hvis; apply Nat.ltb_lt in Hvis; exact Hvis).
        set (c := component g all_vertices_ok A rho).
        assert (Hclen : length c <= nv g) by (apply component_length; assumption).
        assert (Hcnd : NoDup c) by apply component_nodup.
        exists (visited g A), (fun i => Z.of_nat (Nat.min (index_of i c) (nv g - 1))), (fun i => i =? rho).
        split; [intros i; lia|].
        split; [|split].
        * intros i Hi. unfold visited. destruct (Hdeg i Hi) as [H|H]; rewrite H; reflexivity.
        * intros i Hi Hvi.
          assert (Hdi : degree g A i = 2).
          { unfold visited in Hvi. apply Nat.ltb_lt in Hvi. destruct (Hdeg i Hi); lia. }
          destruct (Nat.eqb_spec i rho) as [Heq|Hne].
          -- unfold cnt_ge. rewrite <- Hdi, degree_alt. apply filter_and_le.
          -- assert (Hreach : reach g all_vertices_ok A rho i).
             { apply Hconn; try assumption. lia. }
             assert (Hic : In i c) by (apply component_complete; assumption).
             destruct (In_nth_error _ _ Hic) as [p Hp].
             assert (Hp0 : 0 < p).
             { destruct p; [|lia]. exfalso.
               destruct (component_head g all_vertices_ok A rho eq_refl) as [t Ht].
               fold c in Ht. rewrite Ht in Hp. simpl in Hp. inversion Hp. congruence. }
             destruct (component_earlier_nbr_nth g all_vertices_ok A rho p i Hp Hp0)
               as [q [u [Hqp [Hq [_ Hnb]]]]].
             apply nbrs_incident in Hnb. destruct Hnb as [k [Hak Hink]].
             assert (Hpl : p < length c) by (apply nth_error_Some; fold c; congruence).
             assert (Eip : index_of i c = p) by (apply index_of_nth; assumption).
             assert (Euq : index_of u c = q) by (apply index_of_nth; assumption).
             assert (Hlt : cnt_ge (fun i0 => Z.of_nat (Nat.min (index_of i0 c) (nv g - 1))) i
                           < length (filter efl (incident g i))).
             { unfold cnt_ge. apply (filter_and_witness_lt efl _ (incident g i) (u, k)).
               - exact Hink.
               - exact Hak.
               - simpl. rewrite Eip, Euq. apply Z.leb_gt. lia. }
             rewrite <- degree_alt, Hdi in Hlt. lia.
        * rewrite filter_eqb_seq. destruct (Nat.leb_spec 0 rho); [|lia].
          destruct (Nat.ltb_spec rho (0 + nv g)); [reflexivity|lia].
  Qed.
End Cert.
