Require Extraction.
Require Import ExtrOcamlBasic.
From Coq Require Import ZArith List Ascii.
Require Import Cspuz.Lib.PyErr Cspuz.Codec.Comb Cspuz.Codec.CombWf Cspuz.Codec.Legacy Cspuz.Codec.Url Cspuz.Codec.Yajilin Cspuz.Codec.Puzzles Cspuz.Codec.Pzpr.
Extraction "model.ml" Z.add Nat.add pyerr_code py_int py_str_int wf
  no_custom yajilin_custom run_ser_problem run_ser_sized run_de parse_url make_url
  encode_int_or_str encode_array encode_grid_segmentation blocks_to_block_id
  to_puzz_link_url parse_puzz_link_url starbattle_url aquarium_url convert_from_rectangular_repr
  pzpr_decode_nurikabe pzpr_decode_sudoku pzpr_decode_nurimisaki pzpr_decode_masyu pzpr_decode_slitherlink
  pzpr_decode_yajilin pzpr_decode_rooms pzpr_decode_heyawake_borders pzpr_decode_room_numbers
  pzpr_decode_aquarium pzpr_decode_compass.
