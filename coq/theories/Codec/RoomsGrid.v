(* Lists of lists used as grids: grid_get / grid_set / set_nth facts. *)
From Coq Require Import ZArith List Ascii Bool NArith Lia.
From Cspuz Require Import Lib.PyErr Codec.Comb Codec.CombWf.
Import ListNotations.
Local Open Scope Z_scope.

Lemma set_nth_length {A} (l : list A) i x : length (set_nth l i x) = length l.
Proof. revert i; induction l; intros [|i]; simpl; auto. Qed.

Lemma nth_error_set_nth_same {A} (l : list A) i x : (i < length l)%nat -> nth_error (set_nth l i x) i = Some x.
Proof. revert i; induction l; intros [|i] H; simpl in *; try lia; auto. apply IHl. lia. Qed.

Lemma nth_error_set_nth_other {A} (l : list A) i j x : i <> j -> nth_error (set_nth l i x) j = nth_error l j.
Proof.
  revert i j; induction l; intros [|i] [|j] H; simpl; auto; try congruence.
Qed.

Lemma nth_set_nth_other {A} (l : list A) i j x d : i <> j -> nth j (set_nth l i x) d = nth j l d.
Proof. revert i j; induction l; intros [|i] [|j] H; simpl; auto; congruence. Qed.

Lemma nth_set_nth_same {A} (l : list A) i x d : (i < length l)%nat -> nth i (set_nth l i x) d = x.
Proof. revert i; induction l; intros [|i] H; simpl in *; try lia; auto. apply IHl. lia. Qed.

Definition wfg (H W : nat) (g : list (list Z)) : Prop :=
  length g = H /\ Forall (fun r => length r = W) g.

Lemma wfg_row H W g y : wfg H W g -> (y < H)%nat -> exists row, nth_error g y = Some row /\ length row = W.
Proof.
  intros [Hl Hr] Hy. destruct (nth_error g y) as [row|] eqn:E.
  - exists row. split; auto. rewrite Forall_forall in Hr. apply Hr. eapply nth_error_In; eauto.
  - apply nth_error_None in E. lia.
Qed.

Lemma grid_get_in H W g y x : wfg H W g -> (y < H)%nat -> (x < W)%nat -> exists v, grid_get g y x = Ok v.
Proof.
  intros Hw Hy Hx. destruct (wfg_row H W g y Hw Hy) as (row & E & Hl).
  unfold grid_get, nth_res. rewrite E. destruct (nth_error row x) as [v|] eqn:Ex.
  - exists v; auto.
  - apply nth_error_None in Ex. lia.
Qed.

Lemma grid_set_wfg H W g y x v : wfg H W g -> wfg H W (grid_set g y x v).
Proof.
  intros [Hl Hr]. unfold grid_set. destruct (nth_error g y) as [row|] eqn:E; [|split; auto].
  split. { rewrite set_nth_length; auto. }
  rewrite Forall_forall in *. intros r Hin.
  apply In_nth_error in Hin as (j & Hj).
  destruct (Nat.eq_dec y j).
  - subst j. rewrite nth_error_set_nth_same in Hj by (apply nth_error_Some; congruence).
    inversion Hj; subst. rewrite set_nth_length. apply Hr. eapply nth_error_In; eauto.
  - rewrite nth_error_set_nth_other in Hj by auto. apply Hr. eapply nth_error_In; eauto.
Qed.

Lemma grid_get_set_same H W g y x v : wfg H W g -> (y < H)%nat -> (x < W)%nat ->
  grid_get (grid_set g y x v) y x = Ok v.
Proof.
  intros Hw Hy Hx. destruct (wfg_row H W g y Hw Hy) as (row & E & Hl).
  unfold grid_set, grid_get, nth_res. rewrite E.
  rewrite nth_error_set_nth_same by (destruct Hw; lia).
  rewrite nth_error_set_nth_same by lia. reflexivity.
Qed.

Lemma grid_get_set_other g y x v y' x' : (y, x) <> (y', x') ->
  grid_get (grid_set g y x v) y' x' = grid_get g y' x'.
Proof.
  intros Hne. unfold grid_set. destruct (nth_error g y) as [row|] eqn:E; auto.
  unfold grid_get, nth_res. destruct (Nat.eq_dec y y').
  - subst y'. rewrite nth_error_set_nth_same by (apply nth_error_Some; congruence). rewrite E.
    rewrite nth_error_set_nth_other by congruence. reflexivity.
  - rewrite nth_error_set_nth_other by auto. reflexivity.
Qed.

(* a grid given by a function *)
Definition mk_grid (H W : nat) (f : nat -> nat -> Z) : list (list Z) :=
  map (fun y => map (fun x => f y x) (seq 0 W)) (seq 0 H).

Lemma nth_error_map_seq {A} (f : nat -> A) n i : (i < n)%nat -> nth_error (map f (seq 0 n)) i = Some (f i).
Proof.
  intros Hi. rewrite nth_error_map. rewrite nth_error_nth' with (d := 0%nat) by (rewrite seq_length; auto).
  rewrite seq_nth by auto. reflexivity.
Qed.

Lemma mk_grid_get H W f y x : (y < H)%nat -> (x < W)%nat -> grid_get (mk_grid H W f) y x = Ok (f y x).
Proof.
  intros Hy Hx. unfold grid_get, nth_res, mk_grid. rewrite nth_error_map_seq by auto.
  rewrite nth_error_map_seq by auto. reflexivity.
Qed.

Lemma mk_grid_wfg H W f : wfg H W (mk_grid H W f).
Proof.
  split. { unfold mk_grid. rewrite map_length, seq_length. auto. }
  unfold mk_grid. rewrite Forall_forall. intros r Hin. apply in_map_iff in Hin as (y & E & _). subst.
  rewrite map_length, seq_length. auto.
Qed.

Lemma neg_grid_mk H W : neg_grid (Z.of_nat H) (Z.of_nat W) = mk_grid H W (fun _ _ => -1).
Proof.
  unfold neg_grid, mk_grid. rewrite !Nat2Z.id.
  assert (Hr : forall n (a : Z), repeat a n = map (fun _ => a) (seq 0 n)).
  { intros n a. generalize 0%nat. induction n; intros s; simpl; auto. f_equal. apply IHn. }
  rewrite Hr. assert (Hr2 : forall n (a : list Z), repeat a n = map (fun _ => a) (seq 0 n)).
  { intros n a. generalize 0%nat. induction n; intros s; simpl; auto. f_equal. apply IHn. }
  rewrite Hr2. reflexivity.
Qed.

(* cells of the board, row-major *)
Lemma cells_of_in H W y x : In (y, x) (cells_of (Z.of_nat H) (Z.of_nat W)) <-> (y < H)%nat /\ (x < W)%nat.
Proof.
  unfold cells_of. rewrite !Nat2Z.id. rewrite in_flat_map. split.
  - intros (y' & Hy & Hin). apply in_map_iff in Hin as (x' & E & Hx). inversion E; subst.
    apply in_seq in Hy, Hx. lia.
  - intros [Hy Hx]. exists y. split; [apply in_seq; lia|]. apply in_map_iff. exists x. split; auto. apply in_seq; lia.
Qed.
