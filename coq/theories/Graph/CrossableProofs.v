(* C10 — crossable_exact, crossable_outputs, crossable_primitive_layout:
   assembly of CrossableLocal (local degree constraints), CrossableGraph
   (auxiliary graph <-> strands) and C04's theorems about
   active_vertices_connected (Graph/AvcProofs.v). *)
From Coq Require Import ZArith List Bool Arith Lia.
From Cspuz Require Import Lib.PyErr Core.Expr Core.Program Core.Build
  Graph.GraphModel Graph.ReachProofs Graph.Avc Graph.AvcCert Graph.AvcSem Graph.AvcProofs
  Graph.AvcTyping Graph.AvcTotal
  Graph.Crossable Graph.CrossableGraph Graph.CrossableLocal.
Import ListNotations.
Local Open Scope nat_scope.

(* ------------------------------------------------------------------------ *)
(* positions in lists built by nested loops                                   *)

Lemma flat_map_const_length {A B} (f : A -> list B) c l :
  (forall a, In a l -> length (f a) = c) -> length (flat_map f l) = length l * c.
Proof.
  induction l as [|a l IH]; intros H; [reflexivity|]. simpl. rewrite app_length, IH, H.
  - reflexivity.
  - left; reflexivity.
  - intros; apply H; right; assumption.
Qed.

Lemma nth_flat_map_const {A B} (f : A -> list B) c l a0 d : forall i j,
  (forall a, In a l -> length (f a) = c) -> i < length l -> j < c ->
  nth (i * c + j) (flat_map f l) d = nth j (f (nth i l a0)) d.
Proof.
  induction l as [|a l IH]; intros i j H Hi Hj; [simpl in Hi; lia|].
  simpl flat_map. destruct i as [|i].
  - simpl. apply app_nth1. rewrite H by (left; reflexivity). exact Hj.
  - rewrite app_nth2 by (rewrite H by (left; reflexivity); simpl; lia).
    rewrite H by (left; reflexivity).
    replace (S i * c + j - c) with (i * c + j) by (simpl; lia).
    simpl nth. apply IH; [intros; apply H; right; assumption|simpl in Hi; lia|exact Hj].
Qed.

Lemma loop2_length {A} a b c (f : nat -> nat -> list A) :
  (forall y x, length (f y x) = c) -> length (loop2 a b f) = a * b * c.
Proof.
  intros H. unfold loop2.
  rewrite (flat_map_const_length _ (b * c)).
  - rewrite seq_length. lia.
  - intros y _. rewrite (flat_map_const_length _ c); [rewrite seq_length; reflexivity|].
    intros x _. apply H.
Qed.

Lemma nth_loop2 {A} a b c (f : nat -> nat -> list A) d y x j :
  (forall y x, length (f y x) = c) -> y < a -> x < b -> j < c ->
  nth ((y * b + x) * c + j) (loop2 a b f) d = nth j (f y x) d.
Proof.
  intros H Hy Hx Hj. unfold loop2.
  replace ((y * b + x) * c + j) with (y * (b * c) + (x * c + j)) by lia.
  rewrite (nth_flat_map_const _ (b * c) _ 0).
  - rewrite seq_nth by exact Hy. simpl.
    rewrite (nth_flat_map_const _ c _ 0).
    + rewrite seq_nth by exact Hx. reflexivity.
    + intros x' _. apply H.
    + rewrite seq_length. exact Hx.
    + exact Hj.
  - intros y' _. rewrite (flat_map_const_length _ c); [rewrite seq_length; reflexivity|].
    intros x' _. apply H.
  - rewrite seq_length. exact Hy.
  - nia.
Qed.

(* ------------------------------------------------------------------------ *)
(* the specification only looks at the pattern pointwise                      *)

Section SpecExt.
  Variables h w : nat.
  Variables a1 a2 : seg -> bool.
  Hypothesis Hext : forall s, a1 s = a2 s.

  Lemma deg_ext p : deg h w a1 p = deg h w a2 p.
  Proof. unfold deg. f_equal. apply filter_ext. exact Hext. Qed.

  Lemma drawn_ext s : drawn h w a1 s -> drawn h w a2 s.
  Proof. intros [H1 H2]. split; [exact H1|rewrite <- Hext; exact H2]. Qed.

  Lemma continues_ext s t : continues h w a1 s t -> continues h w a2 s t.
  Proof. intros [p [H1 [H2 H3]]]. exists p. rewrite <- deg_ext. auto. Qed.

  Lemma strand_ext s t : strand h w a1 s t -> strand h w a2 s t.
  Proof.
    induction 1 as [s Hs|s t u Hst IH Hu Hc].
    - apply strand_refl. apply drawn_ext; exact Hs.
    - eapply strand_step; [exact IH|apply drawn_ext; exact Hu|apply continues_ext; exact Hc].
  Qed.

  Lemma degree_rule_ext sc : degree_rule h w a1 sc -> degree_rule h w a2 sc.
  Proof. intros H p Hp. rewrite <- deg_ext. apply H; exact Hp. Qed.
End SpecExt.

Lemma crossable_spec_ext h w a1 a2 sc :
  (forall s, a1 s = a2 s) -> crossable_spec h w a1 sc -> crossable_spec h w a2 sc.
Proof.
  intros Hext [Hr Hs]. split; [eapply degree_rule_ext; eassumption|].
  intros s t Hds Hdt. apply (strand_ext h w a1 a2 Hext).
  apply Hs; apply (drawn_ext h w a2 a1); auto.
Qed.

(* ------------------------------------------------------------------------ *)
(* both routes of active_vertices_connected, in one statement                 *)

Lemma avc_any prim st acts g st' en :
  wf_graph g = true -> fresh_below (next_id st) acts -> acts_defined en acts ->
  post_avc st acts g false prim = Ok st' ->
  exists cs vs, cons st' = cons st ++ cs /\ vars st' = vars st ++ vs /\
    ((exists en', agree_below (next_id st) en en' /\
                  in_bounds_from en' (next_id st) vs = true /\
                  forallb (holds gsem_avc en') cs = true)
     <-> connected g (pattern en acts)).
Proof.
  intros Hwf Hfr Hdef Hpost. destruct prim.
  - destruct (avc_primitive _ _ _ _ Hpost) as [Hlen [Hv [_ [e [Hc [_ He]]]]]].
    exists [e], []. split; [exact Hc|]. split; [rewrite app_nil_r; exact Hv|]. split.
    + intros [en' [Hag [_ Hs]]]. simpl in Hs. rewrite andb_true_r in Hs.
      pose proof (acts_defined_agree _ _ _ _ Hag Hfr Hdef) as Hdef'.
      destruct (He en' Hdef') as [_ Hiff]. apply (Hiff Hwf) in Hs.
      eapply connected_ext; [|exact Hs]. intros v. symmetry. apply (pattern_agree _ _ _ _ Hag Hfr).
    + intros Hcn. exists en. split; [intros i _; split; reflexivity|]. split; [reflexivity|].
      simpl. rewrite andb_true_r. destruct (He en Hdef) as [_ Hiff]. apply (Hiff Hwf). exact Hcn.
  - destruct (avc_eval _ _ _ _ _ Hpost) as [Hv [_ [cs [Hc _]]]].
    exists cs, (repeat (DInt 0 (Z.of_nat (nv g) - 1)) (nv g) ++ repeat DBool (nv g)).
    split; [exact Hc|]. split; [exact Hv|].
    pose proof (avc_connected_exact st acts g st' en Hwf Hfr Hdef Hpost) as Hex.
    unfold new_cons, new_vars in Hex. rewrite Hc, Hv, !skipn_app_exact in Hex. exact Hex.
Qed.

(* ------------------------------------------------------------------------ *)
(* the is_active list handed to active_vertices_connected                     *)

Lemma holds_bvar en i : holds gsem_avc en (BVar i) = eb en i.
Proof. unfold holds. simpl. destruct (eb en i); reflexivity. Qed.

Section Acts.
  Variable fr : frame.
  Variable k : nat.
  Notation h := (fh fr).
  Notation w := (fw fr).
  Notation n := ((fh fr + 1) * (fw fr + 1)).

  Hypothesis Hshape : frame_shaped fr = true.

  Let A := loop2 (h + 1) (w + 1) (fun y x =>
             [nth (y * (w + 1) + x) (bvars (k + 2 * n) n) PyNone;
              nth (y * (w + 1) + x) (bvars (k + 3 * n) n) PyNone;
              nth (y * (w + 1) + x) (bvars (k + 4 * n) n) PyNone]).
  Let B := loop2 (h + 1 - 1) (w + 1) (fun y x => [ver_at fr y x]).
  Let C := loop2 (h + 1) (w + 1 - 1) (fun y x => [hor_at fr y x]).

  Lemma split_acts_eq : split_acts fr k = A ++ B ++ C.
  Proof. reflexivity. Qed.

  Lemma lenA : length A = (h + 1) * (w + 1) * 3.
  Proof. apply loop2_length. reflexivity. Qed.
  Lemma lenB : length B = h * (w + 1).
  Proof. unfold B. rewrite (loop2_length _ _ 1) by reflexivity. rewrite Nat.add_sub. lia. Qed.
  Lemma lenC : length C = (h + 1) * w.
  Proof. unfold C. rewrite (loop2_length _ _ 1) by reflexivity. rewrite Nat.add_sub. lia. Qed.

  Lemma split_acts_length : length (split_acts fr k) = nv (split_graph (h + 1) (w + 1)).
  Proof. rewrite split_acts_eq, !app_length, lenA, lenB, lenC, split_nv. lia. Qed.

  Lemma split_acts_point j y x d :
    j < 3 -> y <= h -> x <= w ->
    nth (enc h w (NP j (y, x))) (split_acts fr k) d =
    BVar (k + (2 + j) * n + (y * (w + 1) + x)).
  Proof.
    intros Hj Hy Hx. rewrite split_acts_eq. unfold enc.
    assert (Hp : y * (w + 1) + x < n) by (apply rowmajor_lt; lia).
    rewrite app_nth1 by (rewrite lenA; lia).
    unfold A. rewrite (nth_loop2 _ _ 3) by (try reflexivity; lia).
    unfold bvars. destruct j as [|[|[|j]]]; [| | |lia]; simpl nth;
      rewrite (nth_map_seq _ _ _ _ Hp); f_equal; lia.
  Qed.

  Lemma split_acts_ver y x d :
    y < h -> x <= w -> nth (enc h w (NS (Seg true y x))) (split_acts fr k) d = ver_at fr y x.
  Proof.
    intros Hy Hx. rewrite split_acts_eq. unfold enc.
    rewrite app_nth2 by (rewrite lenA; lia). rewrite lenA.
    assert (Hq : y * (w + 1) + x < h * (w + 1)) by (apply rowmajor_lt; lia).
    rewrite app_nth1 by (rewrite lenB; lia).
    replace ((h + 1) * (w + 1) * 3 + y * (w + 1) + x - (h + 1) * (w + 1) * 3)
      with ((y * (w + 1) + x) * 1 + 0) by lia.
    unfold B. rewrite (nth_loop2 _ _ 1) by (try reflexivity; lia). reflexivity.
  Qed.

  Lemma split_acts_hor y x d :
    y <= h -> x < w -> nth (enc h w (NS (Seg false y x))) (split_acts fr k) d = hor_at fr y x.
  Proof.
    intros Hy Hx. rewrite split_acts_eq. unfold enc.
    rewrite app_nth2 by (rewrite lenA; lia). rewrite lenA.
    rewrite app_nth2 by (rewrite lenB; lia). rewrite lenB.
    replace ((h + 1) * (w + 1) * 3 + h * (w + 1) + y * w + x - (h + 1) * (w + 1) * 3 - h * (w + 1))
      with ((y * (w + 1 - 1) + x) * 1 + 0) by (rewrite Nat.add_sub; lia).
    unfold C. rewrite (nth_loop2 _ _ 1) by (try reflexivity; lia). reflexivity.
  Qed.

  (* every entry is one of the new variables or one of the frame's entries *)
  Lemma split_acts_in e :
    In e (split_acts fr k) ->
    (exists i, k + 2 * n <= i < k + 5 * n /\ e = BVar i) \/ In e (hor fr ++ ver fr).
  Proof.
    intros H. rewrite split_acts_eq in H. apply in_app_or in H.
    destruct H as [H|H]; [|apply in_app_or in H; destruct H as [H|H]].
    - left. apply in_loop2 in H. destruct H as [y [x [Hy [Hx H]]]].
      assert (Hp : y * (w + 1) + x < n) by (apply rowmajor_lt; lia).
      unfold bvars in H. rewrite !(nth_map_seq _ _ _ _ Hp) in H.
      destruct H as [<-|[<-|[<-|[]]]]; eexists; (split; [|reflexivity]); lia.
    - right. apply in_loop2 in H. destruct H as [y [x [Hy [Hx [<-|[]]]]]].
      apply (seg_expr_in fr Hshape (Seg true y x)). apply seg_in_v. lia.
    - right. apply in_loop2 in H. destruct H as [y [x [Hy [Hx [<-|[]]]]]].
      apply (seg_expr_in fr Hshape (Seg false y x)). apply seg_in_h. lia.
  Qed.

  Lemma split_acts_fresh :
    fresh_below k (hor fr ++ ver fr) -> fresh_below (k + 5 * n) (split_acts fr k).
  Proof.
    intros Hf e He. apply split_acts_in in He. destruct He as [[i [Hi ->]]|He].
    - simpl. lia.
    - specialize (Hf e He). lia.
  Qed.

  Lemma split_acts_defined en :
    acts_defined en (hor fr ++ ver fr) -> acts_defined en (split_acts fr k).
  Proof.
    intros Hd e He. apply split_acts_in in He. destruct He as [[i [Hi ->]]|He].
    - exists (eb en i). reflexivity.
    - apply Hd. exact He.
  Qed.

  (* under an assignment that gives the auxiliary arrays their intended values,
     the active nodes are the ones CrossableGraph.nact describes *)
  Lemma split_acts_enc en a :
    outputs_ok fr k en -> node_in h w a ->
    pattern en (split_acts fr k) (enc h w a) = nact h w (seg_pattern en fr) a.
  Proof.
    intros Hout Ha. unfold pattern. destruct a as [j [y x]|[[|] y x]].
    - destruct Ha as [Hj [Hy Hx]]. rewrite (split_acts_point j y x _ Hj Hy Hx), holds_bvar.
      destruct (Hout y x Hy Hx) as [_ [_ [P3 [P4 P5]]]].
      destruct j as [|[|[|j]]]; [| | |lia]; simpl nact.
      + replace (k + (2 + 0) * n + (y * (w + 1) + x)) with (k + 2 * n + (y * (w + 1) + x)) by lia.
        rewrite P3. reflexivity.
      + replace (k + (2 + 1) * n + (y * (w + 1) + x)) with (k + 3 * n + (y * (w + 1) + x)) by lia.
        rewrite P4. reflexivity.
      + replace (k + (2 + 2) * n + (y * (w + 1) + x)) with (k + 4 * n + (y * (w + 1) + x)) by lia.
        rewrite P5. reflexivity.
    - apply seg_in_v in Ha. rewrite split_acts_ver by lia. reflexivity.
    - apply seg_in_h in Ha. rewrite split_acts_hor by lia. reflexivity.
  Qed.
End Acts.

(* ------------------------------------------------------------------------ *)
(* the pattern of a frame depends only on the variables its entries mention   *)

Lemma seg_expr_cases fr s : In (seg_expr fr s) (hor fr ++ ver fr) \/ seg_expr fr s = PyNone.
Proof.
  destruct s as [[|] y x]; simpl; unfold ver_at, hor_at.
  - destruct (nth_in_or_default (y * (fw fr + 1) + x) (ver fr) PyNone) as [H|H];
      [left; apply in_or_app; right; exact H|right; exact H].
  - destruct (nth_in_or_default (y * fw fr + x) (hor fr) PyNone) as [H|H];
      [left; apply in_or_app; left; exact H|right; exact H].
Qed.

Lemma seg_pattern_agree fr kk e1 e2 :
  agree_below kk e1 e2 -> fresh_below kk (hor fr ++ ver fr) ->
  forall s, seg_pattern e1 fr s = seg_pattern e2 fr s.
Proof.
  intros Hag Hfr s. unfold seg_pattern. destruct (seg_expr_cases fr s) as [Hin|Hn].
  - apply (holds_agree gsem_avc kk); [exact Hag|apply Hfr; exact Hin].
  - rewrite Hn. reflexivity.
Qed.

Lemma visited_ext h w a1 a2 p : (forall s, a1 s = a2 s) -> visited h w a1 p = visited h w a2 p.
Proof. intros H. unfold visited. rewrite (deg_ext h w a1 a2 H). reflexivity. Qed.
Lemma crossing_ext h w a1 a2 p : (forall s, a1 s = a2 s) -> crossing h w a1 p = crossing h w a2 p.
Proof. intros H. unfold crossing. rewrite (deg_ext h w a1 a2 H). reflexivity. Qed.

Lemma outputs_ok_agree fr k e1 e2 :
  agree_below (k + 5 * ((fh fr + 1) * (fw fr + 1))) e1 e2 -> fresh_below k (hor fr ++ ver fr) ->
  outputs_ok fr k e1 -> outputs_ok fr k e2.
Proof.
  intros Hag Hfr Hout y x Hy Hx p.
  assert (Hp : p < (fh fr + 1) * (fw fr + 1)) by (apply rowmajor_lt; lia).
  assert (Hpat : forall s, seg_pattern e1 fr s = seg_pattern e2 fr s).
  { apply (seg_pattern_agree fr (k + 5 * ((fh fr + 1) * (fw fr + 1)))); [exact Hag|].
    intros e He. specialize (Hfr e He). lia. }
  destruct (Hout y x Hy Hx) as [P1 [P2 [P3 [P4 P5]]]]. fold p in P1, P2, P3, P4, P5.
  rewrite <- (visited_ext _ _ _ _ (y, x) Hpat), <- (crossing_ext _ _ _ _ (y, x) Hpat).
  repeat split.
  - rewrite <- P1. symmetry. apply Hag. lia.
  - rewrite <- P2. symmetry. apply Hag. lia.
  - rewrite <- P3. symmetry. apply Hag. lia.
  - rewrite <- P4. symmetry. apply Hag. lia.
  - rewrite <- P5. symmetry. apply Hag. lia.
Qed.

(* ------------------------------------------------------------------------ *)
(* the assignment of the five auxiliary arrays a pattern determines           *)

Definition aux_value (h w : nat) (act : seg -> bool) (j : nat) : bool :=
  let n := (h + 1) * (w + 1) in
  let p := j mod n in
  let pt := (p / (w + 1), p mod (w + 1)) in
  match j / n with
  | 0 => visited h w act pt
  | 2 => visited h w act pt && negb (crossing h w act pt)
  | _ => crossing h w act pt
  end.

Definition crossable_env (en : env) (k h w : nat) (act : seg -> bool) : env :=
  {| eb := fun i => if Nat.ltb i k then eb en i else aux_value h w act (i - k);
     ei := ei en |}.

Lemma divmod_rowmajor m y x : x < m -> (y * m + x) / m = y /\ (y * m + x) mod m = x.
Proof.
  intros Hx. assert (Hm : m <> 0) by lia. split.
  - symmetry. apply (Nat.div_unique _ _ _ x); lia.
  - symmetry. apply (Nat.mod_unique _ _ y); lia.
Qed.

Lemma aux_value_at h w act q y x :
  y <= h -> x <= w ->
  aux_value h w act (q * ((h + 1) * (w + 1)) + (y * (w + 1) + x)) =
  match q with
  | 0 => visited h w act (y, x)
  | 2 => visited h w act (y, x) && negb (crossing h w act (y, x))
  | _ => crossing h w act (y, x)
  end.
Proof.
  intros Hy Hx. unfold aux_value.
  assert (Hp : y * (w + 1) + x < (h + 1) * (w + 1)) by (apply rowmajor_lt; lia).
  destruct (divmod_rowmajor ((h + 1) * (w + 1)) q (y * (w + 1) + x) Hp) as [-> ->].
  destruct (divmod_rowmajor (w + 1) y x ltac:(lia)) as [-> ->]. reflexivity.
Qed.

Lemma crossable_env_agree en k h w act : agree_below k en (crossable_env en k h w act).
Proof. intros i Hi. simpl. apply Nat.ltb_lt in Hi. rewrite Hi. split; reflexivity. Qed.

Lemma crossable_env_outputs fr k en :
  fresh_below k (hor fr ++ ver fr) ->
  outputs_ok fr k (crossable_env en k (fh fr) (fw fr) (seg_pattern en fr)).
Proof.
  intros Hfr.
  set (en1 := crossable_env en k (fh fr) (fw fr) (seg_pattern en fr)).
  assert (Hpat : forall s, seg_pattern en fr s = seg_pattern en1 fr s).
  { apply (seg_pattern_agree fr k); [apply crossable_env_agree|exact Hfr]. }
  intros y x Hy Hx p.
  rewrite <- (visited_ext _ _ _ _ (y, x) Hpat), <- (crossing_ext _ _ _ _ (y, x) Hpat).
  assert (Hval : forall q, eb en1 (k + q * ((fh fr + 1) * (fw fr + 1)) + p) =
                           aux_value (fh fr) (fw fr) (seg_pattern en fr)
                                     (q * ((fh fr + 1) * (fw fr + 1)) + p)).
  { intros q. simpl. destruct (Nat.ltb_spec (k + q * ((fh fr + 1) * (fw fr + 1)) + p) k); [lia|].
    f_equal. lia. }
  repeat split.
  - specialize (Hval 0). rewrite Nat.mul_0_l, Nat.add_0_r in Hval. rewrite Hval.
    apply (aux_value_at _ _ _ 0 y x Hy Hx).
  - specialize (Hval 1). rewrite Nat.mul_1_l in Hval. rewrite Hval.
    rewrite <- (Nat.mul_1_l ((fh fr + 1) * (fw fr + 1))) at 1. apply (aux_value_at _ _ _ 1 y x Hy Hx).
  - rewrite (Hval 2). apply (aux_value_at _ _ _ 2 y x Hy Hx).
  - rewrite (Hval 3). apply (aux_value_at _ _ _ 3 y x Hy Hx).
  - rewrite (Hval 4). apply (aux_value_at _ _ _ 4 y x Hy Hx).
Qed.

(* ------------------------------------------------------------------------ *)
(* the theorems                                                               *)

Lemma post_crossable_inv st fr sc prim r :
  post_crossable st fr sc prim = Ok r ->
  frame_shaped fr = true /\ forallb is_bool_expr_like (hor fr ++ ver fr) = true /\
  post_crossable_body st fr sc prim = Ok r.
Proof.
  unfold post_crossable. destruct (frame_shaped fr); simpl; [|discriminate].
  destruct (forallb is_bool_expr_like (hor fr ++ ver fr)); simpl; [|discriminate]. auto.
Qed.

Section Main.
  Variables (st : state) (fr : frame) (sc prim : bool) (st' : state) (ps cr : list expr).
  Notation h := (fh fr).
  Notation w := (fw fr).
  Notation n := ((fh fr + 1) * (fw fr + 1)).
  Notation k := (next_id st).

  Hypothesis Hpost : post_crossable st fr sc prim = Ok (st', (ps, cr)).
  (* the frame's entries mention only variables that existed before the call *)
  Hypothesis Hfresh : fresh_below (next_id st) (hor fr ++ ver fr).

  (* what the call added, split into the local part and the part added by
     active_vertices_connected *)
  Lemma crossable_decompose :
    ps = bvars k n /\ cr = bvars (k + n) n /\
    frame_shaped fr = true /\ forallb is_bool_expr_like (hor fr ++ ver fr) = true /\
    exists cs vs,
      new_cons st st' = local_cons fr sc k ++ cs /\
      new_vars st st' = repeat DBool (5 * n) ++ vs /\
      forall en, acts_defined en (hor fr ++ ver fr) ->
        ((exists en', agree_below (k + 5 * n) en en' /\
                      in_bounds_from en' (k + 5 * n) vs = true /\
                      forallb (holds gsem_avc en') cs = true)
         <-> connected (split_graph (h + 1) (w + 1)) (pattern en (split_acts fr k))).
  Proof.
    destruct (post_crossable_inv _ _ _ _ _ Hpost) as [Hsh [Hbl Hbody]].
    destruct (post_crossable_body_spec _ _ _ _ _ _ _ Hbody) as [Hps [Hcr [st10 [V [_ [Cn Havc]]]]]].
    split; [exact Hps|]. split; [exact Hcr|]. split; [exact Hsh|]. split; [exact Hbl|].
    assert (N10 : next_id st10 = k + 5 * n).
    { unfold next_id. rewrite V, app_length, repeat_length. reflexivity. }
    assert (Hfr10 : fresh_below (next_id st10) (split_acts fr k)).
    { rewrite N10. apply split_acts_fresh; assumption. }
    (* the shape of the added part does not depend on the assignment *)
    assert (Hshape : exists cs vs, cons st' = cons st10 ++ cs /\ vars st' = vars st10 ++ vs /\
              forall en, acts_defined en (hor fr ++ ver fr) ->
              ((exists en', agree_below (k + 5 * n) en en' /\
                            in_bounds_from en' (k + 5 * n) vs = true /\
                            forallb (holds gsem_avc en') cs = true)
               <-> connected (split_graph (h + 1) (w + 1)) (pattern en (split_acts fr k)))).
    { destruct prim.
      - destruct (avc_primitive _ _ _ _ Havc) as [_ [Hv [_ [e [Hc _]]]]].
        exists [e], []. split; [exact Hc|]. split; [rewrite app_nil_r; exact Hv|].
        intros en Hd.
        destruct (avc_any true st10 _ _ st' en (split_wf h w) Hfr10
                    (split_acts_defined fr k Hsh en Hd) Havc) as [cs' [vs' [Hc' [Hv' Hiff]]]].
        rewrite Hc in Hc'. apply app_inv_head in Hc'. subst cs'.
        rewrite Hv in Hv'. rewrite <- (app_nil_r (vars st10)) in Hv' at 1.
        apply app_inv_head in Hv'. subst vs'. rewrite N10 in Hiff. exact Hiff.
      - destruct (avc_eval _ _ _ _ _ Havc) as [Hv [_ [cs [Hc _]]]].
        exists cs. eexists. split; [exact Hc|]. split; [exact Hv|].
        intros en Hd.
        destruct (avc_any false st10 _ _ st' en (split_wf h w) Hfr10
                    (split_acts_defined fr k Hsh en Hd) Havc) as [cs' [vs' [Hc' [Hv' Hiff]]]].
        rewrite Hc in Hc'. apply app_inv_head in Hc'. subst cs'.
        rewrite Hv in Hv'. apply app_inv_head in Hv'. subst vs'. rewrite N10 in Hiff. exact Hiff. }
    destruct Hshape as [cs [vs [Hc [Hv Hiff]]]].
    exists cs, vs. split; [|split; [|exact Hiff]].
    - unfold new_cons. rewrite Hc, Cn, <- app_assoc. apply skipn_app_exact.
    - unfold new_vars. rewrite Hv, V, <- app_assoc. apply skipn_app_exact.
  Qed.

  (* crossable_exact: for every assignment [en] of the variables that existed
     before the call, the variables and constraints the call added can be
     completed (earlier ids untouched, new variables within their declared
     bounds, every new constraint true) exactly when the drawn segments obey the
     degree rule and form one strand. *)
  Theorem crossable_exact_main en :
    acts_defined en (hor fr ++ ver fr) ->
    ((exists en', agree_below k en en' /\
                  in_bounds_from en' k (new_vars st st') = true /\
                  forallb (holds gsem_avc en') (new_cons st st') = true)
     <-> crossable_spec h w (seg_pattern en fr) sc).
  Proof.
    intros Hdef.
    destruct crossable_decompose as [_ [_ [Hsh [Hbl [cs [vs [Hnc [Hnv Havc]]]]]]]].
    rewrite Hnc, Hnv. split.
    - intros [en' [Hag [Hb Hs]]].
      assert (Hdef' : acts_defined en' (hor fr ++ ver fr))
        by (eapply acts_defined_agree; eassumption).
      rewrite forallb_app in Hs. apply andb_true_iff in Hs. destruct Hs as [Hl Hcs].
      rewrite in_bounds_from_app, repeat_length in Hb. apply andb_true_iff in Hb. destruct Hb as [_ Hb].
      apply (local_cons_iff fr sc k en' Hsh Hbl Hdef') in Hl. destruct Hl as [Hrule Hout].
      assert (Hcn : connected (split_graph (h + 1) (w + 1)) (pattern en' (split_acts fr k))).
      { apply (Havc en' Hdef'). exists en'. split; [intros i _; split; reflexivity|]. split; assumption. }
      apply (crossable_spec_ext h w (seg_pattern en' fr)).
      + intros s. symmetry. apply (seg_pattern_agree fr k); assumption.
      + split; [exact Hrule|].
        apply (split_graph_connected_iff_strand h w (seg_pattern en' fr)
                 (pattern en' (split_acts fr k))); [|exact Hcn].
        intros a Ha. apply split_acts_enc; assumption.
    - intros Hspec.
      set (en1 := crossable_env en k h w (seg_pattern en fr)).
      assert (Hag1 : agree_below k en en1) by apply crossable_env_agree.
      assert (Hdef1 : acts_defined en1 (hor fr ++ ver fr))
        by (eapply acts_defined_agree; eassumption).
      assert (Hout1 : outputs_ok fr k en1) by (apply crossable_env_outputs; exact Hfresh).
      assert (Hpat1 : forall s, seg_pattern en fr s = seg_pattern en1 fr s)
        by (apply (seg_pattern_agree fr k); assumption).
      apply (crossable_spec_ext _ _ _ _ _ Hpat1) in Hspec. destruct Hspec as [Hrule1 Hstr1].
      assert (Hcn : connected (split_graph (h + 1) (w + 1)) (pattern en1 (split_acts fr k))).
      { apply (split_graph_connected_iff_strand h w (seg_pattern en1 fr)); [|exact Hstr1].
        intros a Ha. apply split_acts_enc; assumption. }
      apply (Havc en1 Hdef1) in Hcn. destruct Hcn as [en2 [Hag2 [Hb2 Hcs2]]].
      assert (Hag02 : agree_below k en en2).
      { intros i Hi. destruct (Hag1 i Hi) as [A1 A2]. destruct (Hag2 i ltac:(lia)) as [B1 B2].
        split; congruence. }
      assert (Hdef2 : acts_defined en2 (hor fr ++ ver fr))
        by (eapply acts_defined_agree; eassumption).
      assert (Hpat2 : forall s, seg_pattern en1 fr s = seg_pattern en2 fr s).
      { apply (seg_pattern_agree fr (k + 5 * n)); [exact Hag2|].
        intros e He. specialize (Hfresh e He). lia. }
      exists en2. split; [exact Hag02|]. split.
      + rewrite in_bounds_from_app, repeat_length. apply andb_true_iff. split; [apply in_bounds_from_bools|exact Hb2].
      + rewrite forallb_app. apply andb_true_iff. split; [|exact Hcs2].
        apply (local_cons_iff fr sc k en2 Hsh Hbl Hdef2). split.
        * apply (degree_rule_ext h w _ _ Hpat2). exact Hrule1.
        * apply (outputs_ok_agree fr k en1 en2); assumption.
  Qed.

  (* crossable_outputs: in every completion the two returned arrays are true
     exactly at the visited points / at the 4-way points *)
  Theorem crossable_outputs_main en' :
    acts_defined en' (hor fr ++ ver fr) ->
    forallb (holds gsem_avc en') (new_cons st st') = true ->
    forall y x, y <= h -> x <= w ->
      holds gsem_avc en' (nth (y * (w + 1) + x) ps PyNone) = visited h w (seg_pattern en' fr) (y, x) /\
      holds gsem_avc en' (nth (y * (w + 1) + x) cr PyNone) = crossing h w (seg_pattern en' fr) (y, x).
  Proof.
    intros Hdef' Hs y x Hy Hx.
    destruct crossable_decompose as [Hps [Hcr [Hsh [Hbl [cs [vs [Hnc _]]]]]]].
    rewrite Hnc, forallb_app in Hs. apply andb_true_iff in Hs. destruct Hs as [Hl _].
    apply (local_cons_iff fr sc k en' Hsh Hbl Hdef') in Hl. destruct Hl as [_ Hout].
    assert (Hp : y * (w + 1) + x < n) by (apply rowmajor_lt; lia).
    destruct (Hout y x Hy Hx) as [P1 [P2 _]].
    rewrite Hps, Hcr. unfold bvars. rewrite !(nth_map_seq _ _ _ _ Hp), !holds_bvar. split; assumption.
  Qed.

  (* shapes of the returned arrays: (h+1) x (w+1) fresh variables each *)
  Theorem crossable_returns_main :
    ps = bvars k n /\ cr = bvars (k + n) n.
  Proof. destruct crossable_decompose as [A [B _]]. split; assumption. Qed.
End Main.

(* ------------------------------------------------------------------------ *)
(* syntactic hypotheses, totality, the primitive layout, plain frames         *)

Lemma wt_bool_like e : wt true e = true -> is_bool_expr_like e = true.
Proof. destruct e; simpl; intros H; try reflexivity; try discriminate. Qed.

Lemma wt_all_bool_like l : forallb (wt true) l = true -> forallb is_bool_expr_like l = true.
Proof.
  rewrite !forallb_forall. intros H e He. apply wt_bool_like. apply H. exact He.
Qed.

Lemma bool_vars_total st m : exists st1, bool_vars st m = (st1, bvars (next_id st) m).
Proof.
  destruct (bool_vars st m) as [st1 l] eqn:E. exists st1.
  apply bool_vars_spec in E. destruct E as [-> _]. reflexivity.
Qed.

Theorem crossable_succeeds_main st fr sc prim :
  frame_shaped fr = true -> forallb (wt true) (hor fr ++ ver fr) = true ->
  exists st' ps cr, post_crossable st fr sc prim = Ok (st', (ps, cr)).
Proof.
  intros Hsh Hwt. pose proof (wt_all_bool_like _ Hwt) as Hbl.
  unfold post_crossable. rewrite Hsh, Hbl. simpl.
  unfold post_crossable_body, bool_array.
  set (n := (fh fr + 1) * (fw fr + 1)).
  destruct (bool_vars st n) as [st1 passed] eqn:E1.
  destruct (bool_vars st1 n) as [st2 cross] eqn:E2.
  match goal with |- context [bool_vars ?s n] =>
    lazymatch s with ensure _ _ => destruct (bool_vars s n) as [st5 single] eqn:E5 end end.
  destruct (bool_vars st5 n) as [st6 dh] eqn:E6.
  destruct (bool_vars st6 n) as [st7 dv] eqn:E7.
  apply bool_vars_spec in E5. destruct E5 as [P5 _].
  apply bool_vars_spec in E6. destruct E6 as [P6 _].
  apply bool_vars_spec in E7. destruct E7 as [P7 _].
  match goal with |- context [post_avc ?s ?a ?g false prim] =>
    assert (Hok : exists st11, post_avc s a g false prim = Ok st11) end.
  { subst single dh dv.
    match goal with |- context [split_actives fr (map _ (seq 0 n)) (map _ (seq 0 n)) (map _ (seq 0 n))] => idtac end.
    match goal with |- exists st11, post_avc ?s (split_actives fr (map (fun i1 => BVar (?a + i1)) _)
                                        (map (fun i2 => BVar (?b + i2)) _) (map (fun i3 => BVar (?c + i3)) _)) _ _ _ = _ =>
      set (s0 := s);
      set (acts := split_actives fr (bvars a n) (bvars b n) (bvars c n));
      change (exists st11, post_avc s0 acts (split_graph (fh fr + 1) (fw fr + 1)) false prim = Ok st11)
    end.
    assert (Hlen : length acts = nv (split_graph (fh fr + 1) (fw fr + 1))).
    { unfold acts, split_actives. rewrite !app_length.
      rewrite (loop2_length _ _ 3), (loop2_length _ _ 1), (loop2_length _ _ 1) by reflexivity.
      rewrite split_nv, !Nat.add_sub. lia. }
    assert (Hb : forall e, In e acts -> is_bool_expr_like e = true).
    { intros e He. unfold acts, split_actives in He. apply in_app_or in He.
      destruct He as [He|He]; [|apply in_app_or in He; destruct He as [He|He]];
        apply in_loop2 in He; destruct He as [y [x [Hy [Hx He]]]].
      - assert (Hp : y * (fw fr + 1) + x < n) by (apply rowmajor_lt; lia).
        unfold bvars in He. rewrite !(nth_map_seq _ _ _ _ Hp) in He.
        destruct He as [<-|[<-|[<-|[]]]]; reflexivity.
      - destruct He as [<-|[]]. apply (seg_expr_bool_like fr Hsh Hbl (Seg true y x)).
        apply seg_in_v. lia.
      - destruct He as [<-|[]]. apply (seg_expr_bool_like fr Hsh Hbl (Seg false y x)).
        apply seg_in_h. lia. }
    destruct prim.
    - unfold post_avc. simpl andb. cbv iota. rewrite Hlen, Nat.eqb_refl. simpl. eexists; reflexivity.
    - apply post_avc_succeeds; [apply split_wf|rewrite split_nv; lia|lia|exact Hb]. }
  destruct Hok as [st11 Hok]. rewrite Hok. eexists _, _, _. reflexivity.
Qed.

(* use_graph_primitive=True: only the five boolean arrays are declared, and the
   one extra constraint is the native operator applied to
   [n; m] ++ is_active ++ flattened edge list of the auxiliary graph *)
Theorem crossable_primitive_layout_main st fr sc st' ps cr :
  post_crossable st fr sc true = Ok (st', (ps, cr)) ->
  let n := (fh fr + 1) * (fw fr + 1) in
  let g := split_graph (fh fr + 1) (fw fr + 1) in
  vars st' = vars st ++ repeat DBool (5 * n) /\
  cons st' = cons st ++ local_cons fr sc (next_id st) ++
             [BNode G_AVC ([PyInt (Z.of_nat (nv g)); PyInt (Z.of_nat (length (edges g)))] ++
                           split_acts fr (next_id st) ++ flat_edges g)] /\
  length (split_acts fr (next_id st)) = nv g.
Proof.
  intros Hpost n g.
  destruct (post_crossable_inv _ _ _ _ _ Hpost) as [Hsh [_ Hbody]].
  destruct (post_crossable_body_spec _ _ _ _ _ _ _ Hbody) as [_ [_ [st10 [V [_ [Cn Havc]]]]]].
  destruct (avc_primitive _ _ _ _ Havc) as [Hlen [Hv [_ [e [Hc [He _]]]]]].
  split; [rewrite Hv; exact V|]. split; [|exact Hlen].
  rewrite Hc, Cn, He, <- app_assoc. reflexivity.
Qed.

(* frames made by BoolGridFrame(solver, h, w) satisfy every hypothesis *)
Theorem new_frame_ok_main st h w st1 fr :
  new_frame st h w = (st1, fr) ->
  fh fr = h /\ fw fr = w /\ frame_shaped fr = true /\
  forallb (wt true) (hor fr ++ ver fr) = true /\
  fresh_below (next_id st1) (hor fr ++ ver fr).
Proof.
  unfold new_frame, bool_array.
  destruct (bool_vars st ((h + 1) * w)) as [sa hz] eqn:E1.
  destruct (bool_vars sa (h * (w + 1))) as [sb vt] eqn:E2.
  intros H. inversion H; subst st1 fr. clear H. simpl.
  apply bool_vars_spec in E1. destruct E1 as [-> [V1 _]].
  apply bool_vars_spec in E2. destruct E2 as [-> [V2 _]].
  split; [reflexivity|]. split; [reflexivity|]. split; [|split].
  - unfold frame_shaped. simpl. rewrite !map_length, !seq_length, !Nat.eqb_refl. reflexivity.
  - apply forallb_forall. intros e He. apply in_app_or in He.
    destruct He as [He|He]; apply in_map_iff in He; destruct He as [i [<- _]]; reflexivity.
  - assert (N1 : next_id sa = next_id st + (h + 1) * w).
    { unfold next_id. rewrite V1, app_length, repeat_length. reflexivity. }
    assert (N2 : next_id sb = next_id sa + h * (w + 1)).
    { unfold next_id. rewrite V2, app_length, repeat_length. reflexivity. }
    intros e He. apply in_app_or in He.
    destruct He as [He|He]; apply in_map_iff in He; destruct He as [i [<- Hi]];
      apply in_seq in Hi; simpl; lia.
Qed.

(* ------------------------------------------------------------------------ *)
(* final forms (hypotheses on the frame's entries are syntactic)              *)

Theorem crossable_exact_wt st fr sc prim st' ps cr en :
  post_crossable st fr sc prim = Ok (st', (ps, cr)) ->
  fresh_below (next_id st) (hor fr ++ ver fr) ->
  forallb (wt true) (hor fr ++ ver fr) = true ->
  ((exists en', agree_below (next_id st) en en' /\
                in_bounds_from en' (next_id st) (new_vars st st') = true /\
                forallb (holds gsem_avc en') (new_cons st st') = true)
   <-> crossable_spec (fh fr) (fw fr) (seg_pattern en fr) sc).
Proof.
  intros Hpost Hfr Hwt.
  apply (crossable_exact_main st fr sc prim st' ps cr Hpost Hfr en).
  apply wt_acts_defined. exact Hwt.
Qed.

Theorem crossable_outputs_wt st fr sc prim st' ps cr en' :
  post_crossable st fr sc prim = Ok (st', (ps, cr)) ->
  fresh_below (next_id st) (hor fr ++ ver fr) ->
  forallb (wt true) (hor fr ++ ver fr) = true ->
  forallb (holds gsem_avc en') (new_cons st st') = true ->
  length ps = (fh fr + 1) * (fw fr + 1) /\ length cr = (fh fr + 1) * (fw fr + 1) /\
  forall y x, y <= fh fr -> x <= fw fr ->
    holds gsem_avc en' (nth (y * (fw fr + 1) + x) ps PyNone)
      = visited (fh fr) (fw fr) (seg_pattern en' fr) (y, x) /\
    holds gsem_avc en' (nth (y * (fw fr + 1) + x) cr PyNone)
      = crossing (fh fr) (fw fr) (seg_pattern en' fr) (y, x).
Proof.
  intros Hpost Hfr Hwt Hs.
  destruct (crossable_returns_main st fr sc prim st' ps cr Hpost Hfr) as [Hps Hcr].
  split; [rewrite Hps; unfold bvars; rewrite map_length, seq_length; reflexivity|].
  split; [rewrite Hcr; unfold bvars; rewrite map_length, seq_length; reflexivity|].
  apply (crossable_outputs_main st fr sc prim st' ps cr Hpost Hfr en'); [|exact Hs].
  apply wt_acts_defined. exact Hwt.
Qed.

(* the auxiliary graph is connected on the nodes the code activates exactly when
   the drawn segments form one strand *)
Theorem split_graph_connected_iff_strand_enc h w act vact :
  (forall a, node_in h w a -> vact (enc h w a) = nact h w act a) ->
  (connected (split_graph (h + 1) (w + 1)) vact <-> strand_connected h w act).
Proof. apply split_graph_connected_iff_strand. Qed.

(* ------------------------------------------------------------------------ *)
(* sanity of the statements                                                   *)

(* the hypotheses of crossable_exact are satisfiable: BoolGridFrame(s, 2, 2) on
   a solver that already holds one variable, both routes *)
Example crossable_hypotheses_satisfiable :
  exists st fr st' ps cr st'' ps' cr',
    post_crossable st fr false false = Ok (st', (ps, cr)) /\
    post_crossable st fr true true = Ok (st'', (ps', cr')) /\
    fresh_below (next_id st) (hor fr ++ ver fr) /\
    forallb (wt true) (hor fr ++ ver fr) = true.
Proof.
  destruct (new_frame (fst (bool_var empty_state)) 2 2) as [st fr] eqn:E.
  destruct (new_frame_ok_main _ _ _ _ _ E) as [_ [_ [Hsh [Hwt Hfr]]]].
  destruct (crossable_succeeds_main st fr false false Hsh Hwt) as [st' [ps [cr H1]]].
  destruct (crossable_succeeds_main st fr true true Hsh Hwt) as [st'' [ps' [cr' H2]]].
  exists st, fr, st', ps, cr, st'', ps', cr'. auto.
Qed.

(* the empty pattern is a (degenerate) trail *)
Example crossable_spec_empty h w sc : crossable_spec h w (fun _ => false) sc.
Proof.
  assert (Hd : forall p, deg h w (fun _ => false) p = 0).
  { intros p. unfold deg. induction (segs_at h w p); [reflexivity|exact IHl]. }
  split.
  - intros p _. rewrite Hd. split; [left; reflexivity|discriminate].
  - intros s t [_ Hs]. discriminate.
Qed.

(* a 3-way point is rejected: all seven segments of the 1 x 2 frame drawn *)
Example crossable_spec_three_way sc : ~ crossable_spec 1 2 (fun _ => true) sc.
Proof.
  intros [Hr _]. destruct (Hr (0, 1)) as [H _]; [split; simpl; lia|].
  vm_compute in H. destruct H as [H|[[_ H]|[H|H]]]; discriminate.
Qed.

(* the unit square is a single cycle *)
Example crossable_spec_unit_square : crossable_spec 1 1 (fun _ => true) true.
Proof.
  split.
  - intros [y x] [Hy Hx]. simpl in Hy, Hx.
    assert (Hc : (y = 0 \/ y = 1) /\ (x = 0 \/ x = 1)) by lia.
    destruct Hc as [[-> | ->] [-> | ->]]; (split; [right; right; left; reflexivity|vm_compute; discriminate]).
  - assert (Hall : forall s, drawn 1 1 (fun _ => true) s ->
                    s = Seg true 0 0 \/ s = Seg true 0 1 \/ s = Seg false 0 0 \/ s = Seg false 1 0).
    { intros [[|] y x] [Hs _]; [apply seg_in_v in Hs|apply seg_in_h in Hs].
      - assert (y = 0) by lia. assert (x = 0 \/ x = 1) as [-> | ->] by lia; subst; auto.
      - assert (x = 0) by lia. assert (y = 0 \/ y = 1) as [-> | ->] by lia; subst; auto. }
    (* all four segments lie on the strand of the left side *)
    assert (D00 : drawn 1 1 (fun _ => true) (Seg true 0 0)) by (split; reflexivity).
    assert (D01 : drawn 1 1 (fun _ => true) (Seg true 0 1)) by (split; reflexivity).
    assert (Dh0 : drawn 1 1 (fun _ => true) (Seg false 0 0)) by (split; reflexivity).
    assert (Dh1 : drawn 1 1 (fun _ => true) (Seg false 1 0)) by (split; reflexivity).
    assert (C : forall s t p, touches s p -> touches t p -> deg 1 1 (fun _ => true) p <> 4 ->
                continues 1 1 (fun _ => true) s t).
    { intros s t p H1 H2 H3. exists p. auto. }
    assert (N4 : forall p, deg 1 1 (fun _ => true) p <> 4).
    { intros p H4. apply deg4_interior in H4. unfold interior in H4. lia. }
    (* from any drawn segment to any other: go round the square *)
    assert (R : forall s, drawn 1 1 (fun _ => true) s ->
              strand 1 1 (fun _ => true) s (Seg true 0 0) /\
              strand 1 1 (fun _ => true) (Seg true 0 0) s).
    { intros s Hs. destruct (Hall s Hs) as [-> |[-> |[-> | ->]]].
      - split; apply strand_refl; exact D00.
      - split.
        + eapply strand_step; [eapply strand_step; [apply strand_refl; exact D01|exact Dh0|]|exact D00|].
          * apply (C _ _ (0, 1)); [left; reflexivity|right; reflexivity|apply N4].
          * apply (C _ _ (0, 0)); [left; reflexivity|left; reflexivity|apply N4].
        + eapply strand_step; [eapply strand_step; [apply strand_refl; exact D00|exact Dh0|]|exact D01|].
          * apply (C _ _ (0, 0)); [left; reflexivity|left; reflexivity|apply N4].
          * apply (C _ _ (0, 1)); [right; reflexivity|left; reflexivity|apply N4].
      - split.
        + eapply strand_step; [apply strand_refl; exact Dh0|exact D00|].
          apply (C _ _ (0, 0)); [left; reflexivity|left; reflexivity|apply N4].
        + eapply strand_step; [apply strand_refl; exact D00|exact Dh0|].
          apply (C _ _ (0, 0)); [left; reflexivity|left; reflexivity|apply N4].
      - split.
        + eapply strand_step; [apply strand_refl; exact Dh1|exact D00|].
          apply (C _ _ (1, 0)); [left; reflexivity|right; reflexivity|apply N4].
        + eapply strand_step; [apply strand_refl; exact D00|exact Dh1|].
          apply (C _ _ (1, 0)); [right; reflexivity|left; reflexivity|apply N4]. }
    assert (T : forall a b c, strand 1 1 (fun _ => true) a b -> strand 1 1 (fun _ => true) b c ->
                strand 1 1 (fun _ => true) a c).
    { intros a b c Hab Hbc. induction Hbc as [b Hb|b c d Hbc IH Hd Hcd]; [exact Hab|].
      eapply strand_step; [apply IH; exact Hab|exact Hd|exact Hcd]. }
    intros s t Hs Ht. apply (T s (Seg true 0 0) t); [apply R; exact Hs|apply R; exact Ht].
Qed.
