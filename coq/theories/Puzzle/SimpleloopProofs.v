(* C11 Tier 1 - simpleloop: for every board shape, every layout of black cells and every pivot, the program posted
   by solve_simpleloop (model Simpleloop.v: the single-cycle helper of property C06 on the frame whose points are
   the cells, one constraint "the loop visits this cell iff it is white" per cell, the colour of the pivot cell
   being the parity of the number of the other white cells) has a model reading as [ans] on the frame exactly when
   [ans] obeys Rules_simpleloop.  The graph side is CycleCompose.cycle_frame_compose. *)
From Coq Require Import ZArith List Bool Arith Lia.
From Cspuz Require Import Lib.PyErr Core.Expr Core.Program Graph.GraphModel Graph.Cycle
     Puzzle.PuzzleBase Puzzle.SatAbs Puzzle.ModelBase Puzzle.ModelLemmas
     Puzzle.CycleFrameBase Puzzle.CycleCompose Puzzle.Rules_simpleloop Puzzle.Simpleloop.
Import ListNotations.
Local Open Scope nat_scope.

Notation b2z := PuzzleBase.b2z.

(* the rule "the loop visits exactly the white cells" (pivot colour by parity), as a function of the answer *)
Definition sl_local (h w py px : nat) (blocked : list Z) (ans : answer) : bool :=
  let on := fun k => isb (getz ans k) in
  let g := lattice h w in
  let pivot := py * w + px in
  let others := count (fun v => negb (Nat.eqb v pivot) && (getz blocked v =? 0)%Z) (seq 0 (h * w)) in
  let white := fun v => if Nat.eqb v pivot then Nat.odd others else (getz blocked v =? 0)%Z in
  forallb (fun v => Bool.eqb (on_line g on v) (white v)) (seq 0 (h * w)).

(* the constraints posted after the graph call on a board of (h+1) x (w+1) cells with the pivot inside *)
Definition sl_extra (h w py px : nat) (blocked : list Z) : list expr :=
  flat_map (sl_cell (S w) (S w) (frame_passed h w) blocked (Z.of_nat py) (Z.of_nat px)) (cells (S h) (S w)) ++
  [BNode IFF [nth (py * S w + px) (frame_passed h w) PyNone;
              PyBool (Nat.odd (sl_npass (S h) (S w) blocked (Z.of_nat py) (Z.of_nat px)))]].

Lemma sl_n_lattice_frame h w : n_lattice_edges (S h) (S w) = frame_n h w.
Proof.
  unfold n_lattice_edges, frame_n. replace (S w - 1) with w by lia. replace (S h - 1) with h by lia. reflexivity.
Qed.

Lemma sl_seq_as_map a n : seq a n = map (fun v => a + v) (seq 0 n).
Proof.
  revert a. induction n as [|n IH]; intros a; simpl; [reflexivity|]. f_equal; [lia|].
  rewrite (IH (S a)), <- seq_shift, map_map. apply map_ext. intros v. lia.
Qed.

Lemma sl_cells_cidx h w : map (cidx w) (cells h w) = seq 0 (h * w).
Proof.
  unfold cells. induction h as [|h IH]; [reflexivity|].
  rewrite seq_S, flat_map_app, map_app, IH. simpl flat_map. rewrite app_nil_r, map_map.
  replace (S h * w) with (h * w + w) by lia. rewrite seq_app. f_equal.
  rewrite (sl_seq_as_map (0 + h * w) w). apply map_ext. intros x. unfold cidx; simpl. lia.
Qed.

Lemma sl_nth_passed h w k :
  k < S h * S w -> nth k (frame_passed h w) PyNone = BVar (frame_n h w + k).
Proof.
  intros Hk. unfold frame_passed.
  rewrite (nth_indep _ PyNone (BVar 0)) by (rewrite map_length, seq_length; exact Hk).
  rewrite map_nth, seq_nth by exact Hk. reflexivity.
Qed.

Lemma sl_holds_iff en i b : holds no_graph en (BNode IFF [BVar i; PyBool b]) = Bool.eqb (eb en i) b.
Proof. unfold holds. simpl. destruct (eb en i), b; reflexivity. Qed.

(* tuple equality with a pivot inside the board = equality of the flat indices *)
Lemma sl_pivot_idx w py px y x :
  x < w -> px < w ->
  sl_is_pivot (Z.of_nat py) (Z.of_nat px) (y, x) = Nat.eqb (y * w + x) (py * w + px).
Proof.
  intros Hx Hpx. unfold sl_is_pivot. cbn [fst snd]. rewrite !znat_eqb.
  destruct (Nat.eqb_spec y py) as [Ey|Ey], (Nat.eqb_spec x px) as [Ex|Ex],
           (Nat.eqb_spec (y * w + x) (py * w + px)) as [E|E]; simpl; try reflexivity; exfalso.
  - subst. lia.
  - subst. lia.
  - assert (Hc : y < py \/ py < y) by lia. destruct Hc; nia.
  - assert (Hc : y < py \/ py < y) by lia. destruct Hc; nia.
Qed.

Lemma sl_dims h w py px (rest : list (list Z)) :
  let pb := [Z.of_nat h; Z.of_nat w; Z.of_nat py; Z.of_nat px] :: rest in
  dim pb 0 = h /\ dim pb 1 = w /\ dim pb 2 = py /\ dim pb 3 = px.
Proof. unfold dim, zn, getz, sec; simpl. rewrite !Nat2Z.id. repeat split; reflexivity. Qed.

(* n_pass is the number `others` of the rule file *)
Lemma sl_others h w py px blocked :
  px < w ->
  count (fun v => negb (Nat.eqb v (py * w + px)) && (getz blocked v =? 0)%Z) (seq 0 (h * w)) =
  sl_npass h w blocked (Z.of_nat py) (Z.of_nat px).
Proof.
  intros Hpx. unfold sl_npass. rewrite <- sl_cells_cidx, count_map.
  apply count_ext_in. intros [y x] Hc. apply cells_in in Hc. destruct Hc as [_ Hx].
  rewrite (sl_pivot_idx w py px y x Hx Hpx). reflexivity.
Qed.

(* the posted constraints say exactly sl_local on the reading of the frame variables, for every assignment in
   which the is_passed variables have the value the graph call gives them *)
Lemma sl_core h w py px blocked en :
  py < S h -> px < S w ->
  (forall y x, y <= h -> x <= w ->
     eb en (frame_pid h w y x) = on_line (lattice (S h) (S w)) (eb en) (y * S w + x)) ->
  sl_local (S h) (S w) py px blocked (map (fun i => b2z (eb en i)) (seq 0 (frame_n h w))) =
  forallb (holds no_graph en) (sl_extra h w py px blocked).
Proof.
  intros Hpy Hpx Hpass. unfold sl_local, sl_extra.
  rewrite (sl_others (S h) (S w) py px blocked Hpx).
  set (n := sl_npass (S h) (S w) blocked (Z.of_nat py) (Z.of_nat px)).
  set (N := frame_n h w).
  assert (Hon : forall v, on_line (lattice (S h) (S w))
                            (fun k => isb (getz (map (fun i => b2z (eb en i)) (seq 0 N)) k)) v =
                          on_line (lattice (S h) (S w)) (eb en) v).
  { intros v. apply on_line_ext. intros k Hk. cbn [edges lattice] in Hk. rewrite lattice_edges_length in Hk. fold N in Hk.
    rewrite getz_map_seq by exact Hk. apply b2z_isb. }
  rewrite <- sl_cells_cidx, forallb_map, forallb_app, forallb_flat_map.
  assert (Hpid : forall y x, y < S h -> x < S w ->
            nth (cidx (S w) (y, x)) (frame_passed h w) PyNone = BVar (frame_pid h w y x)).
  { intros y x Hy Hx. rewrite sl_nth_passed by (unfold cidx; simpl fst; simpl snd; nia).
    f_equal. unfold frame_pid, cidx. fold N. simpl fst. simpl snd. lia. }
  cbn [forallb]. rewrite andb_true_r.
  change (py * S w + px) with (cidx (S w) (py, px)). rewrite (Hpid py px Hpy Hpx), sl_holds_iff.
  apply eq_iff_eq_true. rewrite andb_true_iff, !forallb_forall. split.
  - intros H. split.
    + intros [y x] Hc. pose proof (H _ Hc) as Hyx. apply cells_in in Hc. destruct Hc as [Hy Hx].
      unfold sl_cell. destruct (sl_is_pivot (Z.of_nat py) (Z.of_nat px) (y, x)) eqn:Ep; [reflexivity|].
      cbn [forallb]. rewrite andb_true_r, (Hpid y x Hy Hx), sl_holds_iff.
      rewrite Hon in Hyx. rewrite (sl_pivot_idx (S w) py px y x Hx Hpx) in Ep.
      unfold cidx in Hyx. cbn [fst snd] in Hyx. rewrite Ep in Hyx.
      rewrite (Hpass y x) by lia. exact Hyx.
    + assert (Hc : In (py, px) (cells (S h) (S w))) by (apply cells_in; split; assumption).
      pose proof (H _ Hc) as Hyx. rewrite Hon in Hyx. unfold cidx in Hyx. cbn [fst snd] in Hyx.
      rewrite Nat.eqb_refl in Hyx. rewrite (Hpass py px) by lia. exact Hyx.
  - intros [H1 H2] [y x] Hc. pose proof (H1 _ Hc) as Hyx. apply cells_in in Hc. destruct Hc as [Hy Hx].
    rewrite Hon. unfold cidx. cbn [fst snd]. rewrite <- (Hpass y x) by lia.
    unfold sl_cell in Hyx. rewrite (sl_pivot_idx (S w) py px y x Hx Hpx) in Hyx.
    destruct (Nat.eqb_spec (y * S w + x) (py * S w + px)) as [E|E].
    + assert (y = py /\ x = px) as [-> ->].
      { assert (Hc : y < py \/ y = py \/ py < y) by lia. destruct Hc as [Hc|[Hc|Hc]]; [nia| |nia]. subst. lia. }
      exact H2.
    + cbn [forallb] in Hyx. rewrite andb_true_r, (Hpid y x Hy Hx), sl_holds_iff in Hyx. exact Hyx.
Qed.

(* what the model does on a board with cells and the pivot inside *)
Lemma sl_model_inside h w py px blocked :
  py < S h -> px < S w ->
  exists st1 rest,
    frame_cycle h w = Ok (st1, P2 (S h) (S w) (frame_passed h w)) /\
    vars st1 = repeat DBool (frame_n h w) ++ rest /\
    solve_simpleloop_model [[Z.of_nat (S h); Z.of_nat (S w); Z.of_nat py; Z.of_nat px]; blocked] =
    if Nat.ltb (length blocked) (sl_need (S h) (S w) (Z.of_nat py) (Z.of_nat px)) then Err IndexError
    else Ok (ensure st1 (sl_extra h w py px blocked)).
Proof.
  intros Hpy Hpx. destruct (frame_cycle_ok h w) as [st1 [rest [Hc Hv]]].
  exists st1, rest. split; [exact Hc|]. split; [exact Hv|].
  unfold solve_simpleloop_model.
  set (pb := [[Z.of_nat (S h); Z.of_nat (S w); Z.of_nat py; Z.of_nat px]; blocked]).
  change (sec pb 1) with blocked.
  change (getz (sec pb 0) 0) with (Z.of_nat (S h)). change (getz (sec pb 0) 1) with (Z.of_nat (S w)).
  change (getz (sec pb 0) 2) with (Z.of_nat py). change (getz (sec pb 0) 3) with (Z.of_nat px).
  destruct (sl_dims (S h) (S w) py px [blocked]) as [E0 [E1 _]]. fold pb in E0, E1. rewrite E0, E1.
  replace ((Z.of_nat (S h) <? 0) && (Z.of_nat (S w) <? 0))%Z with false
    by (symmetry; apply andb_false_iff; left; apply Z.ltb_ge; lia).
  replace ((Z.of_nat (S h) <=? 0) || (Z.of_nat (S w) <=? 0))%Z with false
    by (symmetry; apply orb_false_iff; split; apply Z.leb_gt; lia).
  replace (S h - 1) with h by lia. replace (S w - 1) with w by lia. rewrite Hc.
  destruct (Nat.ltb (length blocked) (sl_need (S h) (S w) (Z.of_nat py) (Z.of_nat px))); [reflexivity|].
  assert (Hi : forall size k, k < size -> sl_index size (Z.of_nat k) = Some k).
  { intros size k Hk. unfold sl_index.
    replace (Z.of_nat k <? 0)%Z with false by (symmetry; apply Z.ltb_ge; lia).
    replace (0 <=? Z.of_nat k)%Z with true by (symmetry; apply Z.leb_le; lia).
    replace (Z.of_nat k <? Z.of_nat size)%Z with true by (symmetry; apply Z.ltb_lt; lia).
    simpl. rewrite Nat2Z.id. reflexivity. }
  rewrite (Hi (S h) py Hpy), (Hi (S w) px Hpx). reflexivity.
Qed.

(* the model rejects every problem without cells or with the pivot outside the board *)
Lemma sl_model_ok_inside h w py px blocked st :
  solve_simpleloop_model [[Z.of_nat h; Z.of_nat w; Z.of_nat py; Z.of_nat px]; blocked] = Ok st ->
  0 < h /\ 0 < w /\ py < h /\ px < w.
Proof.
  unfold solve_simpleloop_model.
  set (pb := [[Z.of_nat h; Z.of_nat w; Z.of_nat py; Z.of_nat px]; blocked]).
  change (sec pb 1) with blocked.
  change (getz (sec pb 0) 0) with (Z.of_nat h). change (getz (sec pb 0) 1) with (Z.of_nat w).
  change (getz (sec pb 0) 2) with (Z.of_nat py). change (getz (sec pb 0) 3) with (Z.of_nat px).
  destruct (sl_dims h w py px [blocked]) as [E0 [E1 _]]. fold pb in E0, E1. rewrite E0, E1.
  destruct ((Z.of_nat h <? 0) && (Z.of_nat w <? 0))%Z; [discriminate|].
  destruct ((Z.of_nat h <=? 0) || (Z.of_nat w <=? 0))%Z eqn:Ez; [discriminate|].
  apply orb_false_iff in Ez. destruct Ez as [Eh Ew]. apply Z.leb_gt in Eh. apply Z.leb_gt in Ew.
  destruct h as [|h]; [lia|]. destruct w as [|w]; [lia|].
  replace (S h - 1) with h by lia. replace (S w - 1) with w by lia.
  destruct (frame_cycle_ok h w) as [st1 [rest [Hc _]]]. rewrite Hc.
  destruct (Nat.ltb (length blocked) _); [discriminate|].
  unfold sl_index.
  replace (Z.of_nat py <? 0)%Z with false by (symmetry; apply Z.ltb_ge; lia).
  replace (Z.of_nat px <? 0)%Z with false by (symmetry; apply Z.ltb_ge; lia).
  replace (0 <=? Z.of_nat py)%Z with true by (symmetry; apply Z.leb_le; lia).
  replace (0 <=? Z.of_nat px)%Z with true by (symmetry; apply Z.leb_le; lia).
  cbn [andb].
  destruct (Z.of_nat py <? Z.of_nat (S h))%Z eqn:Epy; [|discriminate].
  destruct (Z.of_nat px <? Z.of_nat (S w))%Z eqn:Epx; [|discriminate].
  apply Z.ltb_lt in Epy. apply Z.ltb_lt in Epx. intros _. lia.
Qed.

Theorem simpleloop_exact h w py px blocked st ans :
  solve_simpleloop_model [[Z.of_nat h; Z.of_nat w; Z.of_nat py; Z.of_nat px]; blocked] = Ok st ->
  ((exists en, model_of no_graph en st /\ reads st en (seq 0 (h * (w - 1) + (h - 1) * w)) = ans)
   <-> rules_simpleloop [[Z.of_nat h; Z.of_nat w; Z.of_nat py; Z.of_nat px]; blocked] ans = true).
Proof.
  intros Hst. destruct (sl_model_ok_inside _ _ _ _ _ _ Hst) as [Hh [Hw [Hpy Hpx]]].
  destruct h as [|h]; [lia|]. destruct w as [|w]; [lia|].
  destruct (sl_model_inside h w py px blocked Hpy Hpx) as [st1 [rest [Hcall [_ Hm]]]].
  rewrite Hm in Hst.
  destruct (Nat.ltb (length blocked) _); [discriminate|]. inversion Hst; subst st. clear Hst Hm.
  destruct (cycle_frame_compose no_graph h w (sl_extra h w py px blocked) (sl_local (S h) (S w) py px blocked)
              st1 _ ans Hcall (fun en Hp => sl_core h w py px blocked en Hpy Hpx Hp)) as [_ EX].
  change (S h * (S w - 1) + (S h - 1) * S w) with (n_lattice_edges (S h) (S w)).
  rewrite sl_n_lattice_frame, EX. unfold rules_simpleloop.
  set (pb := [[Z.of_nat (S h); Z.of_nat (S w); Z.of_nat py; Z.of_nat px]; blocked]).
  change (sec pb 1) with blocked.
  destruct (sl_dims (S h) (S w) py px [blocked]) as [E0 [E1 [E2 E3]]]. fold pb in E0, E1, E2, E3.
  rewrite E0, E1, E2, E3, sl_n_lattice_frame. reflexivity.
Qed.

(* the model accepts every board with cells, the pivot inside and enough entries in `blocked` (the premise of
   simpleloop_exact is satisfiable) *)
Lemma simpleloop_model_total h w py px blocked :
  py < h -> px < w -> h * w <= length blocked ->
  exists st, solve_simpleloop_model [[Z.of_nat h; Z.of_nat w; Z.of_nat py; Z.of_nat px]; blocked] = Ok st.
Proof.
  intros Hpy Hpx Hl. destruct h as [|h]; [lia|]. destruct w as [|w]; [lia|].
  destruct (sl_model_inside h w py px blocked Hpy Hpx) as [st1 [rest [_ [_ Hm]]]]. rewrite Hm.
  replace (Nat.ltb (length blocked) (sl_need (S h) (S w) (Z.of_nat py) (Z.of_nat px))) with false.
  - eexists. reflexivity.
  - symmetry. apply Nat.ltb_ge. unfold sl_need.
    destruct (sl_is_pivot (Z.of_nat py) (Z.of_nat px) (S h - 1, S w - 1)); lia.
Qed.

Example simpleloop_model_ok : exists st, solve_simpleloop_model [[2; 2; 0; 1]; [0; 0; 0; 0]]%Z = Ok st.
Proof. apply (simpleloop_model_total 2 2 0 1 [0; 0; 0; 0]%Z); simpl; lia. Qed.

(* 2 x 2 cells, all white apart from the pivot: the three other white cells make the pivot white, and the loop
   through the four cells is the unique answer; with one black cell the pivot is black and nothing fits *)
Example simpleloop_rules_2x2 :
  rules_simpleloop [[2; 2; 0; 0]; [1; 0; 0; 0]]%Z [1; 1; 1; 1]%Z = true /\
  rules_simpleloop [[2; 2; 0; 0]; [1; 0; 0; 0]]%Z [0; 0; 0; 0]%Z = false /\
  rules_simpleloop [[2; 2; 0; 0]; [0; 0; 0; 1]]%Z [1; 1; 1; 1]%Z = false /\
  rules_simpleloop [[2; 2; 0; 0]; [0; 1; 1; 1]]%Z [0; 0; 0; 0]%Z = true.
Proof. vm_compute. repeat split. Qed.
