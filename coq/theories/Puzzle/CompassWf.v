(* C11: the program of solve_compass is well formed on every board; composition with C02 (solve_reports). *)
From Coq Require Import ZArith List Bool Arith Lia.
From Cspuz Require Import Lib.PyErr Core.Expr Core.Program Graph.GraphModel Graph.CycleLemmas Graph.Division
     Backend.Z3 Backend.Z3Oracle Backend.Z3SolveProofs Backend.SolveLoop Backend.SolveZ3Proofs
     Puzzle.PuzzleBase Puzzle.ModelBase Puzzle.ModelLemmas Puzzle.SatAbs Puzzle.SolveCompose Puzzle.WfLemmas
     Puzzle.DivisionCompose Puzzle.Rules_compass Puzzle.Compass Puzzle.CompassProofs.
Import ListNotations.
Local Open Scope nat_scope.

Lemma cp_rect_in y0 ny x0 nx c : In c (cp_rect y0 ny x0 nx) -> y0 <= fst c < y0 + ny /\ x0 <= snd c < x0 + nx.
Proof.
  unfold cp_rect. intros H. apply in_flat_map in H. destruct H as [y [Hy H]].
  apply in_map_iff in H. destruct H as [x [<- Hx]]. apply in_seq in Hy, Hx. simpl. lia.
Qed.

Section C.
  Variables h w k : nat.
  Let vs := repeat (DInt 0 (Z.of_nat k - 1)) (h * w).

  Lemma ok_cp_div c : fst c < h -> snd c < w -> ok vs false (cp_div k w c) = true.
  Proof.
    intros Hy Hx. unfold cp_div. apply ok_ivar_repeat. destruct c as [y x]. apply cidx_lt; assumption.
  Qed.

  Lemma ok_cp_count i cs : (forall c, In c cs -> fst c < h /\ snd c < w) -> ok vs false (cp_count k w i cs) = true.
  Proof.
    intros H. unfold cp_count. destruct cs as [|c r] eqn:E; [reflexivity|]. rewrite <- E in *.
    rewrite ok_add_map by (subst; discriminate). apply forallb_In. intros x Hx.
    rewrite ok_cond, ok_eq, ok_pyint, andb_true_r. destruct (H x Hx). apply ok_cp_div; assumption.
  Qed.

  Lemma cp_clue_ok i cs c : (forall c, In c cs -> fst c < h /\ snd c < w) ->
    forallb (ok vs true) (cp_clue k w i cs c) = true.
  Proof.
    intros H. unfold cp_clue. destruct (0 <=? c)%Z; [|reflexivity].
    cbn [forallb]. rewrite ok_eq, ok_pyint, !andb_true_r. apply ok_cp_count. exact H.
  Qed.

  Lemma cp_compass_ok cps i :
    cp_nonneg cps i = true -> cp_in_board h w cps i = true ->
    forallb (ok vs true) (cp_compass h w cps k i) = true.
  Proof.
    intros Hn Hb. unfold cp_nonneg in Hn. unfold cp_in_board in Hb.
    apply andb_true_iff in Hn, Hb. destruct Hn as [N0 N1], Hb as [B0 B1].
    apply Z.leb_le in N0, N1. apply Z.ltb_lt in B0, B1.
    unfold cp_compass. cbv zeta.
    assert (Hy : zn (cp_field cps i 0) < h) by (unfold zn; lia).
    assert (Hx : zn (cp_field cps i 1) < w) by (unfold zn; lia).
    set (y := zn (cp_field cps i 0)) in *. set (x := zn (cp_field cps i 1)) in *.
    cbn [forallb]. rewrite ok_eq, ok_pyint, andb_true_r, ok_cp_div by assumption. cbn [andb].
    rewrite !forallb_app.
    repeat (apply andb_true_intro; split); apply cp_clue_ok; intros c Hc; apply cp_rect_in in Hc; lia.
  Qed.
End C.

Lemma compass_model_shape pb st : solve_compass_model pb = Ok st ->
  (wf_state st /\ wf_keys st) /\ exists r, keys st = repeat true (dim pb 0 * dim pb 1) ++ r.
Proof.
  unfold solve_compass_model. cbv zeta. set (h := dim pb 0). set (w := dim pb 1). set (cps := sec pb 1).
  destruct (negb (Nat.eqb _ 0)); [discriminate|].
  set (k := Nat.div (length cps) 6).
  destruct (forallb (cp_nonneg cps) (seq 0 k)) eqn:Hnn; [|discriminate]. cbn [negb].
  unfold int_array. destruct (Z.of_nat k - 1 <? 0)%Z; [discriminate|]. rewrite int_vars_spec.
  cbn [vars keys Program.cons empty_state app]. unfold next_id at 1. cbn [vars empty_state length].
  set (st0 := {| vars := repeat (DInt 0 (Z.of_nat k - 1)) (h * w); keys := repeat false (h * w); cons := [] |}).
  destruct (division_connected st0 _ k None _ false false) as [st1|] eqn:E; [|discriminate].
  destruct (forallb (cp_in_board h w cps) (seq 0 k)) eqn:Hib; [|discriminate].
  intros H. inversion H; subst st; clear H.
  destruct (division_connected_grid_wf _ _ _ _ _ _ _ _ E) as [[W1 K1] [V1 Ky1]].
  { reflexivity. } { unfold wf_keys; simpl. rewrite !repeat_length. reflexivity. }
  { simpl. rewrite forallb_map. apply forallb_seq. intros i Hi. apply ok_ivar_repeat. lia. }
  cbn [vars keys st0] in V1, Ky1.
  split; [split|].
  - unfold wf_state. cbn [vars Program.cons]. apply wf_cons_app; [exact W1|].
    rewrite V1. apply forallb_ok_more. rewrite forallb_flat_map. apply forallb_In. intros i Hi.
    rewrite forallb_forall in Hnn, Hib. apply cp_compass_ok; [apply Hnn|apply Hib]; exact Hi.
  - unfold wf_keys. cbn [vars keys]. unfold wf_keys in K1. rewrite app_length, repeat_length, skipn_length.
    rewrite <- K1, Ky1, app_length, repeat_length. lia.
  - cbn [keys]. eexists. reflexivity.
Qed.

Lemma compass_model_wf pb st : solve_compass_model pb = Ok st -> wf_state st /\ wf_keys st.
Proof. intros H. exact (proj1 (compass_model_shape pb st H)). Qed.

Theorem compass_solve_reports : forall oracle, oracle_sound_on oracle -> oracle_complete_on oracle ->
  forall h w cps st,
  solve_compass_model [[Z.of_nat h; Z.of_nat w]; cps] = Ok st ->
  solve_reports oracle st (key_ids st) (rules_compass [[Z.of_nat h; Z.of_nat w]; cps]).
Proof.
  intros oracle Os Oc h w cps st Hst.
  apply (solve_reports_intro oracle division_gsem); try assumption.
  - exact (compass_model_wf _ _ Hst).
  - intros i. apply key_ids_keys.
  - intros ans. exact (compass_exact h w cps st ans Hst).
Qed.
