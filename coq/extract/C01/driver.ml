open Model
open Zutil

let err e = "E " ^ string_of_int (int_of_nat (pyerr_code e))

let rec show_z (t : zterm) : string =
  let n name l = "( " ^ name ^ String.concat "" (List.map (fun a -> " " ^ show_z a) l) ^ " )" in
  match t with
  | ZBoolVal true -> "true" | ZBoolVal false -> "false"
  | ZIntVal z -> string_of_int (int_of_z z)
  | ZBoolConst i -> "b" ^ string_of_int (int_of_nat i)
  | ZIntConst i -> "i" ^ string_of_int (int_of_nat i)
  | ZNeg a -> n "neg" [a]
  | ZAdd (a, b) -> n "add" [a; b] | ZSub (a, b) -> n "sub" [a; b]
  | ZEq (a, b) -> n "eq" [a; b]
  | ZLe (a, b) -> n "le" [a; b] | ZLt (a, b) -> n "lt" [a; b]
  | ZGe (a, b) -> n "ge" [a; b] | ZGt (a, b) -> n "gt" [a; b]
  | ZNot a -> n "not" [a]
  | ZAnd l -> n "and" l | ZOr l -> n "or" l
  | ZXor (a, b) -> n "xor" [a; b]
  | ZIte (c, t, f) -> n "ite" [c; t; f]
  | ZDistinct l -> n "distinct" l

let show_zres = function
  | PyB true -> "T" | PyB false -> "F" | PyN -> "N"
  | PyI z -> "#" ^ string_of_int (int_of_z z)
  | ZT t -> "Z " ^ show_z t

let show_value = function VB true -> "T" | VB false -> "F" | VI z -> string_of_int (int_of_z z)
let show_values l = "[" ^ String.concat "" (List.map (fun v -> " " ^ show_value v) l) ^ " ]"
let show_ovalues l = "[" ^ String.concat "" (List.map (function None -> " _" | Some v -> " " ^ show_value v) l) ^ " ]"

let parse_value = function "T" -> VB true | "F" -> VB false | s -> VI (z_of_int (int_of_string s))

(* [ tok tok ... ] -> (tokens, rest) *)
let take_list toks = match toks with
  | "[" :: r -> let rec go acc r = match r with
      | "]" :: r' -> (List.rev acc, r') | t :: r' -> go (t :: acc) r' | [] -> failwith "list" in go [] r
  | _ -> failwith "list"

let parse_decls toks = let (ds, r) = take_list toks in (List.map Exprio.parse_decl ds, r)
let parse_values toks = let (vs, r) = take_list toks in (List.map parse_value vs, r)

let show_solve = function
  | Err e -> err e
  | Ok None -> "U"
  | Ok (Some s) -> "S " ^ show_values s

let rec parse_ops toks = match toks with
  | [] -> []
  | "b" :: r -> SBool :: parse_ops r
  | "i" :: lo :: hi :: r -> SInt (z_of_int (int_of_string lo), z_of_int (int_of_string hi)) :: parse_ops r
  | "e" :: r -> let (l, r') = Exprio.parse_expr_list r in SEnsure l :: parse_ops r'
  | "f" :: r -> SFind :: parse_ops r
  | _ -> failwith "ops"

let show_out = function
  | None -> "-"
  | Some (Err e) -> err e
  | Some (Ok true) -> "S"
  | Some (Ok false) -> "U"

let handle toks = match toks with
  | "CONV" :: rest ->
      let (ds, r) = parse_decls rest in
      let (e, _) = Exprio.parse_expr r in
      (match conv ds e with Err e -> err e | Ok r -> show_zres r)
  | "WT" :: rest ->
      let (ds, r) = parse_decls rest in
      let (e, _) = Exprio.parse_expr r in
      (if wt true e && refs_ok ds e then "1" else "0")
  | "FIND" :: rest ->
      let (st, _) = Exprio.parse_state rest in show_solve (find_answer bf_oracle st)
  | "FIND3" :: k :: rest ->
      (* z3 with a three-valued answer: R = the brute-force oracle's answer, U = gives up on every query *)
      let (st, _) = Exprio.parse_state rest in
      let o3 = (match k with "U" -> gives_up | _ -> lift_oracle bf_oracle) in
      show_solve (find_answer3 o3 st)
  | "FALSEON" :: _ ->
      let b x = if solve_returns_false_on x then "1" else "0" in
      "sat=" ^ b CSat ^ " unsat=" ^ b CUnsat ^ " unknown=" ^ b CUnknown
  | "MODELS" :: rest ->
      let (st, _) = Exprio.parse_state rest in
      let ms = spec_models st in
      string_of_int (List.length ms) ^ String.concat "" (List.map (fun m -> " " ^ show_values m) ms)
  | "NMODELS" :: rest ->
      let (st, _) = Exprio.parse_state rest in string_of_int (List.length (spec_models st))
  | "ISMODEL" :: rest ->
      let (vs, r) = parse_values rest in
      let (st, _) = Exprio.parse_state r in
      (if sol_is_model st vs then "1" else "0")
  | "EVAL" :: rest ->
      let (vs, r) = parse_values rest in
      let (e, _) = Exprio.parse_expr r in
      (match eval no_graph (env_of_sol vs) e with None -> "N" | Some v -> show_value v)
  | "SESS" :: rest ->
      let ops = parse_ops rest in
      let tr = trace bf_oracle sess0 ops in
      let outs = List.map (fun (_, o) -> show_out o) tr in
      let final = (match List.rev tr with [] -> sess0 | (s, _) :: _ -> s) in
      String.concat " " outs ^ " | " ^ Exprio.show_state final.s_st
  | "BUILD" :: f :: rest ->
      let (l, _) = Exprio.parse_expr_list rest in
      let r = (match f with
        | "count_true" -> count_true l | "fold_or" -> fold_or l | "fold_and" -> fold_and l
        | "alldifferent" -> alldifferent l | _ -> failwith "build") in
      (match r with Err e -> err e | Ok e -> Exprio.show_expr e)
  | _ -> "EXN bad request"

let () = main_loop handle
