(* C19 — proofs about the XorShift model: word ranges, randint range and the
   rejection-sampling uniformity argument, choice, random, shuffle. *)
From Coq Require Import ZArith List Bool Lia Permutation.
From Cspuz Require Import Lib.PyErr Generator.XorShift.
Import ListNotations.
Open Scope Z_scope.

(* ------------------------------------------------------------------ 32-bit words *)

Definition word (x : Z) : Prop := 0 <= x < M32.
Definition wf (s : xs) : Prop := word (sx s) /\ word (sy s) /\ word (sz s) /\ word (sw s).

Lemma M32_pow : M32 = 2 ^ 32. Proof. reflexivity. Qed.
Lemma MASK32_ones : MASK32 = Z.ones 32. Proof. reflexivity. Qed.

Lemma lxor_lt_pow2 a b n :
  0 <= n -> 0 <= a < 2 ^ n -> 0 <= b < 2 ^ n -> 0 <= Z.lxor a b < 2 ^ n.
Proof.
  intros Hn Ha Hb. split.
  - apply Z.lxor_nonneg. split; intros _; lia.
  - destruct (Z.eq_dec (Z.lxor a b) 0) as [E|E].
    + rewrite E. apply Z.pow_pos_nonneg; lia.
    + assert (Hx : 0 <= Z.lxor a b) by (apply Z.lxor_nonneg; split; intros _; lia).
      destruct (Z.eq_dec n 0) as [-> | Hn0].
      * exfalso. apply E. replace a with 0 by (simpl in Ha; lia). replace b with 0 by (simpl in Hb; lia). reflexivity.
      * apply Z.log2_lt_pow2; [lia|].
        eapply Z.le_lt_trans; [apply Z.log2_lxor; lia|].
        apply Z.max_lub_lt.
        -- destruct (Z.eq_dec a 0) as [-> | Ha0]; [simpl; lia|]. apply Z.log2_lt_pow2; lia.
        -- destruct (Z.eq_dec b 0) as [-> | Hb0]; [simpl; lia|]. apply Z.log2_lt_pow2; lia.
Qed.

Lemma lxor_word a b : word a -> word b -> word (Z.lxor a b).
Proof. unfold word; rewrite M32_pow; intros; apply lxor_lt_pow2; lia. Qed.

Lemma shiftr_word a k : 0 <= k -> word a -> word (Z.shiftr a k).
Proof.
  unfold word; intros Hk [H0 H1]. rewrite Z.shiftr_div_pow2 by lia.
  assert (0 < 2 ^ k) by (apply Z.pow_pos_nonneg; lia).
  split; [apply Z.div_pos; lia|].
  eapply Z.le_lt_trans; [|exact H1].
  apply Z.div_le_upper_bound; [lia|]. nia.
Qed.

Lemma land_mask_word a : word (Z.land a MASK32).
Proof.
  unfold word. rewrite MASK32_ones, Z.land_ones by lia. rewrite M32_pow.
  apply Z.mod_pos_bound. reflexivity.
Qed.

Arguments next : simpl never.

Lemma seed_wf seed : wf (seed_state seed).
Proof.
  unfold wf, seed_state; cbn [sx sy sz sw].
  split; [unfold word, M32; lia|]. split; [unfold word, M32; lia|]. split; [unfold word, M32; lia|].
  apply lxor_word; [unfold word, M32; lia | apply land_mask_word].
Qed.

Lemma next_word s : wf s -> word (fst (next s)) /\ wf (snd (next s)).
Proof.
  intros (Hx & Hy & Hz & Hw). unfold next; cbn [fst snd].
  assert (Hn : word (Z.lxor (Z.lxor (sw s) (Z.shiftr (sw s) 19))
      (Z.lxor (Z.land (Z.lxor (sx s) (Z.shiftl (sx s) 11)) MASK32)
         (Z.shiftr (Z.land (Z.lxor (sx s) (Z.shiftl (sx s) 11)) MASK32) 8)))).
  { apply lxor_word; apply lxor_word; auto using land_mask_word.
    - apply shiftr_word; [lia|auto].
    - apply shiftr_word; [lia|apply land_mask_word]. }
  split; [exact Hn|]. unfold wf; cbn [sx sy sz sw]. auto.
Qed.

Lemma words_word n : forall s, wf s -> Forall word (words n s).
Proof.
  induction n as [|n IH]; intros s Hs; cbn [words]; [constructor|].
  destruct (next s) as [x s'] eqn:E.
  pose proof (next_word s Hs) as [H1 H2]. rewrite E in H1, H2; simpl in H1, H2.
  constructor; [exact H1 | apply IH; exact H2].
Qed.

(* ------------------------------------------------------------------ the rejection loop *)

(* state after k raw draws, and the k-th raw word *)
Fixpoint after (k : nat) (s : xs) : xs :=
  match k with O => s | S k' => after k' (snd (next s)) end.
Definition word_at (k : nat) (s : xs) : Z := fst (next (after k s)).

Lemma after_wf k : forall s, wf s -> wf (after k s).
Proof. induction k; cbn [after]; intros s Hs; auto. apply IHk. apply next_word; assumption. Qed.

(* draw_below returns the first raw word below the limit *)
Lemma draw_below_first fuel limit : forall s x s',
  draw_below fuel limit s = Done x s' ->
  exists k, (k < fuel)%nat /\ x = word_at k s /\ s' = after (S k) s /\ x < limit /\
            forall j, (j < k)%nat -> limit <= word_at j s.
Proof.
  induction fuel as [|f IH]; intros s x s' H; cbn [draw_below] in H; [discriminate|].
  destruct (next s) as [y s1] eqn:E.
  destruct (y <? limit) eqn:L.
  - inversion H; subst. exists O. unfold word_at; cbn [after]. rewrite E; cbn [fst snd].
    repeat split; try lia; try reflexivity.
  - apply IH in H. destruct H as (k & Hk & Hx & Hs & Hl & Hj).
    exists (S k). unfold word_at in *; cbn [after]. rewrite E; cbn [fst snd].
    repeat split; auto; try lia.
    intros j Hjk. destruct j as [|j]; cbn [after].
    + rewrite E; cbn [fst snd]. apply Z.ltb_ge; exact L.
    + rewrite E; cbn [fst snd]. apply Hj. lia.
Qed.

Lemma draw_below_no_raise fuel limit : forall s e, draw_below fuel limit s <> Raise e.
Proof.
  induction fuel; intros s e; cbn [draw_below]; [discriminate|].
  destruct (next s) as [y s1]. destruct (y <? limit); [discriminate|apply IHfuel].
Qed.

(* ------------------------------------------------------------------ randint *)

Definition limit_of (w : Z) : Z := M32 - M32 mod w.

Lemma randint_inv a b s v s' :
  randint a b s = Done v s' ->
  a <= b /\ b - a + 1 <= M32 /\
  exists x, draw_below RANDINT_FUEL (limit_of (b - a + 1)) s = Done x s' /\ v = a + x mod (b - a + 1).
Proof.
  unfold randint. destruct (b <? a) eqn:E1; [discriminate|].
  destruct (M32 <? b - a + 1) eqn:E2; [discriminate|].
  apply Z.ltb_ge in E1. apply Z.ltb_ge in E2.
  fold (limit_of (b - a + 1)).
  destruct (draw_below RANDINT_FUEL (limit_of (b - a + 1)) s) as [x s1| |] eqn:D; try discriminate.
  intros H; inversion H; subst. repeat split; try lia. exists x. split; reflexivity.
Qed.

Lemma randint_range a b s v s' : randint a b s = Done v s' -> a <= v <= b.
Proof.
  intros H. apply randint_inv in H. destruct H as (Hab & _ & x & _ & ->).
  assert (0 <= x mod (b - a + 1) < b - a + 1) by (apply Z.mod_pos_bound; lia). lia.
Qed.

Lemma randint_wf a b s v s' : wf s -> randint a b s = Done v s' -> wf s'.
Proof.
  intros Hs H. apply randint_inv in H. destruct H as (_ & _ & x & D & _).
  apply draw_below_first in D. destruct D as (k & _ & _ & -> & _). apply after_wf; exact Hs.
Qed.

Lemma randint_raises a b s e :
  randint a b s = Raise e -> e = ValueError /\ (b < a \/ M32 < b - a + 1).
Proof.
  unfold randint. destruct (b <? a) eqn:E1.
  - intros H; inversion H. split; [reflexivity|left; apply Z.ltb_lt; exact E1].
  - destruct (M32 <? b - a + 1) eqn:E2.
    + intros H; inversion H. split; [reflexivity|right; apply Z.ltb_lt; exact E2].
    + destruct (draw_below RANDINT_FUEL (M32 - M32 mod (b - a + 1)) s) eqn:D; try discriminate.
      exfalso. eapply draw_below_no_raise; exact D.
Qed.

(* randint returns a + (x mod w) for the first raw word x below the limit *)
Lemma randint_first_accepted a b s v s' :
  randint a b s = Done v s' ->
  exists k, s' = after (S k) s /\ word_at k s < limit_of (b - a + 1) /\
            (forall j, (j < k)%nat -> limit_of (b - a + 1) <= word_at j s) /\
            v = a + word_at k s mod (b - a + 1).
Proof.
  intros H. apply randint_inv in H. destruct H as (_ & _ & x & D & ->).
  apply draw_below_first in D. destruct D as (k & _ & -> & -> & Hl & Hj).
  exists k. auto.
Qed.

(* the limit is a multiple of the width, and more than half of the words are accepted *)
Lemma limit_multiple w : 0 < w -> limit_of w = w * (M32 / w).
Proof. intros Hw. unfold limit_of. pose proof (Z.div_mod M32 w). lia. Qed.

Lemma limit_more_than_half w : 0 < w <= M32 -> M32 < 2 * limit_of w.
Proof.
  intros Hw. unfold limit_of.
  pose proof (Z.mod_pos_bound M32 w ltac:(lia)) as Hm.
  pose proof (Z.div_mod M32 w ltac:(lia)) as Hd.
  assert (1 <= M32 / w) by (apply Z.div_le_lower_bound; lia).
  nia.
Qed.

(* Uniformity: among the accepted words [0, limit) every value v of [a, b] has
   exactly M32 / w preimages under x |-> a + x mod w, namely (v - a) + k * w for
   k in [0, M32 / w): the map k |-> (v - a) + k * w is a bijection onto them. *)
Lemma randint_uniform a b v :
  let w := b - a + 1 in
  0 < w <= M32 -> a <= v <= b ->
  (forall k, 0 <= k < M32 / w ->
      0 <= (v - a) + k * w < limit_of w /\ a + ((v - a) + k * w) mod w = v) /\
  (forall k k', (v - a) + k * w = (v - a) + k' * w -> k = k') /\
  (forall x, 0 <= x < limit_of w -> a + x mod w = v ->
      exists k, 0 <= k < M32 / w /\ x = (v - a) + k * w).
Proof.
  intros w Hw Hv. rewrite limit_multiple by lia.
  repeat split.
  - nia.
  - nia.
  - rewrite Z.mod_add by lia. rewrite Z.mod_small by lia. lia.
  - intros k k' H. nia.
  - intros x Hx Hm. exists (x / w).
    pose proof (Z.div_mod x w ltac:(lia)) as Hd.
    pose proof (Z.mod_pos_bound x w ltac:(lia)) as Hb.
    split.
    + split; [apply Z.div_pos; lia|]. apply Z.div_lt_upper_bound; lia.
    + lia.
Qed.

(* ------------------------------------------------------------------ choice *)

Lemma choice_inv {A} (l : list A) s a s' :
  choice l s = Done a s' ->
  exists idx, randint 0 (Z.of_nat (length l) - 1) s = Done idx s' /\
              0 <= idx < Z.of_nat (length l) /\ nth_error l (Z.to_nat idx) = Some a.
Proof.
  destruct l as [|x l]; [discriminate|].
  unfold choice, bindR. set (n := Z.of_nat (length (x :: l)) - 1).
  destruct (randint 0 n s) as [idx s1| |] eqn:R; try discriminate.
  destruct (nth_error (x :: l) (Z.to_nat idx)) as [a'|] eqn:N; [|discriminate].
  intros H; inversion H; subst. exists idx. repeat split; auto.
  - apply randint_range in R. lia.
  - apply randint_range in R. unfold n in R. lia.
Qed.

Lemma choice_in {A} (l : list A) s a s' : choice l s = Done a s' -> In a l.
Proof.
  intros H. apply choice_inv in H. destruct H as (idx & _ & _ & N).
  eapply nth_error_In; exact N.
Qed.

(* choice raises only ValueError (empty candidates; a list of 2^32 or more
   elements would also exceed randint's domain) *)
Lemma choice_raises {A} (l : list A) s e : choice l s = Raise e -> e = ValueError.
Proof.
  destruct l as [|x l]; [intros H; inversion H; auto|].
  unfold choice, bindR. set (n := Z.of_nat (length (x :: l)) - 1).
  destruct (randint 0 n s) as [idx s1| |] eqn:R; try discriminate.
  - pose proof (randint_range _ _ _ _ _ R) as Hr.
    destruct (nth_error (x :: l) (Z.to_nat idx)) eqn:N; [discriminate|].
    exfalso. apply nth_error_None in N. unfold n in Hr. cbn [length] in *. lia.
  - intros H; inversion H; subst. apply randint_raises in R. tauto.
Qed.

Lemma choice_wf {A} (l : list A) s a s' : wf s -> choice l s = Done a s' -> wf s'.
Proof.
  intros Hs H. apply choice_inv in H. destruct H as (idx & R & _). eapply randint_wf; eauto.
Qed.

(* ------------------------------------------------------------------ random *)

Lemma random_range s x s' : wf s -> random_num s = Done x s' -> 0 <= x < M32 /\ wf s'.
Proof.
  intros Hs. unfold random_num, nextR. destruct (next s) as [y s1] eqn:E.
  intros H; inversion H; subst.
  pose proof (next_word s Hs) as [H1 H2]. rewrite E in H1, H2. exact (conj H1 H2).
Qed.

(* ------------------------------------------------------------------ shuffle: a permutation *)

Lemma set_nth_length {A} (l : list A) : forall n v, length (set_nth l n v) = length l.
Proof. induction l as [|x t IH]; intros [|n] v; cbn [set_nth length]; auto. Qed.

(* putting b at position j, where it already is, in exchange for x in front *)
Lemma perm_exchange {A} (x b : A) : forall t j,
  nth_error t j = Some b -> Permutation (b :: set_nth t j x) (x :: t).
Proof.
  induction t as [|y t IH]; intros [|j] H; cbn [nth_error] in H; try discriminate.
  - inversion H; subst. cbn [set_nth]. apply perm_swap.
  - cbn [set_nth]. eapply perm_trans; [apply perm_swap|].
    eapply perm_trans; [apply perm_skip; apply IH; exact H|]. apply perm_swap.
Qed.

Lemma swap_perm {A} : forall (l : list A) i j, Permutation (swap l i j) l.
Proof.
  unfold swap. induction l as [|x t IH]; intros i j.
  - destruct (nth_error [] i); [destruct (nth_error [] j)|]; reflexivity.
  - destruct i as [|i], j as [|j]; cbn [nth_error].
    + cbn [set_nth]. reflexivity.
    + destruct (nth_error t j) as [b|] eqn:Ej; [|reflexivity]. cbn [set_nth]. apply perm_exchange; exact Ej.
    + destruct (nth_error t i) as [a|] eqn:Ei; [|reflexivity]. cbn [set_nth]. apply perm_exchange; exact Ei.
    + specialize (IH i j). destruct (nth_error t i) as [a|]; [|reflexivity].
      destruct (nth_error t j) as [b|]; [|reflexivity]. cbn [set_nth]. apply perm_skip; exact IH.
Qed.

Lemma swap_length {A} (l : list A) i j : length (swap l i j) = length l.
Proof. apply Permutation_length, swap_perm. Qed.

Lemma swap_incl {A} (l : list A) i j x : In x (swap l i j) -> In x l.
Proof. apply Permutation_in, swap_perm. Qed.

(* the deterministic core of shuffle: the list obtained from the draws j_1, j_2, ... *)
Fixpoint shuffle_with {A} (js : list nat) (i : nat) (l : list A) : list A :=
  match js with
  | [] => l
  | j :: t => shuffle_with t (S i) (if Nat.eqb i j then l else swap l i j)
  end.

Lemma shuffle_with_perm {A} js : forall i (l : list A), Permutation (shuffle_with js i l) l.
Proof.
  induction js as [|j t IH]; intros i l; cbn [shuffle_with]; [reflexivity|].
  eapply perm_trans; [apply IH|]. destruct (Nat.eqb i j); [reflexivity|apply swap_perm].
Qed.

(* shuffle is shuffle_with on the draws it makes: draw number k (for position i = k + 1)
   lies in [0, i] *)
Lemma shuffle_from_draws {A} n : forall i (l l' : list A) s s',
  shuffle_from n i l s = Done l' s' ->
  exists js, length js = n /\ l' = shuffle_with js i l /\ forall k j, nth_error js k = Some j -> (j <= i + k)%nat.
Proof.
  induction n as [|n IH]; intros i l l' s s' H; cbn [shuffle_from] in H.
  - inversion H; subst. exists []. split; [reflexivity|]. split; [reflexivity|]. intros [|k] j Hk; discriminate.
  - unfold bindR in H. destruct (randint 0 (Z.of_nat i) s) as [j s1| |] eqn:R; try discriminate.
    apply randint_range in R.
    apply IH in H. destruct H as (js & Hlen & -> & Hb).
    exists (Z.to_nat j :: js). split; [cbn [length]; congruence|]. split; [reflexivity|].
    intros [|k] j' Hk; cbn [nth_error] in Hk.
    + inversion Hk; subst. lia.
    + apply Hb in Hk. lia.
Qed.

Lemma shuffle_draws {A} (l l' : list A) s s' :
  shuffle l s = Done l' s' ->
  exists js, length js = (length l - 1)%nat /\ l' = shuffle_with js 1 l /\ forall k j, nth_error js k = Some j -> (j <= S k)%nat.
Proof. unfold shuffle. intros H. apply shuffle_from_draws in H. exact H. Qed.

Lemma shuffle_perm {A} (l l' : list A) s s' : shuffle l s = Done l' s' -> Permutation l l'.
Proof.
  intros H. apply shuffle_draws in H. destruct H as (js & _ & -> & _).
  apply Permutation_sym, shuffle_with_perm.
Qed.

Lemma shuffle_incl {A} (l l' : list A) s s' :
  shuffle l s = Done l' s' -> (forall x, In x l' -> In x l) /\ length l' = length l.
Proof.
  intros H. apply shuffle_perm in H. split.
  - intros x Hx. eapply Permutation_in; [apply Permutation_sym; exact H|exact Hx].
  - symmetry. apply Permutation_length; exact H.
Qed.
