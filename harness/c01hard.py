"""C01, second generation of inputs (HARDEN_BRIEF classes 1, 2, 3, 6 + z3 answering "unknown").

A *case* is a surface program (c01gen terms) plus the way it is handed to cspuz:

  hf   container form of every helper call (count_true / fold_and / fold_or / alldifferent):
       list, star, tuple, gen, iter, map, zip, nested-gen, gen-of-lists, revrev
  ef   container form of the Solver.ensure call (same names, plus two-args)
  bf   how the backend is named in find_answer: str, class, default (config.default_backend), pos
  decl how variables are declared: single (bool_var / int_var) or array (bool_array / int_array)
  env  the process-wide settings in force during find_answer:
         {"config": {attr: value}, "z3": {"rlimit": n} | {"timeout": ms}}
       (cspuz.config attributes, and z3's own global parameters which a user of the z3
       backend can set with z3.set_param)
  every int literal / bound is created at run time (int(str(v))), so none of them is one of
  CPython's cached small-int objects by construction of the harness.

The meaning of the program never depends on these; a different verdict or a sol that is not a
model is a violation of C01.  When a time / resource limit is in force an exception is accepted
(z3 may give up), a wrong verdict is not.
"""
import contextlib
import hashlib
import warnings

import c01gen as G
import vlib

FORMS = ["list", "star", "tuple", "gen", "iter", "map", "zip", "nested-gen", "gen-of-lists", "revrev"]
HFORMS = FORMS + ["array"]          # array: BoolArray1D / IntArray1D around the operands
EFORMS = FORMS + ["two-args"]
BFORMS = ["str", "class", "default", "pos"]

BIG_LITS = [257, -6, 300, -129, 1000, -1000, 4096, 65536, 2 ** 31, 2 ** 40 + 1, -2 ** 33]
DOMAINS_BIG = [(256, 258), (-7, -5), (300, 301), (-1000, -999), (4095, 4097), (2 ** 40, 2 ** 40 + 1),
               (-2 ** 33, -2 ** 33 + 1), (257, 257), (-6, -6), (255, 257)]


def fresh(v):
    """an int object created at run time (never the cached small-int / code-constant object)."""
    if isinstance(v, bool) or not isinstance(v, int):
        return v
    return int(str(v))


def md5(s):
    return hashlib.md5(s.encode()).hexdigest()[:10]


# ----------------------------------------------------------------- containers

def wrap(form, xs):
    """the operand list xs in the given container form; every form materialises to xs in
    order.  -> tuple of positional arguments."""
    xs = list(xs)
    if form == "list":
        return (xs,)
    if form == "star":
        return tuple(xs)
    if form == "tuple":
        return (tuple(xs),)
    if form == "gen":
        return ((x for x in xs),)
    if form == "iter":
        return (iter(xs),)
    if form == "map":
        return (map(lambda x: x, xs),)
    if form == "zip":
        return ((a for a, _ in zip(xs, range(len(xs)))),)
    if form == "nested-gen":
        k = len(xs) // 2
        return ([xs[:k], (x for x in xs[k:])],)
    if form == "gen-of-lists":
        return (([x] for x in xs),)
    if form == "revrev":
        return (reversed(xs[::-1]),)
    if form == "two-args":
        k = (len(xs) + 1) // 2
        return (xs[:k], iter(xs[k:]))
    raise ValueError(form)


def build2(t, variables, hf="list"):
    """c01gen.build with run-time ints and the helper calls in container form hf."""
    from cspuz import constraints as C
    from cspuz.expr import BoolExpr, Expr, IntExpr, Op
    k = t[0]
    if k == "L":
        return fresh(t[1])
    if k in ("BV", "IV"):
        return variables[t[1]]
    if k == "node":
        _, cls, op, args = t
        return (BoolExpr if cls == "B" else IntExpr)(Op[op], [build2(x, variables, hf) for x in args])
    if k in ("count_true", "fold_and", "fold_or", "alldiff"):
        xs = [build2(x, variables, hf) for x in t[1]]
        f = {"count_true": C.count_true, "fold_and": C.fold_and, "fold_or": C.fold_or, "alldiff": C.alldifferent}[k]
        if hf == "array":
            from cspuz.array import BoolArray1D, IntArray1D
            return f((IntArray1D if k == "alldiff" else BoolArray1D)(xs))
        return f(*wrap(hf, xs))
    xs = [build2(x, variables, hf) for x in t[1:]]
    any_expr = any(isinstance(x, Expr) for x in xs)
    if k == "neg":
        return -xs[0] if any_expr else IntExpr(Op.NEG, xs)
    if k == "add":
        return xs[0] + xs[1] if any_expr else IntExpr(Op.ADD, xs)
    if k == "sub":
        return xs[0] - xs[1] if any_expr else IntExpr(Op.SUB, xs)
    if k in G.INT_CMP:
        if not any_expr:
            return BoolExpr(Op[k.upper()], xs)
        a, b = xs
        return {"eq": lambda: a == b, "ne": lambda: a != b, "le": lambda: a <= b, "lt": lambda: a < b,
                "ge": lambda: a >= b, "gt": lambda: a > b}[k]()
    if k == "not":
        return ~xs[0] if any_expr else BoolExpr(Op.NOT, xs)
    if k == "and":
        return xs[0] & xs[1] if any_expr else BoolExpr(Op.AND, xs)
    if k == "or":
        return xs[0] | xs[1] if any_expr else BoolExpr(Op.OR, xs)
    if k == "iff":
        return (xs[0] == xs[1]) if any_expr else BoolExpr(Op.IFF, xs)
    if k == "xor":
        return (xs[0] != xs[1]) if any_expr else BoolExpr(Op.XOR, xs)
    if k == "xor2":
        return (xs[0] ^ xs[1]) if any_expr else BoolExpr(Op.XOR, xs)
    if k == "then":
        return xs[0].then(xs[1]) if isinstance(xs[0], Expr) else C.then(xs[0], xs[1])
    if k == "cond":
        return xs[0].cond(xs[1], xs[2]) if isinstance(xs[0], Expr) else C.cond(xs[0], xs[1], xs[2])
    raise ValueError("build2: " + repr(t))


def declare2(solver, decls, how="single"):
    """declare the variables; with how == "array", maximal runs of equal declarations go
    through bool_array / int_array (1-D or 2-D shape), which must allocate the same ids."""
    if how != "array":
        return [solver.bool_var() if d == "b" else solver.int_var(fresh(d[1]), fresh(d[2])) for d in decls]
    vs, i = [], 0
    while i < len(decls):
        j = i
        while j < len(decls) and decls[j] == decls[i]:
            j += 1
        n, d = j - i, decls[i]
        shape = n if n % 2 else (fresh(2), n // 2)
        if d == "b":
            arr = solver.bool_array(shape)
        elif d[1] <= d[2]:
            arr = solver.int_array(shape, fresh(d[1]), fresh(d[2]))
        else:
            arr = [solver.int_var(fresh(d[1]), fresh(d[2])) for _ in range(n)]     # int_array rejects lo > hi
        vs += list(arr)
        i = j
    return vs


# ----------------------------------------------------------------- generators

class Gen2(G.Gen):
    """c01gen.Gen with literals outside the small-int cache and near the declared bounds."""

    def __init__(self, rng, decls, big_p=0.35, **kw):
        G.Gen.__init__(self, rng, decls, **kw)
        self.big_p = big_p
        near = set()
        for d in decls:
            if d != "b":
                near |= {d[1] - 1, d[1], d[2], d[2] + 1, d[1] + d[2], -d[1]}
        self.near = sorted(near)

    def lit_int(self):
        r = self.rng
        if r.random() < self.big_p:
            # equal values must be frequent (each occurrence becomes its own int object at build
            # time): reuse the previous big literal about every third time
            last = getattr(self, "_last_big", None)
            if last is not None and r.random() < 0.35:
                return ("L", last)
            if self.near and r.random() < 0.6:
                v = r.choice(self.near)
            else:
                v = r.choice(BIG_LITS)
            self._last_big = v
            return ("L", v)
        return G.Gen.lit_int(self)

    def nary_int_list(self, d, lo=0):
        r = self.rng
        if r.random() < 0.08:
            # constant-only operand lists over a two-value pool: duplicates and distinct lists alike
            pool = [self.lit_int()[1], self.lit_int()[1]]
            self.count("forced:const-pool")
            return [("L", r.choice(pool)) for _ in range(r.randint(max(lo, 1), 3))]
        return G.Gen.nary_int_list(self, d, lo)


def gen_decls2(rng, nmax=4, big_p=0.45):
    n = rng.randint(1, nmax)
    ds = []
    for _ in range(n):
        if rng.random() < 0.4:
            ds.append("b")
        elif rng.random() < big_p:
            ds.append(("i",) + rng.choice(DOMAINS_BIG))
        else:
            ds.append(("i",) + rng.choice(G.DOMAINS_SMALL))
    if rng.random() < 0.3 and ds:
        ds = ds + [ds[-1]] * rng.randint(1, 2)          # runs of equal declarations (array form)
    return ds


def gen_case(ctx, rng, maxenv=300, depth=(1, 4), ncons=(1, 3)):
    while True:
        decls = gen_decls2(rng)
        if 0 < G.n_envs(decls) <= maxenv:
            break
    g = Gen2(rng, decls, count=ctx.count)
    cons = [g.gbool(rng.randint(*depth)) for _ in range(rng.randint(*ncons))]
    case = {"decls": decls, "cons": cons, "hf": rng.choice(HFORMS), "ef": rng.choice(EFORMS),
            "bf": rng.choice(BFORMS), "decl": rng.choice(["single", "array"]), "env": {}}
    for k in ("hf", "ef", "bf", "decl"):
        ctx.count("%s:%s" % (k, case[k]))
    return case


# ----------------------------------------------------------------- environment

CONFIG_POOL = {
    "solver_timeout": [1e-9, 1e-6, 0.0001, 0.001, 0.0015, 0.01, 1, 2.5, 600.0, 1800],
    "use_graph_primitive": [True],
    "use_graph_division_primitive": [True],
    "backend_path": ["/nonexistent/sugar", ""],
}


def gen_env(rng, limits_p=0.7):
    """a random non-default setting of the options that are in force while the z3 backend runs."""
    cfg = {}
    if rng.random() < limits_p:
        cfg["solver_timeout"] = rng.choice(CONFIG_POOL["solver_timeout"])
    for k in ("use_graph_primitive", "use_graph_division_primitive", "backend_path"):
        if rng.random() < 0.25:
            cfg[k] = rng.choice(CONFIG_POOL[k])
    if rng.random() < 0.2:
        cfg["default_backend"] = rng.choice(["sugar", "sugar_extended", "z3"])
    return {"config": cfg}


def env_has_limit(env):
    if not env:
        return False
    c = env.get("config", {})
    return bool(env.get("z3")) or c.get("solver_timeout") is not None


def env_tok(env):
    if not env:
        return "{}"
    return repr({k: sorted(v.items()) for k, v in sorted(env.items()) if v})


@contextlib.contextmanager
def applied(env, bf="str"):
    """set cspuz.config attributes / z3 global parameters for the duration of a solve and put
    everything back afterwards (also on an exception)."""
    from cspuz import config
    import z3
    env = env or {}
    saved = {}
    cfg = dict(env.get("config", {}))
    if bf == "default":
        cfg["default_backend"] = "z3"
    try:
        for k, v in cfg.items():
            saved[k] = getattr(config, k, None)
            setattr(config, k, v)
        for k, v in env.get("z3", {}).items():
            z3.set_param(k, v)
        yield
    finally:
        for k, v in saved.items():
            setattr(config, k, v)
        for k in env.get("z3", {}):
            z3.set_param(k, 0 if k == "rlimit" else 4294967295)


def find(solver, bf="str", env=None):
    """Solver.find_answer with the backend named in form bf, under env."""
    from cspuz.backend.z3 import Z3Backend
    with applied(env, bf), warnings.catch_warnings():
        warnings.simplefilter("ignore")
        if bf == "class":
            f = lambda: solver.find_answer(backend=Z3Backend)      # noqa
        elif bf == "default":
            f = lambda: solver.find_answer()                       # noqa
        elif bf == "pos":
            f = lambda: solver.find_answer("z3")                   # noqa
        else:
            f = lambda: solver.find_answer(backend="z3")           # noqa
        return vlib.guarded(f)


# ----------------------------------------------------------------- running a case

KNOWN_ERR = {"IndexError", "KeyError", "AssertionError", "TypeError", "ValueError", "RecursionError",
             "NotImplementedError", "Other"}


def norm_err(name):
    return name if name in KNOWN_ERR else "Other"


def run_case(case):
    """-> (outcome, sols, trees, solver); outcome ("ok", bool) | ("err", name)"""
    from cspuz import Solver
    decls, cons = case["decls"], case["cons"]
    s = Solver()
    try:
        vs = declare2(s, decls, case.get("decl", "single"))
        built = [build2(c, vs, case.get("hf", "list")) for c in cons]
        s.ensure(*wrap(case.get("ef", "list"), built))
    except Exception as ex:      # noqa
        return ("err", norm_err(vlib.err_name(ex))), [None] * len(decls), list(s.constraints), s
    r = find(s, case.get("bf", "str"), case.get("env"))
    if r[0] == "err":
        r = ("err", norm_err(r[1]))
    return r, [v.sol for v in vs], list(s.constraints), s


def sol_problem(decls, cons, sols):
    for d, v in zip(decls, sols):
        if d == "b":
            if not isinstance(v, bool):
                return "sol of a BoolVar is %r" % (v,)
        else:
            if isinstance(v, bool) or not isinstance(v, int):
                return "sol of an IntVar is %r" % (v,)
            if not (d[1] <= v <= d[2]):
                return "sol %r outside [%d, %d]" % (v, d[1], d[2])
    for c in cons:
        if not bool(G.seval(c, sols)):
            return "constraint %s is false under sol %r" % (G.show_surface(c), sols)
    return None


def judge(case, r, sols, expected_sat):
    """None | (category, text): does this outcome violate C01 for the case?"""
    decls, cons = case["decls"], case["cons"]
    if r[0] == "err":
        if env_has_limit(case.get("env")):
            return None                      # z3 gave up under a limit: an error is not a verdict
        return "raises-" + r[1], "find_answer raises %s, but the program is %s" % (
            r[1], "satisfiable" if expected_sat else "unsatisfiable")
    if r[1] != expected_sat:
        return ("false-sat" if r[1] else "false-unsat"), "find_answer -> %s, but the program is %s" % (
            r[1], "satisfiable" if expected_sat else "unsatisfiable")
    if r[1]:
        p = sol_problem(decls, cons, sols)
        if p:
            return "sol", "find_answer -> True but " + p
    return None


def expected_sat(case):
    if "planted" in case:
        return case["planted"] is not None
    return bool(G.models(case["decls"], case["cons"]))


def case_fails(case):
    r, sols, _, _ = run_case(case)
    return judge(case, r, sols, expected_sat(case))


def case_label(case):
    return "hf=%s ef=%s bf=%s decl=%s env=%s" % (case.get("hf", "list"), case.get("ef", "list"), case.get("bf", "str"),
                                                 case.get("decl", "single"), env_tok(case.get("env")))


def simplify_policy(case, cat):
    """drop every non-default delivery choice that the failure does not need."""
    def still(c):
        x = case_fails(c)
        return x is not None and x[0] == cat
    cur = dict(case)
    for k, dflt in (("hf", "list"), ("ef", "list"), ("bf", "str"), ("decl", "single")):
        if cur.get(k, dflt) != dflt:
            c2 = dict(cur)
            c2[k] = dflt
            if still(c2):
                cur = c2
    env = cur.get("env") or {}
    for part in ("config", "z3"):
        for k in list(env.get(part, {})):
            e2 = {p: dict(v) for p, v in env.items()}
            del e2[part][k]
            c2 = dict(cur)
            c2["env"] = e2
            if still(c2):
                cur, env = c2, e2
    return cur


def case_fails_retry(case, n=4):
    """limits measured in wall-clock time make an outcome depend on timing: try a few times."""
    for _ in range(n if env_has_limit(case.get("env")) else 1):
        x = case_fails(case)
        if x is not None:
            return x
    return None


def report_case(ctx, case, what, observed=None, shrink_budget=120):
    """minimise (delivery choices, then the program) and record the violation; `observed` is the
    (outcome, sols) seen in the stream, reported as such when a re-run does not show it again."""
    first = case_fails_retry(case)
    cat = first[0] if first else None
    if first is not None:
        case = simplify_policy(case, cat)
        if "planted" not in case:
            def same(d, c):
                c2 = dict(case)
                c2["decls"], c2["cons"] = d, c
                x = case_fails(c2)
                return x is not None and x[0] == cat
            small = G.shrink(case["decls"], case["cons"], same, budget=shrink_budget)
            case = dict(case)
            case["cons"] = small
    now = case_fails_retry(case) if first is not None else None
    if now is not None or observed is None:
        r, sols, trees, _ = run_case(case)
        if now is not None and judge(case, r, sols, expected_sat(case)) is None:
            for _ in range(6):                      # show an outcome that exhibits it
                r, sols, trees, _ = run_case(case)
                if judge(case, r, sols, expected_sat(case)) is not None:
                    break
    else:
        r, sols = observed
        trees = run_case(case)[2]
        j = judge(case, r, sols, expected_sat(case))
        what = (j[1] if j else what) + " (seen once in the stream; not shown again by re-runs: timing-dependent)"
    st = G.state_tok(case["decls"], [False] * len(case["decls"]), trees)
    n_models = None if "planted" in case else len(G.models(case["decls"], case["cons"]))
    ctx.violation("fx-" + md5(st + case_label(case)), now[1] if now else what,
                  {"decls": [list(d) if d != "b" else "b" for d in case["decls"]],
                   "program": [G.show_surface(c) for c in case["cons"]][:40], "surface": repr(case["cons"]),
                   "delivery": case_label(case),
                   "case": {k: case.get(k) for k in ("hf", "ef", "bf", "decl", "env")},
                   "planted": list(case["planted"]) if case.get("planted") is not None else None,
                   "has_planted": "planted" in case, "name": case.get("name"),
                   "state": st[:4000], "find_answer": list(r), "sol": sols, "category": cat, "n_models": n_models,
                   "reproduced_on_rerun": now is not None})


def replay_case(v):
    decls = [d if d == "b" else tuple(d) for d in v["decls"]]
    case = dict(v["case"])
    case["decls"], case["cons"] = decls, eval(v["surface"], {})     # written by this harness
    if v.get("has_planted"):
        case["planted"] = v["planted"]
    return case_fails_retry(case, 8)


# ----------------------------------------------------------------- larger instances with a known answer

def latin(n):
    """n x n Latin square, first row fixed (satisfiable: the cyclic square)."""
    decls = [("i", 1, n)] * (n * n)
    cons = []
    for i in range(n):
        cons.append(("alldiff", [("IV", i * n + j) for j in range(n)]))
        cons.append(("alldiff", [("IV", j * n + i) for j in range(n)]))
    for j in range(n):
        cons.append(("eq", ("IV", j), ("L", j + 1)))
    planted = [(i + j) % n + 1 for i in range(n) for j in range(n)]
    return {"name": "latin%d" % n, "decls": decls, "cons": cons, "planted": planted}


def magic3():
    decls = [("i", 1, 9)] * 9
    lines = [(0, 1, 2), (3, 4, 5), (6, 7, 8), (0, 3, 6), (1, 4, 7), (2, 5, 8), (0, 4, 8), (2, 4, 6)]
    cons = [("alldiff", [("IV", i) for i in range(9)])]
    for a, b, c in lines:
        cons.append(("eq", ("add", ("add", ("IV", a), ("IV", b)), ("IV", c)), ("L", 15)))
    return {"name": "magic3", "decls": decls, "cons": cons, "planted": [2, 7, 6, 9, 5, 1, 4, 3, 8]}


def pigeons(n):
    """n + 1 pairwise different values out of n: unsatisfiable."""
    decls = [("i", 1, n)] * (n + 1)
    cons = [("ne", ("IV", i), ("IV", j)) for i in range(n + 1) for j in range(i)]
    return {"name": "pigeons%d" % n, "decls": decls, "cons": cons, "planted": None}


def planted_random(rng, nb=14, ni=10, ncons=45):
    """a random program over many variables, every constraint true under a planted assignment
    (a constraint false under it is negated)."""
    decls = ["b"] * nb + [("i",) + rng.choice([(0, 9), (-5, 5), (300, 320), (1, 4)]) for _ in range(ni)]
    env = [rng.random() < 0.5 if d == "b" else rng.randint(d[1], d[2]) for d in decls]
    g = Gen2(rng, decls, big_p=0.2, lit_p=0.12)
    cons = []
    for _ in range(ncons):
        c = g.gbool(rng.randint(2, 4))
        cons.append(c if G.seval(c, env) else ("not", c))
    return {"name": "planted%d" % ncons, "decls": decls, "cons": cons, "planted": env}


def chain_sum(n):
    """x0 < x1 < ... < x(n-1) within 1..n, sum fixed: exactly the identity."""
    decls = [("i", 1, n)] * n
    cons = [("lt", ("IV", i), ("IV", i + 1)) for i in range(n - 1)]
    cons.append(("eq", ("node", "I", "ADD", [("IV", i) for i in range(n)]), ("L", n * (n + 1) // 2)))
    return {"name": "chain%d" % n, "decls": decls, "cons": cons, "planted": list(range(1, n + 1))}


def hard_instances(rng, thorough):
    out = [latin(5), latin(6), latin(7), magic3(), pigeons(5), chain_sum(12), planted_random(rng), planted_random(rng, 20, 14, 80)]
    if thorough:
        out += [latin(8), latin(9), pigeons(7), chain_sum(30), planted_random(rng, 30, 20, 150)]
    return out


LIMIT_ENVS = [
    {},
    {"config": {"solver_timeout": 0.001}},
    {"config": {"solver_timeout": 0.0001}},
    {"config": {"solver_timeout": 2}},
    {"z3": {"rlimit": 1000}},
    {"z3": {"timeout": 1}},
]


# ----------------------------------------------------------------- sessions with histories

ERRNO = {"IndexError": 1, "KeyError": 2, "AssertionError": 3, "TypeError": 4, "ValueError": 5,
         "RecursionError": 6, "NotImplementedError": 7, "Other": 8}


def gen_script(ctx, rng, max_envs=200):
    """a data description of an incremental session: declarations (single / array), ensure calls
    in container forms (some with an ill-typed element), find_answer calls (backend naming
    forms, some issued twice in a row), and mutations of a list that was passed to ensure."""
    decls, ops = [], []
    n_ops = rng.randint(4, 11)
    for k in range(n_ops + 1):
        x = rng.random()
        if k == 0 or x < 0.22:
            while True:
                d = "b" if rng.random() < 0.45 else ("i",) + rng.choice(G.DOMAINS_SMALL + DOMAINS_BIG)
                n = rng.choice([1, 1, 1, 2, 3])
                if 0 < G.n_envs(decls + [d] * n) <= max_envs:
                    break
            how = rng.choice(["single", "array"])
            decls += [d] * n
            ops.append({"op": "decl", "d": d, "n": n, "how": how})
        elif x < 0.60 and k < n_ops:
            g = Gen2(rng, decls, count=ctx.count)
            ts = [g.gbool(rng.randint(0, 3)) for _ in range(rng.randint(0, 3))]
            bad = None
            if rng.random() < 0.08:
                bad = (rng.randint(0, len(ts)), g.gint(1))
            o = {"op": "ensure", "ts": ts, "hf": rng.choice(HFORMS), "ef": rng.choice(EFORMS), "bad": bad}
            ctx.count("sess-ef:" + o["ef"])
            ops.append(o)
            if rng.random() < 0.3:
                ops.append({"op": "mutate", "how": rng.choice(["append-false", "clear", "set0-false"])})
        else:
            ops.append({"op": "find", "bf": rng.choice(BFORMS), "twice": rng.random() < 0.3})
    if ops[-1]["op"] != "find":
        ops.append({"op": "find", "bf": "str", "twice": False})
    return ops


class RealSess:
    """executes a script on a real Solver, one op per step() (so several can be interleaved)."""

    def __init__(self, ops):
        from cspuz import Solver
        self.ops, self.k = ops, 0
        self.s = Solver()
        self.decls, self.vs, self.cons = [], [], []
        self.toks, self.outs, self.finds, self.side = [], [], [], []
        self.last_list = None

    def done(self):
        return self.k >= len(self.ops)

    def frame(self):
        s = self.s
        return ([id(c) for c in s.constraints], len(s.variables), list(s.is_answer_key),
                [(type(v).__name__, v.id, getattr(v, "lo", None), getattr(v, "hi", None)) for v in s.variables])

    def step(self):
        import exprio
        o = self.ops[self.k]
        self.k += 1
        s = self.s
        if o["op"] == "decl":
            d, n = o["d"], o["n"]
            new = declare2(s, [d] * n, o["how"])
            self.vs += new
            self.decls += [d] * n
            for _ in range(n):
                self.toks.append("b" if d == "b" else "i %d %d" % (d[1], d[2]))
                self.outs.append("-")
        elif o["op"] == "ensure":
            built = [build2(t, self.vs, o["hf"]) for t in o["ts"]]
            p = None
            if o["bad"] is not None:
                p = o["bad"][0]
                built.insert(p, build2(o["bad"][1], self.vs, o["hf"]))
            args = wrap(o["ef"], built)
            before = [(a, list(a)) for a in args if isinstance(a, (list, tuple))] if o["ef"] != "star" else []
            r = vlib.guarded(lambda: s.ensure(*args))
            for a, snap in before:
                same = len(a) == len(snap) and all(x is y for x, y in zip(a, snap))
                self.side.append(("ensure-leaves-argument", o["ef"], "unchanged", "unchanged" if same else "changed"))
            self.last_list = args[0] if (o["ef"] in ("list", "two-args", "nested-gen") and r[0] == "ok") else None
            self.toks.append("e " + exprio.show_list(built))
            if r[0] == "err":
                self.outs.append("E %d" % ERRNO[norm_err(r[1])])
                self.cons += o["ts"][:p] if p is not None else []
            else:
                self.outs.append("-")
                self.cons += o["ts"]
        elif o["op"] == "mutate":
            l = self.last_list
            if isinstance(l, list):
                # the caller goes on using its own list: the Solver must have taken the elements, not the list
                if o["how"] == "append-false":
                    l.append(False)
                elif o["how"] == "clear":
                    del l[:]
                elif l:
                    l[0] = False
        else:
            for rep in range(2 if o["twice"] else 1):
                f0 = self.frame()
                r = find(s, o["bf"])
                if r[0] == "err":
                    r = ("err", norm_err(r[1]))
                f1 = self.frame()
                self.side.append(("find-leaves-program", o["bf"], "unchanged", "unchanged" if f0 == f1 else "changed"))
                self.toks.append("f")
                self.outs.append(("S" if r[1] else "U") if r[0] == "ok" else "E %d" % ERRNO[r[1]])
                self.finds.append({"decls": list(self.decls), "cons": list(self.cons), "result": r,
                                   "sols": [v.sol for v in self.vs], "step": self.k - 1, "rep": rep})

    def result(self):
        import exprio
        return {"ops_tok": " ".join(self.toks), "outs": self.outs, "final": exprio.show_state(self.s),
                "finds": self.finds, "side": self.side, "script": self.ops}


def run_interleaved(rng, scripts):
    ss = [RealSess(sc) for sc in scripts]
    order = []
    while any(not x.done() for x in ss):
        i = rng.choice([j for j, x in enumerate(ss) if not x.done()])
        order.append(i)
        ss[i].step()
    return [x.result() for x in ss], order


def replay_scripts(scripts, order):
    ss = [RealSess(sc) for sc in scripts]
    for i in order:
        ss[i].step()
    return [x.result() for x in ss]


def session_problems(run):
    """[(step, category, text)] for every find of a session run that violates C01."""
    out = []
    for f in run["finds"]:
        case = {"decls": f["decls"], "cons": f["cons"]}
        j = judge(case, f["result"], f["sols"], bool(G.models(f["decls"], f["cons"])))
        if j:
            out.append((f["step"], j[0], j[1]))
    return out


def minimise_session(scripts, order, index, budget=60):
    """the failing session alone if that still fails, then with every op dropped that the
    failure does not need.  -> (scripts, order, index)"""
    def fails(scs, od, ix):
        try:
            return bool(session_problems(replay_scripts(scs, od)[ix]))
        except Exception:        # noqa  (a dropped declaration leaves dangling variable numbers)
            return False
    ops = scripts[index]
    if fails([ops], [0] * len(ops), 0):
        scripts, order, index = [ops], [0] * len(ops), 0
    else:
        return scripts, order, index
    used = 0
    progress = True
    while progress and used < budget:
        progress = False
        for i in range(len(ops) - 1, -1, -1):
            if ops[i]["op"] == "decl":
                continue
            cand = ops[:i] + ops[i + 1:]
            used += 1
            if cand and fails([cand], [0] * len(cand), 0):
                ops, progress = cand, True
                break
    return [ops], [0] * len(ops), 0


def show_script(ops):
    out = []
    for o in ops:
        if o["op"] == "decl":
            out.append("declare %d x %s (%s)" % (o["n"], "bool" if o["d"] == "b" else "int[%d,%d]" % (o["d"][1], o["d"][2]), o["how"]))
        elif o["op"] == "ensure":
            out.append("ensure<%s, helpers:%s>(%s)%s" % (o["ef"], o["hf"], ", ".join(G.show_surface(t) for t in o["ts"]),
                                                       "" if o["bad"] is None else " + ill-typed %s at %d" % (G.show_surface(o["bad"][1]), o["bad"][0])))
        elif o["op"] == "mutate":
            out.append("caller mutates the list it passed to ensure: " + o["how"])
        else:
            out.append("find_answer<%s>%s" % (o["bf"], " twice" if o["twice"] else ""))
    return out
