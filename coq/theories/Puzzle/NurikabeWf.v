(* C11: the program of solve_nurikabe is well formed on every board; composition with C02 (solve_reports). *)
From Coq Require Import ZArith List Bool Arith Lia.
From Cspuz Require Import Lib.PyErr Core.Expr Core.Program Graph.GraphModel Graph.CycleLemmas Graph.Division
     Backend.Z3 Backend.Z3Oracle Backend.Z3SolveProofs Backend.SolveLoop Backend.SolveZ3Proofs
     Puzzle.PuzzleBase Puzzle.ModelBase Puzzle.ModelLemmas Puzzle.SatAbs Puzzle.SolveCompose Puzzle.WfLemmas
     Puzzle.DivisionCompose Puzzle.Rules_nurikabe Puzzle.Nurikabe Puzzle.NurikabeProofs.
Import ListNotations.
Local Open Scope nat_scope.

Section N.
  Variables (h w K E : nat).
  Hypothesis Hn : 1 <= h * w.
  Let n := h * w.
  (* division grid, rank, is_root, spanning_forest, is_white *)
  Definition nk_vars : list vdecl :=
    repeat (DInt 0 (Z.of_nat K)) n ++
    (repeat (DInt 0 (Z.of_nat n - 1)) n ++ repeat DBool n ++ repeat DBool E) ++ repeat DBool n.
  Let vs := nk_vars.
  Let base := n + (n + n + E).

  Lemma ok_nk_div y x : y < h -> x < w -> ok vs false (nk_div K w (y, x)) = true.
  Proof.
    intros Hy Hx. unfold nk_div, vs, nk_vars. apply (ok_ivar_block []). simpl. split; [lia|].
    apply (cidx_lt h w); assumption.
  Qed.
  Lemma ok_nk_ivar v : v < n -> ok vs false (IVar v 0 (Z.of_nat K)) = true.
  Proof. intros H. unfold vs, nk_vars. apply (ok_ivar_block []). simpl. lia. Qed.
  Lemma ok_nk_white y x : y < h -> x < w -> ok vs true (nk_white base w (y, x)) = true.
  Proof.
    intros Hy Hx. unfold nk_white, vs, nk_vars. rewrite app_assoc. rewrite <- (app_nil_r (repeat DBool n)) at 2.
    apply ok_bvar_block. rewrite !app_length, !repeat_length. pose proof (cidx_lt h w y x Hy Hx). unfold base. fold n in H |- *. lia.
  Qed.

  Lemma nk_constraints_ok grid cl : length cl = K -> forallb (ok vs true) (nk_constraints h w grid cl base) = true.
  Proof.
    intros HK. unfold nk_constraints. cbv zeta. rewrite HK.
    rewrite !forallb_app, !forallb_map, forallb_flat_map.
    repeat (apply andb_true_intro; split).
    - apply forallb_cells. intros y x Hy Hx. autorewrite with okdb. rewrite ok_nk_white, ok_nk_div by assumption. reflexivity.
    - apply forallb_cells. intros y x Hy Hx. autorewrite with okdb. rewrite !ok_nk_white, !ok_nk_div by lia. reflexivity.
    - apply forallb_cells. intros y x Hy Hx. autorewrite with okdb. rewrite !ok_nk_white, !ok_nk_div by lia. reflexivity.
    - apply forallb_cells. intros y x Hy Hx. autorewrite with okdb. rewrite !ok_nk_white by lia. reflexivity.
    - apply forallb_In. intros [i [y x]] _. destruct (0 <? _)%Z; [|reflexivity]. autorewrite with okdb.
      unfold nk_class_size. fold n.
      assert (Hne : seq 0 n <> []) by (intros Hs; apply (f_equal (@length nat)) in Hs; rewrite seq_length in Hs; simpl in Hs; unfold n in Hs; lia).
      rewrite ok_add_map by exact Hne. apply forallb_seq. intros v Hv.
      autorewrite with okdb. apply ok_nk_ivar. lia.
  Qed.
End N.

Lemma nurikabe_model_wf pb st : solve_nurikabe_model pb = Ok st -> wf_state st /\ wf_keys st.
Proof.
  unfold solve_nurikabe_model. cbv zeta. set (h := dim pb 0). set (w := dim pb 1). set (grid := sec pb 1).
  destruct (Nat.ltb _ _); [discriminate|].
  set (cl := nk_clue_cells h w grid). set (K := length cl).
  unfold int_array. destruct (Z.of_nat K <? 0)%Z; [discriminate|]. rewrite int_vars_spec.
  cbn [vars keys Program.cons empty_state app]. unfold next_id at 1. cbn [vars empty_state length].
  set (st0 := {| vars := repeat (DInt 0 (Z.of_nat K)) (h * w); keys := repeat false (h * w); cons := [] |}).
  destruct (division_connected st0 _ (S K) None _ true false) as [st1|] eqn:E; [|discriminate].
  intros H. inversion H; subst st; clear H.
  destruct (division_connected_grid_wf _ _ _ _ _ _ _ _ E) as [[W1 K1] [V1 Ky1]].
  { reflexivity. } { unfold wf_keys; simpl. rewrite !repeat_length. reflexivity. }
  { simpl. rewrite forallb_map. apply forallb_seq. intros i Hi. apply ok_ivar_repeat. lia. }
  cbn [vars keys st0] in V1, Ky1.
  split.
  - unfold wf_state. cbn [vars Program.cons]. apply wf_cons_app.
    + apply wf_cons_more. exact W1.
    + assert (Ev : vars st1 ++ repeat DBool (h * w) = nk_vars h w K (length (grid_edges h w))).
      { rewrite V1. unfold nk_vars. rewrite <- !app_assoc. reflexivity. }
      rewrite Ev.
      assert (Eb : next_id st1 = h * w + (h * w + h * w + length (grid_edges h w))).
      { unfold next_id. rewrite V1, !app_length, !repeat_length. lia. }
      rewrite Eb. apply nk_constraints_ok; [|reflexivity].
      exact (division_connected_grid_nonempty _ _ _ _ _ _ _ _ E).
  - unfold wf_keys. cbn [vars keys]. rewrite !app_length, !repeat_length. unfold wf_keys in K1. lia.
Qed.

Theorem nurikabe_solve_reports : forall oracle, oracle_sound_on oracle -> oracle_complete_on oracle ->
  forall h w grid st,
  solve_nurikabe_model [[Z.of_nat h; Z.of_nat w]; grid] = Ok st ->
  solve_reports oracle st (key_ids st) (rules_nurikabe [[Z.of_nat h; Z.of_nat w]; grid]).
Proof.
  intros oracle Os Oc h w grid st Hst.
  apply (solve_reports_intro oracle division_gsem); try assumption.
  - exact (nurikabe_model_wf _ _ Hst).
  - intros i. apply key_ids_keys.
  - intros ans. exact (nurikabe_exact h w grid st ans Hst).
Qed.
