"""C11 plug-in: nurikabe (solve_nurikabe(height, width, problem)); 0 empty, n >= 1 number, -1 '?'."""
import c11lib as L

NAME = "nurikabe"
MODULE = "cspuz.puzzle.nurikabe"
FUNC = "solve_nurikabe"


def call(mod, pb):
    return mod.solve_nurikabe(pb["h"], pb["w"], pb["grid"])


def ncand(pb):
    return 2 ** (pb['h'] * pb['w'])


def encode(pb):
    return [[pb["h"], pb["w"]], L.flat(pb["grid"])]


def _values(h, w):
    return [0, -1] + list(range(1, min(h * w, 4) + 1))


def families(tier, rng):
    full = [(1, 1), (1, 2), (2, 1), (1, 3), (3, 1)] + ([(2, 2)] if tier == "thorough" else [])
    for (h, w) in full:
        for g in L.all_grids(h, w, _values(h, w)):
            yield {"h": h, "w": w, "grid": g}
    if tier != "thorough":
        for g in L.sample(rng, L.all_grids(2, 2, _values(2, 2)), 150):
            yield {"h": 2, "w": 2, "grid": g}
    for (h, w) in [(2, 3), (3, 2), (1, 4), (4, 1), (3, 3), (2, 4)]:
        for _ in range(60 if tier == "thorough" else 6):
            yield {"h": h, "w": w, "grid": L.random_grid(rng, h, w, _values(h, w) + [h * w - 1], 0.7)}


def classify(pb, what):
    # the wall must be non-empty in the encoding (division_connected needs a root in every group)
    return None


def tier2(tier, rng):
    for (h, w) in [(1, 1), (1, 2), (2, 1)]:
        for g in L.all_grids(h, w, _values(h, w)):
            yield {"h": h, "w": w, "grid": g}
    for g in L.sample(rng, L.all_grids(2, 2, _values(2, 2)), 40 if tier == "thorough" else 4):
        yield {"h": 2, "w": 2, "grid": g}


def big(tier, rng):
    """long single-row / single-column boards with two-digit island sizes: island, wall, island"""
    th = tier == "thorough"
    for n in (L.LONG if th else L.sample(rng, L.LONG, 4) + [25]):
        a = rng.randint(10, min(12, n - 2))
        b = rng.randint(1, max(1, n - a - 1))
        c = n - a - b
        row = [0] * n
        row[rng.randrange(0, a)] = a
        if c > 0:
            row[rng.randrange(a + b, n)] = c
        white = [1] * a + [0] * b + [1] * c
        yield {"h": 1, "w": n, "grid": [row], "planted": [white]}
        yield {"h": n, "w": 1, "grid": [[v] for v in row], "planted": [white]}
