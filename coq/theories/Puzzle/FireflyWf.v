(* C11: the program of solve_firefly is well formed on every board; composition with C02 (solve_reports) on
   boards with at least one firefly (the hypothesis of FireflyProofs.firefly_exact). *)
From Coq Require Import ZArith List Bool Arith Lia.
From Cspuz Require Import Lib.PyErr Core.Expr Core.Program Graph.GraphModel
     Backend.Z3 Backend.Z3Oracle Backend.Z3SolveProofs Backend.SolveLoop Backend.SolveZ3Proofs
     Puzzle.PuzzleBase Puzzle.ModelBase Puzzle.ModelLemmas Puzzle.SatAbs Puzzle.SolveCompose Puzzle.WfLemmas
     Puzzle.Rules_firefly Puzzle.Firefly Puzzle.FireflyGeo Puzzle.FireflyProofs.
Import ListNotations.
Local Open Scope nat_scope.

Section F.
  Variables (h w : nat) (dir num : list Z).
  Notation H := (S h).
  Notation W := (S w).
  Notation M := (ff_max_turn H W dir num).
  Notation NE := (ff_E H W).
  Let vs := repeat DBool (4 * NE) ++ repeat (DInt 0 (Z.of_nat (H * W) - 1)) (H * W) ++ repeat (DInt 0 (M + 1)) NE.

  Lemma ok_ff_bool i : i < 4 * NE -> ok vs true (BVar i) = true.
  Proof.
    intros Hi. unfold vs. rewrite ok_bvar, nth_error_app1 by (rewrite repeat_length; exact Hi).
    rewrite nth_error_repeat by exact Hi. reflexivity.
  Qed.
  Lemma ok_ff_rank v : v < H * W -> ok vs false (ff_rank H W v) = true.
  Proof.
    intros Hv. unfold vs, ff_rank, ff_rk. apply ok_ivar_block. rewrite repeat_length. lia.
  Qed.
  Lemma ok_ff_nt e : e < NE -> ok vs false (IVar (ff_nt H W e) 0 (M + 1)) = true.
  Proof.
    intros He. unfold vs, ff_nt. rewrite app_assoc. rewrite <- (app_nil_r (repeat (DInt 0 (M + 1)) NE)).
    apply ok_ivar_block. rewrite app_length, !repeat_length. lia.
  Qed.

  Lemma sid_lt y x d : y <= h -> x <= w -> In d ff_dirs -> ff_dir_ok H W y x d = true -> ff_seg_id H W y x d < NE.
  Proof. intros Hy Hx Hd K. apply (gsid_lt h w (y, x) d); [split; assumption|exact Hd|exact K]. Qed.

  Lemma ok_ff_out y x d : y <= h -> x <= w -> In d ff_dirs -> ff_dir_ok H W y x d = true ->
    ok vs true (BVar (ff_out H W y x d)) = true.
  Proof.
    intros Hy Hx Hd K. pose proof (sid_lt y x d Hy Hx Hd K) as Hlt. apply ok_ff_bool.
    unfold ff_out, ff_ul, ff_dr. destruct (ff_dirs_cases d Hd) as [->|[->|[->| ->]]]; lia.
  Qed.
  Lemma ok_ff_in y x d : y <= h -> x <= w -> In d ff_dirs -> ff_dir_ok H W y x d = true ->
    ok vs true (BVar (ff_in H W y x d)) = true.
  Proof.
    intros Hy Hx Hd K. pose proof (sid_lt y x d Hy Hx Hd K) as Hlt. apply ok_ff_bool.
    unfold ff_in, ff_ul, ff_dr. destruct (ff_dirs_cases d Hd) as [->|[->|[->| ->]]]; lia.
  Qed.
  Lemma ok_ff_turns y x d : y <= h -> x <= w -> In d ff_dirs -> ff_dir_ok H W y x d = true ->
    ok vs false (ff_turns H W M y x d) = true.
  Proof. intros Hy Hx Hd K. apply ok_ff_nt. apply sid_lt; assumption. Qed.

  Lemma ff_orient_ok : forallb (ok vs true) (ff_orient H W) = true.
  Proof.
    unfold ff_orient. rewrite !forallb_app, !forallb_map.
    apply andb_true_intro; split; [|apply andb_true_intro; split].
    - apply forallb_seq. intros e He. autorewrite with okdb.
      rewrite !ok_ff_bool by (unfold ff_ul, ff_dr; lia). reflexivity.
    - apply forallb_seq. intros e He. autorewrite with okdb.
      rewrite !ok_ff_bool by (unfold ff_ul, ff_dr; lia). reflexivity.
    - cbn [forallb]. rewrite andb_true_r, ok_eq, ok_pyint, andb_true_r. apply ok_ct_vars_lt.
      intros i Hi. apply in_map_iff in Hi. destruct Hi as [e [<- He]]. apply in_seq in He.
      apply ok_ff_bool. unfold ff_ig. lia.
  Qed.

  Lemma ff_rank1_ok o cmp e a b : cmp = LT \/ cmp = GT -> o e < 4 * NE -> e < NE -> a < H * W -> b < H * W ->
    ok vs true (ff_rank1 H W o cmp e a b) = true.
  Proof.
    intros Hc Ho He Ha Hb. unfold ff_rank1. rewrite ok_imp, ok_and. cbn [forallb]. rewrite ok_not.
    rewrite (ok_ff_bool _ Ho), (ok_ff_bool (ff_ig H W e)) by (unfold ff_ig; lia). cbn [andb].
    destruct Hc as [-> | ->]; [rewrite ok_lt|rewrite ok_gt]; rewrite !ok_ff_rank by assumption; reflexivity.
  Qed.

  Lemma ff_ranks_ok : forallb (ok vs true) (ff_ranks H W) = true.
  Proof.
    unfold ff_ranks, ff_rank_h, ff_rank_v. rewrite !forallb_app, !forallb_map.
    replace (W - 1) with w by lia. replace (H - 1) with h by lia.
    assert (Hh : forall y x, y < H -> x < w -> hseg H W y x < NE).
    { intros y x Hy Hx. apply (sid_lt y x 3); [lia|lia|simpl; auto|]. apply Nat.ltb_lt. lia. }
    assert (Hv : forall y x, y < h -> x < W -> vseg H W y x < NE).
    { intros y x Hy Hx. apply (sid_lt y x 1); [lia|lia|simpl; auto|]. apply Nat.ltb_lt. lia. }
    apply andb_true_intro; split; [|apply andb_true_intro; split; [|apply andb_true_intro; split]];
      apply forallb_cells; intros y x Hy Hx.
    - pose proof (Hh y x Hy Hx). apply ff_rank1_ok; [left; reflexivity|unfold ff_ul; lia|assumption|nia|nia].
    - pose proof (Hv y x Hy Hx). apply ff_rank1_ok; [left; reflexivity|unfold ff_ul; lia|assumption|nia|nia].
    - pose proof (Hh y x Hy Hx). apply ff_rank1_ok; [right; reflexivity|unfold ff_dr; lia|assumption|nia|nia].
    - pose proof (Hv y x Hy Hx). apply ff_rank1_ok; [right; reflexivity|unfold ff_dr; lia|assumption|nia|nia].
  Qed.

  Lemma ff_fly_ok y x d0 n : y <= h -> x <= w -> In d0 ff_dirs -> ff_dir_ok H W y x d0 = true ->
    forallb (ok vs true) (ff_fly H W M y x d0 n) = true.
  Proof.
    intros Hy Hx Hd0 K0. unfold ff_fly. rewrite forallb_app, forallb_flat_map. apply andb_true_intro. split.
    - cbn [forallb]. rewrite ok_eq, ok_pyint, (ok_ff_out y x d0), (ok_ff_turns y x d0) by assumption. reflexivity.
    - apply forallb_In. intros i Hi. change (In i ff_dirs) in Hi.
      destruct (ff_dir_ok H W y x i && negb (Nat.eqb i d0)) eqn:E; [|reflexivity].
      apply andb_true_iff in E. destruct E as [Ki _]. cbn [forallb].
      rewrite ok_not, ok_imp, ok_or. cbn [forallb]. rewrite !ok_eq, !ok_pyint.
      rewrite (ok_ff_out y x i), (ok_ff_in y x i), (ok_ff_turns y x i) by assumption. reflexivity.
  Qed.

  Lemma ff_pass_ok y x i j : y <= h -> x <= w -> In i ff_dirs -> In j ff_dirs ->
    ff_dir_ok H W y x i = true -> ff_dir_ok H W y x j = true -> ok vs true (ff_pass H W M y x i j) = true.
  Proof.
    intros Hy Hx Hi Hj Ki Kj. unfold ff_pass. destruct (Nat.eqb (i / 2) (j / 2)).
    - rewrite ok_imp, ok_and. cbn [forallb]. rewrite ok_eq.
      rewrite (ok_ff_in y x i), (ok_ff_out y x j), (ok_ff_turns y x i), (ok_ff_turns y x j) by assumption. reflexivity.
    - rewrite ok_imp, ok_and, ok_or. cbn [forallb]. rewrite ok_and. cbn [forallb]. rewrite !ok_eq, !ok_pyint, ok_add.
      cbn [forallb]. rewrite ok_pyint.
      rewrite (ok_ff_in y x i), (ok_ff_out y x j), (ok_ff_turns y x i), (ok_ff_turns y x j) by assumption. reflexivity.
  Qed.

  Lemma ff_plain_ok y x : y <= h -> x <= w -> forallb (ok vs true) (ff_plain H W M y x) = true.
  Proof.
    intros Hy Hx. unfold ff_plain. cbv zeta. rewrite forallb_app. apply andb_true_intro. split.
    - assert (Hi : ok vs false (ct_vars (map (ff_in H W y x) (filter (ff_dir_ok H W y x) [0; 1; 2; 3]))) = true).
      { apply ok_ct_vars_lt. intros k Hk. apply in_map_iff in Hk. destruct Hk as [d [<- Hd]].
        apply filter_In in Hd. destruct Hd as [Hd K]. apply ok_ff_in; assumption. }
      assert (Ho : ok vs false (ct_vars (map (ff_out H W y x) (filter (ff_dir_ok H W y x) [0; 1; 2; 3]))) = true).
      { apply ok_ct_vars_lt. intros k Hk. apply in_map_iff in Hk. destruct Hk as [d [<- Hd]].
        apply filter_In in Hd. destruct Hd as [Hd K]. apply ok_ff_out; assumption. }
      cbn [forallb]. rewrite ok_le, ok_eq, ok_pyint, Hi, Ho. reflexivity.
    - rewrite forallb_flat_map. apply forallb_In. intros i Hi. rewrite forallb_flat_map. apply forallb_In. intros j Hj.
      destruct (ff_dir_ok H W y x i && ff_dir_ok H W y x j && negb (Nat.eqb i j)) eqn:E; [|reflexivity].
      apply andb_true_iff in E. destruct E as [E _]. apply andb_true_iff in E. destruct E as [Ki Kj].
      cbn [forallb]. rewrite ff_pass_ok by assumption. reflexivity.
  Qed.

  Lemma ff_row_ok y : y <= h -> forall xs, (forall x, In x xs -> x <= w) ->
    forallb (ok vs true) (ff_row H W dir num M y xs) = true.
  Proof.
    intros Hy. induction xs as [|x r IH]; intros Hxs; [reflexivity|]. cbn [ff_row].
    assert (Hx : x <= w) by (apply Hxs; left; reflexivity).
    assert (Hr : forallb (ok vs true) (ff_row H W dir num M y r) = true) by (apply IH; intros x' Hx'; apply Hxs; right; exact Hx').
    destruct (ff_is dir W y x) eqn:Hf.
    - destruct (ff_dir_ok H W y x (ff_dot dir W y x)) eqn:K; [|reflexivity].
      rewrite forallb_app, Hr, andb_true_r. apply ff_fly_ok; try assumption. apply FireflyNet.ff_dot_in. exact Hf.
    - rewrite forallb_app, Hr, andb_true_r. apply ff_plain_ok; assumption.
  Qed.

  Lemma ff_points_ok : forallb (ok vs true) (ff_points H W dir num M) = true.
  Proof.
    unfold ff_points. rewrite forallb_flat_map. apply forallb_seq. intros y Hy. apply ff_row_ok; [lia|].
    intros x Hx. apply in_seq in Hx. lia.
  Qed.

  Lemma firefly_state_wf : wf_state (firefly_state H W dir num) /\ wf_keys (firefly_state H W dir num).
  Proof.
    split.
    - unfold wf_state. apply wf_cons_ok. unfold firefly_state. cbn [vars cons]. fold vs.
      rewrite !forallb_app, ff_orient_ok, ff_ranks_ok, ff_points_ok. reflexivity.
    - unfold wf_keys, firefly_state. cbn [vars keys]. rewrite !app_length, !repeat_length. lia.
  Qed.
End F.

Lemma firefly_model_shape pb st : solve_firefly_model pb = Ok st ->
  (wf_state st /\ wf_keys st) /\ exists r, keys st = repeat true (n_lattice_edges (dim pb 0) (dim pb 1)) ++ r.
Proof.
  unfold solve_firefly_model. cbv zeta.
  assert (D0 : dim pb 0 = Z.to_nat (getz (sec pb 0) 0)) by reflexivity.
  assert (D1 : dim pb 1 = Z.to_nat (getz (sec pb 0) 1)) by reflexivity.
  destruct (_ || _)%bool eqn:Eg; [discriminate|].
  apply orb_false_iff in Eg. destruct Eg as [G0 G1]. apply Z.leb_gt in G0, G1.
  destruct (dim pb 0) as [|h] eqn:Eh; [lia|]. destruct (dim pb 1) as [|w] eqn:Ew; [lia|].
  destruct (_ || _)%bool; [discriminate|]. intros Hst. inversion Hst; subst st. clear Hst.
  split; [apply firefly_state_wf|]. eexists. reflexivity.
Qed.

Lemma firefly_model_wf pb st : solve_firefly_model pb = Ok st -> wf_state st /\ wf_keys st.
Proof. intros Hst. exact (proj1 (firefly_model_shape pb st Hst)). Qed.

Theorem firefly_solve_reports : forall oracle, oracle_sound_on oracle -> oracle_complete_on oracle ->
  forall h w dir num st,
  firefly_present h w dir = true ->
  solve_firefly_model [[Z.of_nat h; Z.of_nat w]; dir; num] = Ok st ->
  solve_reports oracle st (seq 0 (n_lattice_edges h w)) (rules_firefly [[Z.of_nat h; Z.of_nat w]; dir; num]).
Proof.
  intros oracle Os Oc h w dir num st Hpres Hst.
  apply (solve_reports_intro oracle no_graph); try assumption.
  - exact (firefly_model_wf _ _ Hst).
  - destruct (firefly_model_shape _ _ Hst) as [_ [r Hk]]. rewrite dim2_0, dim2_1 in Hk. rewrite Hk.
    intros i. apply keys_prefix.
  - intros ans. exact (firefly_exact h w dir num st ans Hpres Hst).
Qed.
