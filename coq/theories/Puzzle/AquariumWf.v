(* C11: the program of solve_aquarium is well formed on every board; composition with C02 (solve_reports). *)
From Coq Require Import ZArith List Bool Arith Lia.
From Cspuz Require Import Lib.PyErr Core.Expr Core.Program Graph.GraphModel Backend.Z3 Backend.Z3Oracle Backend.Z3SolveProofs
     Backend.SolveLoop Backend.SolveZ3Proofs
     Puzzle.PuzzleBase Puzzle.ModelBase Puzzle.ModelLemmas Puzzle.SatAbs Puzzle.SolveCompose Puzzle.WfLemmas
     Puzzle.Rules_aquarium Puzzle.Aquarium Puzzle.AquariumProofs.
Import ListNotations.
Local Open Scope nat_scope.

Lemma clue_constraint_ok vs ids c : (forall i, In i ids -> ok vs true (BVar i) = true) ->
  forallb (ok vs true) (clue_constraint ids c) = true.
Proof.
  intros H. unfold clue_constraint. destruct (0 <=? c)%Z; [|reflexivity].
  autorewrite with okdb. apply ok_ct_vars_lt. exact H.
Qed.

Lemma next_same_lt region w y x x2 : next_same region w y x = Some x2 -> x2 < w.
Proof.
  unfold next_same. intros H. apply find_some in H. destruct H as [H _]. apply in_seq in H. lia.
Qed.

Lemma aquarium_constraints_ok h w region rows cols :
  forallb (ok (repeat DBool (h * w)) true) (aquarium_constraints h w region rows cols) = true.
Proof.
  unfold aquarium_constraints. rewrite !forallb_app, !forallb_flat_map.
  repeat (apply andb_true_intro; split).
  - apply forallb_seq. intros y Hy. apply clue_constraint_ok. intros i Hi.
    apply in_map_iff in Hi. destruct Hi as [x [<- Hx]]. apply in_seq in Hx. apply ok_cell; lia.
  - apply forallb_seq. intros x Hx. apply clue_constraint_ok. intros i Hi.
    apply in_map_iff in Hi. destruct Hi as [y [<- Hy]]. apply in_seq in Hy. apply ok_cell; lia.
  - apply forallb_cells. intros y x Hy Hx. rewrite forallb_app. apply andb_true_intro. split.
    + destruct (next_same region w y x) as [x2|] eqn:E; [|reflexivity].
      apply next_same_lt in E. autorewrite with okdb. rewrite !ok_cell by lia. reflexivity.
    + destruct (Nat.ltb (S y) h && _) eqn:E; [|reflexivity].
      apply andb_true_iff in E. destruct E as [E _]. apply Nat.ltb_lt in E.
      autorewrite with okdb. rewrite !ok_cell by lia. reflexivity.
Qed.

Lemma aquarium_model_wf pb st : solve_aquarium_model pb = Ok st -> wf_state st /\ wf_keys st.
Proof.
  unfold solve_aquarium_model.
  destruct (Nat.ltb _ _); [discriminate|]. destruct (Nat.ltb _ _); [discriminate|].
  intros H. inversion H; subst st; clear H.
  apply wf_bool_grid_state. apply aquarium_constraints_ok.
Qed.

Theorem aquarium_solve_reports : forall oracle, oracle_sound_on oracle -> oracle_complete_on oracle ->
  forall h w region rows cols st,
  (forall i : Z, connected (board h w) (fun v => (getz region v =? i)%Z)) ->
  solve_aquarium_model [[Z.of_nat h; Z.of_nat w]; region; rows; cols] = Ok st ->
  solve_reports oracle st (seq 0 (h * w)) (rules_aquarium [[Z.of_nat h; Z.of_nat w]; region; rows; cols]).
Proof.
  intros oracle Os Oc h w region rows cols st C Hst.
  apply (solve_reports_intro oracle no_graph); try assumption.
  - exact (aquarium_model_wf _ _ Hst).
  - unfold solve_aquarium_model in Hst. rewrite dim2_0, dim2_1 in Hst.
    destruct (Nat.ltb _ _); [discriminate|]. destruct (Nat.ltb _ _); [discriminate|].
    inversion Hst; subst st. simpl. apply repeat_keys.
  - intros ans. exact (aquarium_exact h w region rows cols st ans C Hst).
Qed.
