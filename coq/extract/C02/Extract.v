Require Extraction.
Require Import ExtrOcamlBasic.
From Coq Require Import ZArith List.
(* fully qualified names (and a blank before the final period): harness/vlib.py::build_runner
   finds the model files to hash / build by scanning for "Cspuz.<Module>" *)
Require Import Cspuz.Lib.PyErr Cspuz.Core.Expr Cspuz.Core.Program Cspuz.Gen.Z3Table Cspuz.Backend.Z3 Cspuz.Backend.Z3Oracle Cspuz.Backend.SolveLoop .
Extraction "model.ml" Z.add Nat.add pyerr_code solve solve_fuel bf_oracle common_facts spec_models
  solve_scripted n_keys eval no_graph env_of_sol on_keys.
