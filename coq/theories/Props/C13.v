(* C13 — array indexing and slicing follow Python nested-list semantics.
   Only final statements here; proofs are in Array/SliceProofs.v, SliceMain.v. *)
From Coq Require Import ZArith List.
From Cspuz Require Import Lib.PyErr Array.Slice Array.SliceProofs Array.SliceMain.
Import ListNotations.
Open Scope Z_scope.

(* For every element type, every shape (h, w) (0 included), every rectangular
   list of lists [rows] and every key — an int or slice (a[k]), a pair of
   ints/slices with arbitrary start/stop/step (negative, out of range, None),
   or a list of coordinate pairs — the model of Array2D.__getitem__ applied to
   the row-major data returns exactly what the nested-list specification returns:
   same elements, same order, same result kind and shape, same error kind. *)
Theorem getitem_eq_spec :
  forall (A : Type) (h w : Z) (rows : list (list A)) (k : key2),
    rect h w rows ->
    getitem2 h w (concat rows) k = spec_getitem2 h w rows k.
Proof. intros A h w rows k H. exact (getitem2_eq_spec h w rows H k). Qed.
Print Assumptions getitem_eq_spec.

(* the length computed by _range_size is the length of range(start, stop, step),
   and range() enumerates start + step*k *)
Theorem range_size_is_range_length :
  forall s e st, st <> 0 ->
    range_size s e st = Ok (rlen s e st) /\
    py_range s e st = map (fun k => s + st * k) (zseq 0 (Z.to_nat (rlen s e st))).
Proof. intros s e st H. split; [exact (range_size_rlen s e st H) | exact (py_range_spec s e st H)]. Qed.
Print Assumptions range_size_is_range_length.

(* every position a slice selects lies inside the axis: slicing never raises *)
Theorem slice_positions_in_axis :
  forall len a b c s e st k, 0 <= len -> slice_indices len a b c = Ok (s, e, st) ->
    0 <= k < rlen s e st -> 0 <= s + st * k < len.
Proof. exact slice_indices_in_range. Qed.
Print Assumptions slice_positions_in_axis.

(* 1-D arrays delegate to the Python list *)
Theorem getitem1_is_list_indexing :
  forall (A : Type) (data : list A),
    (forall i, getitem1 data (KInt i) = rmap RScalar (py_index data i)) /\
    (forall a b c, getitem1 data (KSlice a b c) = rmap R1 (py_slice data a b c)).
Proof.
  intros A data; split; intros; cbn [getitem1];
    match goal with |- bind ?x _ = _ => destruct x; reflexivity end.
Qed.
Print Assumptions getitem1_is_list_indexing.

(* flatten / reshape keep the row-major data untouched *)
Theorem reshape_row_major : forall (A : Type) (data : list A) h w r,
  reshape data h w = Ok r -> r = R2 h w data /\ py_len data = h * w.
Proof. intros A data h w r; unfold reshape; destruct (Z.eqb_spec (py_len data) (h * w)); intros H; inversion H; auto. Qed.
Print Assumptions reshape_row_major.

Theorem reshape_rejects : forall (A : Type) (data : list A) h w,
  py_len data <> h * w -> reshape data h w = Err ValueError.
Proof. intros A data h w H; unfold reshape; destruct (Z.eqb_spec (py_len data) (h * w)); [contradiction|reflexivity]. Qed.
Print Assumptions reshape_rejects.

Theorem flatten_row_major : forall (A : Type) h w (rows : list (list A)),
  rect h w rows -> flatten2 h w (concat rows) = concat rows.
Proof. reflexivity. Qed.
Print Assumptions flatten_row_major.

(* non-vacuity: a concrete 2x3 array, a reversed row slice with an integer column *)
Example getitem_example :
  rect 2 3 [[0; 1; 2]; [3; 4; 5]] /\
  getitem2 2 3 (concat [[0; 1; 2]; [3; 4; 5]]) (K2 (KSlice None None (Some (-1))) (KInt 1)) = Ok (R1 [4; 1]) /\
  getitem2 2 3 (concat [[0; 1; 2]; [3; 4; 5]]) (K2 (KInt 0) (KSlice (Some 7) None (Some (-2)))) = Ok (R1 [2; 0]) /\
  getitem2 2 3 (concat [[0; 1; 2]; [3; 4; 5]]) (K2 (KInt 2) (KInt 0)) = Err IndexError.
Proof. unfold rect. repeat split; try (vm_compute; reflexivity); try (vm_compute; discriminate); repeat constructor. Qed.

(* tie T: the function the translator produces from the CURRENT source of array.py::_range_size (Gen/PyIntArray.v,
   regenerated on every run) is the model's range_size, which every theorem above is about *)
From Cspuz Require Import Gen.PyIntArray Array.RangeSizeGen.
Theorem range_size_from_source : forall start stop step,
  range_size_py start stop step = range_size start stop step.
Proof. exact range_size_py_eq. Qed.
Print Assumptions range_size_from_source.
