(* Syntax of the right-hand sides of cspuz/backend/z3.py::_convert_expr's
   [elif e.op == Op.X:] chain: a small "z3py call" term over the already
   converted [operands] list.  harness/pC01.py::translate regenerates
   Gen/Z3Table.v (op -> px) from the Python source; Backend/Z3.v interprets it.
   Datatypes only. *)
From Coq Require Import List.
Import ListNotations.

(* Python binary operators applied to two converted operands (z3py overloads
   them on ExprRef; on two Python literals the interpreter computes) *)
Inductive pybin := PAdd | PSub | PEq | PNe | PLe | PLt | PGe | PGt.

Inductive px :=
  | XArg (i : nat)                    (* operands[i] *)
  | XNeg (a : px)                     (* -a *)
  | XBin (b : pybin) (x y : px)       (* x <b> y *)
  | XFoldL (b : pybin)                (* ret = operands[0]; for i in range(1, len(operands)): ret = ret <b> operands[i]; return ret *)
  | XNot (a : px)                     (* z3.Not(a) *)
  | XAndArgs                          (* z3.And(operands) *)
  | XOrArgs                           (* z3.Or(operands) *)
  | XAnd2 (a b : px)                  (* z3.And(a, b) *)
  | XOr2 (a b : px)                   (* z3.Or(a, b) *)
  | XXor (a b : px)                   (* z3.Xor(a, b) *)
  | XIf (c t f : px)                  (* z3.If(c, t, f) *)
  | XDistinctArgs                     (* z3.Distinct(operands) *)
  | XAllPyInt (t f : px)              (* if all(isinstance(x, int) for x in operands): return t  -- otherwise f *)
  | XPyDistinct                       (* len(set(operands)) == len(operands) *)
  | XNone.                            (* no branch: the function falls off its end and returns None *)
