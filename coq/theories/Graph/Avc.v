(* C04: mirror of cspuz/graph.py::_active_vertices_connected and of the public
   wrapper active_vertices_connected (level E), the certificate checker and the
   graph-theoretic specification (level S), and the meaning of the native
   operator GRAPH_ACTIVE_VERTICES_CONNECTED.  No proofs here. *)
From Coq Require Import ZArith List Bool Arith.
From Cspuz Require Import Lib.PyErr Core.Expr Core.Program Core.Build Graph.GraphModel.
Import ListNotations.
Local Open Scope res_scope.

(* ------------------------------------------------------------------------ *)
(* level E                                                                    *)

(* list[i] for 0 <= i : IndexError when out of range *)
Definition nth_res {A} (l : list A) (i : nat) : res A :=
  match nth_error l i with Some x => Ok x | None => Err IndexError end.

(* BoolExpr.__and__ with a BoolExpr on the left: _make_bool_expr returns
   NotImplemented for a non-bool-like right operand, the reflected method of an
   int / IntExpr / None does not exist or declines too: TypeError *)
Definition py_and (a b : expr) : res expr :=
  if is_bool_expr_like b then Ok (b_and a b) else Err TypeError.

(* constraints.then on two scalar operands: _make_bool_expr(Op.IMP, [x, y]);
   NotImplemented (an operand that is not BoolExpr / bool) -> TypeError *)
Definition py_then (a b : expr) : res expr :=
  if is_bool_expr_like a && is_bool_expr_like b then Ok (b_imp a b) else Err TypeError.

Fixpoint foldM {A B} (f : A -> B -> res A) (a : A) (l : list B) : res A :=
  match l with
  | [] => Ok a
  | x :: r => let* a' := f a x in foldM f a' r
  end.

(* sum([[x, y] for x, y in graph.edges], []) *)
Definition flat_edges (g : graph) : list expr :=
  flat_map (fun '(a, b) => [PyInt (Z.of_nat a); PyInt (Z.of_nat b)]) (edges g).

(* (ranks[j] < ranks[i]) & is_active[j] *)
Definition less_rank (ranks acts : list expr) (i : nat) (jk : nat * nat) : res expr :=
  let* rj := nth_res ranks (fst jk) in
  let* ri := nth_res ranks i in
  let* aj := nth_res acts (fst jk) in
  py_and (i_lt rj ri) aj.

(* for j, _ in graph.incident_edges[i]: if i < j: solver.ensure(ranks[j] != ranks[i]) *)
Fixpoint post_ne (st : state) (ranks : list expr) (i : nat) (inc : list (nat * nat)) : res state :=
  match inc with
  | [] => Ok st
  | (j, _) :: r =>
      if Nat.ltb i j then
        let* rj := nth_res ranks j in
        let* ri := nth_res ranks i in
        post_ne (ensure st [i_ne rj ri]) ranks i r
      else post_ne st ranks i r
  end.

(* the body of "for i in range(n)" *)
Definition post_vertex (acyclic : bool) (ranks roots acts : list expr) (g : graph)
    (st : state) (i : nat) : res state :=
  let* less := mapM (less_rank ranks acts i) (incident g i) in
  let* st1 := (if acyclic then post_ne st ranks i (incident g i) else Ok st) in
  let* ai := nth_res acts i in
  let* ri := nth_res roots i in
  let* ct := count_true (less ++ [ri]) in
  let* c := py_then ai ((if acyclic then i_eq else i_ge) ct (PyInt 1)) in
  Ok (ensure st1 [c]).

(* _active_vertices_connected with use_graph_primitive already resolved *)
Definition post_avc (st : state) (acts : list expr) (g : graph) (acyclic prim : bool) : res state :=
  if prim && negb acyclic then
    if negb (Nat.eqb (length acts) (nv g)) then Err ValueError
    else Ok (ensure st [BNode G_AVC ([PyInt (Z.of_nat (nv g)); PyInt (Z.of_nat (length (edges g)))]
                                      ++ acts ++ flat_edges g)])
  else
    let n := nv g in
    let* '(st1, ranks) := int_array st n 0 (Z.of_nat n - 1) in
    let '(st2, roots) := bool_array st1 n in
    let* st3 := foldM (post_vertex acyclic ranks roots acts g) st2 (seq 0 n) in
    let* ct := count_true roots in
    Ok (ensure st3 [i_le ct (PyInt 1)]).

(* the public wrapper: what is_active can be *)
Inductive avc_arg :=
  | ASeq (l : list expr)                 (* list / tuple of BoolExprLike *)
  | AArr1 (l : list expr)                (* BoolArray1D *)
  | AArr2 (h w : nat) (l : list expr).   (* BoolArray2D of shape (h, w), row-major data *)

Definition active_vertices_connected (cfg_prim : bool) (st : state) (a : avc_arg)
    (g : option graph) (acyclic : bool) (ugp : option bool) : res state :=
  let prim := match ugp with Some b => b | None => cfg_prim end in
  match g, a with
  | None, AArr2 h w l => post_avc st l (grid_graph h w) acyclic prim
  | None, _ => Err TypeError
  | Some _, AArr2 _ _ _ => Err TypeError
  | Some g, ASeq l => post_avc st l g acyclic prim
  | Some g, AArr1 l => post_avc st l g acyclic prim
  end.

(* ------------------------------------------------------------------------ *)
(* level S: certificate                                                       *)

Definition b2z (b : bool) : Z := if b then 1%Z else 0%Z.

(* number of incident entries (j, _) of i with rank j < rank i and j active *)
Definition lower_cnt (g : graph) (act : nat -> bool) (rank : nat -> Z) (i : nat) : Z :=
  zsum (map (fun jk : nat * nat => b2z ((rank (fst jk) <? rank i)%Z && act (fst jk))) (incident g i)).

Definition vertex_ok (g : graph) (acyclic : bool) (act : nat -> bool) (rank : nat -> Z)
    (root : nat -> bool) (i : nat) : bool :=
  (if acyclic
   then forallb (fun jk : nat * nat => negb (rank (fst jk) =? rank i)%Z)
                (filter (fun jk : nat * nat => Nat.ltb i (fst jk)) (incident g i))
   else true) &&
  implb (act i)
        (if acyclic then (lower_cnt g act rank i + b2z (root i) =? 1)%Z
         else (1 <=? lower_cnt g act rank i + b2z (root i))%Z).

Definition cert_avc (g : graph) (acyclic : bool) (act : nat -> bool) (rank : nat -> Z)
    (root : nat -> bool) : bool :=
  forallb (vertex_ok g acyclic act rank root) (seq 0 (nv g)) &&
  (zsum (map (fun j => b2z (root j)) (seq 0 (nv g))) <=? 1)%Z.

Definition ranks_in_range (g : graph) (rank : nat -> Z) : Prop :=
  forall i, (i < nv g)%nat -> (0 <= rank i <= Z.of_nat (nv g) - 1)%Z.

Definition ranks_in_range_b (g : graph) (rank : nat -> Z) : bool :=
  forallb (fun i => (0 <=? rank i)%Z && (rank i <=? Z.of_nat (nv g) - 1)%Z) (seq 0 (nv g)).

(* the certificate built from the discovery order of the flood fill: the
   component of the first active vertex, then all other vertices; rank :=
   position, root := the first active vertex *)
Fixpoint index_of (x : nat) (l : list nat) : nat :=
  match l with
  | [] => O
  | y :: r => if Nat.eqb x y then O else S (index_of x r)
  end.
Definition avc_start (g : graph) (act : nat -> bool) : nat := hd O (filter act (seq 0 (nv g))).
Definition avc_order (g : graph) (act : nat -> bool) : list nat :=
  let c := component g act all_edges_ok (avc_start g act) in
  c ++ filter (fun v => negb (mem v c)) (seq 0 (nv g)).
Definition avc_rank (g : graph) (act : nat -> bool) (v : nat) : Z :=
  Z.of_nat (index_of v (avc_order g act)).
Definition avc_root (g : graph) (act : nat -> bool) (v : nat) : bool :=
  Nat.eqb v (avc_start g act).

(* ------------------------------------------------------------------------ *)
(* level S: specification                                                     *)

Definition n_active (g : graph) (act : nat -> bool) : nat :=
  length (filter act (seq 0 (nv g))).

(* edges with two distinct active endpoints, each list entry counted (so two
   parallel edges count twice); a self-loop is not counted: it is not on any
   path between two vertices, and the encoding never looks at it *)
Definition induced_edges (g : graph) (act : nat -> bool) : nat :=
  length (filter (fun ab : nat * nat => act (fst ab) && act (snd ab) && negb (Nat.eqb (fst ab) (snd ab)))
                 (edges g)).

(* the active vertices induce a tree (edge-count characterisation), or are empty *)
Definition tree (g : graph) (act : nat -> bool) : Prop :=
  connected g act /\
  (n_active g act = 0%nat \/ (induced_edges g act + 1 = n_active g act)%nat).

Definition tree_b (g : graph) (act : nat -> bool) : bool :=
  connected_b g act &&
  (Nat.eqb (n_active g act) 0 || Nat.eqb (induced_edges g act + 1) (n_active g act)).

Definition spec_avc (acyclic : bool) (g : graph) (act : nat -> bool) : Prop :=
  if acyclic then tree g act else connected g act.
Definition spec_avc_b (acyclic : bool) (g : graph) (act : nat -> bool) : bool :=
  if acyclic then tree_b g act else connected_b g act.

(* ------------------------------------------------------------------------ *)
(* the native operator: [n; m] ++ acts ++ flat edges, meaning := connectivity *)

Fixpoint pair_up (l : list Z) : option (list (nat * nat)) :=
  match l with
  | [] => Some []
  | a :: b :: r =>
      if (0 <=? a)%Z && (0 <=? b)%Z then
        match pair_up r with Some es => Some ((Z.to_nat a, Z.to_nat b) :: es) | None => None end
      else None
  | _ => None
  end.

Definition decode_avc (vs : list (option value)) : option (graph * list bool) :=
  match vs with
  | Some (VI n) :: Some (VI m) :: rest =>
      if (0 <=? n)%Z && (0 <=? m)%Z then
        let n' := Z.to_nat n in
        match all_some (firstn n' rest), all_some (skipn n' rest) with
        | Some av, Some ev =>
            match as_bools av, as_ints ev with
            | Some bs, Some zs =>
                match pair_up zs with
                | Some es =>
                    if Nat.eqb (length bs) n' && Nat.eqb (length es) (Z.to_nat m)
                    then Some ({| nv := n'; edges := es |}, bs) else None
                | None => None
                end
            | _, _ => None
            end
        | _, _ => None
        end
      else None
  | _ => None
  end.

Definition gsem_avc (o : op) (vs : list (option value)) : option bool :=
  match o with
  | G_AVC =>
      match decode_avc vs with
      | Some (g, bs) => Some (connected_b g (fun v => nth v bs false))
      | None => None
      end
  | _ => None
  end.

(* the activity pattern the caller's expressions evaluate to *)
Definition pattern (en : env) (acts : list expr) : nat -> bool :=
  fun v => holds gsem_avc en (nth v acts (PyBool false)).

(* hypotheses of the theorems: every is_active entry evaluates to a boolean,
   and mentions only variables that existed before the call *)
Definition acts_defined (en : env) (acts : list expr) : Prop :=
  forall a, In a acts -> exists b, eval gsem_avc en a = Some (VB b).
Definition fresh_below (k : nat) (l : list expr) : Prop :=
  forall a, In a l -> (max_id a <= k)%nat.

(* what a call added to the solver *)
Definition new_cons (st st' : state) : list expr := skipn (length (cons st)) (cons st').
Definition new_vars (st st' : state) : list vdecl := skipn (length (vars st)) (vars st').
