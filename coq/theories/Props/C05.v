From Coq Require Import ZArith List.
From Cspuz Require Import Lib.PyErr Core.Expr Core.Program Graph.GraphModel Graph.Division.
Theorem division_grid_no_roots : forall st h w data R aeg p,
  division_connected st (D2 h w data) R None None aeg p
  = post_division st (SArr data) R (grid_graph h w) None aeg p.
Proof. reflexivity. Qed.
Print Assumptions division_grid_no_roots.
