(* C11 rule specification - View.
   Published rules (puzz.link, "View"):
     1. Put numbers in some of the cells.
     2. A number is the total number of empty cells seen from it in the four
        orthogonal directions, up to the next number or the edge of the board.
     3. Equal numbers cannot be orthogonally adjacent.
     4. All cells with numbers form one orthogonally connected group.

   problem = [[h; w]; given]   given: h*w cells row-major, n >= 0 a given number, negative = empty
   answer  = h*w numbers row-major (0 where the cell holds no number), then h*w flags, 1 = the cell holds a number *)
From Coq Require Import ZArith List Bool Arith.
From Cspuz Require Import Graph.GraphModel Puzzle.PuzzleBase.
Import ListNotations.

Definition rules_view (pb : problem) (ans : answer) : bool :=
  let h := dim pb 0 in let w := dim pb 1 in
  let given := sec pb 1 in
  let num := fun '(y, x) => at2 ans w y x in
  let has := fun '(y, x) => isb (getz ans (h * w + y * w + x)) in
  let dirs := [((-1)%Z, 0%Z); (1%Z, 0%Z); (0%Z, (-1)%Z); (0%Z, 1%Z)] in
  Nat.eqb (length ans) (2 * (h * w)) &&
  forallb (fun v => ((0 <=? v) && (v <=? Z.of_nat (h + w)%nat))%Z) (firstn (h * w) ans) &&
  forallb is01 (skipn (h * w) ans) &&
  cells_connected h w (fun v => isb (getz ans (h * w + v))) &&
  forallb (fun '(y, x) =>
     let c := at2 given w y x in
     ((c <? 0)%Z || (has (y, x) && (num (y, x) =? c)%Z)) &&
     (if has (y, x) then
       (num (y, x) =? Z.of_nat (fold_right Nat.add 0%nat
           (map (fun '(dy, dx) => length (take_while (fun q => negb (has q)) (ray h w y x dy dx))) dirs)))%Z &&
       forallb (fun q => negb (has q) || negb (num q =? num (y, x))%Z) (nbr4 h w y x)
     else (num (y, x) =? 0)%Z)) (cells h w).

Definition answers_view (pb : problem) : list answer :=
  let n := dim pb 0 * dim pb 1 in
  all_answers (repeat (0%Z, Z.of_nat (dim pb 0 + dim pb 1)) n ++ bool_doms n).
