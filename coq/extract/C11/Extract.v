Require Extraction.
Require Import ExtrOcamlBasic.
From Coq Require Import ZArith List.
Require Import Cspuz.Lib.PyErr.
Require Import Cspuz.Core.Expr.
Require Import Cspuz.Core.Program.
Require Import Cspuz.Puzzle.PuzzleBase.
Require Import Cspuz.Puzzle.Rules_akari.
Require Import Cspuz.Puzzle.Rules_aquarium.
Require Import Cspuz.Puzzle.Rules_building.
Require Import Cspuz.Puzzle.Rules_castle_wall.
Require Import Cspuz.Puzzle.Rules_compass.
Require Import Cspuz.Puzzle.Rules_creek.
Require Import Cspuz.Puzzle.Rules_doppelblock.
Require Import Cspuz.Puzzle.Rules_fillomino.
Require Import Cspuz.Puzzle.Rules_fivecells.
Require Import Cspuz.Puzzle.Rules_geradeweg.
Require Import Cspuz.Puzzle.Rules_gokigen.
Require Import Cspuz.Puzzle.Rules_heyawake.
Require Import Cspuz.Puzzle.Rules_lits.
Require Import Cspuz.Puzzle.Rules_masyu.
Require Import Cspuz.Puzzle.Rules_norinori.
Require Import Cspuz.Puzzle.Rules_nurikabe.
Require Import Cspuz.Puzzle.Rules_nurimisaki.
Require Import Cspuz.Puzzle.Rules_putteria.
Require Import Cspuz.Puzzle.Rules_shakashaka.
Require Import Cspuz.Puzzle.Rules_simpleloop.
Require Import Cspuz.Puzzle.Rules_slitherlink.
Require Import Cspuz.Puzzle.Rules_star_battle.
Require Import Cspuz.Puzzle.Rules_sudoku.
Require Import Cspuz.Puzzle.Rules_view.
Require Import Cspuz.Puzzle.Rules_yajilin.
Require Import Cspuz.Puzzle.Rules_yinyang.
Require Import Cspuz.Puzzle.Norinori.
Require Import Cspuz.Puzzle.Putteria.
Require Import Cspuz.Puzzle.StarBattle.
Require Import Cspuz.Puzzle.Sudoku.
Extraction "model.ml" Z.add Nat.add pyerr_code empty_state rules_akari answers_akari rules_aquarium answers_aquarium rules_building answers_building rules_castle_wall answers_castle_wall rules_compass answers_compass rules_creek answers_creek rules_doppelblock answers_doppelblock rules_fillomino answers_fillomino rules_fivecells answers_fivecells rules_geradeweg answers_geradeweg rules_gokigen answers_gokigen rules_heyawake answers_heyawake rules_lits answers_lits rules_masyu answers_masyu rules_norinori answers_norinori rules_nurikabe answers_nurikabe rules_nurimisaki answers_nurimisaki rules_putteria answers_putteria rules_shakashaka answers_shakashaka rules_simpleloop answers_simpleloop rules_slitherlink answers_slitherlink rules_star_battle answers_star_battle rules_sudoku answers_sudoku rules_view answers_view rules_yajilin answers_yajilin rules_yinyang answers_yinyang solve_norinori_model solve_putteria_model solve_star_battle_model solve_sudoku_model.
