"""./check <Cxx> [--tier quick|thorough] [--replay file]   (see DESIGN.md 1.2)"""
import argparse
import importlib
import json
import os
import sys
import time
import traceback

sys.path.insert(0, os.path.dirname(os.path.abspath(__file__)))
import vlib  # noqa: E402


def main():
    ap = argparse.ArgumentParser()
    ap.add_argument("pid")
    ap.add_argument("--tier", default=os.environ.get("VERIF_TIER", "quick"))
    ap.add_argument("--replay", default=None)
    a = ap.parse_args()
    tier = a.tier if a.tier in ("quick", "thorough") else "quick"
    try:
        seed = int(os.environ.get("VERIF_SEED", "0"))
    except ValueError:
        seed = 0
    pid = a.pid
    mod = importlib.import_module("p" + pid)
    ctx = vlib.Ctx(pid, tier, seed)

    if a.replay:
        rp = json.load(open(a.replay))
        rc = mod.replay(ctx, rp) if hasattr(mod, "replay") else 2
        sys.exit(rc)

    broken = []  # (stage, detail): a proof obligation or tie that no longer checks
    stage_t = {}
    t_stage = time.time()

    def lap(name):
        nonlocal t_stage
        stage_t[name] = round(time.time() - t_stage, 1)
        t_stage = time.time()

    # steps 1, 0 and 2 run under ONE build lock, so that no concurrent check can regenerate Gen/*.v in between
    with vlib.Lock():
        # 1. translator: regenerate Gen/*.v from /repo's current source (fail-closed)
        if hasattr(mod, "translate"):
            try:
                with vlib.Lock():
                    mod.translate(ctx)
            except Exception as ex:
                broken.append(("translator", "%s: %s" % (type(ex).__name__, ex)))

        # 0. nothing in the development may declare an axiom / disable a kernel check
        with vlib.Lock():
            hits = vlib.scan_forbidden(mod.PROPS, getattr(mod, "EXTRACT", pid))
        if hits:
            broken.append(("forbidden-constructs", hits[:20]))

        # 2. theorems: full .vo build of Props/Cxx.v and its closure + Print Assumptions
        try:
            proof = vlib.check_props(mod.PROPS)
        except Exception as ex:
            proof = {"ok": False, "theorems": [], "closed": [], "open": {}, "log": repr(ex), "file": mod.PROPS, "failed_stage": "exception"}
    lap("translate+proofs(incl. lock wait)")
    if not proof["ok"]:
        broken.append(("proof:" + proof.get("failed_stage", "?"), proof.get("log", "")[-3000:]))
    coqchk = None
    if tier == "thorough" and proof["ok"]:
        # independent re-check of the property's .vo closure, with the axiom list
        modname = "Cspuz." + mod.PROPS[:-2].replace("/", ".")
        rc_, out_ = vlib.sh("timeout 1500 coqchk -o -silent -Q theories Cspuz %s" % modname, cwd=vlib.COQ, timeout=1530)
        import re as _re
        m_ = _re.search(r"\* Axioms:(.*?)\n\s*\n\* Constants", out_, flags=_re.S)
        coqchk = {"rc": rc_, "axioms": (m_.group(1).strip() if m_ else "?"), "tail": out_[-600:] if rc_ != 0 else ""}
        if rc_ != 0:
            broken.append(("coqchk", out_[-1500:]))
    if hasattr(mod, "generated_obligations"):
        try:
            mod.generated_obligations(ctx, proof, broken)
        except Exception as ex:
            broken.append(("generated-obligations", "%s: %s" % (type(ex).__name__, ex)))

    lap("coqchk+generated-obligations")
    # 3. correspondence: extracted model vs implementation
    try:
        mod.correspond(ctx)
    except Exception as ex:
        broken.append(("correspondence-harness", traceback.format_exc()[-3000:]))
    lap("correspondence")
    n_mis_after_corr = len(ctx.mismatches)
    if ctx.mismatches:
        broken.append(("correspondence", ctx.mismatches[:5]))

    # 4. search: the property itself, specification vs implementation
    ctx.deep = bool(broken)
    try:
        mod.search(ctx)
    except Exception as ex:
        broken.append(("search-harness", traceback.format_exc()[-3000:]))

    lap("search")
    print("stages (s): " + ", ".join("%s %.1f" % kv for kv in stage_t.items()))
    if len(ctx.mismatches) > n_mis_after_corr:
        # model/spec cross-checks recorded during the search phase
        broken.append(("correspondence(search-phase)", ctx.mismatches[n_mis_after_corr:n_mis_after_corr + 5]))

    for m in ctx.models.values():
        m.close()

    # 5. verdict
    known, fixed = vlib.load_known(pid)
    known_keys = {k["key"]: k for k in known}
    new_viol = [v for v in ctx.violations if v["key"] not in known_keys]
    seen_known = [v for v in ctx.violations if v["key"] in known_keys]
    for v in seen_known:
        print("KNOWN-FINDING: property=%s %s [%s]" % (pid, known_keys[v["key"]]["what"], v["key"]))
    for k in known:
        if k["key"] not in {v["key"] for v in seen_known}:
            # listed but not reproduced on this run: say so, it suppresses nothing
            print("note: known finding %s not reproduced on this run" % k["key"])
    # a broken obligation explained entirely by known findings is not a new alarm
    if broken and not new_viol and seen_known and hasattr(mod, "broken_explained_by_known"):
        broken = [b for b in broken if not mod.broken_explained_by_known(b, seen_known)]

    nviol = 0
    rc = 0
    if new_viol:
        for v in new_viol[:5]:
            path = vlib.write_replay(pid, {"property": pid, "kind": "failing-input", "violation": v,
                                           "broken": [b[0] for b in broken], "seed": seed, "tier": tier})
            print("VIOLATION property=%s replay=%s" % (pid, path))
            nviol += 1
        rc = 1
    elif broken:
        path = vlib.write_replay(pid, {"property": pid, "kind": "obligation-or-tie-broken",
                                       "no_longer_checks": [{"stage": s, "detail": d} for s, d in broken],
                                       "seed": seed, "tier": tier})
        print("VIOLATION property=%s replay=%s no-failing-input-found" % (pid, path))
        nviol = 1
        rc = 1

    ctx.rule = getattr(mod, "RULE", "")
    assumptions = list(getattr(mod, "ASSUMPTIONS", []))
    vlib.write_evidence(ctx, proof, getattr(mod, "TRUSTED", []), assumptions, nviol,
                        extra_cov={"broken": [b[0] for b in broken],
                                   "known_findings_seen": [v["key"] for v in seen_known],
                                   "axioms_reported": proof.get("open", {}),
                                   "coqchk": coqchk})
    print("%s %s: theorems %d/%d closed, %d cases (%d distinct non-trivial), %d mismatches, %d violations, %.1fs" % (
        pid, tier, len(proof.get("closed", [])), len(proof.get("theorems", [])), ctx.cases, len(ctx.nontrivial),
        len(ctx.mismatches), nviol, time.time() - ctx.t0))
    if broken:
        for s, d in broken:
            print("BROKEN %s: %s" % (s, (json.dumps(d, default=repr) if not isinstance(d, str) else d)[:1500]))
    sys.exit(rc)


if __name__ == "__main__":
    main()
