(* C11 Tier 1 - model of cspuz/puzzle/simpleloop.py::solve_simpleloop(height, width, blocked, pivot), all board
   shapes:
       grid_frame = BoolGridFrame(solver, height - 1, width - 1); solver.add_answer_key(grid_frame)
       is_passed = graph.active_edges_single_cycle(solver, grid_frame)       # BoolArray2D of shape (height, width)
       for y in range(height): for x in range(width):
           if (y, x) != pivot: ensure(is_passed[y, x] == (blocked[y][x] == 0))
       py, px = pivot
       n_pass = number of cells (y, x) != pivot with blocked[y][x] == 0
       ensure(is_passed[py, px] == (n_pass % 2 == 1))
   The frame points are the cells.  The call into cspuz.graph is the model of property C06
   (Graph/Cycle.v::active_edges_single_cycle on the frame, auxiliary-variable route, see CycleFrameBase.v); the
   array it returns (P2 shape data) is indexed the way Array2D.__getitem__ does: data[y * shape[1] + x].
   `is_passed[y, x] == b` with a Python bool b is BoolExpr.__eq__ = the node IFF [is_passed[y, x]; b] with the raw
   bool operand.
   The problem uses the encoding of Rules_simpleloop.v ([[h; w; py; px]; blocked], blocked row-major).  Every
   integer is a legal entry of `blocked` (0 = white, anything else black).
   Board shapes without cells (all integers are covered, exactly as the Python behaves):
     * height < 0 and width < 0: both arrays of the frame get a positive size, the loops are empty and
       is_passed[py, px] raises IndexError (an axis of negative size accepts no index);
     * otherwise height <= 0 or width <= 0: ValueError (Array2D.__init__ for a negative size, or
       int_array(0, 0, -1) inside the graph call for a frame without points).
   The pivot (mirrors tuple comparison and Array2D indexing): `(y, x) != pivot` compares integers, so a pivot with
   a negative coordinate equals no cell; is_passed[py, px] normalises a negative index once (py + height) and
   raises IndexError outside [-height, height) x [-width, width).
   `blocked` too short: the Python reads blocked[y][x] for every cell except the pivot and raises IndexError at the
   first missing one; the model answers IndexError when the flat list has fewer entries than the index of the last
   non-pivot cell requires (the plug-in's malformed problems only drop trailing cells / rows, so the flat list is
   that short exactly when some blocked[y][x] that is read is missing).  No proofs here. *)
From Coq Require Import ZArith List Bool Arith.
From Cspuz Require Import Lib.PyErr Core.Expr Core.Program Graph.GraphModel Graph.Cycle
     Puzzle.PuzzleBase Puzzle.ModelBase Puzzle.CycleFrameBase.
Import ListNotations.
Local Open Scope nat_scope.

(* array.py::_parse_range(size, key) for an int key *)
Definition sl_index (size : nat) (k : Z) : option nat :=
  let p := if (k <? 0)%Z then (k + Z.of_nat size)%Z else k in
  if ((0 <=? p) && (p <? Z.of_nat size))%Z then Some (Z.to_nat p) else None.

(* (y, x) == pivot *)
Definition sl_is_pivot (pyz pxz : Z) (c : nat * nat) : bool :=
  ((Z.of_nat (fst c) =? pyz) && (Z.of_nat (snd c) =? pxz))%Z.

(* blocked[y][x] == 0 *)
Definition sl_white (w : nat) (blocked : list Z) (c : nat * nat) : bool :=
  (at2 blocked w (fst c) (snd c) =? 0)%Z.

(* one iteration of the first double loop; p = data of is_passed, ww = its number of columns *)
Definition sl_cell (w ww : nat) (p : list expr) (blocked : list Z) (pyz pxz : Z) (c : nat * nat) : list expr :=
  if sl_is_pivot pyz pxz c then []
  else [BNode IFF [nth (cidx ww c) p PyNone; PyBool (sl_white w blocked c)]].

(* n_pass after the second double loop *)
Definition sl_npass (h w : nat) (blocked : list Z) (pyz pxz : Z) : nat :=
  count (fun c => negb (sl_is_pivot pyz pxz c) && sl_white w blocked c) (cells h w).

(* number of entries the flat `blocked` needs so that every blocked[y][x] that is read exists *)
Definition sl_need (h w : nat) (pyz pxz : Z) : nat :=
  if sl_is_pivot pyz pxz (h - 1, w - 1) then h * w - 1 else h * w.

Definition solve_simpleloop_model (pb : problem) : res state :=
  let hz := getz (sec pb 0) 0 in let wz := getz (sec pb 0) 1 in
  let pyz := getz (sec pb 0) 2 in let pxz := getz (sec pb 0) 3 in
  let h := dim pb 0 in let w := dim pb 1 in
  let blocked := sec pb 1 in
  if ((hz <? 0) && (wz <? 0))%Z then Err IndexError
  else if ((hz <=? 0) || (wz <=? 0))%Z then Err ValueError
  else
  match frame_cycle (h - 1) (w - 1) with
  | Ok (st1, P2 hh ww p) =>
      if Nat.ltb (length blocked) (sl_need h w pyz pxz) then Err IndexError
      else
        match sl_index hh pyz, sl_index ww pxz with
        | Some ry, Some rx =>
            Ok (ensure st1
                  (flat_map (sl_cell w ww p blocked pyz pxz) (cells h w) ++
                   [BNode IFF [nth (ry * ww + rx) p PyNone;
                               PyBool (Nat.odd (sl_npass h w blocked pyz pxz))]]))
        | _, _ => Err IndexError
        end
  | Ok (_, P1 _) => Err TypeError
  | Err e => Err e
  end.
