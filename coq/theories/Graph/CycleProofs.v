(* C06 -- non-primitive _active_edges_single_cycle: the program the model posts
   (declarations + constraints, explicitly), its evaluation as the certificate
   of CycleCert.v, and the theorems cycle_total / cycle_exact / cycle_passed. *)
From Coq Require Import ZArith List Bool Arith Lia.
From Cspuz Require Import Lib.PyErr Core.Expr Core.Program Core.Build
  Graph.GraphModel Graph.ReachProofs Graph.Cycle Graph.CycleLemmas Graph.CycleCert.
Import ListNotations.
Open Scope nat_scope.

(* ------------------------------------------------------------------------ *)
(* generic                                                                   *)

Lemma for_each_ok {S} (f : nat -> S -> res S) (h : nat -> S -> S) l :
  (forall i s, In i l -> f i s = Ok (h i s)) ->
  forall s, for_each f l s = Ok (fold_left (fun s i => h i s) l s).
Proof.
  induction l as [|a l IH]; simpl; intros H s; [reflexivity|].
  rewrite H by (left; reflexivity). simpl. apply IH. intros i s' Hi. apply H. right; exact Hi.
Qed.

Lemma nth_error_map_seq {A} (f : nat -> A) s n i :
  i < n -> nth_error (map f (seq s n)) i = Some (f (s + i)).
Proof.
  intros H. apply map_nth_error.
  rewrite (nth_error_nth' (seq s n) 0) by (rewrite seq_length; exact H).
  rewrite seq_nth by exact H. reflexivity.
Qed.

Lemma py_nth_ok {A} (l : list A) i d : i < length l -> py_nth l i = Ok (nth i l d).
Proof. intros H. unfold py_nth. rewrite (nth_error_nth' l d H). reflexivity. Qed.

Lemma py_nth_some {A} (l : list A) i x : nth_error l i = Some x -> py_nth l i = Ok x.
Proof. intros H. unfold py_nth. rewrite H. reflexivity. Qed.

Lemma filter_map_length {A B} (p : B -> bool) (f : A -> B) l :
  length (filter p (map f l)) = length (filter (fun x => p (f x)) l).
Proof.
  induction l as [|x l IH]; simpl; [reflexivity|]. destruct (p (f x)); simpl; rewrite IH; reflexivity.
Qed.

Lemma seq_add_map s n : seq s n = map (fun i => s + i) (seq 0 n).
Proof.
  revert s. induction n as [|n IH]; intros s; simpl; [reflexivity|].
  rewrite Nat.add_0_r. f_equal. rewrite (IH (S s)), (IH 1), map_map.
  apply map_ext. intros i. lia.
Qed.

Lemma forallb_pairs {A} (p : expr -> bool) (a b : A -> expr) l :
  forallb p (flat_map (fun i => [a i; b i]) l) = true <->
  (forall i, In i l -> p (a i) = true /\ p (b i) = true).
Proof.
  induction l as [|x l IH]; simpl.
  - split; [intros _ i []|reflexivity].
  - rewrite !andb_true_iff, IH. split.
    + intros [Ha [Hb H]] i [<-|Hi]; [split; assumption|apply H; exact Hi].
    + intros H. destruct (H x (or_introl eq_refl)) as [Ha Hb].
      split; [exact Ha|]. split; [exact Hb|]. intros i Hi. apply H. right; exact Hi.
Qed.

Lemma is_bool_expr_like_cl x : is_bool_expr_like x = is_constraint_like x.
Proof. destruct x; reflexivity. Qed.

(* the states produced by a loop of [ensure]s *)
Lemma fold_ensure2 (a b : nat -> expr) l s :
  let s' := fold_left (fun s i => ensure (ensure s [a i]) [b i]) l s in
  vars s' = vars s /\ keys s' = keys s /\ cons s' = cons s ++ flat_map (fun i => [a i; b i]) l.
Proof.
  revert s. induction l as [|x l IH]; intros s; simpl.
  - rewrite app_nil_r. auto.
  - destruct (IH (ensure (ensure s [a x]) [b x])) as [H1 [H2 H3]].
    rewrite H1, H2, H3. simpl. rewrite <- !app_assoc. auto.
Qed.

Lemma fold_ensure1 (a : nat -> expr) l s :
  let s' := fold_left (fun s i => ensure s [a i]) l s in
  vars s' = vars s /\ keys s' = keys s /\ cons s' = cons s ++ map a l.
Proof.
  revert s. induction l as [|x l IH]; intros s; simpl.
  - rewrite app_nil_r. auto.
  - destruct (IH (ensure s [a x])) as [H1 [H2 H3]].
    rewrite H1, H2, H3. simpl. rewrite <- !app_assoc. auto.
Qed.

(* ------------------------------------------------------------------------ *)
(* the posted program, explicitly                                            *)

Section Shape.
  Variable acts : list expr.
  Variable g : graph.
  Variable base : nat.          (* next_id of the state the helper starts from *)
  Hypothesis Hwf : wf_graph g = true.
  Hypothesis Hlen : length (edges g) <= length acts.
  Hypothesis Hcl : forall e, In e acts -> is_constraint_like e = true.

  Definition flag (k : nat) : expr := nth k acts PyNone.

  Lemma flag_cl k : k < length (edges g) -> is_constraint_like (flag k) = true.
  Proof. intros H. apply Hcl. apply nth_In. lia. Qed.

  Definition items (i : nat) : list expr := map (fun je : nat * nat => flag (snd je)) (incident g i).

  Lemma edge_items_ok i : edge_items acts g i = Ok (items i).
  Proof.
    unfold edge_items, items. apply mapM_all_ok. intros [j k] Hin. simpl.
    apply py_nth_ok. pose proof (incident_edge_lt g i j k Hin). lia.
  Qed.

  Lemma items_cl i x : In x (items i) -> is_constraint_like x = true.
  Proof.
    unfold items. rewrite in_map_iff. intros [[j k] [<- Hin]]. simpl.
    apply flag_cl. eapply incident_edge_lt; exact Hin.
  Qed.

  Lemma degree_expr_ok i : degree_expr acts g i = Ok (ct (items i)).
  Proof.
    unfold degree_expr. rewrite edge_items_ok. simpl. apply count_true_ok. apply items_cl.
  Qed.

  Definition hiZ : Z := (Z.of_nat (nv g) - 1)%Z.
  Definition pv (i : nat) : expr := BVar (base + i).
  Definition rk (j : nat) : expr := IVar (base + nv g + j) 0%Z hiZ.
  Definition rt (i : nat) : expr := BVar (base + nv g + nv g + i).
  Definition passedL : list expr := map BVar (seq base (nv g)).
  Definition rankL : list expr := map (fun i => IVar i 0%Z hiZ) (seq (base + nv g) (nv g)).
  Definition rootL : list expr := map BVar (seq (base + nv g + nv g) (nv g)).

  Definition gitem (i : nat) (je : nat * nat) : expr :=
    BNode AND [flag (snd je); i_ge (rk (fst je)) (rk i)].
  Definition gitems (i : nat) : list expr := map (gitem i) (incident g i).

  Lemma ge_items_ok i : i < nv g -> ge_items acts rankL g i = Ok (gitems i).
  Proof.
    intros Hi. unfold ge_items, gitems. apply mapM_all_ok. intros [j k] Hin. simpl.
    pose proof (incident_edge_lt g i j k Hin) as Hk.
    destruct (incident_vertex_lt g i j k Hwf Hin) as [_ Hj].
    rewrite (py_nth_ok acts k PyNone) by lia. simpl.
    rewrite (py_nth_some rankL j (rk j)) by (apply nth_error_map_seq; exact Hj). simpl.
    rewrite (py_nth_some rankL i (rk i)) by (apply nth_error_map_seq; exact Hi). simpl.
    unfold py_and, make_bool_expr. simpl. rewrite is_bool_expr_like_cl.
    fold (flag k). rewrite (flag_cl k Hk). reflexivity.
  Qed.

  Lemma gitems_cl i x : In x (gitems i) -> is_constraint_like x = true.
  Proof. unfold gitems. rewrite in_map_iff. intros [je [<- _]]. reflexivity. Qed.

  Definition c_deg (i : nat) : expr := i_eq (ct (items i)) (i_cond (pv i) (PyInt 2) (PyInt 0)).
  Definition c_rank (i : nat) : expr :=
    b_imp (pv i) (i_le (ct (gitems i)) (i_cond (rt i) (PyInt 2) (PyInt 1))).
  Definition c_root : expr := i_eq (ct rootL) (PyInt 1).
  Definition enc_cons : list expr :=
    flat_map (fun i => [c_deg i; c_rank i]) (seq 0 (nv g)) ++ [c_root].

  Lemma cycle_step_ok i s :
    i < nv g ->
    cycle_step acts passedL rankL rootL g i s = Ok (ensure (ensure s [c_deg i]) [c_rank i]).
  Proof.
    intros Hi. unfold cycle_step. rewrite degree_expr_ok. simpl.
    rewrite (py_nth_some passedL i (pv i)) by (apply nth_error_map_seq; exact Hi). simpl.
    rewrite ge_items_ok by exact Hi. simpl.
    rewrite (count_true_ok (gitems i) (gitems_cl i)). simpl.
    rewrite (py_nth_some rootL i (rt i)) by (apply nth_error_map_seq; exact Hi). simpl.
    reflexivity.
  Qed.

  Lemma cycle_step_prim_ok i s :
    i < nv g -> cycle_step_prim acts passedL g i s = Ok (ensure s [c_deg i]).
  Proof.
    intros Hi. unfold cycle_step_prim. rewrite degree_expr_ok. simpl.
    rewrite (py_nth_some passedL i (pv i)) by (apply nth_error_map_seq; exact Hi). simpl.
    reflexivity.
  Qed.

  Definition new_decls_enc : list vdecl :=
    repeat DBool (nv g) ++ repeat (DInt 0%Z hiZ) (nv g) ++ repeat DBool (nv g).

  Lemma post_cycle_enc_shape st :
    next_id st = base -> 1 <= nv g ->
    exists st', post_cycle st acts g false = Ok (st', passedL) /\
                vars st' = vars st ++ new_decls_enc /\
                cons st' = cons st ++ enc_cons.
  Proof.
    intros Hb Hn. unfold post_cycle, bool_array, int_array.
    rewrite bool_vars_spec. rewrite Hb.
    replace (Z.of_nat (nv g) - 1 <? 0)%Z with false by (symmetry; apply Z.ltb_ge; lia).
    rewrite int_vars_spec. cbn [bind]. rewrite bool_vars_spec.
    unfold next_id. cbn [vars keys cons].
    rewrite !app_length, !repeat_length. fold (next_id st). rewrite Hb.
    fold hiZ. fold passedL. fold rankL. fold rootL.
    rewrite (for_each_ok _ (fun i s => ensure (ensure s [c_deg i]) [c_rank i])).
    2:{ intros i s Hi. apply in_seq in Hi. apply cycle_step_ok. lia. }
    cbn [bind].
    rewrite (count_true_ok rootL).
    2:{ intros x Hx. unfold rootL in Hx. apply in_map_iff in Hx. destruct Hx as [? [<- _]]. reflexivity. }
    cbn [bind]. eexists. split; [reflexivity|].
    match goal with |- context [fold_left ?f ?l ?s] =>
      destruct (fold_ensure2 c_deg c_rank l s) as [H1 [H2 H3]] end.
    cbn [ensure vars cons]. rewrite H1, H3. cbn [vars cons].
    unfold new_decls_enc, enc_cons. rewrite <- !app_assoc. split; reflexivity.
  Qed.

  (* ---------------------------------------------------------------------- *)
  (* evaluation of the posted constraints = the certificate                  *)

  Section EvalEnc.
    Variable gsem : op -> list (option value) -> option bool.
    Variable en' : env.
    Variable A : nat -> bool.
    Hypothesis HA : forall k, k < length (edges g) -> eval gsem en' (flag k) = Some (VB (A k)).

    Definition eP (i : nat) : bool := eb en' (base + i).
    Definition er (i : nat) : Z := ei en' (base + nv g + i).
    Definition eR (i : nat) : bool := eb en' (base + nv g + nv g + i).

    Lemma items_boolish i x : In x (items i) -> boolish gsem en' x.
    Proof.
      intros Hx. split; [eapply items_cl; exact Hx|].
      unfold items in Hx. apply in_map_iff in Hx. destruct Hx as [[j k] [<- Hin]]. simpl.
      exists (A k). apply HA. eapply incident_edge_lt; exact Hin.
    Qed.

    Lemma eval_deg i :
      eval gsem en' (ct (items i)) = Some (VI (Z.of_nat (degree g A i))).
    Proof.
      destruct (count_true_eval gsem en' (items i) (items_boolish i)) as [_ H]. rewrite H.
      f_equal. f_equal. f_equal. unfold items. rewrite filter_map_length, degree_alt.
      apply filter_length_ext. intros [j k] Hin. simpl. unfold efl. simpl.
      apply holds_of_eval. apply HA. eapply incident_edge_lt; exact Hin.
    Qed.

    Lemma holds_c_deg i :
      holds gsem en' (c_deg i) = (Z.of_nat (degree g A i) =? (if eP i then 2 else 0))%Z.
    Proof.
      apply holds_of_eval. unfold c_deg. apply eval_i_eq; [apply eval_deg|].
      apply (eval_i_cond gsem en' (pv i) 2 0 (eP i)). reflexivity.
    Qed.

    Lemma eval_gitem i je :
      In je (incident g i) ->
      eval gsem en' (gitem i je) = Some (VB (efl A je && (er i <=? er (fst je))%Z)).
    Proof.
      intros Hin. destruct je as [j k]. unfold gitem. simpl fst. simpl snd.
      apply eval_b_and.
      - apply HA. eapply incident_edge_lt; exact Hin.
      - apply eval_i_ge; reflexivity.
    Qed.

    Lemma gitems_boolish i x : In x (gitems i) -> boolish gsem en' x.
    Proof.
      intros Hx. split; [eapply gitems_cl; exact Hx|].
      unfold gitems in Hx. apply in_map_iff in Hx. destruct Hx as [je [<- Hin]].
      eexists. apply eval_gitem. exact Hin.
    Qed.

    Lemma eval_cnt i :
      eval gsem en' (ct (gitems i)) = Some (VI (Z.of_nat (cnt_ge g A er i))).
    Proof.
      destruct (count_true_eval gsem en' (gitems i) (gitems_boolish i)) as [_ H]. rewrite H.
      f_equal. f_equal. f_equal. unfold gitems, cnt_ge. rewrite filter_map_length.
      apply filter_length_ext. intros je Hin. apply holds_of_eval. apply eval_gitem. exact Hin.
    Qed.

    Lemma holds_c_rank i :
      holds gsem en' (c_rank i) =
      implb (eP i) (Z.of_nat (cnt_ge g A er i) <=? (if eR i then 2 else 1))%Z.
    Proof.
      apply holds_of_eval. unfold c_rank. apply eval_b_imp; [reflexivity|].
      apply eval_i_le; [apply eval_cnt|].
      apply (eval_i_cond gsem en' (rt i) 2 1 (eR i)). reflexivity.
    Qed.

    Lemma holds_c_root :
      holds gsem en' c_root = (Z.of_nat (length (filter eR (seq 0 (nv g)))) =? 1)%Z.
    Proof.
      apply holds_of_eval. unfold c_root. apply eval_i_eq; [|reflexivity].
      assert (Hb : forall x, In x rootL -> boolish gsem en' x).
      { intros x Hx. unfold rootL in Hx. apply in_map_iff in Hx. destruct Hx as [id [<- _]].
        split; [reflexivity|]. eexists; reflexivity. }
      destruct (count_true_eval gsem en' rootL Hb) as [_ H]. rewrite H.
      f_equal. f_equal. f_equal. unfold rootL.
      rewrite (seq_add_map (base + nv g + nv g)), map_map, filter_map_length.
      apply filter_length_ext. intros i _. apply holds_of_eval. reflexivity.
    Qed.

    Lemma enc_cons_holds :
      forallb (holds gsem en') enc_cons = true <-> cert g A eP er eR.
    Proof.
      unfold enc_cons. rewrite forallb_app, andb_true_iff, forallb_pairs. simpl.
      rewrite andb_true_r, holds_c_root. unfold cert. split.
      - intros [H1 H3]. split; [|split].
        + intros i Hi. destruct (H1 i) as [Hd _]; [apply in_seq; lia|].
          rewrite holds_c_deg in Hd. apply Z.eqb_eq in Hd. destruct (eP i); lia.
        + intros i Hi HP. destruct (H1 i) as [_ Hr]; [apply in_seq; lia|].
          rewrite holds_c_rank, HP in Hr. simpl in Hr. apply Z.leb_le in Hr. destruct (eR i); lia.
        + apply Z.eqb_eq in H3. lia.
      - intros [H1 [H2 H3]]. split.
        + intros i Hi. apply in_seq in Hi. split.
          * rewrite holds_c_deg. apply Z.eqb_eq. rewrite (H1 i) by lia. destruct (eP i); reflexivity.
          * rewrite holds_c_rank. destruct (eP i) eqn:HP; [|reflexivity]. simpl.
            apply Z.leb_le. assert (Hi' : i < nv g) by lia. specialize (H2 i Hi' HP). destruct (eR i); lia.
        + apply Z.eqb_eq. rewrite H3. reflexivity.
    Qed.
  End EvalEnc.
End Shape.
