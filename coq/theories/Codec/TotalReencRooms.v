(* C17: whatever Rooms.deserialize returns - for ANY border bitmaps, redundant borders included -
   is a canonical partition of the declared board: every cell in exactly one room, no empty room,
   every room orthogonally connected, cells in row-major order, rooms ordered by their least cell.
   That is the domain on which C15 proves Rooms.serialize / deserialize inverse to each other
   (decode_borders_canonical) and on which serialization succeeds (RoomsTotal.rooms_ser_total);
   hence a decoded rooms problem is always re-encodable.

   The flood fill is followed with two invariants on top of Codec/TotalRooms.v's:
   fill_loop: every cell that received the current id is joined to the seed by a path of adjacent
   cells with that id, every cell on the work list is the seed or adjacent to such a cell;
   fill_all: the seed of room i is its least cell, seeds increase with i.                       *)
From Coq Require Import ZArith List Ascii Bool NArith Lia Sorting.Permutation Sorting.Sorted.
From Cspuz Require Import Lib.PyErr Codec.Comb Codec.CombWf Codec.CombBasics Codec.RoomsGrid Codec.RoomsFill Codec.RoomsProofs
  Codec.TotalModel Codec.TotalLeaf Codec.TotalDims Codec.TotalReencModel Codec.TotalReenc Codec.TotalRooms.
Import ListNotations.
Local Open Scope Z_scope.

(* ------------------------------------------------------------------ paths inside a set of cells *)
Inductive pc (P : cell -> Prop) (a : cell) : cell -> Prop :=
  | pc_refl : P a -> pc P a a
  | pc_step b c : pc P a b -> P c -> adjacent b c -> pc P a c.

Lemma pc_mono (P Q : cell -> Prop) a b : (forall c, P c -> Q c) -> pc P a b -> pc Q a b.
Proof. intros HPQ. induction 1; [apply pc_refl|eapply pc_step]; eauto. Qed.

Lemma pc_in_r P a b : pc P a b -> P b.
Proof. destruct 1; auto. Qed.

Lemma adjacent_sym a b : adjacent a b -> adjacent b a.
Proof. unfold adjacent. intuition lia. Qed.

Lemma pc_trans P a b c : pc P a b -> pc P b c -> pc P a c.
Proof. intros Hab. induction 1; auto. eapply pc_step; eauto. Qed.

Lemma pc_sym P a b : pc P a b -> pc P b a.
Proof.
  induction 1 as [Ha|b c Hab IH Hc Hadj]; [apply pc_refl; auto|].
  apply pc_trans with b; auto. apply (pc_step P c c b); [apply pc_refl; auto|eapply pc_in_r; eauto|apply adjacent_sym; auto].
Qed.

Lemma pc_conn r a b : pc (fun c => In c r) a b -> conn r a b.
Proof. induction 1; [apply conn_refl|eapply conn_step]; eauto. Qed.

(* ------------------------------------------------------------------ splitting a list by a key *)
Lemma insert_perm (a : cell) (F : nat -> list cell) (j : nat) : forall m s,
  Permutation (concat (map (fun i => if Nat.eqb i j then a :: F i else F i) (seq s m)))
              ((if (s <=? j)%nat && (j <? s + m)%nat then [a] else []) ++ concat (map F (seq s m))).
Proof.
  induction m as [|m IH]; intros s; simpl.
  - destruct (Nat.leb_spec s j); destruct (Nat.ltb_spec j (s + 0)); simpl; auto; lia.
  - specialize (IH (S s)). destruct (Nat.eqb_spec s j) as [E|N].
    + subst s.
      replace ((S j <=? j)%nat && (j <? S j + m)%nat) with false in IH
        by (symmetry; apply andb_false_iff; left; apply Nat.leb_gt; lia).
      replace ((j <=? j)%nat && (j <? j + S m)%nat) with true
        by (symmetry; apply andb_true_iff; split; [apply Nat.leb_le|apply Nat.ltb_lt]; lia).
      simpl in *. apply perm_skip. apply Permutation_app_head. exact IH.
    + replace ((s <=? j)%nat && (j <? s + S m)%nat) with ((S s <=? j)%nat && (j <? S s + m)%nat).
      2:{ destruct (Nat.leb_spec (S s) j); destruct (Nat.leb_spec s j); destruct (Nat.ltb_spec j (S s + m));
          destruct (Nat.ltb_spec j (s + S m)); simpl; auto; lia. }
      etransitivity; [apply Permutation_app_head; exact IH|]. apply Permutation_app_swap_app.
Qed.

Lemma concat_map_nil {A B} (l : list B) : concat (map (fun _ => @nil A) l) = [].
Proof. induction l; simpl; auto. Qed.

Lemma part_perm (rid : cell -> Z) (n : nat) : forall l, (forall c, In c l -> 0 <= rid c < Z.of_nat n) ->
  Permutation (concat (map (fun i => filter (fun c => rid c =? Z.of_nat i) l) (seq 0 n))) l.
Proof.
  induction l as [|a l IH]; intros Hr.
  - simpl. rewrite concat_map_nil. constructor.
  - pose proof (Hr a (or_introl eq_refl)) as Ha. set (j := Z.to_nat (rid a)).
    assert (Hm : map (fun i => filter (fun c => rid c =? Z.of_nat i) (a :: l)) (seq 0 n)
               = map (fun i => if Nat.eqb i j then a :: filter (fun c => rid c =? Z.of_nat i) l
                               else filter (fun c => rid c =? Z.of_nat i) l) (seq 0 n)).
    { apply map_ext. intros i. simpl.
      destruct (Z.eqb_spec (rid a) (Z.of_nat i)); destruct (Nat.eqb_spec i j); auto; unfold j in *; lia. }
    rewrite Hm. etransitivity; [apply insert_perm|].
    replace ((0 <=? j)%nat && (j <? 0 + n)%nat) with true
      by (symmetry; apply andb_true_iff; split; [apply Nat.leb_le|apply Nat.ltb_lt]; unfold j; lia).
    simpl. apply perm_skip. apply IH. intros c Hc. apply Hr. right; auto.
Qed.

Lemma sorted_map_seq {A} (R : A -> A -> Prop) (f : nat -> A) : forall m s,
  (forall i j, (s <= i < j)%nat -> (j < s + m)%nat -> R (f i) (f j)) -> StronglySorted R (map f (seq s m)).
Proof.
  induction m as [|m IH]; intros s Hf; simpl; constructor.
  - apply IH. intros i j Hij Hj. apply Hf; lia.
  - apply Forall_forall. intros x Hx. apply in_map_iff in Hx as (j & <- & Hj). apply in_seq in Hj. apply Hf; lia.
Qed.

Lemma sorted_before {A} (R : A -> A -> Prop) l1 a l2 : StronglySorted R (l1 ++ a :: l2) -> forall b, In b l1 -> R b a.
Proof.
  induction l1 as [|x l1 IH]; simpl; intros Hs b Hb; [contradiction|].
  inversion Hs as [|? ? Hs' Hf]; subst. destruct Hb as [<-|Hb].
  - rewrite Forall_forall in Hf. apply Hf. apply in_or_app. right; left; auto.
  - eapply IH; eauto.
Qed.

(* ------------------------------------------------------------------ the fill on arbitrary border bitmaps *)
Lemma dpush_in cond flag nb st c : In c (dpush cond flag nb st) -> In c st \/ (cond = true /\ c = nb).
Proof.
  unfold dpush. destruct cond; auto. destruct (flag =? 0); auto. intros [<-|H]; auto.
Qed.

Section Fill.
  Variables (H W : nat).
  Variables (vg hg : list (list Z)).
  Hypothesis Hvg : wfg H (W - 1) vg.
  Hypothesis Hhg : wfg (H - 1) W hg.

  Notation inb := (inb H W).
  Notation cellsHW := (cells_of (Z.of_nat H) (Z.of_nat W)).

  Lemma pushes_adj y x st c : inb (y, x) -> In c (pushes H W vg hg y x st) ->
    In c st \/ (inb c /\ adjacent (y, x) c).
  Proof.
    intros [Hy Hx] Hin. simpl in Hy, Hx. unfold pushes in Hin.
    apply dpush_in in Hin as [Hin|[Hc ->]].
    2:{ right. apply Z.ltb_lt in Hc. split; [split; simpl; lia|]. left. simpl. split; auto. left. lia. }
    apply dpush_in in Hin as [Hin|[Hc ->]].
    2:{ right. apply Z.ltb_lt in Hc. split; [split; simpl; lia|]. left. simpl. split; auto. right. lia. }
    apply dpush_in in Hin as [Hin|[Hc ->]].
    2:{ right. apply Z.ltb_lt in Hc. split; [split; simpl; lia|]. right. simpl. split; auto. left. lia. }
    apply dpush_in in Hin as [Hin|[Hc ->]]; auto.
    right. apply Z.ltb_lt in Hc. split; [split; simpl; lia|]. right. simpl. split; auto. right. lia.
  Qed.

  (* the cells holding id *)
  Definition Pid (g : list (list Z)) (id : Z) (c : cell) : Prop := inb c /\ getc g c = Ok id.

  Lemma getc_set_same g y x v : wfg H W g -> inb (y, x) -> getc (grid_set g y x v) (y, x) = Ok v.
  Proof. intros Hw [Hy Hx]. apply (grid_get_set_same H W); auto. Qed.

  Lemma getc_set_other g y x v c : c <> (y, x) -> getc (grid_set g y x v) c = getc g c.
  Proof.
    intros Hne. unfold getc. apply grid_get_set_other. intros E. apply Hne. destruct c; simpl in *. congruence.
  Qed.

  Lemma cell_dec (a b : cell) : a = b \/ a <> b.
  Proof.
    destruct a as [a1 a2], b as [b1 b2].
    destruct (Nat.eq_dec a1 b1); destruct (Nat.eq_dec a2 b2); subst; auto; right; congruence.
  Qed.

  Lemma fill_loop_conn id seed : id <> -1 -> forall fuel g st g',
    wfg H W g -> Forall inb st ->
    fill_loop fuel (Z.of_nat H) (Z.of_nat W) vg hg g st id = Ok g' ->
    (forall c, Pid g id c -> pc (Pid g id) seed c) ->
    (forall c, In c st -> c = seed \/ exists b, Pid g id b /\ adjacent b c) ->
    forall c, Pid g' id c -> pc (Pid g' id) seed c.
  Proof.
    intros Hid. induction fuel as [|f IH]; intros g st g' Hw Hst Hfl HA HB.
    { destruct st as [|[y x] st]; simpl in Hfl; [|discriminate]. inversion Hfl; subst. exact HA. }
    destruct st as [|[y x] st].
    { simpl in Hfl. inversion Hfl; subst. exact HA. }
    inversion Hst as [|? ? Hc Hst']; subst.
    rewrite (fill_loop_unfold H W vg hg Hvg Hhg f g y x st id Hc) in Hfl.
    pose proof Hc as [Hy Hx]. simpl in Hy, Hx.
    destruct (grid_get_in H W g y x Hw Hy Hx) as [v Hv]. rewrite Hv in Hfl.
    destruct (Z.eqb_spec v (-1)) as [Ev|Ev]; simpl in Hfl.
    - subst v. set (g2 := grid_set g y x id) in *.
      assert (Hw2 : wfg H W g2) by (apply grid_set_wfg; auto).
      assert (Hsame : getc g2 (y, x) = Ok id) by (apply getc_set_same; auto).
      assert (Hsub : forall c, Pid g id c -> Pid g2 id c).
      { intros c [Hci Hcg]. split; auto. destruct (cell_dec c (y, x)) as [->|Hne].
        - unfold getc in Hcg. simpl in Hcg. congruence.
        - unfold g2. rewrite getc_set_other; auto. }
      apply (IH g2 (pushes H W vg hg y x st) g' Hw2); auto.
      + apply pushes_inb; auto.
      + intros c [Hci Hcg]. destruct (cell_dec c (y, x)) as [->|Hne].
        * destruct (HB (y, x) (or_introl eq_refl)) as [E|(b & Hb & Hadj)].
          -- rewrite <- E. apply pc_refl. split; [exact Hc|exact Hsame].
          -- apply (pc_step _ seed b (y, x)); auto.
             ++ eapply pc_mono; [exact Hsub|]. apply HA. exact Hb.
             ++ split; [exact Hc|exact Hsame].
        * eapply pc_mono; [exact Hsub|]. apply HA. split; auto.
          unfold g2 in Hcg. rewrite getc_set_other in Hcg; auto.
      + intros c Hin. apply pushes_adj in Hin as [Hin|[Hci Hadj]]; auto.
        * destruct (HB c (or_intror Hin)) as [->|(b & Hb & Hadj)]; auto. right. exists b. auto.
        * right. exists (y, x). split; auto. split; [exact Hc|exact Hsame].
    - apply (IH g st g' Hw); auto. intros c Hin. apply HB. right; auto.
  Qed.

  (* ---------------------------------------------------------------- the scan *)
  Definition seed_ok (g : list (list Z)) (done seeds : list cell) : Prop :=
    forall i, (i < length seeds)%nat ->
      In (nth i seeds (0, 0)%nat) done /\ Pid g (Z.of_nat i) (nth i seeds (0, 0)%nat) /\
      forall c, Pid g (Z.of_nat i) c ->
        (c = nth i seeds (0, 0)%nat \/ cell_lt (nth i seeds (0, 0)%nat) c) /\
        pc (Pid g (Z.of_nat i)) (nth i seeds (0, 0)%nat) c.

  Definition FInv (g : list (list Z)) (done seeds : list cell) : Prop :=
    wfg H W g /\ vals_lt H W g (Z.of_nat (length seeds)) /\
    (forall c, In c done -> getc g c <> Ok (-1)) /\
    seed_ok g done seeds /\ StronglySorted cell_lt seeds.

  Lemma fill_all_inv : forall todo done g seeds g' n',
    cellsHW = done ++ todo -> FInv g done seeds ->
    fill_all (Z.of_nat H) (Z.of_nat W) vg hg todo g (Z.of_nat (length seeds)) = Ok (g', n') ->
    exists seeds', n' = Z.of_nat (length seeds') /\ FInv g' cellsHW seeds'.
  Proof.
    induction todo as [|[y x] todo IH]; intros done g seeds g' n' Hcells HI Hfa.
    { simpl in Hfa. inversion Hfa; subst. rewrite app_nil_r in Hcells. subst done. exists seeds. auto. }
    destruct HI as (Hw & Hvals & Hdone & Hseeds & Hsorted).
    assert (Hc : inb (y, x)).
    { pose proof (cells_inb H W) as HF. rewrite Forall_forall in HF. apply HF. rewrite Hcells. apply in_or_app. right; left; auto. }
    pose proof Hc as [Hy Hx]. simpl in Hy, Hx.
    cbn [fill_all] in Hfa. destruct (grid_get_in H W g y x Hw Hy Hx) as [v Hv]. rewrite Hv in Hfa.
    assert (Hcsorted : StronglySorted cell_lt (done ++ (y, x) :: todo)) by (rewrite <- Hcells; apply cells_of_sorted).
    destruct (Z.eqb_spec v (-1)) as [Ev|Ev].
    - subst v. set (k := Z.of_nat (length seeds)) in *.
      destruct (fill_loop_ok H W vg hg Hvg Hhg k ltac:(unfold k; lia) (fill_fuel (Z.of_nat H) (Z.of_nat W)) g [(y, x)] Hw)
        as (g1 & E1 & Hw1 & Hb1 & Hc1 & Hd1).
      { constructor; [exact Hc|constructor]. }
      { pose proof (unassigned_bound H W g Hw). unfold fill_fuel. rewrite !Nat2Z.id. simpl length. lia. }
      rewrite E1 in Hfa.
      replace (k + 1) with (Z.of_nat (length (seeds ++ [(y, x)]))) in Hfa by (rewrite app_length; simpl; unfold k; lia).
      apply (IH (done ++ [(y, x)]) g1 (seeds ++ [(y, x)]) g' n'); auto.
      { rewrite <- app_assoc. exact Hcells. }
      (* the cells that hold k after the fill were unassigned before *)
      assert (Hfresh : forall c, Pid g1 k c -> getc g c = Ok (-1)).
      { intros c [Hci Hcg]. destruct Hci as [Hcy Hcx].
        destruct (grid_get_in H W g (fst c) (snd c) Hw Hcy Hcx) as [v0 Hv0]. change (getc g c = Ok v0) in Hv0.
        destruct (Z.eq_dec v0 (-1)) as [->|Hne]; auto.
        pose proof (Hb1 c v0 (conj Hcy Hcx) Hv0 Hne) as E. rewrite Hcg in E. inversion E; subst v0.
        destruct (Hvals c k (conj Hcy Hcx) Hv0); unfold k in *; lia. }
      assert (Hk1 : Pid g1 k (y, x)).
      { split; auto. destruct (grid_get_in H W g1 y x Hw1 Hy Hx) as [v1 Hv1]. change (getc g1 (y, x) = Ok v1) in Hv1.
        destruct (Hc1 (y, x) v1 Hc Hv1) as [E|E]; [|congruence].
        exfalso. apply (Hd1 (y, x) (or_introl eq_refl)). unfold getc in E. simpl in E. congruence. }
      split; [exact Hw1|]. split; [|split; [|split]].
      + intros c v Hci Hcg. rewrite app_length. simpl length.
        destruct (Hc1 c v Hci Hcg) as [E| ->]; [|right; unfold k; lia].
        destruct (Hvals c v Hci E); [auto|right; lia].
      + intros c Hin. apply in_app_or in Hin as [Hin|[<-|[]]].
        * assert (Hci : inb c).
          { pose proof (cells_inb H W) as HF. rewrite Forall_forall in HF. apply HF. rewrite Hcells. apply in_or_app; auto. }
          destruct Hci as [Hcy Hcx]. destruct (grid_get_in H W g (fst c) (snd c) Hw Hcy Hcx) as [v0 Hv0].
          change (getc g c = Ok v0) in Hv0.
          assert (v0 <> -1) by (intros ->; apply (Hdone c Hin); exact Hv0).
          rewrite (Hb1 c v0 (conj Hcy Hcx) Hv0); auto. congruence.
        * apply Hd1. left; auto.
      + intros i Hi. rewrite app_length in Hi. simpl in Hi.
        destruct (Nat.lt_ge_cases i (length seeds)) as [Hlt|Hge].
        * rewrite app_nth1 by auto. destruct (Hseeds i Hlt) as (S1 & S2 & S3).
          assert (Hsub : forall c, Pid g (Z.of_nat i) c -> Pid g1 (Z.of_nat i) c).
          { intros c [Hci Hcg]. split; auto. apply Hb1; auto. lia. }
          assert (Hback : forall c, Pid g1 (Z.of_nat i) c -> Pid g (Z.of_nat i) c).
          { intros c [Hci Hcg]. split; auto. destruct (Hc1 c _ Hci Hcg) as [E|E]; auto. unfold k in E. lia. }
          split; [apply in_or_app; auto|]. split; [auto|].
          intros c Hcp. destruct (S3 c (Hback c Hcp)) as [T1 T2]. split; auto.
          eapply pc_mono; [exact Hsub|exact T2].
        * assert (i = length seeds) by lia. subst i. rewrite app_nth2 by lia. rewrite Nat.sub_diag. simpl nth.
          fold k. split; [apply in_or_app; right; left; auto|]. split; [exact Hk1|].
          intros c Hcp. split.
          -- pose proof (Hfresh c Hcp) as Hun. destruct Hcp as [Hci _].
             assert (Hin : In c (done ++ (y, x) :: todo)).
             { rewrite <- Hcells. destruct c. apply cells_of_in. exact Hci. }
             apply in_app_or in Hin as [Hin|[<-|Hin]]; auto.
             ++ exfalso. apply (Hdone c Hin). exact Hun.
             ++ right. eapply sorted_after; eauto.
          -- assert (HFi : Forall inb [(y, x)]) by (constructor; [exact Hc|constructor]).
             apply (fill_loop_conn k (y, x) ltac:(unfold k; lia) (fill_fuel (Z.of_nat H) (Z.of_nat W)) g [(y, x)] g1 Hw HFi E1).
             ++ intros c0 [Hci Hcg]. exfalso. destruct (Hvals c0 k Hci Hcg); unfold k in *; lia.
             ++ intros c0 [<-|[]]. left; auto.
             ++ exact Hcp.
      + apply StronglySorted_app; auto.
        * constructor; constructor.
        * intros a b Ha [<-|[]]. apply (In_nth seeds a (0, 0)%nat) in Ha as (i & Hi & <-).
          destruct (Hseeds i Hi) as (S1 & _). eapply sorted_before; eauto.
    - apply (IH (done ++ [(y, x)]) g seeds g' n'); auto.
      { rewrite <- app_assoc. exact Hcells. }
      split; [exact Hw|]. split; [exact Hvals|]. split; [|split; [|exact Hsorted]].
      + intros c Hin. apply in_app_or in Hin as [Hin|[<-|[]]]; auto.
        unfold getc. simpl. rewrite Hv. congruence.
      + intros i Hi. destruct (Hseeds i Hi) as (S1 & S2 & S3). split; [apply in_or_app; auto|]. auto.
  Qed.

  (* ---------------------------------------------------------------- what the final grid says about the rooms *)
  Section Final.
    Variables (g : list (list Z)) (seeds : list cell).
    Hypothesis HF : FInv g cellsHW seeds.

    Definition ridf (c : cell) : Z := match getc g c with Ok v => v | Err _ => 0 end.
    Definition nrooms : nat := length seeds.
    Definition room (i : nat) : list cell := room_cells_of ridf cellsHW i.
    Definition rooms_fin : list (list cell) := map room (seq 0 nrooms).

    Lemma fin_inb c : In c cellsHW <-> inb c.
    Proof. destruct c. apply cells_of_in. Qed.

    Lemma fin_get c : inb c -> getc g c = Ok (ridf c) /\ 0 <= ridf c < Z.of_nat nrooms.
    Proof.
      intros Hc. destruct HF as (Hw & Hvals & Hdone & _). pose proof Hc as [Hy Hx].
      destruct (grid_get_in H W g (fst c) (snd c) Hw Hy Hx) as [v Hv]. change (getc g c = Ok v) in Hv.
      unfold ridf. rewrite Hv. split; auto.
      destruct (Hvals c v Hc Hv) as [->|Hr]; [|exact Hr].
      exfalso. apply (Hdone c); [apply fin_inb; auto|exact Hv].
    Qed.

    Lemma fin_room_in i c : In c (room i) <-> Pid g (Z.of_nat i) c.
    Proof.
      unfold room, room_cells_of. rewrite filter_In, fin_inb, Z.eqb_eq. split.
      - intros [Hc E]. split; auto. destruct (fin_get c Hc) as [Hg _]. congruence.
      - intros [Hc Hg]. split; auto. destruct (fin_get c Hc) as [Hg' _]. congruence.
    Qed.

    Lemma fin_room_sorted i : StronglySorted cell_lt (room i).
    Proof. apply filter_sorted. apply cells_of_sorted. Qed.

    Lemma fin_head i : (i < nrooms)%nat -> room_head (room i) = nth i seeds (0, 0)%nat.
    Proof.
      intros Hi. destruct HF as (_ & _ & _ & Hseeds & _). destruct (Hseeds i Hi) as (_ & S2 & S3).
      set (s := nth i seeds (0, 0)%nat) in *.
      assert (Hs : In s (room i)) by (apply fin_room_in; auto).
      pose proof (fin_room_sorted i) as Hsorted.
      destruct (room i) as [|h r] eqn:Er; [contradiction|]. simpl.
      assert (Hh : Pid g (Z.of_nat i) h) by (apply fin_room_in; rewrite Er; left; auto).
      destruct (S3 h Hh) as [[E|Hlt] _]; auto.
      destruct Hs as [E|Hin]; auto. inversion Hsorted as [|? ? _ Hf]; subst. rewrite Forall_forall in Hf.
      exfalso. apply (cell_lt_irrefl h). eapply cell_ltb_trans; [apply Hf; exact Hin|exact Hlt].
    Qed.

    Theorem fin_canonical : canonical_rooms (Z.of_nat H) (Z.of_nat W) rooms_fin.
    Proof.
      pose proof HF as (Hw & Hvals & Hdone & Hseeds & Hsorted).
      split; [split; [|split]|split].
      - apply Forall_forall. intros r Hr. apply in_map_iff in Hr as (i & <- & Hi). apply in_seq in Hi.
        destruct (Hseeds i ltac:(unfold nrooms in *; lia)) as (_ & S2 & _). apply fin_room_in in S2.
        intros E. rewrite E in S2. exact S2.
      - unfold rooms_fin, room, room_cells_of. apply part_perm. intros c Hc. apply fin_inb in Hc. apply fin_get; auto.
      - apply Forall_forall. intros r Hr. apply in_map_iff in Hr as (i & <- & Hi). apply in_seq in Hi.
        destruct (Hseeds i ltac:(unfold nrooms in *; lia)) as (_ & _ & S3).
        intros a b Ha Hb. apply fin_room_in in Ha, Hb.
        destruct (S3 a Ha) as [_ Pa]. destruct (S3 b Hb) as [_ Pb].
        apply pc_conn. eapply pc_mono; [|exact (pc_trans _ _ _ _ (pc_sym _ _ _ Pa) Pb)].
        intros c Hc. apply fin_room_in. exact Hc.
      - apply Forall_forall. intros r Hr. apply in_map_iff in Hr as (i & <- & _). apply fin_room_sorted.
      - apply sorted_map_seq. intros i j Hij Hj. rewrite !fin_head by lia.
        apply (sorted_nth _ seeds (0, 0)%nat Hsorted i j). unfold nrooms in *. lia.
    Qed.
  End Final.
End Fill.

(* ------------------------------------------------------------------ the part of Rooms._deserialize after the borders have been read *)
Lemma FInv_start H W : FInv H W (neg_grid (Z.of_nat H) (Z.of_nat W)) [] [].
Proof.
  split; [apply neg_grid_wfg|]. split; [|split; [intros c []|split; [|constructor]]].
  - intros c v [Hy Hx] Hg. left. unfold getc in Hg. rewrite neg_grid_mk, mk_grid_get in Hg by auto. congruence.
  - intros i Hi. simpl in Hi. lia.
Qed.

Theorem rooms_of_borders_canonical H W allow vg hg v : wfg H (W - 1) vg -> wfg (H - 1) W hg ->
  rooms_of_borders (Z.of_nat H) (Z.of_nat W) allow vg hg = Ok v ->
  exists rs, v = rooms_to_pv rs /\ canonical_rooms (Z.of_nat H) (Z.of_nat W) rs.
Proof.
  intros Hvg Hhg. unfold rooms_of_borders.
  destruct (fill_all (Z.of_nat H) (Z.of_nat W) vg hg (cells_of (Z.of_nat H) (Z.of_nat W)) (neg_grid (Z.of_nat H) (Z.of_nat W)) 0)
    as [[g n]|] eqn:Efa; [|discriminate].
  destruct (fill_all_inv H W vg hg Hvg Hhg (cells_of (Z.of_nat H) (Z.of_nat W)) [] _ [] g n eq_refl (FInv_start H W) Efa)
    as (seeds & -> & HF).
  destruct (if allow then Ok tt else redundant_check (Z.of_nat H) (Z.of_nat W) vg hg g (cells_of (Z.of_nat H) (Z.of_nat W)));
    [|discriminate].
  rewrite Nat2Z.id.
  destruct (RoomsFill.collect_inv H W (ridf g) (length seeds)
              (fun c Hc => proj2 (fin_get H W g seeds HF c Hc)) g
              (fun c Hc => proj1 (fin_get H W g seeds HF c Hc))
              (cells_of (Z.of_nat H) (Z.of_nat W)) [] (repeat [] (length seeds)))
    as (rs' & Hco & Hlen & Hrs).
  - intros c Hc. apply (fin_inb H W). exact Hc.
  - apply repeat_length.
  - intros i Hi. rewrite nth_repeat. reflexivity.
  - rewrite Hco. intros Hv. inversion Hv; subst v. exists (rooms_fin H W g seeds). split.
    + simpl in Hrs. unfold rooms_to_pv, rooms_fin, room. f_equal.
      rewrite (RoomsFill.list_eq_map_seq (length seeds) rs' [] (fun i => map cell_to_pv (room_cells_of (ridf g) (cells_of (Z.of_nat H) (Z.of_nat W)) i)) Hlen Hrs).
      rewrite !map_map. reflexivity.
    + apply fin_canonical. exact HF.
Qed.

(* ------------------------------------------------------------------ Rooms.deserialize *)
Theorem rooms_canon_holds e : rooms_canon e.
Proof.
  intros skip allow s n items Hde. simpl in Hde. unfold rooms_de in Hde.
  apply TotalRooms.skip_value_error_some in Hde. revert Hde.
  unfold rooms_de_raw. cbv zeta.
  destruct (Z.leb_spec (height e) 0) as [Hh|Hh]; simpl orb; [discriminate|].
  destruct (Z.leb_spec (width e) 0) as [Hw|Hw]; simpl orb; [discriminate|].
  pose proof (grid_de_good (md_de 2 5) false isint e (Some (height e, width e - 1)) (md_good 2 5)) as G1.
  pose proof (grid_de_good (md_de 2 5) false isint e (Some (height e - 1, width e)) (md_good 2 5)) as G2.
  simpl fst in *; simpl snd in *.
  specialize (G1 ltac:(nia) s). destruct G1 as [_ R1].
  destruct (grid_de (md_de 2 5) e (Some (height e, width e - 1)) s) as [[[n1 v1]|]|] eqn:E1; try discriminate.
  destruct (R1 n1 v1 eq_refl) as (_ & d1 & -> & L1 & I1).
  specialize (G2 ltac:(nia) (skipn n1 s)). destruct G2 as [_ R2].
  destruct (grid_de (md_de 2 5) e (Some (height e - 1, width e)) (skipn n1 s)) as [[[n2 v2]|]|] eqn:E2; try discriminate.
  destruct (R2 n2 v2 eq_refl) as (_ & d2 & -> & L2 & I2).
  set (H := Z.to_nat (height e)). set (W := Z.to_nat (width e)).
  assert (EH : height e = Z.of_nat H) by (unfold H; lia).
  assert (EW : width e = Z.of_nat W) by (unfold W; lia).
  destruct (as_int_grid_rows (W - 1) H d1 I1) as (vg & Ev & Hvg). { nia. }
  destruct (as_int_grid_rows W (H - 1) d2 I2) as (hg & Eh & Hhg). { nia. }
  replace (Z.to_nat (width e - 1)) with (W - 1)%nat by (unfold W; lia).
  replace (Z.to_nat (height e - 1)) with (H - 1)%nat by (unfold H; lia).
  fold H W. rewrite Ev, Eh. rewrite EH, EW.
  destruct (rooms_of_borders (Z.of_nat H) (Z.of_nat W) allow vg hg) as [v|] eqn:Er; [|discriminate].
  destruct (rooms_of_borders_canonical H W allow vg hg v Hvg Hhg Er) as (rs & -> & Hcan).
  intros Hk. inversion Hk; subst. exists rs. auto.
Qed.

(* a successful decode of Rooms returns one canonical partition of the declared board *)
Theorem rooms_de_canonical e skip allow s n items : de e (Rooms skip allow) s = Ok (Some (n, items)) ->
  exists rs, items = [rooms_to_pv rs] /\ canonical_rooms (height e) (width e) rs.
Proof. apply rooms_canon_holds. Qed.
