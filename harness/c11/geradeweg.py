"""C11 plug-in: geradeweg (solve_geradeweg(height, width, problem)); 0 = no number, n >= 1 number."""
import c11lib as L

NAME = "geradeweg"
MODULE = "cspuz.puzzle.geradeweg"
FUNC = "solve_geradeweg"
LOOP = True


def call(mod, pb):
    return mod.solve_geradeweg(pb["h"], pb["w"], pb["grid"])


def ncand(pb):
    return 2 ** L.n_loop_edges(pb['h'], pb['w'])


def encode(pb):
    return [[pb["h"], pb["w"]], L.flat(pb["grid"])]


def _values(h, w):
    return list(range(0, max(h, w) + 1))


def families(tier, rng):
    th = tier == "thorough"
    for (h, w) in [(1, 1), (1, 2), (2, 1), (2, 2), (1, 3), (3, 1)] + ([(2, 3), (3, 2)] if th else []):
        for g in L.all_grids(h, w, _values(h, w)):
            yield {"h": h, "w": w, "grid": g}
    for (h, w) in [(2, 3), (3, 2), (3, 3), (2, 4), (4, 2), (2, 5)] + ([(3, 4), (4, 3)] if th else []):
        for _ in range(200 if th else 25):
            yield {"h": h, "w": w, "grid": L.random_grid(rng, h, w, _values(h, w), 0.7)}


def tier2(tier, rng):
    th = tier == "thorough"
    for (h, w) in [(1, 1), (1, 2), (2, 1)]:
        for g in L.all_grids(h, w, _values(h, w)):
            yield {"h": h, "w": w, "grid": g}
    for g in L.sample(rng, L.all_grids(2, 2, _values(2, 2)), 30 if th else 5):
        yield {"h": 2, "w": 2, "grid": g}
