(* C11 Tier 1 - geradeweg: for every board shape and every clue layout, the program posted by solve_geradeweg
   (model Geradeweg.v: the single-cycle helper of property C06 on the frame whose points are the cells, and per
   numbered cell "the cell is passed" + one implication per axis about the lengths of the straight runs) has a
   model reading as [ans] on the frame exactly when [ans] obeys Rules_geradeweg.  The graph side is
   CycleCompose.cycle_frame_compose; the local side shows that the nested cond-trees of line_length evaluate to
   the run lengths PuzzleBase.run_len of the rules and that fold_or of the two neighbouring segments says "the
   run along this axis is not empty".  Boards with height <= 0 or width <= 0 are rejected by the Python and by the
   model (ValueError), the theorem is vacuous there. *)
From Coq Require Import ZArith List Bool Arith Lia.
From Cspuz Require Import Lib.PyErr Core.Expr Core.Program Graph.GraphModel Graph.Cycle
     Puzzle.PuzzleBase Puzzle.SatAbs Puzzle.ModelBase Puzzle.ModelLemmas
     Puzzle.CycleFrameBase Puzzle.CycleCompose Puzzle.Rules_geradeweg Puzzle.Geradeweg.
Import ListNotations.
Local Open Scope nat_scope.

Notation b2z := PuzzleBase.b2z.

(* ------------------------------------------------------------------------------------------------------ *)
(* 1. line_length evaluates to the number of leading drawn segments of the list                            *)

Fixpoint gw_prefix_run (f : nat -> bool) (ids : list nat) : nat :=
  match ids with
  | [] => 0
  | i :: r => if f i then S (gw_prefix_run f r) else 0
  end.

Lemma gw_prefix_run_ext f g ids :
  (forall i, In i ids -> f i = g i) -> gw_prefix_run f ids = gw_prefix_run g ids.
Proof.
  induction ids as [|i r IH]; intros H; [reflexivity|]. simpl.
  rewrite (H i) by (left; reflexivity). rewrite IH by (intros j Hj; apply H; right; exact Hj). reflexivity.
Qed.

Lemma gw_eval_line_length gsem en ids :
  eval gsem en (gw_line_length ids) = Some (VI (Z.of_nat (gw_prefix_run (eb en) ids))).
Proof.
  induction ids as [|i r IH]; [reflexivity|].
  destruct r as [|j r'].
  - simpl. destruct (eb en i); reflexivity.
  - change (gw_line_length (i :: j :: r'))
      with (INode IF [BVar i; INode ADD [PyInt 1; gw_line_length (j :: r')]; PyInt 0]).
    cbn [eval map]. rewrite IH. cbn [gw_prefix_run].
    set (n := gw_prefix_run (eb en) (j :: r')). fold n.
    cbn [eval_iop all_some as_ints option_map zsum fold_right].
    destruct (eb en i); [|reflexivity].
    f_equal. f_equal. lia.
Qed.

(* the two segments next to the cell along an axis: one of them is drawn iff the run along that axis is not empty *)
Lemma gw_heads_or f a b :
  existsb f (firstn 1 a ++ firstn 1 b) = negb (Nat.eqb (gw_prefix_run f a + gw_prefix_run f b) 0).
Proof.
  destruct a as [|i a'], b as [|j b']; simpl; try reflexivity.
  - destruct (f j); reflexivity.
  - destruct (f i); reflexivity.
  - destruct (f i), (f j); reflexivity.
Qed.

Lemma gw_eval_or gsem en ids :
  ids <> [] -> eval gsem en (BNode OR (map BVar ids)) = Some (VB (existsb (eb en) ids)).
Proof.
  intros Hne. cbn [eval]. rewrite map_map. cbn [eval].
  unfold eval_bop.
  assert (Ha : all_some (map (fun x => Some (VB (eb en x))) ids) = Some (map (fun x => VB (eb en x)) ids)).
  { clear. induction ids; simpl; [reflexivity|]. rewrite IHids. reflexivity. }
  rewrite Ha.
  assert (Hb : as_bools (map (fun x => VB (eb en x)) ids) = Some (map (eb en) ids)).
  { clear. induction ids; simpl; [reflexivity|]. rewrite IHids. reflexivity. }
  rewrite Hb. simpl. f_equal. f_equal.
  clear. induction ids; simpl; [reflexivity|]. rewrite IHids. reflexivity.
Qed.

(* fold_or(heads).then(line_length(a) + line_length(b) == c) *)
Lemma gw_holds_line gsem en heads a b c :
  heads = firstn 1 a ++ firstn 1 b ->
  holds gsem en (gw_line heads a b c) =
  let l := gw_prefix_run (eb en) a + gw_prefix_run (eb en) b in
  Nat.eqb l 0 || (Z.of_nat l =? c)%Z.
Proof.
  intros Hh. cbv zeta.
  destruct (list_eq_dec Nat.eq_dec heads []) as [E|NE].
  - (* no segment on this axis at all *)
    assert (a = [] /\ b = []) as [-> ->].
    { rewrite E in Hh. destruct a, b; try discriminate. split; reflexivity. }
    subst heads. reflexivity.
  - assert (Hsum : gw_sum_eq a b c = BNode EQ [INode ADD [gw_line_length a; gw_line_length b]; PyInt c]).
    { destruct a, b; try reflexivity. exfalso. apply NE. exact Hh. }
    assert (Hfo : gw_fold_or heads = BNode OR (map BVar heads)).
    { destruct heads; [contradiction|reflexivity]. }
    unfold gw_line, holds. rewrite Hsum, Hfo.
    change (eval gsem en (BNode IMP [BNode OR (map BVar heads);
                                      BNode EQ [INode ADD [gw_line_length a; gw_line_length b]; PyInt c]]))
      with (eval_bop gsem IMP [eval gsem en (BNode OR (map BVar heads));
                               eval_bop gsem EQ [eval_iop ADD [eval gsem en (gw_line_length a);
                                                               eval gsem en (gw_line_length b)];
                                                 Some (VI c)]]).
    rewrite (gw_eval_or gsem en heads NE), !gw_eval_line_length.
    rewrite Hh, gw_heads_or.
    set (la := gw_prefix_run (eb en) a). set (lb := gw_prefix_run (eb en) b).
    cbn [eval_bop eval_iop all_some as_ints option_map zsum fold_right].
    replace (Z.of_nat la + (Z.of_nat lb + 0))%Z with (Z.of_nat (la + lb)) by lia.
    destruct (Nat.eqb (la + lb) 0), (Z.of_nat (la + lb) =? c)%Z; reflexivity.
Qed.

(* ------------------------------------------------------------------------------------------------------ *)
(* 2. the run lengths of the rules are the prefix runs over the slices the solver takes                    *)

Lemma gw_hseg_hid h w y x : hseg (S h) (S w) y x = frame_hid h w y x.
Proof. unfold hseg, frame_hid. replace (S w - 1) with w by lia. reflexivity. Qed.
Lemma gw_vseg_vid h w y x : vseg (S h) (S w) y x = frame_vid h w y x.
Proof. unfold vseg, frame_vid. replace (S w - 1) with w by lia. reflexivity. Qed.
Lemma gw_n_lattice_frame h w : n_lattice_edges (S h) (S w) = frame_n h w.
Proof. unfold n_lattice_edges, frame_n. replace (S w - 1) with w by lia. replace (S h - 1) with h by lia. reflexivity. Qed.

Section Runs.
  Variables (h w : nat) (on : nat -> bool).

  Lemma gw_run_right y : forall n x fuel, x + n = w -> n <= fuel ->
    run_len fuel (S h) (S w) on y x 3 = gw_prefix_run on (map (frame_hid h w y) (seq x n)).
  Proof.
    induction n as [|n IH]; intros x fuel Hx Hf.
    - destruct fuel as [|f]; [reflexivity|]. cbn [run_len seg].
      replace (S x <? S w) with false by (symmetry; apply Nat.ltb_ge; lia). reflexivity.
    - destruct fuel as [|f]; [lia|]. cbn [run_len seg seq map gw_prefix_run step_dir].
      replace (S x <? S w) with true by (symmetry; apply Nat.ltb_lt; lia).
      rewrite gw_hseg_hid. cbn [andb].
      destruct (on (frame_hid h w y x)); [|reflexivity].
      rewrite (IH (S x) f) by lia. reflexivity.
  Qed.

  Lemma gw_run_left y : forall x fuel, x <= fuel ->
    run_len fuel (S h) (S w) on y x 2 = gw_prefix_run on (map (frame_hid h w y) (rev (seq 0 x))).
  Proof.
    induction x as [|x IH]; intros fuel Hf.
    - destruct fuel as [|f]; reflexivity.
    - destruct fuel as [|f]; [lia|].
      rewrite seq_S, rev_app_distr. cbn [rev app Nat.add map gw_prefix_run run_len seg step_dir].
      replace (S x - 1) with x by lia.
      replace (0 <? S x) with true by (symmetry; apply Nat.ltb_lt; lia).
      rewrite gw_hseg_hid. cbn [andb].
      destruct (on (frame_hid h w y x)); [|reflexivity].
      rewrite (IH f) by lia. reflexivity.
  Qed.

  Lemma gw_run_down x : forall n y fuel, y + n = h -> n <= fuel ->
    run_len fuel (S h) (S w) on y x 1 = gw_prefix_run on (map (fun y' => frame_vid h w y' x) (seq y n)).
  Proof.
    induction n as [|n IH]; intros y fuel Hy Hf.
    - destruct fuel as [|f]; [reflexivity|]. cbn [run_len seg].
      replace (S y <? S h) with false by (symmetry; apply Nat.ltb_ge; lia). reflexivity.
    - destruct fuel as [|f]; [lia|]. cbn [run_len seg seq map gw_prefix_run step_dir].
      replace (S y <? S h) with true by (symmetry; apply Nat.ltb_lt; lia).
      rewrite gw_vseg_vid. cbn [andb].
      destruct (on (frame_vid h w y x)); [|reflexivity].
      rewrite (IH (S y) f) by lia. reflexivity.
  Qed.

  Lemma gw_run_up x : forall y fuel, y <= fuel ->
    run_len fuel (S h) (S w) on y x 0 = gw_prefix_run on (map (fun y' => frame_vid h w y' x) (rev (seq 0 y))).
  Proof.
    induction y as [|y IH]; intros fuel Hf.
    - destruct fuel as [|f]; reflexivity.
    - destruct fuel as [|f]; [lia|].
      rewrite seq_S, rev_app_distr. cbn [rev app Nat.add map gw_prefix_run run_len seg step_dir].
      replace (S y - 1) with y by lia.
      replace (0 <? S y) with true by (symmetry; apply Nat.ltb_lt; lia).
      rewrite gw_vseg_vid. cbn [andb].
      destruct (on (frame_vid h w y x)); [|reflexivity].
      rewrite (IH f) by lia. reflexivity.
  Qed.
End Runs.

(* the operands of fold_or are the first entries of the two slices *)
Lemma gw_heads_rev (f : nat -> nat) x :
  (if 0 <? x then [f (x - 1)] else []) = firstn 1 (map f (rev (seq 0 x))).
Proof.
  destruct x as [|x]; [reflexivity|].
  rewrite seq_S, rev_app_distr. simpl. rewrite Nat.sub_0_r. reflexivity.
Qed.
Lemma gw_heads_seq (f : nat -> nat) x w :
  (if x <? w then [f x] else []) = firstn 1 (map f (seq x (w - x))).
Proof.
  destruct (Nat.ltb_spec x w) as [L|L].
  - destruct (w - x) as [|k] eqn:E; [lia|]. reflexivity.
  - replace (w - x) with 0 by lia. reflexivity.
Qed.

(* ------------------------------------------------------------------------------------------------------ *)
(* 3. the clue constraints say the number rule of Rules_geradeweg                                          *)

(* rules 2 and 3 as a function of the answer; h, w are the dimensions of the frame *)
Definition gw_local (h w : nat) (clues : list Z) (ans : answer) : bool :=
  let on := fun k => isb (getz ans k) in
  let g := lattice (S h) (S w) in
  let run := fun y x d => run_len (S h + S w) (S h) (S w) on y x d in
  forallb (fun '(y, x) =>
     let c := at2 clues (S w) y x in
     (c <? 1)%Z ||
     (on_line g on (y * S w + x) &&
      forallb (fun d => let l := run y x d + run y x (opposite d) in
                        Nat.eqb l 0 || (Z.of_nat l =? c)%Z) [0; 2])) (cells (S h) (S w)).

Lemma gw_hid_lt h w y x : y <= h -> x < w -> frame_hid h w y x < frame_n h w.
Proof. intros Hy Hx. unfold frame_hid, frame_n. nia. Qed.
Lemma gw_vid_lt h w y x : y < h -> x <= w -> frame_vid h w y x < frame_n h w.
Proof. intros Hy Hx. unfold frame_vid, frame_n. nia. Qed.

Lemma gw_clues_core gsem h w clues en :
  (forall y x, y <= h -> x <= w ->
     eb en (frame_pid h w y x) = on_line (lattice (S h) (S w)) (eb en) (y * S w + x)) ->
  gw_local h w clues (map (fun i => b2z (eb en i)) (seq 0 (frame_n h w))) =
  forallb (holds gsem en) (geradeweg_constraints h w clues).
Proof.
  intros Hpass.
  set (N := frame_n h w). set (R := map (fun i => b2z (eb en i)) (seq 0 N)).
  set (on := fun k => isb (getz R k)).
  assert (Hon : forall k, k < N -> on k = eb en k).
  { intros k Hk. unfold on, R. rewrite getz_map_seq by exact Hk. apply b2z_isb. }
  unfold gw_local, geradeweg_constraints. fold on. rewrite forallb_flat_map.
  apply forallb_ext_in. intros [y x] Hc. apply cells_in in Hc. destruct Hc as [Hy Hx].
  unfold gw_clue. destruct (at2 clues (S w) y x <? 1)%Z; [reflexivity|].
  set (c := at2 clues (S w) y x).
  cbn [orb forallb opposite].
  (* the cell is passed *)
  assert (E1 : holds gsem en (BVar (frame_pid h w y x)) = on_line (lattice (S h) (S w)) on (y * S w + x)).
  { unfold holds. cbn [eval]. rewrite (Hpass y x) by lia.
    rewrite (on_line_ext _ on (eb en)).
    - destruct (on_line (lattice (S h) (S w)) (eb en) (y * S w + x)); reflexivity.
    - intros k Hk. cbn [edges lattice] in Hk. rewrite lattice_edges_length in Hk. apply Hon. exact Hk. }
  (* the horizontal run *)
  assert (E2 : holds gsem en
                 (gw_line ((if 0 <? x then [frame_hid h w y (x - 1)] else []) ++
                           (if x <? w then [frame_hid h w y x] else []))
                          (map (frame_hid h w y) (rev (seq 0 x))) (map (frame_hid h w y) (seq x (w - x))) c) =
               (let l := run_len (S h + S w) (S h) (S w) on y x 2 + run_len (S h + S w) (S h) (S w) on y x 3 in
                Nat.eqb l 0 || (Z.of_nat l =? c)%Z)).
  { rewrite gw_holds_line by (rewrite (gw_heads_rev (frame_hid h w y)), (gw_heads_seq (frame_hid h w y)); reflexivity).
    rewrite (gw_run_left h w on y x) by lia. rewrite (gw_run_right h w on y (w - x) x) by lia.
    rewrite (gw_prefix_run_ext (eb en) on (map (frame_hid h w y) (rev (seq 0 x)))).
    2:{ intros i Hi. apply in_map_iff in Hi. destruct Hi as [x' [<- Hx']]. apply in_rev in Hx'. apply in_seq in Hx'.
        symmetry. apply Hon. apply gw_hid_lt; lia. }
    rewrite (gw_prefix_run_ext (eb en) on (map (frame_hid h w y) (seq x (w - x)))).
    2:{ intros i Hi. apply in_map_iff in Hi. destruct Hi as [x' [<- Hx']]. apply in_seq in Hx'.
        symmetry. apply Hon. apply gw_hid_lt; lia. }
    reflexivity. }
  (* the vertical run *)
  assert (E3 : holds gsem en
                 (gw_line ((if 0 <? y then [frame_vid h w (y - 1) x] else []) ++
                           (if y <? h then [frame_vid h w y x] else []))
                          (map (fun y' => frame_vid h w y' x) (rev (seq 0 y)))
                          (map (fun y' => frame_vid h w y' x) (seq y (h - y))) c) =
               (let l := run_len (S h + S w) (S h) (S w) on y x 0 + run_len (S h + S w) (S h) (S w) on y x 1 in
                Nat.eqb l 0 || (Z.of_nat l =? c)%Z)).
  { rewrite gw_holds_line
      by (rewrite (gw_heads_rev (fun y' => frame_vid h w y' x)), (gw_heads_seq (fun y' => frame_vid h w y' x));
          reflexivity).
    rewrite (gw_run_up h w on x y) by lia. rewrite (gw_run_down h w on x (h - y) y) by lia.
    rewrite (gw_prefix_run_ext (eb en) on (map (fun y' => frame_vid h w y' x) (rev (seq 0 y)))).
    2:{ intros i Hi. apply in_map_iff in Hi. destruct Hi as [y' [<- Hy']]. apply in_rev in Hy'. apply in_seq in Hy'.
        symmetry. apply Hon. apply gw_vid_lt; lia. }
    rewrite (gw_prefix_run_ext (eb en) on (map (fun y' => frame_vid h w y' x) (seq y (h - y)))).
    2:{ intros i Hi. apply in_map_iff in Hi. destruct Hi as [y' [<- Hy']]. apply in_seq in Hy'.
        symmetry. apply Hon. apply gw_vid_lt; lia. }
    reflexivity. }
  rewrite E1, E2, E3. cbv zeta.
  destruct (on_line (lattice (S h) (S w)) on (y * S w + x)); [|reflexivity].
  cbn [andb]. rewrite !andb_true_r. apply andb_comm.
Qed.

(* ------------------------------------------------------------------------------------------------------ *)
(* 4. the theorem                                                                                          *)

Lemma gw_dims h w (rest : list (list Z)) :
  dim ([Z.of_nat h; Z.of_nat w] :: rest) 0 = h /\ dim ([Z.of_nat h; Z.of_nat w] :: rest) 1 = w.
Proof. unfold dim, zn, getz, sec; simpl. rewrite !Nat2Z.id. split; reflexivity. Qed.

Theorem geradeweg_exact h w clues st ans :
  solve_geradeweg_model [[Z.of_nat h; Z.of_nat w]; clues] = Ok st ->
  ((exists en, model_of no_graph en st /\ reads st en (seq 0 (h * (w - 1) + (h - 1) * w)) = ans)
   <-> rules_geradeweg [[Z.of_nat h; Z.of_nat w]; clues] ans = true).
Proof.
  unfold solve_geradeweg_model, rules_geradeweg.
  change (sec [[Z.of_nat h; Z.of_nat w]; clues] 1) with clues.
  change (sec [[Z.of_nat h; Z.of_nat w]; clues] 0) with [Z.of_nat h; Z.of_nat w].
  change (getz [Z.of_nat h; Z.of_nat w] 0) with (Z.of_nat h).
  change (getz [Z.of_nat h; Z.of_nat w] 1) with (Z.of_nat w).
  destruct (gw_dims h w [clues]) as [-> ->].
  destruct ((Z.of_nat h <? 1) || (Z.of_nat w <? 1))%Z eqn:Hd; [discriminate|].
  apply orb_false_iff in Hd. destruct Hd as [Hh Hw]. apply Z.ltb_ge in Hh, Hw.
  destruct h as [|h]; [lia|]. destruct w as [|w]; [lia|].
  replace (S h - 1) with h by lia. replace (S w - 1) with w by lia.
  destruct (frame_cycle h w) as [[st1 res]|e] eqn:Hcall; [|discriminate].
  destruct (Nat.ltb (length clues) (S h * S w)); [discriminate|].
  intros Hst. inversion Hst; subst st. clear Hst.
  destruct (cycle_frame_compose no_graph h w (geradeweg_constraints h w clues) (gw_local h w clues)
              st1 res ans Hcall (fun en Hp => gw_clues_core no_graph h w clues en Hp)) as [_ EX].
  change (S h * w + h * S w) with (frame_n h w). rewrite EX, gw_n_lattice_frame. reflexivity.
Qed.

(* the model accepts every board with height, width >= 1 and enough clue entries (the premise of geradeweg_exact
   is satisfiable) *)
Lemma geradeweg_model_total h w clues :
  1 <= h -> 1 <= w -> h * w <= length clues ->
  exists st, solve_geradeweg_model [[Z.of_nat h; Z.of_nat w]; clues] = Ok st.
Proof.
  intros Hh Hw Hl. unfold solve_geradeweg_model.
  change (sec [[Z.of_nat h; Z.of_nat w]; clues] 1) with clues.
  change (sec [[Z.of_nat h; Z.of_nat w]; clues] 0) with [Z.of_nat h; Z.of_nat w].
  change (getz [Z.of_nat h; Z.of_nat w] 0) with (Z.of_nat h).
  change (getz [Z.of_nat h; Z.of_nat w] 1) with (Z.of_nat w).
  destruct (gw_dims h w [clues]) as [-> ->].
  replace ((Z.of_nat h <? 1) || (Z.of_nat w <? 1))%Z with false
    by (symmetry; apply orb_false_iff; split; apply Z.ltb_ge; lia).
  destruct (frame_cycle_ok (h - 1) (w - 1)) as [st1 [rest [Hc _]]]. rewrite Hc.
  replace (Nat.ltb (length clues) (h * w)) with false by (symmetry; apply Nat.ltb_ge; exact Hl).
  eexists. reflexivity.
Qed.

Example geradeweg_model_ok : exists st, solve_geradeweg_model [[2; 2]; [2; 0; 0; 0]]%Z = Ok st.
Proof. apply (geradeweg_model_total 2 2 [2; 0; 0; 0]%Z); simpl; lia. Qed.

(* 2 x 2 cells: the loop around the four cell centres has straight runs of length 1, so it is the unique answer
   for a clue 1 and no answer for a clue 2; drawing nothing misses a numbered cell *)
Example geradeweg_rules_small :
  rules_geradeweg [[2; 2]; [1; 0; 0; 0]]%Z [1; 1; 1; 1]%Z = true /\
  rules_geradeweg [[2; 2]; [2; 0; 0; 0]]%Z [1; 1; 1; 1]%Z = false /\
  rules_geradeweg [[2; 2]; [1; 0; 0; 0]]%Z [0; 0; 0; 0]%Z = false /\
  rules_geradeweg [[2; 2]; [0; 0; 0; 0]]%Z [0; 0; 0; 0]%Z = true /\
  rules_geradeweg [[2; 3]; [0; 2; 0; 0; 2; 0]]%Z [1; 1; 1; 1; 1; 0; 1]%Z = true /\
  (* a corner of the 2 x 3 loop has a horizontal run of 2 and a vertical run of 1: no number fits *)
  rules_geradeweg [[2; 3]; [0; 2; 0; 0; 0; 1]]%Z [1; 1; 1; 1; 1; 0; 1]%Z = false.
Proof. vm_compute. repeat split. Qed.
