(* C11 Tier 1 - nurimaze: for every board shape, every layout of bold lines and symbols and every two different
   cells S, G of the board, the program posted by solve_nurimaze (model Nurimaze.v: the acyclic connectivity helper of
   property C04, the 2x2 constraints, the path grid with its degree constraints, the tile and symbol constraints) has
   a model reading as [ans] exactly when [ans] obeys Rules_nurimaze.
   The path variables are existential: in a model they are forced to be the route of the rules (NurimazeTree.
   nmt_route_sound); from a rule-obeying grid they are set to that route (nmt_end_degree / nmt_mid_degree). *)
From Coq Require Import ZArith List Bool Arith Lia.
From Cspuz Require Import Lib.PyErr Core.Expr Core.Program Graph.GraphModel Graph.ReachProofs
     Graph.Avc Graph.AvcCert Graph.AvcSem Graph.AvcProofs Graph.AvcTotal Graph.AvcTree Graph.Acyclic
     Puzzle.PuzzleBase Puzzle.SatAbs Puzzle.ModelBase Puzzle.ModelLemmas Puzzle.CreekProofs
     Puzzle.NurimisakiProofs Puzzle.ViewCompose Puzzle.GokigenForest
     Puzzle.Rules_nurimaze Puzzle.Nurimaze Puzzle.NurimazeSem Puzzle.NurimazeTree Puzzle.NurimazeGrid
     Puzzle.NurimazeCompose.
Import ListNotations.
Local Open Scope nat_scope.

Notation b2z := PuzzleBase.b2z.

(* ------------------------------------------------------------------ cells and indices *)
Lemma nmp_cell_of h w v : v < h * w -> exists y x, y < h /\ x < w /\ v = y * w + x.
Proof.
  intros Hv. assert (Hw : w <> 0) by (intros ->; lia).
  exists (v / w), (v mod w). split; [|split].
  - apply Nat.div_lt_upper_bound; [exact Hw|]. rewrite Nat.mul_comm. exact Hv.
  - apply Nat.mod_upper_bound. exact Hw.
  - rewrite (Nat.mul_comm (v / w) w). apply Nat.div_mod. exact Hw.
Qed.

Lemma nmp_on_board h w y x :
  on_board h w y x = true -> exists yn xn, y = Z.of_nat yn /\ x = Z.of_nat xn /\ yn < h /\ xn < w.
Proof.
  unfold on_board. rewrite !andb_true_iff, !Z.leb_le, !Z.ltb_lt. intros [[[H1 H2] H3] H4].
  exists (Z.to_nat y), (Z.to_nat x). rewrite !Z2Nat.id by assumption. repeat split; lia.
Qed.

Lemma nmp_is y x yn xn : nm_is y x (Z.of_nat yn) (Z.of_nat xn) = Nat.eqb y yn && Nat.eqb x xn.
Proof. unfold nm_is. rewrite !znat_eqb. reflexivity. Qed.

Lemma nmp_is_cell w y x yn xn : x < w -> xn < w ->
  Nat.eqb y yn && Nat.eqb x xn = Nat.eqb (y * w + x) (yn * w + xn).
Proof.
  intros Hx Hxn. destruct (Nat.eqb_spec (y * w + x) (yn * w + xn)) as [E|N].
  - apply nmg_cell_inj in E; [|assumption|assumption]. destruct E; subst. rewrite !Nat.eqb_refl. reflexivity.
  - destruct (Nat.eqb_spec y yn) as [->|]; [|reflexivity]. destruct (Nat.eqb_spec x xn) as [->|]; [|reflexivity].
    exfalso. apply N. reflexivity.
Qed.

(* ------------------------------------------------------------------ the tiles *)
Section Tiles.
  Variables (h w : nat) (wv wh : list Z).
  Notation tg := (tile_graph h w wv wh).

  Definition nmp_open_right (y x : nat) : Prop := S x < w /\ at2 wv (w - 1) y x = 0%Z.
  Definition nmp_open_down (y x : nat) : Prop := S y < h /\ at2 wh w y x = 0%Z.

  Lemma nmp_tile_edge a b :
    In (a, b) (edges tg) <->
    exists y x, y < h /\ x < w /\ a = y * w + x /\
      ((nmp_open_right y x /\ b = y * w + S x) \/ (nmp_open_down y x /\ b = S y * w + x)).
  Proof.
    unfold tile_graph, nmp_open_right, nmp_open_down. cbn [edges]. rewrite in_flat_map. split.
    - intros [[y x] [Hc H]]. apply cells_in in Hc. exists y, x. split; [tauto|]. split; [tauto|].
      apply in_app_iff in H. destruct H as [H|H].
      + destruct (Nat.ltb_spec (S x) w) as [L|L]; [|destruct H].
        destruct (Z.eqb_spec (at2 wv (w - 1) y x) 0) as [E|E]; [|destruct H].
        destruct H as [H|[]]. inversion H; subst. split; [reflexivity|]. left. tauto.
      + destruct (Nat.ltb_spec (S y) h) as [L|L]; [|destruct H].
        destruct (Z.eqb_spec (at2 wh w y x) 0) as [E|E]; [|destruct H].
        destruct H as [H|[]]. inversion H; subst. split; [reflexivity|]. right. tauto.
    - intros [y [x [Hy [Hx [-> H]]]]]. exists (y, x). split; [apply cells_in; tauto|]. apply in_app_iff.
      destruct H as [[[L E] ->]|[[L E] ->]].
      + left. destruct (Nat.ltb_spec (S x) w); [|lia]. rewrite E. left. reflexivity.
      + right. destruct (Nat.ltb_spec (S y) h); [|lia]. rewrite E. left. reflexivity.
  Qed.

  Lemma nmp_tile_wf : wf_graph tg = true.
  Proof.
    unfold wf_graph. apply forallb_forall. intros [a b] Hin. apply nmp_tile_edge in Hin.
    destruct Hin as [y [x [Hy [Hx [-> H]]]]]. change (nv tg) with (h * w).
    apply andb_true_iff. split; apply Nat.ltb_lt.
    - apply grid_cell_lt; assumption.
    - destruct H as [[[L _] ->]|[[L _] ->]]; apply grid_cell_lt; assumption.
  Qed.

  Variable Wi : nat -> bool.

  Definition nmp_tiles_local : Prop :=
    forall y x, y < h -> x < w ->
      (nmp_open_right y x -> Wi (y * w + x) = Wi (y * w + S x)) /\
      (nmp_open_down y x -> Wi (y * w + x) = Wi (S y * w + x)).

  Lemma nmp_tiles_iff :
    forallb (fun c => forallb (fun d => Bool.eqb (Wi c) (Wi d)) (tile_of h w wv wh c)) (seq 0 (h * w)) = true
    <-> nmp_tiles_local.
  Proof.
    rewrite forallb_forall. split.
    - intros H y x Hy Hx.
      assert (Hc : In (y * w + x) (seq 0 (h * w))) by (apply in_seq; pose proof (grid_cell_lt h w y x Hy Hx); lia).
      specialize (H _ Hc). rewrite forallb_forall in H.
      assert (Hstep : forall d, In (y * w + x, d) (edges tg) -> Wi (y * w + x) = Wi d).
      { intros d Hd. apply eqb_prop. apply H. unfold tile_of.
        apply (component_spec tg _ _ _ _ nmp_tile_wf); [apply in_seq in Hc; exact (proj2 Hc)|].
        eapply reach_step; [apply reach_refl; reflexivity| |reflexivity].
        apply nbrs_spec. apply In_nth_error in Hd. destruct Hd as [k Hk]. exists k. split; [reflexivity|]. left. exact Hk. }
      split; intros Ho; apply Hstep; apply nmp_tile_edge; exists y, x; tauto.
    - intros H c Hc. apply forallb_forall. intros d Hd. unfold tile_of in Hd.
      apply component_sound in Hd.
      assert (E : Wi c = Wi d); [|rewrite E; apply eqb_reflx].
      induction Hd as [v _|c v d' Hcv IH Hn _]; [reflexivity|]. rewrite (IH Hc). clear IH Hcv.
      apply nbrs_spec in Hn. destruct Hn as [k [_ Hk]].
      assert (Hedge : forall a b, In (a, b) (edges tg) -> Wi a = Wi b).
      { intros a b Hab. apply nmp_tile_edge in Hab. destruct Hab as [y [x [Hy [Hx [-> Hb]]]]].
        destruct (H y x Hy Hx) as [H1 H2]. destruct Hb as [[Ho ->]|[Ho ->]]; [apply H1|apply H2]; exact Ho. }
      destruct Hk as [Hk|Hk]; apply nth_error_In in Hk; [apply Hedge; exact Hk|symmetry; apply Hedge; exact Hk].
  Qed.
End Tiles.

(* ------------------------------------------------------------------ no loop *)
Lemma nmp_forest_ext g A A' : (forall k, A k = A' k) -> forest g A -> forest g A'.
Proof.
  intros E H e a b Hn HA Hj. apply (H e a b Hn); [rewrite E; exact HA|].
  unfold joined in *. eapply reach_ext; [| |exact Hj]; [reflexivity|].
  intros k. unfold without. rewrite E. reflexivity.
Qed.

Lemma nmp_unshaded_ind h w (Wi : nat -> bool) k : unshaded_edge h w Wi k = ind_edge (grid_graph h w) Wi k.
Proof.
  unfold unshaded_edge, ind_edge, board, ind_pair. destruct (nth_error (edges (grid_graph h w)) k) as [[a b]|] eqn:E; [|reflexivity].
  cbn [fst snd]. rewrite (proj2 (Nat.eqb_neq a b)); [rewrite andb_true_r; reflexivity|].
  exact (AcyclicGraphFacts.loop_free_nth _ _ _ _ (grid_loop_free h w) E).
Qed.

Lemma nmp_tree_iff h w (Wi : nat -> bool) :
  tree (grid_graph h w) Wi <->
  (cells_connected h w Wi = true /\ edges_acyclic (board h w) (unshaded_edge h w Wi) = true).
Proof.
  rewrite (tree_iff_forest _ _ (grid_wf h w)). unfold cells_connected, board.
  rewrite (connected_b_spec _ _ (grid_wf h w)), (edges_acyclic_forest _ _ (grid_wf h w)).
  split; intros [H1 H2]; (split; [exact H1|]); eapply nmp_forest_ext; try exact H2; intros k;
    [symmetry|]; apply nmp_unshaded_ind.
Qed.

(* ------------------------------------------------------------------ the rules as a function of the unshaded set *)
Definition rules_core (h w : nat) (wv wh mark : list Z) (sy sx gy gx : Z) (white : nat -> bool) : bool :=
  let s := zn sy * w + zn sx in let g := zn gy * w + zn gx in
  let white2 := fun y x => white (y * w + x) in
  on_board h w sy sx && on_board h w gy gx && negb (Nat.eqb s g) && white s && white g &&
  negb (has_2x2 h w white2) && negb (has_2x2 h w (fun y x => negb (white2 y x))) &&
  forallb (fun c => forallb (fun d => Bool.eqb (white c) (white d)) (tile_of h w wv wh c)) (seq 0 (h * w)) &&
  cells_connected h w white &&
  edges_acyclic (board h w) (unshaded_edge h w white) &&
  forallb (fun '(y, x) =>
     let m := at2 mark w y x in
     (m =? 0)%Z ||
     (white2 y x &&
      (if (m =? 1)%Z then on_route h w white s g (y * w + x)
       else if (m =? 2)%Z then negb (on_route h w white s g (y * w + x))
       else true))) (cells h w).

Lemma rules_nurimaze_split h w wv wh mark sy sx gy gx ans :
  rules_nurimaze [[Z.of_nat h; Z.of_nat w]; wv; wh; mark; [sy; sx; gy; gx]] ans =
  Nat.eqb (length ans) (h * w) && forallb is01 ans &&
  rules_core h w wv wh mark sy sx gy gx (fun v => isb (getz ans v)).
Proof.
  unfold rules_nurimaze, rules_core. destruct (dims2n h w [wv; wh; mark; [sy; sx; gy; gx]]) as [-> ->].
  change (sec [[Z.of_nat h; Z.of_nat w]; wv; wh; mark; [sy; sx; gy; gx]] 1) with wv.
  change (sec [[Z.of_nat h; Z.of_nat w]; wv; wh; mark; [sy; sx; gy; gx]] 2) with wh.
  change (sec [[Z.of_nat h; Z.of_nat w]; wv; wh; mark; [sy; sx; gy; gx]] 3) with mark.
  change (sec [[Z.of_nat h; Z.of_nat w]; wv; wh; mark; [sy; sx; gy; gx]] 4) with [sy; sx; gy; gx].
  change (getz [sy; sx; gy; gx] 0) with sy. change (getz [sy; sx; gy; gx] 1) with sx.
  change (getz [sy; sx; gy; gx] 2) with gy. change (getz [sy; sx; gy; gx] 3) with gx.
  cbv zeta. rewrite <- !andb_assoc. reflexivity.
Qed.

Lemma nmp_no2x2 h w (f : nat -> nat -> bool) :
  negb (has_2x2 h w f) = true <->
  (forall y x, S y < h -> S x < w -> f y x && f (S y) x && f y (S x) && f (S y) (S x) = false).
Proof.
  unfold has_2x2. rewrite negb_existsb, forallb_forall. split.
  - intros H y x Hy Hx. apply negb_true_iff. apply (H (y, x)). apply cells_in. lia.
  - intros H [y x] Hc. apply cells_in in Hc. apply negb_true_iff. apply H; lia.
Qed.

Lemma nmp_sem_true h w wv wh mark sy sx gy gx (white pth : nat * nat -> bool) :
  nm_sem h w wv wh mark sy sx gy gx white pth = true <->
  ((forall y x, S y < h -> S x < w -> white (y, x) || white (y, S x) || white (S y, x) || white (S y, S x) = true) /\
   (forall y x, S y < h -> S x < w -> negb (white (y, x) && white (y, S x) && white (S y, x) && white (S y, S x)) = true) /\
   (forall y x, y < h -> x < w -> implb (pth (y, x)) (white (y, x)) = true) /\
   (forall y x, y < h -> x < w -> nm_cell_sem h w wv wh mark sy sx gy gx white pth (y, x) = true)).
Proof.
  unfold nm_sem. rewrite !andb_true_iff, !forallb_forall. split.
  - intros [[[H1 H2] H3] H4]. repeat split.
    + intros y x Hy Hx. apply (H1 (y, x)). apply cells_in. lia.
    + intros y x Hy Hx. apply (H2 (y, x)). apply cells_in. lia.
    + intros y x Hy Hx. apply (H3 (y, x)). apply cells_in. lia.
    + intros y x Hy Hx. apply (H4 (y, x)). apply cells_in. lia.
  - intros [H1 [H2 [H3 H4]]]. repeat split; intros [y x] Hc; apply cells_in in Hc;
      [apply H1|apply H2|apply H3|apply H4]; lia.
Qed.

Lemma nmp_on_route h w white s g c : on_route h w white s g c = on_route_b (grid_graph h w) white s g c.
Proof. reflexivity. Qed.

Lemma nmp_on_board_nat h w y x : y < h -> x < w -> on_board h w (Z.of_nat y) (Z.of_nat x) = true.
Proof. intros Hy Hx. unfold on_board. rewrite !andb_true_iff, !Z.leb_le, !Z.ltb_lt. lia. Qed.

Lemma nmp_cell_true_gen h w wv wh mark sy sx gy gx (wht pth : nat * nat -> bool) y x (e : bool) :
  nm_is y x sy sx || nm_is y x gy gx = e ->
  (nm_cell_sem h w wv wh mark sy sx gy gx wht pth (y, x) = true <->
   ((nmp_open_right w wv y x -> wht (y, x) = wht (y, S x)) /\
    (nmp_open_down h w wh y x -> wht (y, x) = wht (S y, x)) /\
    (if e then pth (y, x) = true /\ count pth (nbr4 h w y x) = 1
     else pth (y, x) = true -> count pth (nbr4 h w y x) = 2) /\
    (let m := at2 mark w y x in
     ((m =? 0)%Z || wht (y, x)) &&
     (if (m =? 1)%Z then pth (y, x) else if (m =? 2)%Z then negb (pth (y, x)) else true)) = true)).
Proof.
  intros He. unfold nm_cell_sem. rewrite He. cbv zeta. rewrite !andb_true_iff.
  assert (A : (if Nat.ltb (S x) w && (at2 wv (w - 1) y x =? 0)%Z then Bool.eqb (wht (y, x)) (wht (y, S x)) else true) = true
              <-> (nmp_open_right w wv y x -> wht (y, x) = wht (y, S x))).
  { unfold nmp_open_right. destruct (Nat.ltb_spec (S x) w), (Z.eqb_spec (at2 wv (w - 1) y x) 0); cbn [andb];
      rewrite ?eqb_true_iff; split; intros; try reflexivity; try tauto; try lia. }
  assert (B : (if Nat.ltb (S y) h && (at2 wh w y x =? 0)%Z then Bool.eqb (wht (y, x)) (wht (S y, x)) else true) = true
              <-> (nmp_open_down h w wh y x -> wht (y, x) = wht (S y, x))).
  { unfold nmp_open_down. destruct (Nat.ltb_spec (S y) h), (Z.eqb_spec (at2 wh w y x) 0); cbn [andb];
      rewrite ?eqb_true_iff; split; intros; try reflexivity; try tauto; try lia. }
  assert (C : (if e
               then pth (y, x) && Nat.eqb (count pth (nbr4 h w y x)) 1
               else implb (pth (y, x)) (Nat.eqb (count pth (nbr4 h w y x)) 2)) = true
              <-> (if e
                   then pth (y, x) = true /\ count pth (nbr4 h w y x) = 1
                   else pth (y, x) = true -> count pth (nbr4 h w y x) = 2)).
  { destruct e.
    - rewrite andb_true_iff, Nat.eqb_eq. reflexivity.
    - destruct (pth (y, x)); cbn [implb]; rewrite ?Nat.eqb_eq; split; intros; try reflexivity; try discriminate; auto. }
  rewrite A, B, C. tauto.
Qed.

Section Core.
  Variables (h w : nat) (wv wh mark : list Z) (ys xs yg xg : nat).
  Hypothesis (Hys : ys < h) (Hxs : xs < w) (Hyg : yg < h) (Hxg : xg < w).
  Notation s := (ys * w + xs).
  Notation t := (yg * w + xg).
  Hypothesis Hst : s <> t.
  Variable Wi : nat -> bool.
  Hypothesis HWn : forall v, Wi v = true -> v < h * w.
  Notation g := (grid_graph h w).
  Notation white := (fun c : nat * nat => Wi (cidx w c)).
  Notation SEM := (nm_sem h w wv wh mark (Z.of_nat ys) (Z.of_nat xs) (Z.of_nat yg) (Z.of_nat xg)).
  Notation CORE := (rules_core h w wv wh mark (Z.of_nat ys) (Z.of_nat xs) (Z.of_nat yg) (Z.of_nat xg)).

  Let Hslt : s < h * w := grid_cell_lt h w ys xs Hys Hxs.
  Let Htlt : t < h * w := grid_cell_lt h w yg xg Hyg Hxg.

  Lemma nmp_ends y x : x < w ->
    nm_is y x (Z.of_nat ys) (Z.of_nat xs) || nm_is y x (Z.of_nat yg) (Z.of_nat xg) =
    Nat.eqb (y * w + x) s || Nat.eqb (y * w + x) t.
  Proof. intros Hx. rewrite !nmp_is, !(nmp_is_cell w) by assumption. reflexivity. Qed.

  (* the symbol conditions, given that the path grid is the route *)
  Lemma nmp_marks (pth : nat * nat -> bool) y x :
    pth (y, x) = nmt_R g Wi s t (y * w + x) ->
    (let m := at2 mark w y x in
     (m =? 0)%Z ||
     (Wi (y * w + x) &&
      (if (m =? 1)%Z then on_route h w Wi s t (y * w + x)
       else if (m =? 2)%Z then negb (on_route h w Wi s t (y * w + x))
       else true))) =
    (let m := at2 mark w y x in
     ((m =? 0)%Z || white (y, x)) &&
     (if (m =? 1)%Z then pth (y, x) else if (m =? 2)%Z then negb (pth (y, x)) else true)).
  Proof.
    intros E. cbv zeta. rewrite E. unfold nmt_R. rewrite nmp_on_route. unfold cidx. cbn [fst snd].
    destruct (Z.eqb_spec (at2 mark w y x) 0), (Z.eqb_spec (at2 mark w y x) 1), (Z.eqb_spec (at2 mark w y x) 2); try lia;
      destruct (Wi (y * w + x)), (on_route_b g Wi s t (y * w + x)); reflexivity.
  Qed.

  Lemma nmp_core_rest :
    on_board h w (Z.of_nat ys) (Z.of_nat xs) && on_board h w (Z.of_nat yg) (Z.of_nat xg) &&
    negb (Nat.eqb (zn (Z.of_nat ys) * w + zn (Z.of_nat xs)) (zn (Z.of_nat yg) * w + zn (Z.of_nat xg))) = true.
  Proof.
    unfold zn. rewrite !Nat2Z.id, !nmp_on_board_nat by assumption. cbn [andb].
    apply negb_true_iff, Nat.eqb_neq. exact Hst.
  Qed.

  Lemma nmp_core_iff :
    CORE Wi = true <->
    (Wi s = true /\ Wi t = true /\
     (forall y x, S y < h -> S x < w -> Wi (y * w + x) && Wi (S y * w + x) && Wi (y * w + S x) && Wi (S y * w + S x) = false) /\
     (forall y x, S y < h -> S x < w ->
        negb (Wi (y * w + x)) && negb (Wi (S y * w + x)) && negb (Wi (y * w + S x)) && negb (Wi (S y * w + S x)) = false) /\
     nmp_tiles_local h w wv wh Wi /\
     tree g Wi /\
     (forall y x, y < h -> x < w ->
        let m := at2 mark w y x in
        (m =? 0)%Z ||
        (Wi (y * w + x) &&
         (if (m =? 1)%Z then on_route h w Wi s t (y * w + x)
          else if (m =? 2)%Z then negb (on_route h w Wi s t (y * w + x))
          else true)) = true)).
  Proof.
    unfold rules_core. cbv zeta. unfold zn. rewrite !Nat2Z.id, !nmp_on_board_nat by assumption.
    rewrite (proj2 (Nat.eqb_neq s t) Hst). cbn [negb andb]. rewrite !andb_true_iff.
    rewrite (nmp_no2x2 h w (fun y x => Wi (y * w + x))), (nmp_no2x2 h w (fun y x => negb (Wi (y * w + x)))).
    rewrite nmp_tiles_iff, nmp_tree_iff, forallb_forall.
    split.
    - intros [[[[[[[H1 H2] H3] H4] H5] H6] H7] H8].
      split; [exact H1|]. split; [exact H2|]. split; [exact H3|]. split; [exact H4|]. split; [exact H5|].
      split; [split; assumption|].
      intros y x Hy Hx. apply (H8 (y, x)). apply cells_in. tauto.
    - intros [H1 [H2 [H3 [H4 [H5 [[H6 H7] H8]]]]]].
      split; [split; [split; [split; [split; [split; [split; [exact H1|exact H2]|exact H3]|exact H4]|exact H5]|exact H6]|exact H7]|].
      intros [y x] Hc. apply cells_in in Hc. apply H8; tauto.
  Qed.

  Lemma nmp_cell_true (wht pth : nat * nat -> bool) y x : x < w ->
    nm_cell_sem h w wv wh mark (Z.of_nat ys) (Z.of_nat xs) (Z.of_nat yg) (Z.of_nat xg) wht pth (y, x) = true <->
    ((nmp_open_right w wv y x -> wht (y, x) = wht (y, S x)) /\
     (nmp_open_down h w wh y x -> wht (y, x) = wht (S y, x)) /\
     (if Nat.eqb (y * w + x) s || Nat.eqb (y * w + x) t
      then pth (y, x) = true /\ count pth (nbr4 h w y x) = 1
      else pth (y, x) = true -> count pth (nbr4 h w y x) = 2) /\
     (let m := at2 mark w y x in
      ((m =? 0)%Z || wht (y, x)) &&
      (if (m =? 1)%Z then pth (y, x) else if (m =? 2)%Z then negb (pth (y, x)) else true)) = true).
  Proof. intros Hx. apply nmp_cell_true_gen. apply nmp_ends. exact Hx. Qed.

  Lemma nmp_core_sound (Pi : nat -> bool) :
    tree g Wi -> SEM white (fun c => Pi (cidx w c)) = true -> CORE Wi = true.
  Proof.
    intros Htree Hsem. apply nmp_sem_true in Hsem. destruct Hsem as [Hor [Hnand [Himp Hcell]]].
    destruct (proj1 (tree_iff_bridges g Wi (grid_wf h w)) Htree) as [Hconn Hbr].
    assert (Hc : forall y x, y < h -> x < w -> _) by (intros y x Hy Hx; exact (proj1 (nmp_cell_true _ _ y x Hx) (Hcell y x Hy Hx))).
    clear Hcell. cbv beta in Hc.
    set (P' := fun v => Nat.ltb v (h * w) && Pi v).
    assert (HP' : forall y x, y < h -> x < w -> P' (y * w + x) = Pi (y * w + x)).
    { intros y x Hy Hx. unfold P'. destruct (Nat.ltb_spec (y * w + x) (h * w)) as [_|L]; [reflexivity|].
      pose proof (grid_cell_lt h w y x Hy Hx). lia. }
    assert (Hcnt : forall y x, y < h -> x < w ->
              nmt_deg g P' (y * w + x) = count (fun c => Pi (cidx w c)) (nbr4 h w y x)).
    { intros y x Hy Hx. unfold nmt_deg. rewrite (nmg_count_nbrs h w y x P' Hy Hx). apply count_ext_in.
      intros [y' x'] Hn. destruct (nbr4_in h w y x y' x' Hy Hx Hn). apply HP'; assumption. }
    pose proof (Hc ys xs Hys Hxs) as [_ [_ [Hs _]]]. rewrite Nat.eqb_refl in Hs. cbn [orb] in Hs. destruct Hs as [Ps Cs].
    pose proof (Hc yg xg Hyg Hxg) as [_ [_ [Ht _]]]. rewrite Nat.eqb_refl, orb_true_r in Ht. destruct Ht as [Pt Ct].
    unfold cidx in Ps, Pt; cbn [fst snd] in Ps, Pt.
    assert (Ws : Wi s = true).
    { pose proof (Himp ys xs Hys Hxs) as I. unfold cidx in I; cbn [fst snd] in I. rewrite Ps in I. exact I. }
    assert (Wt : Wi t = true).
    { pose proof (Himp yg xg Hyg Hxg) as I. unfold cidx in I; cbn [fst snd] in I. rewrite Pt in I. exact I. }
    assert (HR : forall c, P' c = nmt_R g Wi s t c).
    { apply (nmt_route_sound g (grid_wf h w) (grid_loop_free h w) (nmg_grid_nbrs_nodup h w) Wi HWn Hconn Hbr s t P' Ws Wt Hst).
      - intros c Hpc. unfold P' in Hpc. apply andb_true_iff in Hpc. destruct Hpc as [L Hpc]. apply Nat.ltb_lt in L.
        destruct (nmp_cell_of h w c L) as [y [x [Hy [Hx ->]]]].
        pose proof (Himp y x Hy Hx) as I. unfold cidx in I; cbn [fst snd] in I. rewrite Hpc in I. exact I.
      - rewrite HP' by assumption. exact Ps.
      - rewrite HP' by assumption. exact Pt.
      - rewrite Hcnt by assumption. exact Cs.
      - rewrite Hcnt by assumption. exact Ct.
      - intros c Hpc Hcs Hct. pose proof Hpc as Hpc'. unfold P' in Hpc'. apply andb_true_iff in Hpc'.
        destruct Hpc' as [L Hpi]. apply Nat.ltb_lt in L.
        destruct (nmp_cell_of h w c L) as [y [x [Hy [Hx ->]]]]. rewrite Hcnt by assumption.
        pose proof (Hc y x Hy Hx) as [_ [_ [Hd _]]].
        rewrite (proj2 (Nat.eqb_neq _ _) Hcs), (proj2 (Nat.eqb_neq _ _) Hct) in Hd. cbn [orb] in Hd. apply Hd. exact Hpi. }
    apply nmp_core_iff. split; [exact Ws|]. split; [exact Wt|]. split; [|split; [|split; [|split; [exact Htree|]]]].
    - intros y x Hy Hx. pose proof (Hnand y x Hy Hx) as N. unfold cidx in N; cbn [fst snd] in N.
      destruct (Wi (y * w + x)), (Wi (y * w + S x)), (Wi (S y * w + x)), (Wi (S y * w + S x)); try reflexivity; discriminate.
    - intros y x Hy Hx. pose proof (Hor y x Hy Hx) as N. unfold cidx in N; cbn [fst snd] in N.
      destruct (Wi (y * w + x)), (Wi (y * w + S x)), (Wi (S y * w + x)), (Wi (S y * w + S x)); try reflexivity; discriminate.
    - intros y x Hy Hx. destruct (Hc y x Hy Hx) as [H1 [H2 _]]. split; assumption.
    - intros y x Hy Hx.
      assert (E : (fun c => Pi (cidx w c)) (y, x) = nmt_R g Wi s t (y * w + x)).
      { unfold cidx; cbn [fst snd]. rewrite <- HR. symmetry. apply HP'; assumption. }
      pose proof (nmp_marks (fun c => Pi (cidx w c)) y x E) as M. cbv zeta in M. cbv zeta. rewrite M.
      destruct (Hc y x Hy Hx) as [_ [_ [_ H4]]]. exact H4.
  Qed.

  Lemma nmp_core_complete :
    CORE Wi = true -> tree g Wi /\ SEM white (fun c => nmt_R g Wi s t (cidx w c)) = true.
  Proof.
    intros H. apply nmp_core_iff in H. destruct H as [Ws [Wt [Hw2 [Hb2 [Htl [Htree Hmk]]]]]].
    split; [exact Htree|].
    destruct (proj1 (tree_iff_bridges g Wi (grid_wf h w)) Htree) as [Hconn Hbr].
    apply nmp_sem_true. split; [|split; [|split]].
    - intros y x Hy Hx. pose proof (Hb2 y x Hy Hx) as N. unfold cidx; cbn [fst snd].
      destruct (Wi (y * w + x)), (Wi (y * w + S x)), (Wi (S y * w + x)), (Wi (S y * w + S x)); try reflexivity; discriminate.
    - intros y x Hy Hx. pose proof (Hw2 y x Hy Hx) as N. unfold cidx; cbn [fst snd].
      destruct (Wi (y * w + x)), (Wi (y * w + S x)), (Wi (S y * w + x)), (Wi (S y * w + S x)); try reflexivity; discriminate.
    - intros y x Hy Hx. unfold nmt_R. destruct (Wi (cidx w (y, x))); cbn [andb implb]; [apply implb_true_r|reflexivity].
    - intros y x Hy Hx. apply (nmp_cell_true _ _ y x Hx). destruct (Htl y x Hy Hx) as [T1 T2].
      split; [exact T1|]. split; [exact T2|]. split.
      + rewrite <- (nmg_count_nbrs h w y x (nmt_R g Wi s t) Hy Hx). unfold cidx; cbn [fst snd].
        destruct (Nat.eqb_spec (y * w + x) s) as [E|Ns]; [|destruct (Nat.eqb_spec (y * w + x) t) as [E|Nt]]; cbn [orb].
        * rewrite E. split.
          -- unfold nmt_R, on_route_b. rewrite Ws, Nat.eqb_refl. reflexivity.
          -- apply (nmt_end_degree g (grid_wf h w) (grid_loop_free h w) (nmg_grid_nbrs_nodup h w) Wi HWn Hconn Hbr s t Ws Wt Hst).
        * rewrite E. split.
          -- unfold nmt_R, on_route_b. rewrite Wt, Nat.eqb_refl, orb_true_r. reflexivity.
          -- apply (nmt_end_degree_t g (grid_wf h w) (grid_loop_free h w) (nmg_grid_nbrs_nodup h w) Wi HWn Hconn Hbr s t Ws Wt Hst).
        * intros HR.
          apply (nmt_mid_degree g (grid_wf h w) (grid_loop_free h w) (nmg_grid_nbrs_nodup h w) Wi HWn Hconn Hbr s t _ Ws Wt HR Ns Nt).
      + pose proof (nmp_marks (fun c => nmt_R g Wi s t (cidx w c)) y x eq_refl) as M. cbv zeta in M. cbv zeta. rewrite <- M.
        apply Hmk; assumption.
  Qed.
End Core.

(* ------------------------------------------------------------------ a single end *)
Lemma nmp_is_off h w y x py px : on_board h w py px = false -> y < h -> x < w -> nm_is y x py px = false.
Proof.
  intros Hb Hy Hx. unfold nm_is. destruct (Z.eqb_spec (Z.of_nat y) py) as [<-|]; [|reflexivity].
  destruct (Z.eqb_spec (Z.of_nat x) px) as [<-|]; [|reflexivity].
  rewrite nmp_on_board_nat in Hb by assumption. discriminate.
Qed.

Section OneEndCore.
  Variables (h w : nat) (wv wh mark : list Z) (sy sx gy gx : Z) (ys xs : nat).
  Hypothesis (Hys : ys < h) (Hxs : xs < w).
  Notation s := (ys * w + xs).
  (* the only cell that is S or G *)
  Hypothesis Hends : forall y x, y < h -> x < w -> nm_is y x sy sx || nm_is y x gy gx = Nat.eqb (y * w + x) s.
  Variable Wi : nat -> bool.
  Hypothesis HWn : forall v, Wi v = true -> v < h * w.
  Notation g := (grid_graph h w).

  Lemma nmp_one_end (Pi : nat -> bool) :
    tree g Wi -> nm_sem h w wv wh mark sy sx gy gx (fun c => Wi (cidx w c)) (fun c => Pi (cidx w c)) = true -> False.
  Proof.
    intros Htree Hsem. apply nmp_sem_true in Hsem. destruct Hsem as [_ [_ [Himp Hcell]]].
    destruct (proj1 (tree_iff_bridges g Wi (grid_wf h w)) Htree) as [Hconn Hbr].
    assert (Hc : forall y x, y < h -> x < w -> _)
      by (intros y x Hy Hx; exact (proj1 (nmp_cell_true_gen _ _ _ _ _ _ _ _ _ _ _ y x _ (Hends y x Hy Hx)) (Hcell y x Hy Hx))).
    clear Hcell. cbv beta in Hc.
    set (P' := fun v => Nat.ltb v (h * w) && Pi v).
    assert (HP' : forall y x, y < h -> x < w -> P' (y * w + x) = Pi (y * w + x)).
    { intros y x Hy Hx. unfold P'. destruct (Nat.ltb_spec (y * w + x) (h * w)) as [_|L]; [reflexivity|].
      pose proof (grid_cell_lt h w y x Hy Hx). lia. }
    assert (Hcnt : forall y x, y < h -> x < w ->
              nmt_deg g P' (y * w + x) = count (fun c => Pi (cidx w c)) (nbr4 h w y x)).
    { intros y x Hy Hx. unfold nmt_deg. rewrite (nmg_count_nbrs h w y x P' Hy Hx). apply count_ext_in.
      intros [y' x'] Hn. destruct (nbr4_in h w y x y' x' Hy Hx Hn). apply HP'; assumption. }
    pose proof (Hc ys xs Hys Hxs) as [_ [_ [Hs _]]]. rewrite Nat.eqb_refl in Hs. destruct Hs as [Ps Cs].
    unfold cidx in Ps; cbn [fst snd] in Ps.
    assert (Ws : Wi s = true).
    { pose proof (Himp ys xs Hys Hxs) as I. unfold cidx in I; cbn [fst snd] in I. rewrite Ps in I. exact I. }
    apply (nmt_one_end g (grid_wf h w) (grid_loop_free h w) Wi HWn Hbr s P' Ws).
    - intros c Hpc. unfold P' in Hpc. apply andb_true_iff in Hpc. destruct Hpc as [L Hpc]. apply Nat.ltb_lt in L.
      destruct (nmp_cell_of h w c L) as [y [x [Hy [Hx ->]]]].
      pose proof (Himp y x Hy Hx) as I. unfold cidx in I; cbn [fst snd] in I. rewrite Hpc in I. exact I.
    - rewrite HP' by assumption. exact Ps.
    - rewrite Hcnt by assumption. exact Cs.
    - intros c Hpc Hcs. pose proof Hpc as Hpc'. unfold P' in Hpc'. apply andb_true_iff in Hpc'.
      destruct Hpc' as [L Hpi]. apply Nat.ltb_lt in L.
      destruct (nmp_cell_of h w c L) as [y [x [Hy [Hx ->]]]]. rewrite Hcnt by assumption.
      pose proof (Hc y x Hy Hx) as [_ [_ [Hd _]]].
      rewrite (proj2 (Nat.eqb_neq _ _) Hcs) in Hd. apply Hd. exact Hpi.
  Qed.
End OneEndCore.

(* ------------------------------------------------------------------ the theorem *)
Lemma nmp_white_lt (ans : answer) n v : length ans = n -> isb (getz ans v) = true -> v < n.
Proof.
  intros Hl H. destruct (Nat.ltb_spec v n) as [L|L]; [exact L|]. exfalso.
  unfold getz in H. rewrite nth_overflow in H by lia. discriminate.
Qed.

(* the models of the posted program, for any S / G: the unshaded cells form a tree and some path grid satisfies
   the constraints posted after the helper *)
Lemma nurimaze_model_iff h w wv wh mark sy sx gy gx st ans :
  solve_nurimaze_model [[Z.of_nat h; Z.of_nat w]; wv; wh; mark; [sy; sx; gy; gx]] = Ok st ->
  ((exists en, model_of gsem_avc en st /\ reads st en (seq 0 (h * w)) = ans) <->
   (length ans = h * w /\ forallb is01 ans = true /\ tree (grid_graph h w) (fun v => isb (getz ans v)) /\
    exists Pi : nat -> bool,
      nm_sem h w wv wh mark sy sx gy gx (fun c => isb (getz ans (cidx w c))) (fun c => Pi (cidx w c)) = true)).
Proof.
  unfold solve_nurimaze_model.
  destruct (dims2n h w [wv; wh; mark; [sy; sx; gy; gx]]) as [-> ->].
  set (pb := [[Z.of_nat h; Z.of_nat w]; wv; wh; mark; [sy; sx; gy; gx]]).
  change (sec pb 1) with wv. change (sec pb 2) with wh. change (sec pb 3) with mark.
  change (getz (sec pb 4) 0) with sy. change (getz (sec pb 4) 1) with sx.
  change (getz (sec pb 4) 2) with gy. change (getz (sec pb 4) 3) with gx.
  destruct (post_avc (bool_grid_state (h * w) []) (map BVar (seq 0 (h * w))) (grid_graph h w) true false)
    as [st1|e] eqn:Hp; [|discriminate].
  destruct (Nat.ltb (length wv) (h * (w - 1)) || Nat.ltb (length wh) ((h - 1) * w) || Nat.ltb (length mark) (h * w));
    [discriminate|].
  intros H. injection H as Hst'.
  set (n := h * w) in *. set (st0 := bool_grid_state n []) in *.
  set (more := repeat DBool n).
  set (extra := nurimaze_constraints (next_id st1) h w wv wh mark sy sx gy gx) in *.
  assert (Hv0 : vars st0 = repeat DBool n) by reflexivity.
  assert (Hc0 : Program.cons st0 = []) by reflexivity.
  assert (Hvars : vars st = vars st1 ++ more) by (rewrite <- Hst'; reflexivity).
  assert (Hcons : Program.cons st = Program.cons st1 ++ extra) by (rewrite <- Hst'; reflexivity).
  pose proof (tcompose_model h w st0 st1 st more extra Hv0 Hc0 Hp Hvars Hcons) as Hmodel.
  pose proof (tcompose_next h w st0 st1 Hv0 Hp) as Hnext. fold n in Hnext.
  assert (Hreads : forall en, reads st en (seq 0 n) = map (fun i => b2z (eb en i)) (seq 0 n)).
  { intros en. eapply reads_bool_prefix. rewrite Hvars, (tcompose_vars h w st0 st1 Hv0 Hp). rewrite <- !app_assoc. reflexivity. }
  split.
  - (* a model *)
    intros [en [Hm Hr]]. rewrite Hreads in Hr. apply Hmodel in Hm. destruct Hm as [Hrk [Hce [_ Hex]]].
    pose proof (tcompose_sound h w en Hrk Hce) as Htree.
    assert (Hlen : length ans = n) by (rewrite <- Hr, map_length, seq_length; reflexivity).
    assert (Hpat : forall v, pattern en (map BVar (seq 0 n)) v = isb (getz ans v)).
    { intros v. rewrite <- Hr. symmetry. apply reading_act. }
    split; [exact Hlen|]. split; [rewrite <- Hr, forallb_map; apply forallb_forall; intros; apply is01_b2z|].
    split; [apply (spec_avc_ext true _ _ _ Hpat); exact Htree|].
    exists (fun v => eb en (next_id st1 + v)).
    unfold extra in Hex. rewrite nurimaze_constraints_sem in Hex. rewrite <- Hex. apply nm_sem_ext.
    + intros y x Hy Hx. rewrite <- Hpat, pattern_acts.
      pose proof (cidx_lt h w y x Hy Hx) as L. fold n in L. destruct (Nat.ltb_spec (cidx w (y, x)) n); [reflexivity|lia].
    + intros y x _ _. reflexivity.
  - (* a tree and a path grid extend to a model *)
    intros [Hlen [H01 [Htree [Pi Hsem]]]].
    set (Wi := fun v => isb (getz ans v)) in *.
    assert (HWn : forall v, Wi v = true -> v < n) by (intros v; apply nmp_white_lt; exact Hlen).
    set (en0 := {| eb := fun i => if Nat.ltb i (3 * n) then Wi i else Pi (i - 3 * n); ei := fun _ => 0%Z |}).
    assert (Hpat : forall v, Wi v = pattern en0 (map BVar (seq 0 n)) v).
    { intros v. rewrite pattern_acts. cbn [eb en0]. destruct (Nat.ltb_spec v n) as [L|L].
      - destruct (Nat.ltb_spec v (3 * n)); [reflexivity|lia].
      - destruct (Wi v) eqn:E; [apply HWn in E; lia|reflexivity]. }
    assert (Htree0 : tree (grid_graph h w) (pattern en0 (map BVar (seq 0 n)))) by (apply (spec_avc_ext true _ _ _ Hpat); exact Htree).
    destruct (tcompose_complete h w st0 st1 Hp en0 Htree0) as [rank [root [Hrk Hce]]]. fold n in Hrk, Hce.
    set (en := splice_avc n en0 rank root) in *.
    assert (Hlow : forall i, i < n -> eb en i = Wi i).
    { intros i Hi. unfold en. rewrite splice_eb_low by exact Hi. cbn [eb en0]. destruct (Nat.ltb_spec i (3 * n)); [reflexivity|lia]. }
    exists en. split.
    + apply Hmodel. split; [exact Hrk|]. split; [exact Hce|]. split; [apply in_bounds_from_bools|].
      unfold extra. rewrite nurimaze_constraints_sem, <- Hsem. apply nm_sem_ext.
      * intros y x Hy Hx. apply Hlow. apply (cidx_lt h w y x Hy Hx).
      * intros y x Hy Hx. rewrite Hnext. unfold en. rewrite splice_eb_high by lia. cbn [eb en0].
        destruct (Nat.ltb_spec (3 * n + cidx w (y, x)) (3 * n)); [lia|]. f_equal. lia.
    + rewrite Hreads. transitivity (map (fun i => b2z (eb (env_of_answer ans) i)) (seq 0 n)); [|apply answer_as_reading; assumption].
      apply map_ext_in. intros i Hi. apply in_seq in Hi. rewrite Hlow by lia. reflexivity.
Qed.

Theorem nurimaze_exact h w wv wh mark sy sx gy gx st ans :
  on_board h w sy sx = true -> on_board h w gy gx = true -> (sy, sx) <> (gy, gx) ->
  solve_nurimaze_model [[Z.of_nat h; Z.of_nat w]; wv; wh; mark; [sy; sx; gy; gx]] = Ok st ->
  ((exists en, model_of gsem_avc en st /\ reads st en (seq 0 (h * w)) = ans)
   <-> rules_nurimaze [[Z.of_nat h; Z.of_nat w]; wv; wh; mark; [sy; sx; gy; gx]] ans = true).
Proof.
  intros Hsb Hgb Hne Hst.
  rewrite (nurimaze_model_iff h w wv wh mark sy sx gy gx st ans Hst), rules_nurimaze_split.
  destruct (nmp_on_board h w sy sx Hsb) as [ys [xs [-> [-> [Hys Hxs]]]]].
  destruct (nmp_on_board h w gy gx Hgb) as [yg [xg [-> [-> [Hyg Hxg]]]]].
  assert (Hst' : ys * w + xs <> yg * w + xg).
  { intros E. apply nmg_cell_inj in E; [|assumption|assumption]. destruct E; subst. apply Hne. reflexivity. }
  split.
  - intros [Hlen [H01 [Htree [Pi Hsem]]]]. rewrite (proj2 (Nat.eqb_eq _ _) Hlen), H01. cbn [andb].
    exact (nmp_core_sound h w wv wh mark ys xs yg xg Hys Hxs Hyg Hxg Hst' (fun v => isb (getz ans v))
             (fun v => nmp_white_lt ans (h * w) v Hlen) Pi Htree Hsem).
  - intros Hr. apply andb_true_iff in Hr. destruct Hr as [Hr Hcore]. apply andb_true_iff in Hr. destruct Hr as [Hlen H01].
    apply Nat.eqb_eq in Hlen.
    destruct (nmp_core_complete h w wv wh mark ys xs yg xg Hys Hxs Hyg Hxg Hst' (fun v => isb (getz ans v))
                (fun v => nmp_white_lt ans (h * w) v Hlen) Hcore) as [Htree Hsem].
    split; [exact Hlen|]. split; [exact H01|]. split; [exact Htree|].
    eexists. exact Hsem.
Qed.

(* the same with the weakest hypothesis on S and G: at least one of them is a cell of the board.  When the other
   one is off the board, or both are the same cell, the rules have no solution and the posted program has no model
   (a path with a single end).  With both off the board the program no longer mentions S and G. *)
Lemma nmp_core_heads h w wv wh mark sy sx gy gx white :
  rules_core h w wv wh mark sy sx gy gx white = true ->
  on_board h w sy sx = true /\ on_board h w gy gx = true /\ zn sy * w + zn sx <> zn gy * w + zn gx.
Proof.
  unfold rules_core. cbv zeta. rewrite !andb_true_iff. intros [[[[[[[[[[H1 H2] H3] _] _] _] _] _] _] _] _].
  split; [exact H1|]. split; [exact H2|]. apply negb_true_iff, Nat.eqb_neq in H3. exact H3.
Qed.

Theorem nurimaze_exact_gen h w wv wh mark sy sx gy gx st ans :
  on_board h w sy sx = true \/ on_board h w gy gx = true ->
  solve_nurimaze_model [[Z.of_nat h; Z.of_nat w]; wv; wh; mark; [sy; sx; gy; gx]] = Ok st ->
  ((exists en, model_of gsem_avc en st /\ reads st en (seq 0 (h * w)) = ans)
   <-> rules_nurimaze [[Z.of_nat h; Z.of_nat w]; wv; wh; mark; [sy; sx; gy; gx]] ans = true).
Proof.
  intros Hor Hst.
  assert (Hone : forall ys xs, ys < h -> xs < w ->
            (forall y x, y < h -> x < w -> nm_is y x sy sx || nm_is y x gy gx = Nat.eqb (y * w + x) (ys * w + xs)) ->
            (on_board h w sy sx && on_board h w gy gx && negb (Nat.eqb (zn sy * w + zn sx) (zn gy * w + zn gx)) = false) ->
            ((exists en, model_of gsem_avc en st /\ reads st en (seq 0 (h * w)) = ans)
             <-> rules_nurimaze [[Z.of_nat h; Z.of_nat w]; wv; wh; mark; [sy; sx; gy; gx]] ans = true)).
  { intros ys xs Hys Hxs Hends Hhead. split.
    - intros Hm. exfalso. apply (nurimaze_model_iff h w wv wh mark sy sx gy gx st ans Hst) in Hm.
      destruct Hm as [Hlen [_ [Htree [Pi Hsem]]]].
      exact (nmp_one_end h w wv wh mark sy sx gy gx ys xs Hys Hxs Hends (fun v => isb (getz ans v))
               (fun v => nmp_white_lt ans (h * w) v Hlen) Pi Htree Hsem).
    - intros Hr. exfalso. rewrite rules_nurimaze_split in Hr. apply andb_true_iff in Hr. destruct Hr as [_ Hcore].
      apply nmp_core_heads in Hcore. destruct Hcore as [H1 [H2 H3]]. rewrite H1, H2 in Hhead. cbn [andb] in Hhead.
      apply negb_false_iff, Nat.eqb_eq in Hhead. contradiction. }
  destruct (on_board h w sy sx) eqn:Hs; destruct (on_board h w gy gx) eqn:Hg.
  - destruct (Z.eq_dec sy gy) as [Ey|Ny]; [destruct (Z.eq_dec sx gx) as [Ex|Nx]|].
    + (* S = G *)
      subst gy gx. destruct (nmp_on_board h w sy sx Hs) as [ys [xs [-> [-> [Hys Hxs]]]]].
      apply (Hone ys xs Hys Hxs).
      * intros y x Hy Hx. rewrite orb_diag, nmp_is. apply nmp_is_cell; assumption.
      * rewrite Nat.eqb_refl. reflexivity.
    + apply nurimaze_exact; [exact Hs|exact Hg| |exact Hst]. intros E. inversion E. contradiction.
    + apply nurimaze_exact; [exact Hs|exact Hg| |exact Hst]. intros E. inversion E. contradiction.
  - (* only S on the board *)
    destruct (nmp_on_board h w sy sx Hs) as [ys [xs [-> [-> [Hys Hxs]]]]].
    apply (Hone ys xs Hys Hxs); [|reflexivity].
    intros y x Hy Hx. rewrite (nmp_is_off h w y x gy gx Hg Hy Hx), orb_false_r, nmp_is. apply nmp_is_cell; assumption.
  - (* only G on the board *)
    destruct (nmp_on_board h w gy gx Hg) as [yg [xg [-> [-> [Hyg Hxg]]]]].
    apply (Hone yg xg Hyg Hxg); [|reflexivity].
    intros y x Hy Hx. rewrite (nmp_is_off h w y x sy sx Hs Hy Hx). cbn [orb]. rewrite nmp_is. apply nmp_is_cell; assumption.
  - destruct Hor; discriminate.
Qed.

(* the model is defined on every board with at least one cell and arrays that cover it *)
Theorem nurimaze_model_defined h w wv wh mark sy sx gy gx :
  1 <= h * w -> h * (w - 1) <= length wv -> (h - 1) * w <= length wh -> h * w <= length mark ->
  exists st, solve_nurimaze_model [[Z.of_nat h; Z.of_nat w]; wv; wh; mark; [sy; sx; gy; gx]] = Ok st.
Proof.
  intros Hn H1 H2 H3. unfold solve_nurimaze_model.
  destruct (dims2n h w [wv; wh; mark; [sy; sx; gy; gx]]) as [-> ->].
  set (pb := [[Z.of_nat h; Z.of_nat w]; wv; wh; mark; [sy; sx; gy; gx]]).
  change (sec pb 1) with wv. change (sec pb 2) with wh. change (sec pb 3) with mark.
  destruct (AvcTotal.post_avc_succeeds (bool_grid_state (h * w) []) (map BVar (seq 0 (h * w))) (grid_graph h w) true
              (grid_wf h w)) as [st1 Hp].
  - exact Hn.
  - rewrite map_length, seq_length. apply Nat.le_refl.
  - intros a Ha. apply in_map_iff in Ha. destruct Ha as [i [<- _]]. reflexivity.
  - rewrite Hp.
    destruct (Nat.ltb_spec (length wv) (h * (w - 1))); [lia|].
    destruct (Nat.ltb_spec (length wh) ((h - 1) * w)); [lia|].
    destruct (Nat.ltb_spec (length mark) (h * w)); [lia|].
    cbn [orb]. eexists. reflexivity.
Qed.

(* the hypotheses are satisfiable and the statement is not vacuous: a 2x3 board, every cell its own tile, S top left,
   G bottom right, a circle in the middle of the top row: the model is defined, and the rules accept the maze that runs
   along the top row and down the right column *)
Example nurimaze_model_ok :
  exists st, solve_nurimaze_model [[2; 3]; [1; 1; 1; 1]; [1; 1; 1]; [0; 1; 0; 0; 0; 0]; [0; 0; 1; 2]]%Z = Ok st.
Proof. vm_compute. eexists. reflexivity. Qed.

Example nurimaze_rules_ok :
  rules_nurimaze [[2; 3]; [1; 1; 1; 1]; [1; 1; 1]; [0; 1; 0; 0; 0; 0]; [0; 0; 1; 2]]%Z [1; 1; 1; 0; 0; 1]%Z = true /\
  on_board 2 3 0 0 = true /\ on_board 2 3 1 2 = true /\ (0%Z, 0%Z) <> (1%Z, 2%Z).
Proof. split; [vm_compute; reflexivity|]. split; [reflexivity|]. split; [reflexivity|discriminate]. Qed.
