(* C11 Tier 1 - composition with property C05: a solver that declares an int grid `division` (0..hi), calls
   graph.division_connected on it (grid form, auxiliary-variable encoding, model Graph/Division.v), then
   declares a boolean answer grid and posts further constraints over the division and the answer variables.
   The division variables and the variables of the connectivity encoding are existential.
   Uses C05's closed theorems division_exact_models / division_grid_roots (Props/C05.v).
   Contents:
     1. the constraints posted by post_division only mention variables declared so far (cons_closed is kept),
        and the shape of the state after the call;
     2. key_ids (the variables flagged as answer keys) and reading them;
     3. division_grid_compose;
     4. label classes vs. connected groups: reusable graph and list lemmas;
     5. post_division_defined: the call returns a state (graph with a vertex, one label per vertex, roots None
        or in-range ints). *)
From Coq Require Import ZArith List Bool Arith Lia.
From Cspuz Require Import Lib.PyErr Core.Expr Core.Program Core.Build Graph.GraphModel Graph.ReachProofs
     Graph.Division Graph.DivisionEval Graph.DivisionProofs Graph.DivisionMain
     Puzzle.PuzzleBase Puzzle.SatAbs Puzzle.ModelBase Puzzle.ModelLemmas Puzzle.CreekProofs Puzzle.HeyawakeLemmas.
Import ListNotations.
Local Open Scope nat_scope.

Notation b2z := PuzzleBase.b2z.

(* ------------------------------------------------------------------------ *)
(* 1. variables occurring in the posted constraints                           *)

Definition le_id (k : nat) (e : expr) : Prop := max_id e <= k.

Ltac fa := repeat first [apply Forall_nil | apply Forall_cons].

Lemma le_id_bnode k o args : Forall (le_id k) args -> le_id k (BNode o args).
Proof. unfold le_id. induction 1 as [|a r Ha _ IH]; simpl in *; lia. Qed.
Lemma le_id_inode k o args : Forall (le_id k) args -> le_id k (INode o args).
Proof. unfold le_id. induction 1 as [|a r Ha _ IH]; simpl in *; lia. Qed.
Lemma le_id_int k z : le_id k (PyInt z).
Proof. unfold le_id; simpl; lia. Qed.
Lemma le_id_mono k k' e : k <= k' -> le_id k e -> le_id k' e.
Proof. unfold le_id; lia. Qed.

Lemma nth_res_Forall {A} (P : A -> Prop) l i a : Forall P l -> nth_res l i = Ok a -> P a.
Proof.
  unfold nth_res. intros HF H. destruct (nth_error l i) as [x|] eqn:E; [|discriminate].
  inversion H; subst. rewrite Forall_forall in HF. apply HF. eapply nth_error_In; exact E.
Qed.
Lemma py_nth_Forall {A} (P : A -> Prop) l z a : Forall P l -> py_nth l z = Ok a -> P a.
Proof.
  unfold py_nth. intros HF H.
  destruct (_ && _); [|discriminate]. eapply nth_res_Forall; eassumption.
Qed.

Lemma le_id_py_eq k a b : le_id k a -> le_id k b -> le_id k (py_eq a b).
Proof. unfold le_id. intros Ha Hb. destruct a, b; cbn [py_eq max_id fold_right] in *; lia. Qed.

Lemma count_true_go_le k : forall l ops c ops' c',
  count_true_go l ops c = Ok (ops', c') -> Forall (le_id k) l -> Forall (le_id k) ops -> Forall (le_id k) ops'.
Proof.
  induction l as [|a l IH]; intros ops c ops' c' H Hl Ho; simpl in H.
  - inversion H; subst; exact Ho.
  - inversion Hl as [|? ? Ha Hl']; subst.
    destruct a; try discriminate.
    + eapply IH; eassumption.
    + eapply IH; [exact H|exact Hl'|]. apply Forall_app. split; [exact Ho|].
      constructor; [|constructor]. apply le_id_inode. fa; try apply le_id_int. exact Ha.
    + eapply IH; [exact H|exact Hl'|]. apply Forall_app. split; [exact Ho|].
      constructor; [|constructor]. apply le_id_inode. fa; try apply le_id_int. exact Ha.
Qed.

Lemma count_true_le k l e : count_true l = Ok e -> Forall (le_id k) l -> le_id k e.
Proof.
  unfold count_true. intros H Hl. destruct (count_true_go l [] 0) as [[ops c]|] eqn:E; [|discriminate].
  pose proof (count_true_go_le k l [] 0%Z ops c E Hl (Forall_nil _)) as Ho.
  set (ops2 := if (0 <? c)%Z then ops ++ [PyInt c] else ops) in *.
  assert (Ho2 : Forall (le_id k) ops2).
  { unfold ops2. destruct (0 <? c)%Z; [|exact Ho]. apply Forall_app. split; [exact Ho|].
    constructor; [apply le_id_int|constructor]. }
  destruct ops2; inversion H; subst.
  - apply le_id_inode. fa. apply le_id_int.
  - apply le_id_inode. exact Ho2.
Qed.

Lemma mapM_Forall {A B} (f : A -> res B) (Q : B -> Prop) l r :
  (forall a b, In a l -> f a = Ok b -> Q b) -> mapM f l = Ok r -> Forall Q r.
Proof.
  revert r. induction l as [|x xs IH]; intros r Hf H; simpl in H.
  - inversion H; constructor.
  - destruct (f x) as [y|] eqn:E; simpl in H; [|discriminate].
    destruct (mapM f xs) as [ys|] eqn:E2; simpl in H; [|discriminate].
    inversion H; subst. constructor.
    + apply (Hf x y); [left; reflexivity|exact E].
    + apply IH; [|reflexivity]. intros a b Ha. apply Hf. right; exact Ha.
Qed.

Lemma Forall_concat {A} (P : A -> Prop) ls : Forall (Forall P) ls -> Forall P (concat ls).
Proof. induction 1; simpl; [constructor|]. apply Forall_app. split; assumption. Qed.

Lemma Forall_zip_with {A B C} (f : A -> B -> C) (P : A -> Prop) (Q : B -> Prop) (S : C -> Prop) :
  (forall a b, P a -> Q b -> S (f a b)) ->
  forall l1 l2, Forall P l1 -> Forall Q l2 -> Forall S (zip_with f l1 l2).
Proof.
  intros Hf. induction l1 as [|a r IH]; intros l2 H1 H2; simpl; [constructor|].
  destruct l2 as [|b r2]; [constructor|].
  inversion H1; inversion H2; subst. constructor; [apply Hf; assumption|apply IH; assumption].
Qed.

Section Closed.
  Variable k : nat.
  Variables labels rank root sf : list expr.
  Hypothesis Hlab : Forall (le_id k) labels.
  Hypothesis Hrank : Forall (le_id k) rank.
  Hypothesis Hroot : Forall (le_id k) root.
  Hypothesis Hsf : Forall (le_id k) sf.

  Lemma edge_item_le i je less cs :
    edge_item labels rank sf i je = Ok (less, cs) -> le_id k less /\ Forall (le_id k) cs.
  Proof.
    destruct je as [j e]. unfold edge_item.
    destruct (nth_res sf e) as [sfe|] eqn:E1; simpl; [|discriminate].
    destruct (nth_res rank i) as [ri|] eqn:E2; simpl; [|discriminate].
    destruct (nth_res rank j) as [rj|] eqn:E3; simpl; [|discriminate].
    pose proof (nth_res_Forall _ _ _ _ Hsf E1) as H1.
    pose proof (nth_res_Forall _ _ _ _ Hrank E2) as H2.
    pose proof (nth_res_Forall _ _ _ _ Hrank E3) as H3.
    assert (Hless : le_id k (b_and sfe (i_gt ri rj))).
    { apply le_id_bnode. fa; [exact H1|]. apply le_id_bnode. fa; assumption. }
    destruct (Nat.ltb i j).
    - destruct (nth_res labels i) as [di|] eqn:E4; simpl; [|discriminate].
      destruct (nth_res labels j) as [dj|] eqn:E5; simpl; [|discriminate].
      pose proof (nth_res_Forall _ _ _ _ Hlab E4) as H4.
      pose proof (nth_res_Forall _ _ _ _ Hlab E5) as H5.
      intros H; inversion H; subst. split; [exact Hless|].
      constructor; [|constructor]. apply le_id_bnode. fa; [exact H1|].
      apply le_id_bnode. fa; [apply le_id_py_eq; assumption|].
      apply le_id_bnode. fa; assumption.
    - intros H; inversion H; subst. split; [exact Hless|constructor].
  Qed.

  Lemma vertex_cons_le g i cs : vertex_cons labels rank root sf g i = Ok cs -> Forall (le_id k) cs.
  Proof.
    unfold vertex_cons.
    destruct (mapM (edge_item labels rank sf i) (incident g i)) as [items|] eqn:E; simpl; [|discriminate].
    pose proof (mapM_Forall _ (fun p => le_id k (fst p) /\ Forall (le_id k) (snd p)) _ _
                  (fun a b _ Hb => edge_item_le i a (fst b) (snd b)
                                     (eq_trans Hb (f_equal Ok (surjective_pairing b)))) E) as HF.
    destruct (count_true (map fst items)) as [ct|] eqn:E2; simpl; [|discriminate].
    destruct (nth_res root i) as [rt|] eqn:E3; simpl; [|discriminate].
    intros H; inversion H; subst. apply Forall_app. split.
    - apply Forall_concat. rewrite Forall_map. eapply Forall_impl; [|exact HF]. intros a [_ Ha]; exact Ha.
    - constructor; [|constructor]. apply le_id_bnode. fa.
      + eapply count_true_le; [exact E2|]. rewrite Forall_map. eapply Forall_impl; [|exact HF]. intros a [Ha _]; exact Ha.
      + apply le_id_inode. fa; try apply le_id_int. exact (nth_res_Forall (le_id k) root i rt Hroot E3).
  Qed.

  Lemma region_count_le aeg c e : region_count labels root aeg c = Ok e -> le_id k e.
  Proof.
    unfold region_count.
    destruct (count_true _) as [ct|] eqn:E; simpl; [|discriminate].
    intros H; inversion H; subst.
    assert (Hct : le_id k ct).
    { eapply count_true_le; [exact E|].
      apply (Forall_zip_with _ (le_id k) (le_id k)); [|exact Hroot|exact Hlab].
      intros a b Ha Hb. apply le_id_bnode. fa; [exact Ha|].
      apply le_id_py_eq; [exact Hb|apply le_id_int]. }
    destruct aeg; apply le_id_bnode; fa; try exact Hct; apply le_id_int.
  Qed.

  Lemma aux_roots_le rs : forall c cs, aux_roots labels root c rs = Ok cs -> Forall (le_id k) cs.
  Proof.
    induction rs as [|a rs IH]; intros c cs H; simpl in H.
    - inversion H; constructor.
    - destruct a as [|z|l]; [eapply IH; exact H| |discriminate].
      destruct (py_nth labels z) as [d|] eqn:E1; simpl in H; [|discriminate].
      destruct (py_nth root z) as [r|] eqn:E2; simpl in H; [|discriminate].
      destruct (aux_roots labels root (S c) rs) as [rest|] eqn:E3; simpl in H; [|discriminate].
      inversion H; subst. constructor; [|constructor].
      + apply le_id_py_eq; [exact (py_nth_Forall (le_id k) labels z d Hlab E1)|apply le_id_int].
      + exact (py_nth_Forall (le_id k) root z r Hroot E2).
      + eapply IH; exact E3.
  Qed.

  Lemma aux_constraints_le g R roots aeg cs :
    aux_constraints labels rank root sf g R roots aeg = Ok cs -> Forall (le_id k) cs.
  Proof.
    unfold aux_constraints.
    destruct (mapM (vertex_cons labels rank root sf g) (seq 0 (nv g))) as [vs|] eqn:E1; simpl; [|discriminate].
    destruct (mapM (region_count labels root aeg) (seq 0 R)) as [rc|] eqn:E2; simpl; [|discriminate].
    destruct (opt_roots (aux_roots labels root 0) roots) as [rs|] eqn:E3; simpl; [|discriminate].
    intros H; inversion H; subst. apply Forall_app. split; [|apply Forall_app; split].
    - apply Forall_concat. eapply mapM_Forall; [|exact E1]. intros a b _ Hb. eapply vertex_cons_le; exact Hb.
    - eapply mapM_Forall; [|exact E2]. intros a b _ Hb. eapply region_count_le; exact Hb.
    - destruct roots as [l|]; simpl in E3; [eapply aux_roots_le; exact E3|inversion E3; constructor].
  Qed.
End Closed.

(* the state after _division_connected (auxiliary-variable encoding) *)
Lemma post_division_shape st s R g roots aeg st' :
  post_division st s R g roots aeg false = Ok st' ->
  exists cs,
    st' = ensure (add_decls (add_decls (add_decls st (repeat (DInt 0 (Z.of_nat (nv g) - 1)) (nv g)))
                                       (repeat DBool (nv g))) (repeat DBool (length (edges g)))) cs /\
    aux_constraints (seq_data s)
      (map (fun i => IVar (next_id st + i) 0 (Z.of_nat (nv g) - 1)) (seq 0 (nv g)))
      (map (fun i => BVar (next_id st + nv g + i)) (seq 0 (nv g)))
      (map (fun i => BVar (next_id st + nv g + nv g + i)) (seq 0 (length (edges g)))) g R roots aeg = Ok cs.
Proof.
  unfold post_division, int_array. intros H.
  destruct (Z.of_nat (nv g) - 1 <? 0)%Z; [discriminate|]. simpl in H.
  rewrite int_vars_spec in H. unfold bool_array in H. rewrite !bool_vars_spec in H.
  rewrite !add_decls_next, !repeat_length in H.
  destruct (aux_constraints _ _ _ _ _ _ _ _) as [cs|] eqn:E; simpl in H; [|discriminate].
  inversion H; subst. exists cs. split; reflexivity.
Qed.

Lemma post_division_next st s R g roots aeg st' :
  post_division st s R g roots aeg false = Ok st' ->
  next_id st' = next_id st + nv g + nv g + length (edges g).
Proof.
  intros H. destruct (post_division_shape _ _ _ _ _ _ _ H) as [cs [-> _]].
  unfold ensure, next_id; simpl. rewrite !app_length, !repeat_length. lia.
Qed.

Lemma post_division_keys st s R g roots aeg st' :
  post_division st s R g roots aeg false = Ok st' ->
  keys st' = keys st ++ repeat false (nv g + nv g + length (edges g)).
Proof.
  intros H. destruct (post_division_shape _ _ _ _ _ _ _ H) as [cs [-> _]].
  unfold ensure, add_decls; simpl. rewrite !repeat_length, <- !app_assoc, <- !repeat_app. rewrite Nat.add_assoc. reflexivity.
Qed.

Theorem post_division_closed st s R g roots aeg st' :
  Forall (le_id (next_id st)) (seq_data s) -> cons_closed st ->
  post_division st s R g roots aeg false = Ok st' -> cons_closed st'.
Proof.
  intros Hlab Hcl H. pose proof (post_division_next _ _ _ _ _ _ _ H) as Hn.
  destruct (post_division_shape _ _ _ _ _ _ _ H) as [cs [E Hcs]].
  unfold cons_closed. rewrite Hn. rewrite E. unfold ensure; simpl. apply Forall_app. split.
  - eapply Forall_impl; [|exact Hcl]. intros a Ha. simpl in Ha. lia.
  - set (k := next_id st + nv g + nv g + length (edges g)).
    apply (aux_constraints_le k _ _ _ _) with (5 := Hcs).
    + eapply Forall_impl; [|exact Hlab]. intros a Ha. unfold le_id in *. lia.
    + rewrite Forall_map. apply Forall_forall. intros i Hi. apply in_seq in Hi. unfold le_id, k; simpl. lia.
    + rewrite Forall_map. apply Forall_forall. intros i Hi. apply in_seq in Hi. unfold le_id, k; simpl. lia.
    + rewrite Forall_map. apply Forall_forall. intros i Hi. apply in_seq in Hi. unfold le_id, k; simpl. lia.
Qed.

(* ------------------------------------------------------------------------ *)
(* 2. the variables flagged as answer keys                                    *)

Definition key_ids (st : state) : list nat :=
  filter (fun i => nth i (keys st) false) (seq 0 (length (keys st))).

Lemma filter_none {A} (f : A -> bool) l : (forall x, In x l -> f x = false) -> filter f l = [].
Proof.
  induction l as [|a r IH]; intros H; simpl; [reflexivity|].
  rewrite (H a (or_introl eq_refl)). apply IH. intros x Hx. apply H. right; exact Hx.
Qed.
Lemma filter_all {A} (f : A -> bool) l : (forall x, In x l -> f x = true) -> filter f l = l.
Proof.
  induction l as [|a r IH]; intros H; simpl; [reflexivity|].
  rewrite (H a (or_introl eq_refl)). f_equal. apply IH. intros x Hx. apply H. right; exact Hx.
Qed.

Lemma seq_as_map a n : seq a n = map (fun v => a + v) (seq 0 n).
Proof.
  revert a. induction n as [|n IH]; intros a; simpl; [reflexivity|]. f_equal; [lia|].
  rewrite (IH (S a)), <- seq_shift, map_map. apply map_ext. intros v. lia.
Qed.

Lemma key_ids_suffix vs a n cs :
  key_ids {| vars := vs; keys := repeat false a ++ repeat true n; cons := cs |} = seq a n.
Proof.
  unfold key_ids; simpl. rewrite app_length, !repeat_length, seq_app, filter_app. simpl.
  rewrite filter_none, filter_all; [reflexivity| |].
  - intros i Hi. apply in_seq in Hi. rewrite app_nth2 by (rewrite repeat_length; lia).
    rewrite repeat_length. rewrite (nth_indep _ false true) by (rewrite repeat_length; lia). apply nth_repeat.
  - intros i Hi. apply in_seq in Hi. rewrite app_nth1 by (rewrite repeat_length; lia). apply nth_repeat.
Qed.

(* ------------------------------------------------------------------------ *)
(* 3. composition                                                            *)

Lemma roots_hold_ext_below n (l l' : nat -> Z) : (forall v, v < n -> l v = l' v) ->
  forall rs k, roots_hold n l k rs = roots_hold n l' k rs.
Proof.
  intros E. induction rs as [|a rs IH]; intros k; simpl; [reflexivity|].
  destruct (root_vertex n a) as [[v|]|] eqn:Ev; [|apply IH|reflexivity].
  rewrite IH. f_equal. assert (Hv : v < n).
  { destruct a as [|z|t]; simpl in Ev; try discriminate.
    destruct ((0 <=? (if z <? 0 then z + Z.of_nat n else z)) && ((if z <? 0 then z + Z.of_nat n else z) <? Z.of_nat n))%Z eqn:Eb;
      [|discriminate].
    inversion Ev; subst. apply andb_true_iff in Eb. destruct Eb as [E1 E2].
    apply Z.leb_le in E1. apply Z.ltb_lt in E2. lia. }
  rewrite (E v Hv). reflexivity.
Qed.

Lemma spec_division_ext_below g R (l l' : nat -> Z) roots aeg :
  wf_graph g = true -> (forall v, v < nv g -> l v = l' v) ->
  spec_division g R l roots aeg -> spec_division g R l' roots aeg.
Proof.
  intros Hwf E [H1 [H2 H3]]. split; [|split].
  - intros k Hk. apply (connected_ext_below g (class_of l k)); [exact Hwf| |apply H1; exact Hk].
    intros x Hx. unfold class_of. rewrite (E x Hx). reflexivity.
  - intros Ha k Hk. destruct (H2 Ha k Hk) as [v [Hv Hl]]. exists v. split; [exact Hv|]. rewrite <- (E v Hv). exact Hl.
  - destruct roots as [rs|]; simpl in *; [|reflexivity].
    rewrite <- (roots_hold_ext_below (nv g) l l' E). exact H3.
Qed.

Section Compose.
  Variables (h w : nat) (hi : Z) (R : nat) (rs : list grid_root) (aeg : bool).
  Variables (st0 : state) (data : list expr) (st1 : state).
  Hypothesis Hdecl : int_array empty_state (h * w) 0 hi = Ok (st0, data).
  Hypothesis Hcall :
    division_connected st0 (D2 h w data) R None (Some (map grid_root_arg rs)) aeg false = Ok st1.
  Variable extra : list expr.
  Variable local : (nat -> Z) -> (nat -> bool) -> bool.
  Hypothesis Hloc : forall en,
    forallb (holds division_gsem en) extra = local (ei en) (fun v => eb en (next_id st1 + v)).
  Hypothesis Hlocal_ext : forall d d' b b',
    (forall v, v < h * w -> d v = d' v) -> (forall v, v < h * w -> b v = b' v) -> local d b = local d' b'.

  Definition division_final_state : state :=
    {| vars := vars st1 ++ repeat DBool (h * w);
       keys := keys st1 ++ repeat true (h * w);
       cons := cons st1 ++ extra |}.

  Let n := h * w.
  Let g := grid_graph h w.
  Let base := next_id st1.
  Let roots := Some (map (grid_root_vertex w) rs).

  Lemma compose_decl :
    st0 = add_decls empty_state (repeat (DInt 0 hi) n) /\ data = map (fun i => IVar i 0 hi) (seq 0 n).
  Proof.
    unfold int_array in Hdecl. destruct (hi <? 0)%Z; [discriminate|].
    rewrite int_vars_spec in Hdecl. inversion Hdecl; subst. split; reflexivity.
  Qed.

  Lemma compose_next0 : next_id st0 = n.
  Proof. destruct compose_decl as [-> _]. unfold next_id, add_decls; simpl. apply repeat_length. Qed.

  Lemma compose_post : post_division st0 (SArr data) R g roots aeg false = Ok st1.
  Proof. unfold roots, g. rewrite <- division_grid_roots. exact Hcall. Qed.

  Lemma compose_base : base = n + n + n + length (grid_edges h w).
  Proof. unfold base. rewrite (post_division_next _ _ _ _ _ _ _ compose_post), compose_next0. reflexivity. Qed.

  Lemma compose_keys : key_ids division_final_state = seq base n.
  Proof.
    unfold division_final_state.
    rewrite (post_division_keys _ _ _ _ _ _ _ compose_post).
    destruct compose_decl as [E0 _]. rewrite E0. unfold add_decls; simpl keys. rewrite repeat_length.
    rewrite <- repeat_app. rewrite key_ids_suffix. f_equal. rewrite compose_base. simpl nv. fold n. simpl edges. lia.
  Qed.

  Lemma compose_vars : exists new, vars st1 = repeat (DInt 0 hi) n ++ new /\ length new = n + n + length (grid_edges h w).
  Proof.
    destruct (post_division_shape _ _ _ _ _ _ _ compose_post) as [cs [E _]].
    destruct compose_decl as [E0 _]. rewrite E, E0. unfold ensure, add_decls; simpl.
    eexists. rewrite <- !app_assoc. split; [reflexivity|]. rewrite !app_length, !repeat_length. fold n. lia.
  Qed.

  Lemma compose_data_len : length data = n.
  Proof. destruct compose_decl as [_ ->]. rewrite map_length, seq_length. reflexivity. Qed.

  Lemma compose_labels_ok : labels_ok division_gsem (next_id st0) data.
  Proof.
    rewrite compose_next0. destruct compose_decl as [_ ->]. apply labels_ok_vars.
    intros i Hi. apply in_seq in Hi. lia.
  Qed.

  Lemma compose_label_of en v : v < n -> label_of division_gsem en data v = ei en v.
  Proof.
    intros Hv. destruct compose_decl as [_ ->]. unfold label_of.
    rewrite (nth_indep _ (PyInt 0) (IVar 0 0 hi)) by (rewrite map_length, seq_length; exact Hv).
    rewrite (map_nth (fun i => IVar i 0 hi)), seq_nth by exact Hv. reflexivity.
  Qed.

  Lemma compose_model0 en : (forall v, v < n -> (0 <= ei en v <= hi)%Z) -> model_of division_gsem en st0.
  Proof.
    intros Hb. destruct compose_decl as [-> _]. split; [|reflexivity].
    unfold in_bounds, add_decls; simpl. apply in_bounds_repeat_int. intros v Hv. simpl. apply Hb. exact Hv.
  Qed.

  Lemma compose_closed0 : cons_closed st0.
  Proof. destruct compose_decl as [-> _]. constructor. Qed.

  Lemma compose_closed1 : cons_closed st1.
  Proof.
    apply (post_division_closed st0 (SArr data) R g roots aeg st1); [|exact compose_closed0|exact compose_post].
    rewrite compose_next0. simpl. destruct compose_decl as [_ ->]. rewrite Forall_map. apply Forall_forall.
    intros i Hi. apply in_seq in Hi. unfold le_id; simpl. lia.
  Qed.

  Lemma compose_reads en :
    reads division_final_state en (seq base n) = map (fun v => b2z (eb en (base + v))) (seq 0 n).
  Proof.
    unfold reads. rewrite (seq_as_map base n), map_map. apply map_ext_in.
    intros v Hv. apply in_seq in Hv. unfold read_var, division_final_state; simpl.
    rewrite nth_error_app2 by (unfold base, next_id; lia).
    replace (base + v - length (vars st1)) with v by (unfold base, next_id; lia).
    rewrite (nth_error_nth' _ DBool) by (rewrite repeat_length; lia). rewrite nth_repeat. reflexivity.
  Qed.

  Lemma compose_split en :
    model_of division_gsem en division_final_state <->
    (model_of division_gsem en st1 /\ forallb (holds division_gsem en) extra = true).
  Proof.
    unfold model_of, in_bounds, satisfies, division_final_state; simpl.
    rewrite in_bounds_from_app, in_bounds_repeat_bool, andb_true_r, forallb_app, andb_true_iff. tauto.
  Qed.

  Theorem division_grid_compose ans :
    (exists en, model_of division_gsem en division_final_state /\
                reads division_final_state en (key_ids division_final_state) = ans)
    <-> (length ans = n /\ forallb is01 ans = true /\
         exists d, (forall v, v < n -> (0 <= d v <= hi)%Z) /\
                   spec_division g R d roots aeg /\
                   local d (fun v => isb (getz ans v)) = true).
  Proof.
    rewrite compose_keys.
    pose proof (division_exact_models st0 (SArr data) R g roots aeg false st1) as EX.
    assert (Hwf : wf_graph g = true) by apply grid_wf.
    assert (Hlen : length (seq_data (SArr data)) = nv g) by (simpl; apply compose_data_len).
    split.
    - intros [en [Hm Hr]]. rewrite compose_reads in Hr. subst ans.
      apply compose_split in Hm. destruct Hm as [Hm1 Hex].
      split; [rewrite map_length, seq_length; reflexivity|].
      split; [rewrite forallb_map; apply forallb_forall; intros; apply is01_b2z|].
      assert (Hb : forall v, v < n -> (0 <= ei en v <= hi)%Z).
      { destruct Hm1 as [Hb _]. unfold in_bounds in Hb. destruct compose_vars as [new [Ev _]]. rewrite Ev in Hb.
        rewrite in_bounds_from_app in Hb. apply andb_true_iff in Hb. destruct Hb as [Hb _].
        intros v Hv. apply (proj1 (in_bounds_repeat_int en 0%Z hi n 0) Hb v Hv). }
      exists (ei en). split; [exact Hb|]. split.
      + apply (spec_division_ext_below g R (label_of division_gsem en data)); [exact Hwf|intros v Hv; apply compose_label_of; exact Hv|].
        apply (EX en Hwf Hlen compose_labels_ok compose_closed0 (compose_model0 en Hb) compose_post).
        exists en. split; [apply agree_below_refl|exact Hm1].
      + rewrite Hloc in Hex. rewrite <- Hex. apply Hlocal_ext; [reflexivity|].
        intros v Hv. rewrite getz_map_seq by exact Hv. apply b2z_isb.
    - intros [Hl [H01 [d [Hb [Hspec Hlc]]]]].
      set (en0 := {| eb := fun _ => false; ei := d |}).
      assert (Hm0 : model_of division_gsem en0 st0) by (apply compose_model0; exact Hb).
      assert (Hspec0 : spec_division g R (label_of division_gsem en0 (seq_data (SArr data))) roots aeg).
      { apply (spec_division_ext_below g R d); [exact Hwf| |exact Hspec].
        intros v Hv. simpl. rewrite compose_label_of by exact Hv. reflexivity. }
      apply (EX en0 Hwf Hlen compose_labels_ok compose_closed0 Hm0 compose_post) in Hspec0.
      destruct Hspec0 as [en1 [Hag Hm1]]. rewrite compose_next0 in Hag.
      set (en2 := {| eb := fun i => if Nat.ltb i base then eb en1 i else isb (getz ans (i - base)); ei := ei en1 |}).
      assert (Hag2 : agree_below base en1 en2).
      { intros i Hi. unfold en2; simpl. destruct (Nat.ltb_spec i base); [|lia]. split; reflexivity. }
      assert (Hm2 : model_of division_gsem en2 st1).
      { destruct Hm1 as [Hb1 Hs1]. split.
        - unfold in_bounds in *. rewrite <- (in_bounds_from_agree en1 en2); [exact Hb1|]. intros; reflexivity.
        - unfold satisfies in *. rewrite forallb_forall in *. intros c Hc. specialize (Hs1 c Hc).
          pose proof compose_closed1 as Hcl. unfold cons_closed in Hcl. rewrite Forall_forall in Hcl.
          unfold holds in *. rewrite <- (eval_agree division_gsem base en1 en2 c Hag2 (Hcl c Hc)). exact Hs1. }
      assert (Hw2 : forall v, eb en2 (base + v) = isb (getz ans v)).
      { intros v. unfold en2; simpl. destruct (Nat.ltb_spec (base + v) base); [lia|]. f_equal. f_equal. lia. }
      exists en2. split.
      + apply compose_split. split; [exact Hm2|]. rewrite Hloc. rewrite <- Hlc. apply Hlocal_ext.
        * intros v Hv. simpl. destruct (Hag v Hv) as [_ E]. simpl in E. symmetry. exact E.
        * intros v Hv. apply Hw2.
      + rewrite compose_reads. transitivity (map (getz ans) (seq 0 (length ans))); [|apply map_getz_seq]. rewrite Hl. apply map_ext_in.
        intros v Hv. apply in_seq in Hv. rewrite Hw2. apply isb_is01.
        rewrite forallb_forall in H01. apply H01. unfold getz. apply nth_In. lia.
  Qed.
End Compose.

(* ------------------------------------------------------------------------ *)
(* 4. label classes and connected groups                                      *)

Lemma nodup_same_length {A} (l1 l2 : list A) :
  NoDup l1 -> NoDup l2 -> (forall x, In x l1 <-> In x l2) -> length l1 = length l2.
Proof.
  intros N1 N2 E. apply Nat.le_antisymm; apply NoDup_incl_length; try assumption; intros x Hx; apply E; exact Hx.
Qed.

Lemma nodup_all_eq {A} (l : list A) u : NoDup l -> In u l -> (forall x, In x l -> x = u) -> l = [u].
Proof.
  intros N Hu Hall. destruct l as [|a r]; [destruct Hu|].
  assert (a = u) by (apply Hall; left; reflexivity). subst a.
  destruct r as [|b r]; [reflexivity|]. exfalso.
  assert (b = u) by (apply Hall; right; left; reflexivity). subst b.
  inversion N as [|? ? Hn _]; subst. apply Hn. left; reflexivity.
Qed.

Lemma filter_singleton {A} (P : A -> bool) l u :
  NoDup l -> In u l -> P u = true -> (forall x, In x l -> P x = true -> x = u) -> filter P l = [u].
Proof.
  intros N Hu Pu Hall. apply nodup_all_eq.
  - apply NoDup_filter. exact N.
  - apply filter_In. split; assumption.
  - intros x Hx. apply filter_In in Hx. destruct Hx as [Hx Px]. apply Hall; assumption.
Qed.

Lemma map_filter_comm {A B} (f : A -> B) (P : B -> bool) l :
  map f (filter (fun a => P (f a)) l) = filter P (map f l).
Proof. induction l as [|a r IH]; simpl; [reflexivity|]. destruct (P (f a)); simpl; rewrite IH; reflexivity. Qed.

(* position of an element in a list *)
Fixpoint index_of (x : nat) (l : list nat) : nat :=
  match l with [] => 0 | a :: r => if Nat.eqb a x then 0 else S (index_of x r) end.

Lemma index_of_nth x l : In x l -> index_of x l < length l /\ nth (index_of x l) l 0 = x.
Proof.
  induction l as [|a r IH]; intros H; [destruct H|]. simpl.
  destruct (Nat.eqb_spec a x) as [->|N]; [split; [lia|reflexivity]|].
  destruct H as [H|H]; [contradiction|]. destruct (IH H) as [H1 H2]. split; [lia|exact H2].
Qed.

Lemma index_of_nodup l : NoDup l -> forall i, i < length l -> index_of (nth i l 0) l = i.
Proof.
  induction 1 as [|a r Hn N IH]; intros i Hi; [simpl in Hi; lia|]. simpl in *.
  destruct i as [|i].
  - rewrite Nat.eqb_refl. reflexivity.
  - destruct (Nat.eqb_spec a (nth i r 0)) as [E|_].
    + exfalso. apply Hn. rewrite E. apply nth_In. lia.
    + rewrite IH by lia. reflexivity.
Qed.

(* the cells of a board in row-major order are the vertices 0 .. h*w-1 *)
Lemma cells_cidx h w : map (cidx w) (cells h w) = seq 0 (h * w).
Proof.
  unfold cells. induction h as [|h IH]; [reflexivity|].
  rewrite seq_S, flat_map_app, map_app, IH. simpl flat_map. rewrite app_nil_r, map_map.
  replace (S h * w) with (h * w + w) by lia. rewrite seq_app. f_equal.
  rewrite (seq_as_map (0 + h * w) w). apply map_ext. intros x. unfold cidx; simpl. lia.
Qed.

Lemma forallb_cells_seq h w (f : nat -> bool) :
  forallb (fun c => f (cidx w c)) (cells h w) = forallb f (seq 0 (h * w)).
Proof. rewrite <- cells_cidx, forallb_map. reflexivity. Qed.

Section Islands.
  Variable g : graph.
  Hypothesis Hwf : wf_graph g = true.

  (* a walk through a-vertices is a walk through a'-vertices if a implies a' on the graph *)
  Lemma reach_sub_below (a a' : nat -> bool) u v :
    u < nv g -> (forall x, x < nv g -> a x = true -> a' x = true) ->
    reach g a all_edges_ok u v -> reach g a' all_edges_ok u v.
  Proof.
    intros Hu Hsub H. induction H as [v Hv|u v t Huv IH Hn Ht].
    - apply reach_refl. apply Hsub; assumption.
    - eapply reach_step; [apply IH; exact Hu|exact Hn|].
      apply Hsub; [|exact Ht]. apply (nbrs_lt g all_edges_ok v t Hwf Hn).
  Qed.

  (* ... or if a' holds on everything reachable from the start *)
  Lemma reach_within (a a' : nat -> bool) u v :
    reach g a all_edges_ok u v -> (forall x, reach g a all_edges_ok u x -> a' x = true) ->
    reach g a' all_edges_ok u v.
  Proof.
    intros H. induction H as [v Hv|u v t Huv IH Hn Ht]; intros Hall.
    - apply reach_refl. apply Hall. apply reach_refl. exact Hv.
    - eapply reach_step; [apply IH; exact Hall|exact Hn|]. apply Hall. eapply reach_step; eassumption.
  Qed.

  Variable d : nat -> Z.
  Variable b : nat -> bool.
  (* neighbouring b-vertices carry the same label *)
  Hypothesis Hadj : forall x y, x < nv g -> In y (nbrs g all_edges_ok x) -> b x = true -> b y = true -> d x = d y.

  Lemma reach_same_label u v : u < nv g -> reach g b all_edges_ok u v -> d u = d v.
  Proof.
    intros Hu H. induction H as [v Hv|u v t Huv IH Hn Ht]; [reflexivity|].
    rewrite (IH Hu). apply Hadj; [eapply reach_lt; eassumption|exact Hn|eapply reach_vok_end; exact Huv|exact Ht].
  Qed.

  (* the b-group of s is the label class of s, when that class is connected and inside b *)
  Lemma component_is_class k s :
    s < nv g -> b s = true -> d s = Z.of_nat k ->
    connected g (class_of d k) -> (forall x, x < nv g -> class_of d k x = true -> b x = true) ->
    forall x, In x (component g b all_edges_ok s) <-> (x < nv g /\ d x = Z.of_nat k).
  Proof.
    intros Hs Hbs Hds Hconn Hsub x. split.
    - intros Hx. split; [eapply component_lt; eassumption|].
      rewrite <- Hds. symmetry. apply reach_same_label; [exact Hs|apply component_sound; exact Hx].
    - intros [Hx Hdx]. apply component_complete; [exact Hwf|exact Hs|].
      apply (reach_sub_below (class_of d k) b); [exact Hs|exact Hsub|].
      apply Hconn; try assumption; unfold class_of; apply Z.eqb_eq; assumption.
  Qed.

  Lemma class_size_component k s :
    (forall x, In x (component g b all_edges_ok s) <-> (x < nv g /\ d x = Z.of_nat k)) ->
    count (fun v => (d v =? Z.of_nat k)%Z) (seq 0 (nv g)) = length (component g b all_edges_ok s).
  Proof.
    intros E. unfold count. apply nodup_same_length.
    - apply NoDup_filter. apply seq_NoDup.
    - apply component_nodup.
    - intros x. rewrite filter_In, in_seq, E, Z.eqb_eq. split; intros [H1 H2]; split; try assumption; lia.
  Qed.
End Islands.

(* ------------------------------------------------------------------------ *)
(* 5. the call succeeds: a graph with at least one vertex, one label per vertex, roots None or in-range ints   *)

Definition root_in_range (n : nat) (a : root_arg) : Prop :=
  match a with RNone => True | RInt z => (0 <= z < Z.of_nat n)%Z | RTup _ => False end.

Lemma py_nth_in_range {A} (l : list A) z : (0 <= z < Z.of_nat (length l))%Z -> exists a, py_nth l z = Ok a.
Proof.
  intros Hz. unfold py_nth. destruct (Z.ltb_spec z 0); [lia|].
  destruct (Z.leb_spec 0 z); [|lia]. destruct (Z.ltb_spec z (Z.of_nat (length l))); [|lia]. simpl.
  unfold nth_res. destruct (nth_error l (Z.to_nat z)) as [a|] eqn:E; [exists a; reflexivity|].
  apply nth_error_None in E. lia.
Qed.

Lemma aux_roots_defined labels root rs : length labels = length root ->
  Forall (root_in_range (length labels)) rs -> forall k, exists cs, aux_roots labels root k rs = Ok cs.
Proof.
  intros Hl. induction 1 as [|a rs Ha _ IH]; intros k; simpl; [eexists; reflexivity|].
  destruct a as [|z|t]; [apply IH| |destruct Ha].
  simpl in Ha. destruct (py_nth_in_range labels z Ha) as [d ->].
  rewrite Hl in Ha. destruct (py_nth_in_range root z Ha) as [r ->]. simpl.
  destruct (IH (S k)) as [rest ->]. simpl. eexists; reflexivity.
Qed.

Theorem post_division_defined st s R g rs aeg :
  wf_graph g = true -> 0 < nv g -> length (seq_data s) = nv g ->
  labels_ok division_gsem (next_id st) (seq_data s) ->
  Forall (root_in_range (nv g)) rs ->
  exists st', post_division st s R g (Some rs) aeg false = Ok st'.
Proof.
  intros Hwf Hn Hlen Hlab Hrs. unfold post_division, int_array.
  destruct (Z.ltb_spec (Z.of_nat (nv g) - 1) 0); [lia|]. simpl.
  rewrite int_vars_spec. unfold bool_array. rewrite !bool_vars_spec, !add_decls_next, !repeat_length.
  set (b0 := next_id st). set (labels := seq_data s) in *.
  set (en := {| eb := fun _ => false; ei := fun _ => 0%Z |}).
  assert (HL : forall v, v < nv g -> is_int_expr_like (LB labels v) = true /\
                                     evi division_gsem en (LB labels v) (label_of division_gsem en labels v)).
  { intros v Hv. assert (Hvl : v < length labels) by (rewrite Hlen; exact Hv).
    destruct (labels_ok_nth division_gsem b0 labels v Hlab Hvl) as [Li [_ Ev]]. split; [exact Li|].
    unfold evi, LB. apply Ev. }
  unfold aux_constraints.
  destruct (mapM_ok_all (vertex_cons labels (map (RK g b0) (seq 0 (nv g))) (map (RT g b0) (seq 0 (nv g)))
                           (map (SF g b0) (seq 0 (length (edges g)))) g) (fun _ _ => True) (seq 0 (nv g)))
    as [vs [Hvs _]].
  { intros i Hi. apply in_seq in Hi.
    destruct (vertex_cons_eval division_gsem g labels b0 en (label_of division_gsem en labels)
                (fun v => ei en (b0 + v)) (fun v => eb en (b0 + nv g + v)) (fun e => eb en (b0 + nv g + nv g + e))
                Hwf Hlen HL (fun _ _ => eq_refl) (fun _ _ => eq_refl) (fun _ _ => eq_refl) i ltac:(lia)) as [cs [E _]].
    exists cs. split; [exact E|exact I]. }
  unfold RK, RT, SF in Hvs. rewrite Hvs. simpl.
  destruct (mapM_ok_all (region_count labels (map (RT g b0) (seq 0 (nv g))) aeg) (fun _ _ => True) (seq 0 R))
    as [rc [Hrc _]].
  { intros k _.
    destruct (region_count_eval division_gsem g labels aeg b0 en (label_of division_gsem en labels)
                (fun v => eb en (b0 + nv g + v)) Hlen HL (fun _ _ => eq_refl) k) as [c [E _]].
    exists c. split; [exact E|exact I]. }
  unfold RT in Hrc. rewrite Hrc. simpl.
  destruct (aux_roots_defined labels (map (fun i => BVar (b0 + nv g + i)) (seq 0 (nv g))) rs) with (k := 0) as [cs Hcs].
  { rewrite map_length, seq_length. exact Hlen. }
  { rewrite Hlen. exact Hrs. }
  rewrite Hcs. simpl. eexists; reflexivity.
Qed.
