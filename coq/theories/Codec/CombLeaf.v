(* Round trip of the leaf combinators (FixStr, Dict, Spaces, DecInt, HexInt, IntSpaces, MultiDigit). *)
From Coq Require Import ZArith List Ascii Bool NArith Lia.
From Cspuz Require Import Lib.PyErr Codec.Comb Codec.CombWf Codec.CombBasics.
Import ListNotations.
Local Open Scope Z_scope.

(* ------------------------------------------------------------------ the four facts proved per combinator *)
(* round trip: what was consumed comes back (possibly padded at the very end of the data) *)
Definition RT (e : env) (c : comb) : Prop :=
  forall data idx k s rest,
    ser e c (VList data) idx = Ok (Some (k, s)) -> accepts e c data idx -> follow_ok c rest ->
    exists items, de e c (s ++ rest) = Ok (Some (length s, items))
      /\ firstn k items = firstn k (skipn idx data) /\ (k <= length items)%nat
      /\ (exact e c data idx -> length items = k).

(* the first character serialization produces is in the first set *)
Definition FS (e : env) (c : comb) : Prop :=
  forall data idx k s, ser e c data idx = Ok (Some (k, s)) ->
    match s with [] => nullable c = true | ch :: _ => first c ch = true end.

(* a strict term returns None on a text that does not start with a character of its first set *)
Definition FD (e : env) (c : comb) : Prop :=
  strict c = true -> forall s, match s with [] => True | ch :: _ => first c ch = false end ->
  de e c s = Ok None.

(* padding can only happen when the data is exhausted *)
Definition EX (e : env) (c : comb) : Prop :=
  forall data idx k s, ser e c (VList data) idx = Ok (Some (k, s)) ->
    (idx + k < length data)%nat -> exact e c data idx.

(* ------------------------------------------------------------------ helpers *)
Lemma with_item_inv data idx k r :
  with_item (VList data) idx k = Ok (Some r) ->
  exists v, nth_error data idx = Some v /\ k data v = Ok (Some r).
Proof.
  unfold with_item. simpl. destruct (Nat.eqb idx (length data)); try discriminate.
  unfold nth_res. destruct (nth_error data idx) as [v|] eqn:E; try discriminate.
  intros H. exists v. auto.
Qed.

Lemma with_item_inv_pv data idx k r :
  with_item data idx k = Ok (Some r) ->
  exists l v, py_items data = Ok l /\ nth_error l idx = Some v /\ k l v = Ok (Some r).
Proof.
  unfold with_item. destruct (py_items data) as [l|] eqn:El; try discriminate.
  destruct (Nat.eqb idx (length l)); try discriminate.
  unfold nth_res. destruct (nth_error l idx) as [v|] eqn:E; try discriminate.
  intros H. exists l, v. auto.
Qed.

Lemma firstn1_skipn {A} (l : list A) idx v : nth_error l idx = Some v -> firstn 1 (skipn idx l) = [v].
Proof. intros H. rewrite (firstn_skipn_nth l idx v H). reflexivity. Qed.

Lemma firstn_app_exact {A} (a b : list A) : firstn (length a) (a ++ b) = a.
Proof. rewrite firstn_app, Nat.sub_diag, firstn_all. simpl. apply app_nil_r. Qed.

Lemma skipn_app_exact {A} (a b : list A) : skipn (length a) (a ++ b) = b.
Proof. rewrite skipn_app, Nat.sub_diag, skipn_all. reflexivity. Qed.

Lemma digit_val_range c d : digit_val c = Some d -> 0 <= d < 36.
Proof.
  revert c d.
  assert (H : forall c, match digit_val c with Some d => (0 <=? d) && (d <? 36) | None => true end = true).
  { apply forall_chars. vm_compute. reflexivity. }
  intros c d E. specialize (H c). rewrite E in H. apply andb_true_iff in H as [H1 H2].
  apply Z.leb_le in H1. apply Z.ltb_lt in H2. lia.
Qed.

Lemma to_base36_small v : 0 <= v < 36 -> to_base36 v = Ok [base36_char v].
Proof.
  intros H. unfold to_base36. destruct (Z.ltb_spec v 0); [lia|].
  destruct (digit_facts v H) as (E & _). rewrite E. reflexivity.
Qed.

Lemma b36_char_de v : 0 <= v < 36 ->
  is_alnum_lower [base36_char v] = true /\ from_base36 [base36_char v] = Ok v.
Proof.
  intros H. destruct (digit_facts v H) as (_ & Hal & _).
  split. { simpl. rewrite Hal. reflexivity. }
  destruct (alnum_char_facts _ Hal) as (_ & _ & Hp & _). unfold from_base36. rewrite Hp.
  rewrite dv_base36_char by auto. reflexivity.
Qed.

Lemma alnum1 ch : is_alnum_lower [ch] = is_alnum_lower_c ch.
Proof. simpl. apply andb_true_r. Qed.

Lemma from_base36_alnum ch : is_alnum_lower_c ch = true ->
  from_base36 [ch] = Ok (dv ch) /\ digit_val ch = Some (dv ch) /\ 0 <= dv ch < 36.
Proof.
  intros H. destruct (alnum_char_facts ch H) as (E1 & E2 & E3 & _). unfold from_base36. auto.
Qed.

(* ------------------------------------------------------------------ FixStr *)
Lemma fixstr_rt e t : RT e (FixStr t).
Proof.
  intros data idx k s rest Hser _ _. simpl in Hser. inversion Hser; subst k s.
  exists []. simpl. unfold fixstr_de.
  assert (Hl : Nat.ltb (length (t ++ rest)) (length t) = false).
  { apply Nat.ltb_ge. rewrite app_length. lia. }
  rewrite Hl, firstn_app_exact. rewrite (proj2 (str_eqb_eq t t) eq_refl).
  repeat split; auto.
Qed.

Lemma fixstr_fs e t : FS e (FixStr t).
Proof.
  intros data idx k s Hser. simpl in Hser. inversion Hser; subst.
  destruct s; simpl; auto. apply ascii_eqb_refl.
Qed.

Lemma fixstr_fd e t : FD e (FixStr t).
Proof.
  intros Hst s Hs. simpl in *. destruct t as [|c0 t]; [discriminate|].
  unfold fixstr_de. destruct s as [|ch s]; simpl.
  - reflexivity.
  - destruct (Nat.ltb (S (length s)) (S (length t))); auto.
    simpl in Hs. destruct (ascii_eqb ch c0) eqn:E; simpl; auto.
    apply ascii_eqb_eq in E. subst. rewrite ascii_eqb_refl in Hs. discriminate.
Qed.

(* ------------------------------------------------------------------ Dict *)
Lemma dict_aux v : forall before after,
  length before = length after -> heads_distinct after = true ->
  forall k a, dict_ser v before after = Ok (Some (k, a)) ->
  k = 1%nat /\ exists ch t, a = ch :: t /\ existsb (fun b => hd_is b ch) after = true
    /\ forall rest, dict_de (ch :: t ++ rest) before after = Ok (Some (length a, [v])).
Proof.
  induction before as [|b before IH]; intros after Hlen Hd k a Hser; simpl in Hser; [discriminate|].
  destruct after as [|a0 after]; [discriminate|]. simpl in Hlen.
  simpl in Hd. destruct a0 as [|ch0 a0']; [discriminate|].
  apply andb_true_iff in Hd as [Hd1 Hd2]. apply negb_true_iff in Hd1.
  destruct (pv_eqb v b) eqn:Ev.
  - inversion Hser; subst k a. apply pv_eqb_true in Ev. subst b. split; auto.
    exists ch0, a0'. split; auto. split.
    + simpl. rewrite ascii_eqb_refl. reflexivity.
    + intros rest. simpl. rewrite ascii_eqb_refl. simpl.
      change (is_prefix a0' (a0' ++ rest)) with (is_prefix a0' (a0' ++ rest)).
      rewrite is_prefix_app. reflexivity.
  - simpl in Hser. destruct (IH after ltac:(lia) Hd2 k a Hser) as (Hk & ch & t & Ea & Hex & Hde).
    split; auto. exists ch, t. split; auto. split.
    + simpl. rewrite Hex. apply orb_true_r.
    + intros rest. simpl.
      assert (Hne : ascii_eqb ch0 ch = false).
      { destruct (ascii_eqb ch0 ch) eqn:E; auto. apply ascii_eqb_eq in E. subst ch0. congruence. }
      rewrite Hne. simpl. apply Hde.
Qed.

Lemma wf_dict before after : wf (Dict before after) = true ->
  length before = length after /\ heads_distinct after = true.
Proof. simpl. intros H. apply andb_true_iff in H as [H1 H2]. apply Nat.eqb_eq in H1. auto. Qed.

Lemma dict_rt e before after : wf (Dict before after) = true -> RT e (Dict before after).
Proof.
  intros Hwf data idx k s rest Hser _ _. apply wf_dict in Hwf as [Hlen Hd].
  simpl in Hser. unfold dict_ser_at in Hser. apply with_item_inv in Hser as (v & Hn & Hser).
  destruct (dict_aux v before after Hlen Hd k s Hser) as (Hk & ch & t & Es & _ & Hde). subst k s.
  exists [v]. simpl. unfold dict_de_at. rewrite (Hde rest).
  repeat split; auto. symmetry. apply firstn1_skipn; auto.
Qed.

Lemma dict_fs e before after : wf (Dict before after) = true -> FS e (Dict before after).
Proof.
  intros Hwf data idx k s Hser. apply wf_dict in Hwf as [Hlen Hd].
  simpl in Hser. unfold dict_ser_at in Hser. apply with_item_inv_pv in Hser as (l & v & _ & _ & Hser).
  destruct (dict_aux v before after Hlen Hd k s Hser) as (_ & ch & t & Es & Hex & _). subst s.
  simpl. exact Hex.
Qed.

Lemma dict_de_none s : forall before after, length before = length after ->
  (forall a, In a after -> is_prefix a s = false) -> dict_de s before after = Ok None.
Proof.
  induction before as [|b before IH]; intros [|a after] Hlen H; simpl in *; try discriminate; auto.
  rewrite (H a (or_introl eq_refl)). apply IH; auto.
Qed.

Lemma dict_fd e before after : wf (Dict before after) = true -> FD e (Dict before after).
Proof.
  intros Hwf Hst s Hs. apply wf_dict in Hwf as [Hlen _]. simpl in *. unfold dict_de_at.
  destruct s as [|ch s]; auto. apply dict_de_none; auto.
  intros a Ha. rewrite forallb_forall in Hst. specialize (Hst a Ha).
  destruct a as [|c0 a]; [discriminate|]. simpl.
  destruct (ascii_eqb c0 ch) eqn:E; auto.
  assert (existsb (fun a => hd_is a ch) after = true).
  { apply existsb_exists. exists (c0 :: a). split; auto. }
  congruence.
Qed.

(* ------------------------------------------------------------------ Spaces *)
Lemma spaces_params sm v0 : digit_val sm = Some v0 ->
  spaces_offset sm = v0 - 1 /\ spaces_max sm = 36 - v0 /\ 0 <= v0 < 36.
Proof.
  intros E. unfold spaces_max, spaces_offset. rewrite E. pose proof (digit_val_range _ _ E). lia.
Qed.

Lemma spaces_ser_inv sp sm data idx k s : wf (Spaces sp sm) = true ->
  spaces_ser sp sm data idx = Ok (Some (k, s)) ->
  exists l, py_items data = Ok l /\ nth_error l idx = Some sp /\
    k = S (run_eq sp (skipn (S idx) l) (Z.to_nat (spaces_max sm - 1))) /\
    0 <= spaces_offset sm + Z.of_nat k < 36 /\
    s = [base36_char (spaces_offset sm + Z.of_nat k)].
Proof.
  intros Hwf Hser. simpl in Hwf. destruct (digit_val sm) as [v0|] eqn:Ed; [|discriminate].
  destruct (spaces_params sm v0 Ed) as (Ho & Hm & Hv).
  unfold spaces_ser in Hser. apply with_item_inv_pv in Hser as (l & v & Hl & Hn & Hser).
  destruct (pv_eqb v sp) eqn:Ev; [|discriminate]. cbn [negb] in Hser.
  apply pv_eqb_true in Ev. subst v. cbv zeta in Hser.
  set (r := run_eq sp (skipn (S idx) l) (Z.to_nat (spaces_max sm - 1))) in *.
  destruct (run_eq_spec sp (skipn (S idx) l) (Z.to_nat (spaces_max sm - 1))) as (_ & Hr & _).
  fold r in Hr.
  assert (Hrange : 0 <= spaces_offset sm + Z.of_nat (S r) < 36) by lia.
  rewrite (to_base36_small _ Hrange) in Hser. inversion Hser; subst k s.
  exists l. repeat split; auto; lia.
Qed.

Lemma spaces_rt e sp sm : wf (Spaces sp sm) = true -> RT e (Spaces sp sm).
Proof.
  intros Hwf data idx k s rest Hser _ _. simpl in Hser.
  destruct (spaces_ser_inv sp sm (VList data) idx k s Hwf Hser) as (l & Hl & Hn & Hk & Hr & Hs).
  simpl in Hl. inversion Hl; subst l. clear Hl.
  exists (repeat sp k). subst s. cbn [de app length]. unfold spaces_de.
  destruct (b36_char_de _ Hr) as (Hal & Hfrom). rewrite Hal, Hfrom. simpl.
  assert (Hlt : (spaces_offset sm <? spaces_offset sm + Z.of_nat k) = true) by (apply Z.ltb_lt; lia).
  rewrite Hlt. replace (Z.to_nat (spaces_offset sm + Z.of_nat k - spaces_offset sm)) with k by lia.
  repeat split; auto.
  - rewrite firstn_all2 by (rewrite repeat_length; lia).
    rewrite (firstn_skipn_nth data idx sp Hn). rewrite Hk. simpl. f_equal.
    destruct (run_eq_spec sp (skipn (S idx) data) (Z.to_nat (spaces_max sm - 1))) as (H1 & _). symmetry. exact H1.
  - rewrite repeat_length. lia.
  - intros _. apply repeat_length.
Qed.

Lemma spaces_first sm v : 0 <= v < 36 -> spaces_offset sm < v ->
  first (Spaces VNone sm) (base36_char v) = true.
Proof.
  intros Hv Hlt. simpl. destruct (digit_facts v Hv) as (_ & Hal & Hd). rewrite Hal, Hd. simpl.
  apply Z.ltb_lt. lia.
Qed.

Lemma spaces_fs e sp sm : wf (Spaces sp sm) = true -> FS e (Spaces sp sm).
Proof.
  intros Hwf data idx k s Hser. simpl in Hser.
  destruct (spaces_ser_inv sp sm data idx k s Hwf Hser) as (l & _ & _ & Hk & Hr & Hs). subst s.
  apply (spaces_first sm _ Hr). lia.
Qed.

Lemma spaces_fd e sp sm : FD e (Spaces sp sm).
Proof.
  intros _ s Hs. simpl. unfold spaces_de. destruct s as [|ch s]; auto.
  rewrite alnum1. simpl in Hs. destruct (is_alnum_lower_c ch) eqn:Hal; simpl; auto.
  destruct (from_base36_alnum ch Hal) as (E1 & E2 & _). rewrite E1. rewrite E2 in Hs. simpl in Hs.
  rewrite Hs. reflexivity.
Qed.

(* ------------------------------------------------------------------ DecInt *)
Lemma clean10_isdigit ch : cleanb 10 ch = true -> isdigit_c ch = true.
Proof.
  revert ch. assert (H : forall ch, (negb (cleanb 10 ch) || isdigit_c ch) = true).
  { apply forall_chars. vm_compute. reflexivity. }
  intros ch Hc. specialize (H ch). rewrite Hc in H. exact H.
Qed.

Lemma span_digits_app s rest : forallb isdigit_c s = true ->
  match rest with [] => True | ch :: _ => isdigit_c ch = false end ->
  span_digits (s ++ rest) = length s.
Proof.
  induction s as [|c s IH]; simpl; intros Hs Hr.
  - destruct rest; simpl; auto. rewrite Hr. reflexivity.
  - apply andb_true_iff in Hs as [H1 H2]. rewrite H1. f_equal. auto.
Qed.

Lemma decint_de_digits s rest z : s <> [] -> forallb isdigit_c s = true ->
  match rest with [] => True | ch :: _ => isdigit_c ch = false end ->
  py_int s 10 = Ok z -> decint_de (s ++ rest) = Ok (Some (length s, [VInt z])).
Proof.
  intros Hne Hd Hr Hp. destruct s as [|c s]; [congruence|].
  unfold decint_de. change ((c :: s) ++ rest) with (c :: (s ++ rest)).
  pose proof (span_digits_app (c :: s) rest Hd Hr) as Hspan.
  change ((c :: s) ++ rest) with (c :: (s ++ rest)) in Hspan. rewrite Hspan.
  cbn [length]. change (c :: s ++ rest) with ((c :: s) ++ rest).
  change (S (length s)) with (length (c :: s)). rewrite firstn_app_exact. rewrite Hp. reflexivity.
Qed.

Lemma decint_ser_inv data idx k s : decint_ser data idx = Ok (Some (k, s)) ->
  exists l z, py_items data = Ok l /\ nth_error l idx = Some (VInt z) /\ 0 <= z /\ k = 1%nat /\ s = to_base 10 z.
Proof.
  unfold decint_ser. intros H. apply with_item_inv_pv in H as (l & v & Hl & Hn & H).
  destruct v; try discriminate. destruct (Z.ltb_spec z 0); try discriminate.
  inversion H; subst. exists l, z. repeat split; auto.
  unfold py_str_int. destruct (Z.ltb_spec z 0); auto. lia.
Qed.

Lemma to_base10_digits z : 0 <= z -> forallb isdigit_c (to_base 10 z) = true.
Proof.
  intros Hz. destruct (to_base_spec 10 z ltac:(lia) Hz) as (_ & Hc & _).
  rewrite forallb_forall in *. intros ch Hin. apply clean10_isdigit. auto.
Qed.

Lemma decint_rt e : RT e DecInt.
Proof.
  intros data idx k s rest Hser _ Hf. simpl in Hser.
  apply decint_ser_inv in Hser as (l & z & Hl & Hn & Hz & Hk & Hs). simpl in Hl. inversion Hl; subst l k s.
  exists [VInt z]. simpl de.
  destruct (to_base_spec 10 z ltac:(lia) Hz) as (Hne & _ & _).
  rewrite (decint_de_digits _ rest z Hne (to_base10_digits z Hz)).
  - repeat split; auto. symmetry. apply firstn1_skipn; auto.
  - destruct rest; auto.
  - apply py_int_to_base; lia.
Qed.

Lemma decint_fs e : FS e DecInt.
Proof.
  intros data idx k s Hser. simpl in Hser.
  apply decint_ser_inv in Hser as (l & z & _ & _ & Hz & _ & Hs). subst s.
  destruct (to_base_spec 10 z ltac:(lia) Hz) as (Hne & _ & _).
  pose proof (to_base10_digits z Hz) as Hd.
  destruct (to_base 10 z); [congruence|]. simpl in *. apply andb_true_iff in Hd as [Hd _]. exact Hd.
Qed.

Lemma decint_fd e : FD e DecInt.
Proof.
  intros _ s Hs. simpl. unfold decint_de. destruct s as [|ch s]; auto. simpl in *. rewrite Hs. reflexivity.
Qed.

(* ------------------------------------------------------------------ HexInt *)
Definition hex_len_of (z : Z) : nat := if z <? 16 then 1 else if z <? 256 then 2 else 3.

Lemma hex_len z : 0 <= z <= 4095 -> length (to_base 16 z) = hex_len_of z.
Proof.
  intros Hz.
  assert (H : forallb (fun z => Nat.eqb (length (to_base 16 z)) (hex_len_of z)) (map Z.of_nat (seq 0 (64 * 64))) = true).
  { vm_compute. reflexivity. }
  rewrite forallb_forall in H. apply Nat.eqb_eq. apply H.
  replace z with (Z.of_nat (Z.to_nat z)) by lia. apply in_map. apply in_seq. lia.
Qed.

Lemma clean16_hex ch : cleanb 16 ch = true ->
  is_hex_c ch = true /\ ascii_eqb ch "-"%char = false /\ ascii_eqb ch "+"%char = false.
Proof.
  revert ch. assert (H : forall ch, (negb (cleanb 16 ch) ||
     (is_hex_c ch && negb (ascii_eqb ch "-"%char) && negb (ascii_eqb ch "+"%char))) = true).
  { apply forall_chars. vm_compute. reflexivity. }
  intros ch Hc. specialize (H ch). rewrite Hc in H. simpl in H.
  repeat (apply andb_true_iff in H as [H ?]). apply negb_true_iff in H0, H1. auto.
Qed.

Lemma hexint_ser_inv data idx k s : hexint_ser data idx = Ok (Some (k, s)) ->
  exists l z, py_items data = Ok l /\ nth_error l idx = Some (VInt z) /\ 0 <= z <= 4095 /\ k = 1%nat
              /\ s = hex_prefix z ++ to_base 16 z.
Proof.
  unfold hexint_ser. intros H. apply with_item_inv_pv in H as (l & v & Hl & Hn & H).
  destruct v; try discriminate.
  destruct ((0 <=? z) && (z <=? 4095)) eqn:E; simpl in H; try discriminate.
  apply andb_true_iff in E as [E1 E2]. apply Z.leb_le in E1, E2.
  inversion H; subst. exists l, z. repeat split; auto.
  unfold to_base16. destruct (Z.ltb_spec z 0); auto. lia.
Qed.

Lemma hexint_de_ok z rest : 0 <= z <= 4095 ->
  hexint_de ((hex_prefix z ++ to_base 16 z) ++ rest)
  = Ok (Some (length (hex_prefix z ++ to_base 16 z), [VInt z])).
Proof.
  intros Hz. pose proof (hex_len z Hz) as Hlen.
  destruct (to_base_spec 16 z ltac:(lia) ltac:(lia)) as (_ & Hc & Hv).
  pose proof (py_int_to_base 16 z ltac:(lia) ltac:(lia)) as Hp.
  unfold hex_prefix, hex_len_of in *.
  destruct (Z.ltb_spec z 16).
  - destruct (Z.leb_spec 16 z); [lia|]. cbn [andb].
    destruct (Z.leb_spec 256 z); [lia|].
    destruct (to_base 16 z) as [|c [|c2 t]]; simpl in Hlen; try discriminate.
    simpl in Hc. apply andb_true_iff in Hc as [Hc _].
    destruct (clean16_hex c Hc) as (Hh & Hm & Hpl).
    cbn [app length]. unfold hexint_de. rewrite Hm, Hpl. cbn [is_hex forallb]. rewrite Hh. cbn [andb].
    unfold from_base16. rewrite Hp. reflexivity.
  - destruct (Z.leb_spec 16 z); [|lia]. destruct (Z.ltb_spec z 256).
    + cbn [andb].
      destruct (to_base 16 z) as [|c1 [|c2 [|c3 t]]]; simpl in Hlen; try discriminate.
      cbn [app length]. unfold hexint_de. cbn [ascii_eqb]. 
      replace (ascii_eqb "-"%char "-"%char) with true by (symmetry; apply ascii_eqb_refl).
      cbn [length Nat.ltb Nat.leb firstn].
      simpl in Hc. apply andb_true_iff in Hc as [Hc1 Hc]. apply andb_true_iff in Hc as [Hc2 _].
      destruct (clean16_hex c1 Hc1) as (Hh1 & _). destruct (clean16_hex c2 Hc2) as (Hh2 & _).
      cbn [is_hex forallb]. rewrite Hh1, Hh2. cbn [andb negb].
      unfold from_base16. rewrite Hp. reflexivity.
    + cbn [andb]. destruct (Z.leb_spec 256 z); [|lia].
      destruct (to_base 16 z) as [|c1 [|c2 [|c3 [|c4 t]]]]; simpl in Hlen; try discriminate.
      cbn [app length]. unfold hexint_de.
      replace (ascii_eqb "+"%char "-"%char) with false by reflexivity.
      replace (ascii_eqb "+"%char "+"%char) with true by (symmetry; apply ascii_eqb_refl).
      cbn [length Nat.ltb Nat.leb firstn].
      simpl in Hc. apply andb_true_iff in Hc as [Hc1 Hc]. apply andb_true_iff in Hc as [Hc2 Hc].
      apply andb_true_iff in Hc as [Hc3 _].
      destruct (clean16_hex c1 Hc1) as (Hh1 & _). destruct (clean16_hex c2 Hc2) as (Hh2 & _).
      destruct (clean16_hex c3 Hc3) as (Hh3 & _).
      cbn [is_hex forallb]. rewrite Hh1, Hh2, Hh3. cbn [andb negb].
      unfold from_base16. rewrite Hp. reflexivity.
Qed.

Lemma hexint_rt e : RT e HexInt.
Proof.
  intros data idx k s rest Hser _ _. simpl in Hser.
  apply hexint_ser_inv in Hser as (l & z & Hl & Hn & Hz & Hk & Hs). simpl in Hl. inversion Hl; subst l k s.
  exists [VInt z]. simpl de. rewrite (hexint_de_ok z rest Hz).
  repeat split; auto. symmetry. apply firstn1_skipn; auto.
Qed.

Lemma hexint_fs e : FS e HexInt.
Proof.
  intros data idx k s Hser. simpl in Hser.
  apply hexint_ser_inv in Hser as (l & z & _ & _ & Hz & _ & Hs). subst s.
  destruct (to_base_spec 16 z ltac:(lia) ltac:(lia)) as (Hne & Hc & _).
  unfold hex_prefix. destruct ((16 <=? z) && (z <? 256)); [reflexivity|].
  destruct (256 <=? z); [reflexivity|].
  destruct (to_base 16 z) as [|c t]; [congruence|]. simpl in Hc. apply andb_true_iff in Hc as [Hc _].
  destruct (clean16_hex c Hc) as (Hh & _). simpl. rewrite Hh. apply orb_true_r.
Qed.

Lemma hexint_fd e : FD e HexInt.
Proof.
  intros _ s Hs. simpl. unfold hexint_de. destruct s as [|ch s]; auto. simpl in Hs.
  apply orb_false_iff in Hs as [Hs H3]. apply orb_false_iff in Hs as [H1 H2].
  rewrite H1, H2. cbn [is_hex forallb]. rewrite H3. reflexivity.
Qed.

(* ------------------------------------------------------------------ IntSpaces *)
Lemma wf_intspaces sp mi ms : wf (IntSpaces sp mi ms) = true -> 0 <= mi /\ 0 <= ms /\ (mi + 1) * (ms + 1) <= 36.
Proof.
  simpl. intros H. repeat (apply andb_true_iff in H as [H ?]).
  apply Z.leb_le in H, H0, H1. auto.
Qed.

Lemma intspaces_ser_inv sp mi ms data idx k s : wf (IntSpaces sp mi ms) = true ->
  intspaces_ser sp mi ms data idx = Ok (Some (k, s)) ->
  exists l z ns, py_items data = Ok l /\ nth_error l idx = Some (VInt z) /\ 0 <= z <= mi /\
    ns = run_eq sp (skipn (S idx) l) (Z.to_nat ms) /\ k = S ns /\
    0 <= Z.of_nat ns * (mi + 1) + z < (mi + 1) * (ms + 1) /\
    s = [base36_char (Z.of_nat ns * (mi + 1) + z)].
Proof.
  intros Hwf H. apply wf_intspaces in Hwf as (Hmi & Hms & Hp).
  unfold intspaces_ser in H. apply with_item_inv_pv in H as (l & v & Hl & Hn & H).
  destruct v; try discriminate.
  destruct ((0 <=? z) && (z <=? mi)) eqn:E; cbn [negb] in H; try discriminate.
  apply andb_true_iff in E as [E1 E2]. apply Z.leb_le in E1, E2. cbv zeta in H.
  set (ns := run_eq sp (skipn (S idx) l) (Z.to_nat ms)) in *.
  destruct (run_eq_spec sp (skipn (S idx) l) (Z.to_nat ms)) as (_ & Hr & _). fold ns in Hr.
  assert (Hrange : 0 <= Z.of_nat ns * (mi + 1) + z < (mi + 1) * (ms + 1)) by nia.
  assert (H36 : 0 <= Z.of_nat ns * (mi + 1) + z < 36) by lia.
  rewrite (to_base36_small _ H36) in H. inversion H; subst k s.
  exists l, z, ns. repeat split; auto; lia.
Qed.

Lemma intspaces_rt e sp mi ms : wf (IntSpaces sp mi ms) = true -> RT e (IntSpaces sp mi ms).
Proof.
  intros Hwf data idx k s rest Hser _ _. simpl in Hser.
  destruct (intspaces_ser_inv sp mi ms _ idx k s Hwf Hser) as (l & z & ns & Hl & Hn & Hz & Hns & Hk & Hr & Hs).
  apply wf_intspaces in Hwf as (Hmi & Hms & Hp).
  simpl in Hl. inversion Hl; subst l. clear Hl.
  exists (VInt z :: repeat sp ns). subst s. cbn [de app length]. unfold intspaces_de.
  destruct (b36_char_de (Z.of_nat ns * (mi + 1) + z) ltac:(lia)) as (Hal & Hfrom). rewrite Hal, Hfrom. cbn [negb].
  assert (Hchk : ((0 <=? Z.of_nat ns * (mi + 1) + z) && (Z.of_nat ns * (mi + 1) + z <? (mi + 1) * (ms + 1))) = true).
  { apply andb_true_iff. split; [apply Z.leb_le|apply Z.ltb_lt]; lia. }
  rewrite Hchk. cbn [negb].
  assert (Hmod : (Z.of_nat ns * (mi + 1) + z) mod (mi + 1) = z).
  { rewrite Z.add_comm, Z_mod_plus_full. apply Z.mod_small. lia. }
  assert (Hdiv : (Z.of_nat ns * (mi + 1) + z) / (mi + 1) = Z.of_nat ns).
  { rewrite Z.add_comm, Z_div_plus_full by lia. rewrite Z.div_small by lia. lia. }
  rewrite Hmod, Hdiv, Nat2Z.id.
  repeat split; auto.
  - subst k. rewrite firstn_all2 by (simpl; rewrite repeat_length; lia).
    rewrite (firstn_skipn_nth data idx _ Hn). simpl. f_equal.
    destruct (run_eq_spec sp (skipn (S idx) data) (Z.to_nat ms)) as (H1 & _). rewrite <- Hns in H1. symmetry. exact H1.
  - simpl. rewrite repeat_length. lia.
  - intros _. simpl. rewrite repeat_length. lia.
Qed.

Lemma b36_lt_char v bound : 0 <= v < 36 -> v < bound -> b36_lt (base36_char v) bound = true.
Proof.
  intros Hv Hb. unfold b36_lt. destruct (digit_facts v Hv) as (_ & Hal & Hd). rewrite Hal, Hd. simpl.
  apply Z.ltb_lt. lia.
Qed.

Lemma intspaces_fs e sp mi ms : wf (IntSpaces sp mi ms) = true -> FS e (IntSpaces sp mi ms).
Proof.
  intros Hwf data idx k s Hser. simpl in Hser.
  destruct (intspaces_ser_inv sp mi ms _ idx k s Hwf Hser) as (l & z & ns & _ & _ & _ & _ & _ & Hr & Hs).
  apply wf_intspaces in Hwf as (Hmi & Hms & Hp). subst s. simpl. apply b36_lt_char; lia.
Qed.

Lemma b36_lt_false ch bound : b36_lt ch bound = false -> is_alnum_lower_c ch = true -> (dv ch <? bound) = false.
Proof.
  unfold b36_lt. intros H Hal. rewrite Hal in H. simpl in H.
  destruct (from_base36_alnum ch Hal) as (_ & E & _). rewrite E in H. exact H.
Qed.

Lemma intspaces_fd e sp mi ms : FD e (IntSpaces sp mi ms).
Proof.
  intros _ s Hs. simpl. unfold intspaces_de. destruct s as [|ch s]; auto.
  rewrite alnum1. simpl in Hs. destruct (is_alnum_lower_c ch) eqn:Hal; simpl; auto.
  destruct (from_base36_alnum ch Hal) as (E1 & _ & _). rewrite E1.
  rewrite (b36_lt_false ch _ Hs Hal). rewrite andb_false_r. reflexivity.
Qed.

(* ------------------------------------------------------------------ MultiDigit *)
Definition zstep (b : Z) (a z : Z) : Z := a * b + z.
Definition in_base (b z : Z) : Prop := 0 <= z < b.

Lemma md_ser_loop_spec b : 1 <= b -> forall d l acc value,
  md_ser_loop b d l acc = Ok (Some value) ->
  exists ds, length ds = d /\ Forall (in_base b) ds /\ value = fold_left (zstep b) ds acc
             /\ firstn (Nat.min d (length l)) (map VInt ds) = firstn (Nat.min d (length l)) l.
Proof.
  intros Hb. induction d as [|d IH]; intros l acc value H; simpl in H.
  - inversion H; subst. exists []. simpl. repeat split; auto.
  - destruct l as [|x t].
    + destruct (IH [] (acc * b) value H) as (ds & Hlen & Hall & Hv & _).
      exists (0 :: ds). simpl. repeat split; auto.
      * constructor; [unfold in_base; lia|exact Hall].
      * unfold zstep at 2. rewrite Z.add_0_r. exact Hv.
    + destruct x; try discriminate.
      destruct ((0 <=? z) && (z <? b)) eqn:E; try discriminate.
      apply andb_true_iff in E as [E1 E2]. apply Z.leb_le in E1. apply Z.ltb_lt in E2.
      destruct (IH t (acc * b + z) value H) as (ds & Hlen & Hall & Hv & Hf).
      exists (z :: ds). simpl. repeat split; auto.
      * constructor; [unfold in_base; lia|exact Hall].
      * f_equal. exact Hf.
Qed.

Lemma fold_zstep_snoc b ds z X : fold_left (zstep b) (ds ++ [z]) X = fold_left (zstep b) ds X * b + z.
Proof. rewrite fold_left_app. reflexivity. Qed.

Lemma md_unpack_spec b : 1 <= b -> forall ds, Forall (in_base b) ds ->
  forall X acc, md_unpack b (length ds) (fold_left (zstep b) ds X) acc = map VInt ds ++ acc.
Proof.
  intros Hb ds. induction ds as [|z ds IH] using rev_ind; intros Hall X acc.
  - reflexivity.
  - apply Forall_app in Hall as [Hds Hz]. inversion Hz as [|? ? Hz' _]; subst. unfold in_base in Hz'.
    rewrite app_length. simpl length. rewrite Nat.add_1_r. simpl md_unpack.
    rewrite fold_zstep_snoc.
    assert (Hdiv : (fold_left (zstep b) ds X * b + z) / b = fold_left (zstep b) ds X).
    { rewrite Z.add_comm, Z_div_plus_full by lia. rewrite Z.div_small by lia. lia. }
    assert (Hmod : (fold_left (zstep b) ds X * b + z) mod b = z).
    { rewrite Z.add_comm, Z_mod_plus_full. apply Z.mod_small. lia. }
    rewrite Hdiv, Hmod. rewrite IH by auto. rewrite map_app. simpl. rewrite <- app_assoc. reflexivity.
Qed.

Lemma fold_zstep_range b : 1 <= b -> forall ds, Forall (in_base b) ds ->
  0 <= fold_left (zstep b) ds 0 < b ^ Z.of_nat (length ds).
Proof.
  intros Hb ds. induction ds as [|z ds IH] using rev_ind; intros Hall.
  - simpl. lia.
  - apply Forall_app in Hall as [Hds Hz]. inversion Hz as [|? ? Hz' _]; subst. unfold in_base in Hz'.
    specialize (IH Hds). rewrite fold_zstep_snoc, app_length. simpl length.
    replace (Z.of_nat (length ds + 1)) with (Z.succ (Z.of_nat (length ds))) by lia.
    rewrite Z.pow_succ_r by lia. nia.
Qed.

Lemma wf_md b d : wf (MultiDigit b d) = true -> 1 <= b /\ b ^ Z.of_nat d <= 36.
Proof. simpl. intros H. apply andb_true_iff in H as [H1 H2]. apply Z.leb_le in H1, H2. auto. Qed.

Lemma md_ser_inv b d data idx k s : wf (MultiDigit b d) = true ->
  md_ser b d data idx = Ok (Some (k, s)) ->
  exists l ds, py_items data = Ok l /\ (idx < length l)%nat /\ length ds = d /\ Forall (in_base b) ds /\
    k = Nat.min (length l - idx) d /\
    firstn k (map VInt ds) = firstn k (skipn idx l) /\
    0 <= fold_left (zstep b) ds 0 < b ^ Z.of_nat d /\
    s = [base36_char (fold_left (zstep b) ds 0)].
Proof.
  intros Hwf H. apply wf_md in Hwf as (Hb & Hp).
  unfold md_ser in H. apply with_item_inv_pv in H as (l & v & Hl & Hn & H).
  destruct (md_ser_loop b d (skipn idx l) 0) as [[value|]|] eqn:E; try discriminate.
  destruct (md_ser_loop_spec b Hb d _ 0 value E) as (ds & Hlen & Hall & Hv & Hf).
  pose proof (fold_zstep_range b Hb ds Hall) as Hr. rewrite Hlen in Hr. rewrite <- Hv in Hr.
  assert (H36 : 0 <= value < 36) by lia.
  rewrite (to_base36_small _ H36) in H. inversion H; subst k s.
  exists l, ds. rewrite skipn_length in Hf. rewrite Nat.min_comm in Hf.
  assert (idx < length l)%nat by (apply nth_error_Some; congruence).
  subst value. repeat split; auto; lia.
Qed.

Lemma md_rt e b d : wf (MultiDigit b d) = true -> RT e (MultiDigit b d).
Proof.
  intros Hwf data idx k s rest Hser _ _. simpl in Hser.
  destruct (md_ser_inv b d _ idx k s Hwf Hser) as (l & ds & Hl & Hidx & Hlen & Hall & Hk & Hf & Hr & Hs).
  apply wf_md in Hwf as (Hb & Hp). simpl in Hl. inversion Hl; subst l. clear Hl.
  exists (map VInt ds). subst s. cbn [de app length]. unfold md_de.
  destruct (b36_char_de (fold_left (zstep b) ds 0) ltac:(lia)) as (Hal & Hfrom). rewrite Hal, Hfrom. cbn [negb].
  assert (Hchk : ((0 <=? fold_left (zstep b) ds 0) && (fold_left (zstep b) ds 0 <? b ^ Z.of_nat d)) = true).
  { apply andb_true_iff. split; [apply Z.leb_le|apply Z.ltb_lt]; lia. }
  rewrite Hchk. cbn [negb].
  replace (md_unpack b d (fold_left (zstep b) ds 0) []) with (map VInt ds)
    by (rewrite <- Hlen; rewrite (md_unpack_spec b Hb ds Hall 0 []); symmetry; apply app_nil_r).
  repeat split; auto.
  - rewrite map_length. lia.
  - simpl. intros Hex. rewrite map_length. lia.
Qed.

Lemma md_fs e b d : wf (MultiDigit b d) = true -> FS e (MultiDigit b d).
Proof.
  intros Hwf data idx k s Hser. simpl in Hser.
  destruct (md_ser_inv b d _ idx k s Hwf Hser) as (l & ds & _ & _ & _ & _ & _ & _ & Hr & Hs).
  apply wf_md in Hwf as (Hb & Hp). subst s. simpl. apply b36_lt_char; lia.
Qed.

Lemma md_fd e b d : FD e (MultiDigit b d).
Proof.
  intros _ s Hs. simpl. unfold md_de. destruct s as [|ch s]; auto.
  rewrite alnum1. simpl in Hs. destruct (is_alnum_lower_c ch) eqn:Hal; simpl; auto.
  destruct (from_base36_alnum ch Hal) as (E1 & _ & _). rewrite E1.
  rewrite (b36_lt_false ch _ Hs Hal). rewrite andb_false_r. reflexivity.
Qed.

Lemma md_ex e b d : wf (MultiDigit b d) = true -> EX e (MultiDigit b d).
Proof.
  intros Hwf data idx k s Hser Hlt. simpl in Hser.
  destruct (md_ser_inv b d _ idx k s Hwf Hser) as (l & ds & Hl & Hidx & _ & _ & Hk & _).
  simpl in Hl. inversion Hl; subst l. simpl. lia.
Qed.
