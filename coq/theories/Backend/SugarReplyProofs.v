(* C03, reply side: what CspuzSugarInterface.run() prints is read back by the
   Python parsers into the sol fields of the right variables, with the right types. *)
From Coq Require Import ZArith List Bool String Ascii Lia Permutation.
From Cspuz Require Import Lib.PyErr Core.Expr Core.Program Backend.SugarText Backend.SugarTextProofs
  Backend.Sugar Backend.SugarReply Backend.SugarSpec.
Import ListNotations.
Open Scope string_scope.

(* printable and not a space: names and values *)
Definition wordc (c : ascii) : bool := let n := nat_of_ascii c in Nat.leb 33 n && Nat.leb n 126.
Lemma tokc_wordc c : tokc c = true -> wordc c = true.
Proof. by_char c. Qed.
Lemma wordc_not_pyspace c : wordc c = true -> negb (is_py_space c) = true.
Proof. by_char c. Qed.
Lemma wordc_not_tab c : wordc c = true -> negb (Ascii.eqb c ch_tab) = true.
Proof. by_char c. Qed.
Lemma wordc_not_sp c : wordc c = true -> negb (Ascii.eqb c ch_sp) = true.
Proof. by_char c. Qed.
Lemma wordc_not_nl c : wordc c = true -> negb (Ascii.eqb c ch_nl) = true.
Proof. by_char c. Qed.
Definition word (s : string) : Prop := all_chars wordc s = true /\ s <> "".

Lemma tok_word s : all_chars tokc s = true -> s <> "" -> word s.
Proof. intros H Hn; split; [|assumption]. revert H. apply all_chars_impl, tokc_wordc. Qed.
Lemma pz_word z : word (pz z).
Proof. apply tok_word; [apply pz_tokc | apply pz_nonempty]. Qed.
Lemma var_name_word v : word (var_name v).
Proof. destruct v; simpl; (apply tok_word; [simpl; apply pz_tokc | discriminate]). Qed.
Lemma bool_text_word b : word (bool_text b).
Proof. destruct b; split; try reflexivity; discriminate. Qed.

Lemma word_no c s (H : forall a, wordc a = true -> negb (Ascii.eqb a c) = true) :
  all_chars wordc s = true -> no_char c s = true.
Proof. apply all_chars_impl; assumption. Qed.

(* ---- strip keeps a string whose ends are not blank ---- *)
Lemma rstrip_app a b :
  all_chars (fun c => negb (is_py_space c)) b = true -> b <> "" -> rstrip (a ++ b) = a ++ b.
Proof.
  intros Hb Hne. induction a as [|c a IH]; simpl.
  - apply rstrip_id; assumption.
  - rewrite IH. destruct (a ++ b) eqn:E; [|reflexivity].
    destruct a; simpl in E; [congruence|discriminate].
Qed.
Lemma strip_words a (m : ascii) b : word a -> word b -> strip (a ++ String m b) = a ++ String m b.
Proof.
  intros [Ha Hna] [Hb Hnb]. unfold strip.
  assert (lstrip (a ++ String m b) = a ++ String m b) as ->.
  { destruct a as [|c a]; [congruence|]. simpl in *. apply andb_true_iff in Ha as [Hc _].
    apply wordc_not_pyspace, negb_true_iff in Hc. rewrite Hc. reflexivity. }
  change (a ++ String m b) with (a ++ (String m "" ++ b)). rewrite <- app_assoc_s.
  apply rstrip_app; [|assumption]. revert Hb. apply all_chars_impl, wordc_not_pyspace.
Qed.

Lemma split_two c a b :
  no_char c a = true -> no_char c b = true -> split_on c (a ++ String c b) = [a; b].
Proof. intros Ha Hb. rewrite split_on_app by assumption. rewrite (split_on_none _ _ Hb). reflexivity. Qed.

(* ---- generic list facts ---- *)
Lemma opt_all_map {A B} (f : A -> option B) (g : A -> B) l :
  (forall x, In x l -> f x = Some (g x)) -> opt_all (map f l) = Some (map g l).
Proof.
  induction l as [|a l IH]; simpl; intros H; [reflexivity|].
  rewrite (H a (or_introl eq_refl)), IH by (intros; apply H; right; assumption). reflexivity.
Qed.
Lemma filter_map_comm {A B} (f : B -> bool) (g : A -> B) l :
  filter f (map g l) = map g (filter (fun x => f (g x)) l).
Proof. induction l as [|a l IH]; simpl; [reflexivity|]. destruct (f (g a)); simpl; rewrite IH; reflexivity. Qed.
Lemma filter_partition_perm {A} (p : A -> bool) l :
  Permutation (filter p l ++ filter (fun x => negb (p x)) l) l.
Proof.
  induction l as [|a l IH]; simpl; [constructor|].
  destruct (p a); simpl.
  - constructor; assumption.
  - apply Permutation_sym, Permutation_cons_app, Permutation_sym; assumption.
Qed.
Lemma NoDup_map_inj {A B} (f : A -> B) l a b :
  NoDup (map f l) -> In a l -> In b l -> f a = f b -> a = b.
Proof.
  induction l as [|x l IH]; simpl; intros Hn Ha Hb E; [contradiction|].
  inversion Hn as [|? ? Hx Hn']; subst.
  destruct Ha as [->|Ha], Hb as [->|Hb]; auto.
  - exfalso; apply Hx. rewrite E. apply in_map; assumption.
  - exfalso; apply Hx. rewrite <- E. apply in_map; assumption.
Qed.
Lemma NoDup_map_filter {A B} (f : A -> B) (p : A -> bool) l :
  NoDup (map f l) -> NoDup (map f (filter p l)).
Proof.
  induction l as [|x l IH]; simpl; intros Hn; [constructor|].
  inversion Hn as [|? ? Hx Hn']; subst. destruct (p x); simpl; auto.
  constructor; auto. intros Hin. apply Hx.
  apply in_map_iff in Hin as [y [E Hy]]. apply filter_In in Hy as [Hy _]. rewrite <- E. apply in_map; assumption.
Qed.

Lemma var_id_lt_asg_len vs v : In v vs -> (var_id v < asg_len vs)%nat.
Proof.
  induction vs as [|w r IH]; intros H; [contradiction|].
  change (asg_len (w :: r)) with (Nat.max (S (var_id w)) (asg_len r)).
  destruct H as [->|H].
  - pose proof (Nat.le_max_l (S (var_id v)) (asg_len r)). lia.
  - specialize (IH H). pose proof (Nat.le_max_r (S (var_id w)) (asg_len r)). lia.
Qed.

(* ---- one assignment line of either format ---- *)
Section Loop.
  Variable rho : string -> option value.
  (* the value the solver reports for v, as text *)
  Definition val_text (v : bvar) : string :=
    match rho (var_name v) with
    | Some (VI z) => pz z
    | Some (VB b) => bool_text b
    | None => ""
    end.
  Definition typed_var (v : bvar) : Prop :=
    match v with
    | VBool _ => exists b, rho (var_name v) = Some (VB b)
    | VInt _ _ _ => exists z, rho (var_name v) = Some (VI z)
    end.

  Lemma val_text_word v : typed_var v -> word (val_text v).
  Proof.
    unfold val_text. destruct v; simpl; intros [x ->]; [apply bool_text_word | apply pz_word].
  Qed.
  Lemma conv_val_text v : typed_var v -> conv_val (val_text v) = Ok match rho (var_name v) with Some x => x | None => VB false end.
  Proof.
    unfold val_text, conv_val. destruct v; simpl; intros [x ->].
    - destruct x; reflexivity.
    - destruct (pz_not_true x) as [-> ->]. rewrite py_int_pz. reflexivity.
  Qed.
  Lemma typed_some v : typed_var v -> rho (var_name v) = Some match rho (var_name v) with Some x => x | None => VB false end.
  Proof. destruct v; simpl; intros [x ->]; reflexivity. Qed.
  Lemma drop1_name v : drop 1 (var_name v) = pn (var_id v).
  Proof. destruct v; reflexivity. Qed.

  Variable kv : string -> res (string * string).
  Variable mk : bvar -> string.
  Hypothesis mk_long : forall v, typed_var v -> Nat.leb (String.length (mk v)) 2 = false.
  Hypothesis mk_kv : forall v, typed_var v -> kv (mk v) = Ok (var_name v, val_text v).

  Definition step (asg : list (option value)) (v : bvar) : list (option value) :=
    set_at asg (var_id v) (rho (var_name v)).

  Lemma step_length asg v : List.length (step asg v) = List.length asg.
  Proof. apply set_at_length. Qed.
  Lemma fold_step_length ws : forall asg, List.length (fold_left step ws asg) = List.length asg.
  Proof. induction ws as [|w r IH]; simpl; intros asg; [reflexivity|]. rewrite IH. apply step_length. Qed.

  Lemma loop_lines ws : forall rest asg,
    (forall v, In v ws -> typed_var v /\ (var_id v < List.length asg)%nat) ->
    assign_loop kv (map mk ws ++ rest) asg = assign_loop kv rest (fold_left step ws asg).
  Proof.
    induction ws as [|w r IH]; intros rest asg H; [reflexivity|].
    destruct (H w (or_introl eq_refl)) as [Ht Hl].
    simpl. rewrite (mk_long w Ht), (mk_kv w Ht). simpl.
    rewrite (conv_val_text w Ht). simpl.
    change (match var_name w with "" => "" | String _ r0 => r0 end) with (drop 1 (var_name w)).
    rewrite drop1_name. unfold pn. rewrite py_int_pz. simpl.
    rewrite (py_setitem_nat _ _ _ Hl). simpl.
    rewrite <- (typed_some w Ht).
    apply IH. intros v Hv. destruct (H v (or_intror Hv)) as [Hv1 Hv2]. split; [assumption|].
    unfold step. rewrite set_at_length. assumption.
  Qed.

  Lemma fold_step_notin ws : forall asg i,
    ~ In i (map var_id ws) -> nth i (fold_left step ws asg) None = nth i asg None.
  Proof.
    induction ws as [|w r IH]; simpl; intros asg i H; [reflexivity|].
    rewrite IH by tauto. unfold step. apply nth_set_at_other. tauto.
  Qed.
  Lemma fold_step_in ws : forall asg v,
    NoDup (map var_id ws) -> In v ws -> (forall w, In w ws -> (var_id w < List.length asg)%nat) ->
    nth (var_id v) (fold_left step ws asg) None = rho (var_name v).
  Proof.
    induction ws as [|w r IH]; simpl; intros asg v Hn Hv Hl; [contradiction|].
    inversion Hn as [|? ? Hw Hn']; subst.
    destruct Hv as [->|Hv].
    - rewrite fold_step_notin by assumption. unfold step. apply nth_set_at_same. apply Hl. left; reflexivity.
    - apply IH; auto. intros x Hx. rewrite step_length. apply Hl. right; assumption.
  Qed.

  (* the sol vector after the lines of [ws] (a selection of the variables) were read *)
  Lemma read_back vs ws :
    NoDup (map var_id vs) -> NoDup (map var_id ws) -> incl ws vs ->
    read_sol vs (fold_left step ws (repeat None (asg_len vs)))
    = map (fun v => if existsb (fun w => Nat.eqb (var_id w) (var_id v)) ws then rho (var_name v) else None) vs.
  Proof.
    intros Hn Hnw Hincl. unfold read_sol. apply map_ext_in. intros v Hv.
    destruct (existsb (fun w => Nat.eqb (var_id w) (var_id v)) ws) eqn:E.
    - apply existsb_exists in E as [w [Hw Eid]]. apply Nat.eqb_eq in Eid.
      assert (w = v) as -> by (apply (NoDup_map_inj var_id vs); auto).
      apply fold_step_in; auto. intros x Hx. rewrite repeat_length. apply var_id_lt_asg_len, Hincl, Hx.
    - rewrite fold_step_notin.
      + apply nth_repeat.
      + intros Hin. apply in_map_iff in Hin as [w [Eid Hw]].
        assert (existsb (fun w => Nat.eqb (var_id w) (var_id v)) ws = true); [|congruence].
        apply existsb_exists. exists w; split; [assumption|]. apply Nat.eqb_eq; assumption.
  Qed.
End Loop.

(* ---- the two line formats ---- *)
Definition answer_line (rho : string -> option value) (v : bvar) : string :=
  "a " ++ var_name v ++ s_tab ++ val_text rho v.
Definition fact_line (rho : string -> option value) (v : bvar) : string :=
  var_name v ++ " " ++ val_text rho v.

Lemma answer_line_long rho v : typed_var rho v -> Nat.leb (String.length (answer_line rho v)) 2 = false.
Proof.
  intros _. unfold answer_line. simpl. destruct (var_name_word v) as [_ Hn].
  destruct (var_name v); [congruence|reflexivity].
Qed.
Lemma answer_line_kv rho v : typed_var rho v -> kv_answer (answer_line rho v) = Ok (var_name v, val_text rho v).
Proof.
  intros Ht. unfold kv_answer, answer_line. simpl drop.
  pose proof (var_name_word v) as Hw. pose proof (val_text_word rho v Ht) as Hv.
  unfold s_tab. simpl append.
  rewrite (strip_words _ _ _ Hw Hv).
  rewrite split_two; [reflexivity| |].
  - apply (word_no ch_tab _ wordc_not_tab), Hw.
  - apply (word_no ch_tab _ wordc_not_tab), Hv.
Qed.
Lemma fact_line_long rho v : typed_var rho v -> Nat.leb (String.length (fact_line rho v)) 2 = false.
Proof.
  intros Ht. unfold fact_line. rewrite length_app_s. simpl.
  destruct (var_name_word v) as [_ Hn]. destruct (val_text_word rho v Ht) as [_ Hv].
  destruct (var_name v); [congruence|]. destruct (val_text rho v); [congruence|].
  simpl. apply Nat.leb_gt. lia.
Qed.
Lemma fact_line_kv rho v : typed_var rho v -> kv_deduction (fact_line rho v) = Ok (var_name v, val_text rho v).
Proof.
  intros Ht. unfold kv_deduction, fact_line. simpl append.
  pose proof (var_name_word v) as Hw. pose proof (val_text_word rho v Ht) as Hv.
  rewrite split_two; [reflexivity| |].
  - apply (word_no ch_sp _ wordc_not_sp), Hw.
  - apply (word_no ch_sp _ wordc_not_sp), Hv.
Qed.

Lemma word_nonl s : all_chars wordc s = true -> all_chars (fun a => negb (Ascii.eqb a ch_nl)) s = true.
Proof. apply all_chars_impl, wordc_not_nl. Qed.
Lemma line_no_nl_answer rho v : typed_var rho v -> no_char ch_nl (answer_line rho v) = true.
Proof.
  intros Ht. unfold answer_line, no_char. simpl. rewrite !all_chars_app. simpl.
  destruct (var_name_word v) as [Hw _]. destruct (val_text_word rho v Ht) as [Hv _].
  rewrite (word_nonl _ Hw), (word_nonl _ Hv). reflexivity.
Qed.
Lemma line_no_nl_fact rho v : typed_var rho v -> no_char ch_nl (fact_line rho v) = true.
Proof.
  intros Ht. unfold fact_line, no_char. rewrite !all_chars_app. simpl.
  destruct (var_name_word v) as [Hw _]. destruct (val_text_word rho v Ht) as [Hv _].
  rewrite (word_nonl _ Hw), (word_nonl _ Hv). reflexivity.
Qed.

(* ---- what run() prints, in terms of the variables ---- *)
Definition ivs (vs : list bvar) := filter is_int_var vs.
Definition bvs (vs : list bvar) := filter (fun v => negb (is_int_var v)) vs.

Lemma typed_on_var vs rho v : typed_on vs rho -> In v vs -> typed_var rho v.
Proof. intros H Hv. specialize (H v Hv). destruct v; assumption. Qed.

Lemma show_int_var rho v : is_int_var v = true -> typed_var rho v -> show_int rho (var_name v) = Some (val_text rho v).
Proof. destruct v; simpl; [discriminate|]. intros _ [z Hz]. unfold show_int, val_text. simpl. rewrite Hz. reflexivity. Qed.
Lemma show_bool_var rho v : is_int_var v = false -> typed_var rho v -> show_bool rho (var_name v) = Some (val_text rho v).
Proof. destruct v; simpl; [|discriminate]. intros _ [b Hb]. unfold show_bool, val_text. simpl. rewrite Hb. destruct b; reflexivity. Qed.

Lemma ivs_in vs v : In v (ivs vs) -> In v vs /\ is_int_var v = true.
Proof. apply filter_In. Qed.
Lemma bvs_in vs v : In v (bvs vs) -> In v vs /\ is_int_var v = false.
Proof. intros H. apply filter_In in H as [H1 H2]. apply negb_true_iff in H2. auto. Qed.

Lemma perm_ivs_bvs vs : Permutation (ivs vs ++ bvs vs) vs.
Proof. apply filter_partition_perm. Qed.

Lemma existsb_id_in vs ws v :
  NoDup (map var_id vs) -> incl ws vs -> In v vs ->
  existsb (fun w => Nat.eqb (var_id w) (var_id v)) ws = true <-> In v ws.
Proof.
  intros Hn Hincl Hv. split.
  - intros E. apply existsb_exists in E as [w [Hw Eid]]. apply Nat.eqb_eq in Eid.
    assert (w = v) as <- by (apply (NoDup_map_inj var_id vs); auto). assumption.
  - intros Hw. apply existsb_exists. exists v. split; [assumption|apply Nat.eqb_refl].
Qed.

Theorem answer_reply_reflected_vars vs jp rho :
  NoDup (map var_id vs) -> j_ints jp = int_names vs -> j_bools jp = bool_names vs -> typed_on vs rho ->
  exists reply, format_answer jp (Some rho) = Some reply /\
                parse_answer vs reply = Ok (true, map (fun v => rho (var_name v)) vs).
Proof.
  intros Hn Hi Hb Ht.
  set (ws := (ivs vs ++ bvs vs)%list).
  exists (unlines ("s SATISFIABLE" :: map (answer_line rho) ws ++ ["a"])). split.
  - unfold format_answer. rewrite Hi, Hb. unfold int_names, bool_names. rewrite !map_map.
    rewrite (opt_all_map _ (answer_line rho)), (opt_all_map _ (answer_line rho)).
    + unfold ws. rewrite map_app, <- !app_assoc. reflexivity.
    + intros v Hv. apply bvs_in in Hv as [Hv Hk].
      rewrite (show_bool_var rho v Hk (typed_on_var _ _ _ Ht Hv)). reflexivity.
    + intros v Hv. apply ivs_in in Hv as [Hv Hk].
      rewrite (show_int_var rho v Hk (typed_on_var _ _ _ Ht Hv)). reflexivity.
  - assert (Hincl : incl ws vs).
    { intros v Hv. apply (Permutation_in _ (perm_ivs_bvs vs)). assumption. }
    assert (Htw : forall v, In v ws -> typed_var rho v).
    { intros v Hv. apply (typed_on_var vs); auto. }
    unfold parse_answer. rewrite split_unlines.
    2:{ constructor; [reflexivity|]. apply Forall_app; split; [|repeat constructor].
        apply Forall_forall. intros l Hl. apply in_map_iff in Hl as [v [<- Hv]]. apply line_no_nl_answer; auto. }
    simpl hd. simpl tl.
    replace (contains "UNSATISFIABLE" "s SATISFIABLE") with false by reflexivity.
    rewrite <- app_assoc.
    rewrite (loop_lines rho kv_answer (answer_line rho) (answer_line_long rho) (answer_line_kv rho)).
    2:{ intros v Hv. split; [auto|]. rewrite repeat_length. apply var_id_lt_asg_len. auto. }
    simpl. f_equal. f_equal.
    rewrite (read_back rho vs ws Hn); auto.
    + apply map_ext_in. intros v Hv.
      assert (E : existsb (fun w => Nat.eqb (var_id w) (var_id v)) ws = true).
      { apply (existsb_id_in vs); auto. apply (Permutation_in _ (Permutation_sym (perm_ivs_bvs vs))). assumption. }
      rewrite E. reflexivity.
    + apply (Permutation_NoDup (Permutation_sym (Permutation_map var_id (perm_ivs_bvs vs)))). assumption.
Qed.

Theorem deduction_reply_reflected_vars vs jp keys rho nr :
  NoDup (map var_id vs) -> j_ints jp = int_names vs -> j_bools jp = bool_names vs -> typed_on vs rho ->
  exists reply, format_deduction jp keys (Some (rho, nr)) = Some reply /\
                parse_deduction vs reply =
                Ok (true, map (fun v => if mem_str (var_name v) keys && nr (var_name v)
                                        then rho (var_name v) else None) vs).
Proof.
  intros Hn Hi Hb Ht.
  set (sel := fun v => mem_str (var_name v) keys && nr (var_name v)).
  set (ws := (filter sel (ivs vs) ++ filter sel (bvs vs))%list).
  exists (unlines ("sat" :: map (fact_line rho) ws)). split.
  - unfold format_deduction. rewrite Hi, Hb. unfold int_names, bool_names.
    rewrite !filter_map_comm, !map_map.
    rewrite (opt_all_map _ (fact_line rho)), (opt_all_map _ (fact_line rho)).
    + unfold ws. rewrite map_app. reflexivity.
    + intros v Hv. apply filter_In in Hv as [Hv _]. apply bvs_in in Hv as [Hv Hk].
      rewrite (show_bool_var rho v Hk (typed_on_var _ _ _ Ht Hv)). reflexivity.
    + intros v Hv. apply filter_In in Hv as [Hv _]. apply ivs_in in Hv as [Hv Hk].
      rewrite (show_int_var rho v Hk (typed_on_var _ _ _ Ht Hv)). reflexivity.
  - assert (Hws : ws = filter sel (ivs vs ++ bvs vs)) by (unfold ws; rewrite filter_app; reflexivity).
    assert (Hincl : incl ws vs).
    { intros v Hv. rewrite Hws in Hv. apply filter_In in Hv as [Hv _].
      apply (Permutation_in _ (perm_ivs_bvs vs)). assumption. }
    assert (Htw : forall v, In v ws -> typed_var rho v).
    { intros v Hv. apply (typed_on_var vs); auto. }
    unfold parse_deduction. rewrite split_unlines.
    2:{ constructor; [reflexivity|].
        apply Forall_forall. intros l Hl. apply in_map_iff in Hl as [v [<- Hv]]. apply line_no_nl_fact; auto. }
    simpl hd. simpl tl.
    replace (contains "unsat" "sat") with false by reflexivity.
    rewrite (loop_lines rho kv_deduction (fact_line rho) (fact_line_long rho) (fact_line_kv rho)).
    2:{ intros v Hv. split; [auto|]. rewrite repeat_length. apply var_id_lt_asg_len. auto. }
    simpl. f_equal. f_equal.
    rewrite (read_back rho vs ws Hn); auto.
    + apply map_ext_in. intros v Hv.
      destruct (sel v) eqn:Es.
      * assert (E : existsb (fun w => Nat.eqb (var_id w) (var_id v)) ws = true).
        { apply (existsb_id_in vs); auto. rewrite Hws. apply filter_In. split; [|assumption].
          apply (Permutation_in _ (Permutation_sym (perm_ivs_bvs vs))). assumption. }
        rewrite E. unfold sel in Es. rewrite Es. reflexivity.
      * assert (E : existsb (fun w => Nat.eqb (var_id w) (var_id v)) ws = false).
        { destruct (existsb _ ws) eqn:E; [|reflexivity].
          apply (existsb_id_in vs) in E; auto. rewrite Hws in E. apply filter_In in E as [_ E]. congruence. }
        rewrite E. unfold sel in Es. rewrite Es. reflexivity.
    + rewrite Hws. apply NoDup_map_filter.
      apply (Permutation_NoDup (Permutation_sym (Permutation_map var_id (perm_ivs_bvs vs)))). assumption.
Qed.

Theorem unsat_replies_vars vs jp keys :
  (exists r, format_answer jp None = Some r /\ parse_answer vs r = Ok (false, no_sol vs)) /\
  (exists r, format_deduction jp keys None = Some r /\ parse_deduction vs r = Ok (false, no_sol vs)).
Proof. split; eexists; split; reflexivity. Qed.
