(* C11 Tier 1, native-operator route - composition with property C07 when
   config.use_graph_division_primitive is on (graph._division_connected_variable_groups_with_borders reads THAT
   flag when its use_graph_primitive argument is None; config.use_graph_primitive plays no part in it): a solver
   that declares an int answer grid `size` (lo..hi, all answer keys), a fresh BoolInnerGridFrame `border`, calls
       graph.division_connected_variable_groups_with_borders(solver, group_size=size, is_border=border)
   and then posts further constraints over the size and the border variables.  On this route the helper declares
   nothing and posts ONE node Op.GRAPH_DIVISION whose operands are [n; m] ++ size ++ edge ends ++ border items
   (Graph/VarGroups.v::gdiv_operands).  The meaning of the node is its specification (graph_sem = border_exact_b on
   the decoded operands, trusted); C07's closed theorems for this route are vargroups_with_borders_primitive and
   vargroups_primitive_exact (Props/C07.v; here through their proved forms post_with_borders_primitive in
   Graph/VarGroupsPrim.v and gdiv_node_holds in Graph/VarGroupsReflect.v).
   Only the border variables are existential; there are no auxiliary variables to construct.
   borders_grid_compose_prim is the native-route twin of BordersCompose.borders_grid_compose: same final state
   (borders_final_state), same right-hand side; it does not need the hypothesis 1 <= h * w. *)
From Coq Require Import ZArith List Bool Arith Lia.
From Cspuz Require Import Lib.PyErr Core.Expr Core.Program Core.Build Graph.GraphModel Graph.ReachProofs
     Graph.AvcProofs
     Graph.VarGroups Graph.VarGroupsSound Graph.VarGroupsEval Graph.VarGroupsMain Graph.VarGroupsExact
     Graph.VarGroupsLib Graph.VarGroupsSized Graph.VarGroupsSizedExact Graph.VarGroupsCut
     Graph.VarGroupsBorders Graph.VarGroupsFrame Graph.VarGroupsPrim Graph.VarGroupsReflect
     Puzzle.PuzzleBase Puzzle.SatAbs Puzzle.ModelBase Puzzle.ModelLemmas Puzzle.BordersCompose.
Import ListNotations.
Local Open Scope nat_scope.

Section ComposePrim.
  Variables (h w : nat) (lo hi : Z).
  Variables (st0 : state) (size : list expr) (st1 : state) (hor : list expr) (st2 : state) (ver : list expr).
  Variable st3 : state.
  Hypothesis Hdecl : int_array empty_state (h * w) lo hi = Ok (st0, size).
  Hypothesis Hhor :
    bool_array {| vars := vars st0; keys := repeat true (h * w); Program.cons := Program.cons st0 |} ((h - 1) * w) = (st1, hor).
  Hypothesis Hver : bool_array st1 (h * (w - 1)) = (st2, ver).
  (* use_graph_primitive = None, config.use_graph_division_primitive = True *)
  Hypothesis Hcall :
    division_connected_variable_groups_with_borders st2 (GArr2 h w size)
      (BFrame {| fh := h; fw := w; fhor := hor; fver := ver |}) None None true = Ok st3.
  Variable extra : list expr.
  Variable local : (nat -> Z) -> (nat -> bool) -> bool.
  Hypothesis Hloc : forall en,
    forallb (holds graph_sem en) extra = local (ei en) (fun j => eb en (h * w + j)).
  Hypothesis Hlocal_ext : forall d d' b b',
    (forall v, v < h * w -> d v = d' v) -> (forall j, j < n_borders h w -> b j = b' j) -> local d b = local d' b'.

  Let n := h * w.
  Let g := frame_graph (mk_frame h w).
  Let bd := frame_borders (mk_frame h w).
  Let offs := frame_offsets h w.
  Let node := BNode G_DIV (gdiv_operands g size bd).

  Let Hsl : length size = nv g := bc_size_len h w lo hi st0 size Hdecl.
  Let Hbl : length bd = length (edges g) := bc_bd_len h w.

  (* the call adds exactly the native node *)
  Lemma pbc_st3 : st3 = ensure st2 [node].
  Proof.
    pose proof Hcall as H. rewrite (bc_frame h w lo hi st0 size st1 hor st2 ver Hdecl Hhor Hver) in H.
    rewrite with_borders_frame_form in H. fold g bd in H.
    rewrite (post_with_borders_primitive st2 g size bd Hsl Hbl) in H. inversion H; reflexivity.
  Qed.

  Lemma pbc_next3 : next_id st3 = n + n_borders h w.
  Proof. rewrite pbc_st3. exact (bc_next2 h w lo hi st0 size st1 hor st2 ver Hdecl Hhor Hver). Qed.

  (* the node under an assignment: sizes = the size variables, border pattern = the border variables *)
  Lemma pbc_node en sval pat :
    (forall v, v < n -> sval v = Some (ei en v)) ->
    (forall e, e < length bd -> pat e = eb en (n + nth e offs 0)) ->
    (holds graph_sem en node = true <-> border_exact g pat sval).
  Proof.
    intros Hs Hp. apply (gdiv_node_holds graph_sem g size bd en sval pat (frame_wf h w) Hsl Hbl); [| |reflexivity].
    - intros i Hi. rewrite Hsl in Hi. change (nv g) with n in Hi.
      change (nth i size PyNone) with (at_ size i). rewrite (proj2 (bc_decl h w lo hi st0 size Hdecl)).
      fold n. rewrite at_ivars by exact Hi. cbn [Nat.add].
      exists (ei en i). split; [reflexivity|apply Hs; exact Hi].
    - intros e He. rewrite (Hp e He). unfold bd in *. rewrite (bc_bd_nth h w e He). reflexivity.
  Qed.

  Lemma pbc_split en :
    model_of graph_sem en (borders_final_state st3 extra) <->
    (in_bounds_from en 0 (vars st2) = true /\ holds graph_sem en node = true /\
     forallb (holds graph_sem en) extra = true).
  Proof.
    rewrite pbc_st3. unfold model_of, in_bounds, satisfies, borders_final_state. cbn [vars Program.cons ensure].
    rewrite (bc_cons2 h w lo hi st0 size st1 hor st2 ver Hdecl Hhor Hver). cbn [app forallb].
    rewrite !andb_true_iff. tauto.
  Qed.

  Lemma pbc_reads en : reads (borders_final_state st3 extra) en (seq 0 n) = map (ei en) (seq 0 n).
  Proof.
    unfold reads. apply map_ext_in. intros i Hi. apply in_seq in Hi.
    unfold read_var, borders_final_state. rewrite pbc_st3. cbn [vars ensure].
    rewrite (bc_vars2 h w lo hi st0 size st1 hor st2 ver Hdecl Hhor Hver). fold n.
    rewrite nth_error_app1 by (rewrite repeat_length; lia).
    rewrite (nth_error_nth' _ (DInt lo hi)) by (rewrite repeat_length; lia). rewrite nth_repeat. reflexivity.
  Qed.

  Theorem borders_grid_compose_prim ans :
    (exists en, model_of graph_sem en (borders_final_state st3 extra) /\
                reads (borders_final_state st3 extra) en (seq 0 n) = ans)
    <-> (length ans = n /\ (forall v, v < n -> (lo <= getz ans v <= hi)%Z) /\
         exists b : nat -> bool,
           border_exact g (fun k => b (nth k offs 0)) (fun v => Some (getz ans v)) /\
           local (getz ans) b = true).
  Proof.
    pose proof (bc_bounds2 h w lo hi st0 size st1 hor st2 ver Hdecl Hhor Hver) as HB. fold n in HB.
    split.
    - intros [en [Hm Hr]]. rewrite pbc_reads in Hr. subst ans.
      apply pbc_split in Hm. destruct Hm as [Hb [Hnode Hex]].
      assert (Hg : forall v, v < n -> getz (map (ei en) (seq 0 n)) v = ei en v)
        by (intros v Hv; apply getz_map_seq; exact Hv).
      split; [rewrite map_length, seq_length; reflexivity|].
      split; [intros v Hv; rewrite Hg by exact Hv; apply (proj1 (HB en) Hb v Hv)|].
      exists (fun j => eb en (n + j)). split.
      + apply (pbc_node en _ (fun k => eb en (n + nth k offs 0))); [| |exact Hnode].
        * intros v Hv. rewrite Hg by exact Hv. reflexivity.
        * intros e _. reflexivity.
      + rewrite Hloc in Hex. rewrite <- Hex. apply Hlocal_ext; [exact Hg|reflexivity].
    - intros [Hl [Hrange [b [Hbe Hlc]]]].
      set (en0 := {| eb := fun i => b (i - n); ei := fun i => getz ans i |}).
      assert (Hb0 : forall j, eb en0 (n + j) = b j).
      { intros j. unfold en0; cbn [eb]. f_equal. lia. }
      exists en0. split.
      + apply pbc_split. split; [|split].
        * apply HB. intros v Hv. apply Hrange. exact Hv.
        * apply (pbc_node en0 (fun v => Some (getz ans v)) (fun k => b (nth k offs 0))); [| |exact Hbe].
          -- intros v Hv. reflexivity.
          -- intros e _. symmetry. apply Hb0.
        * rewrite Hloc. rewrite <- Hlc. apply Hlocal_ext; [reflexivity|]. intros j _. apply Hb0.
      + rewrite pbc_reads. transitivity (map (getz ans) (seq 0 (length ans))); [|apply map_getz_seq].
        rewrite Hl. reflexivity.
  Qed.
End ComposePrim.
