(* C11: the program of solve_heyawake is well formed on every board; composition with C02 (solve_reports). *)
From Coq Require Import ZArith List Bool Arith Lia.
From Cspuz Require Import Lib.PyErr Core.Expr Core.Program Graph.GraphModel Graph.Avc
     Backend.Z3 Backend.Z3Oracle Backend.Z3SolveProofs Backend.SolveLoop Backend.SolveZ3Proofs
     Puzzle.PuzzleBase Puzzle.ModelBase Puzzle.ModelLemmas Puzzle.SatAbs Puzzle.SolveCompose Puzzle.WfLemmas
     Puzzle.Rules_norinori Puzzle.Norinori Puzzle.NorinoriWf Puzzle.Akari Puzzle.AkariWf
     Puzzle.Rules_heyawake Puzzle.Heyawake Puzzle.HeyawakeProofs.
Import ListNotations.
Local Open Scope nat_scope.

Section H.
  Variables h w : nat.
  Let vs := repeat DBool (h * w).

  Lemma ok_bv y x : y < h -> x < w -> ok vs true (bv w (y, x)) = true.
  Proof. intros Hy Hx. unfold bv. apply ok_cell; assumption. Qed.

  Lemma heyawake_not_adjacent_ok : forallb (ok vs true) (heyawake_not_adjacent h w) = true.
  Proof.
    unfold heyawake_not_adjacent. rewrite forallb_app, !forallb_map. apply andb_true_intro. split.
    - apply forallb_cells. intros y x Hy Hx. unfold nand2. autorewrite with okdb. rewrite !ok_bv by lia. reflexivity.
    - apply forallb_cells. intros y x Hy Hx. unfold nand2. autorewrite with okdb. rewrite !ok_bv by lia. reflexivity.
  Qed.

  Lemma inside_app a b : inside h w a -> inside h w b -> inside h w (a ++ b).
  Proof. intros Ha Hb c Hc. apply in_app_or in Hc. destruct Hc; auto. Qed.
  Lemma inside_cons c l : inside h w (c :: l) -> fst c < h /\ snd c < w.
  Proof. intros H. apply H. left. reflexivity. Qed.
  Lemma inside_tail c l : inside h w (c :: l) -> inside h w l.
  Proof. intros H c' Hc'. apply H. right. exact Hc'. Qed.
  Lemma inside_one c : fst c < h /\ snd c < w -> inside h w [c].
  Proof. intros H c' [<-|[]]. exact H. Qed.

  Lemma window_inside room r : forall l acc cs, inside h w l -> inside h w acc ->
    window room w r l acc = Some cs -> inside h w cs.
  Proof.
    induction l as [|c rest IH]; intros acc cs Hl Ha H; simpl in H; [discriminate|].
    pose proof (inside_cons _ _ Hl) as Hc.
    destruct (room_of room w c =? r)%Z.
    - eapply IH; [eapply inside_tail; exact Hl| |exact H]. apply inside_app; [exact Ha|apply inside_one; exact Hc].
    - inversion H; subst. apply inside_app; [exact Ha|apply inside_one; exact Hc].
  Qed.

  Lemma line_constraints_ok room : forall l, inside h w l -> forallb (ok vs true) (line_constraints room w l) = true.
  Proof.
    induction l as [|c rest IH]; intros Hl; [reflexivity|].
    cbn [line_constraints]. rewrite forallb_app. apply andb_true_intro. split; [|apply IH; eapply inside_tail; exact Hl].
    destruct rest as [|c' rest']; [reflexivity|].
    destruct (room_of room w c' =? room_of room w c)%Z; [reflexivity|].
    destruct (window room w (room_of room w c') rest' [c; c']) as [cs|] eqn:E; [|reflexivity].
    apply window_inside in E.
    - cbn [forallb]. rewrite ok_or, forallb_map, andb_true_r. apply forallb_In. intros [y x] Hc.
      apply E in Hc. simpl in Hc. apply ok_bv; tauto.
    - apply inside_tail in Hl. apply inside_tail in Hl. exact Hl.
    - intros c0 [<-|[<-|[]]]; apply Hl; [left|right; left]; reflexivity.
  Qed.

  Lemma heyawake_extra_ok room clue : forallb (ok vs true) (heyawake_extra h w room clue) = true.
  Proof.
    unfold heyawake_extra, heyawake_clues. rewrite !forallb_app, !forallb_flat_map.
    repeat (apply andb_true_intro; split).
    - apply forallb_In. intros i _. destruct (0 <=? getz clue i)%Z; [|reflexivity].
      autorewrite with okdb. apply ok_region_ct.
    - apply forallb_seq. intros x Hx. apply line_constraints_ok. apply inside_column. lia.
    - apply forallb_seq. intros y Hy. apply line_constraints_ok. apply inside_row. lia.
  Qed.

  Lemma not_grid_vars_ok : forallb (ok vs true) (map (fun i => BNode NOT [BVar i]) (seq 0 (h * w))) = true.
  Proof. rewrite forallb_map. apply forallb_seq. intros i Hi. rewrite ok_not. apply ok_bvar_repeat. lia. Qed.
End H.

Lemma heyawake_model_shape pb st : solve_heyawake_model pb = Ok st ->
  (wf_state st /\ wf_keys st) /\ exists r, keys st = repeat true (dim pb 0 * dim pb 1) ++ r.
Proof.
  unfold solve_heyawake_model. set (h := dim pb 0). set (w := dim pb 1).
  destruct (post_avc _ _ _ false false) as [st1|] eqn:E; [|discriminate].
  intros H. inversion H; subst st; clear H.
  destruct (post_avc_wf _ _ _ _ _ E) as [WK [Hv Hk]].
  - apply heyawake_not_adjacent_ok.
  - unfold wf_keys; simpl. rewrite !repeat_length. reflexivity.
  - simpl. apply not_grid_vars_ok.
  - split.
    + eapply wf_ensure_prefix; [exact WK|exact Hv|]. simpl. apply heyawake_extra_ok.
    + eexists. simpl. rewrite Hk. reflexivity.
Qed.

Lemma heyawake_model_wf pb st : solve_heyawake_model pb = Ok st -> wf_state st /\ wf_keys st.
Proof. intros H. exact (proj1 (heyawake_model_shape pb st H)). Qed.

Theorem heyawake_solve_reports : forall oracle, oracle_sound_on oracle -> oracle_complete_on oracle ->
  forall h w room clue st,
  solve_heyawake_model [[Z.of_nat h; Z.of_nat w]; room; clue] = Ok st ->
  solve_reports oracle st (seq 0 (h * w)) (rules_heyawake [[Z.of_nat h; Z.of_nat w]; room; clue]).
Proof.
  intros oracle Os Oc h w room clue st Hst.
  apply (solve_reports_intro oracle gsem_avc); try assumption.
  - exact (heyawake_model_wf _ _ Hst).
  - destruct (heyawake_model_shape _ _ Hst) as [_ [r Hk]]. rewrite dim2_0, dim2_1 in Hk. rewrite Hk.
    intros i. apply keys_prefix.
  - intros ans. exact (heyawake_exact h w room clue st ans Hst).
Qed.
