(* C11 Tier 1 - shakashaka, part 2: the geometric setting.
   A board is a function cst : Z -> Z -> nat giving the state of every cell (0 empty white, 1..4 white with that
   triangle, 5 black or outside), 5 outside a bounded area.  Quarters (y, x, q), q = 0 N, 1 E, 2 S, 3 W.
   This file: coverage, the local test at a lattice point as a function of the four states, tables of local
   consequences checked by computation over all states, adjacency and reachability of white quarters. *)
From Coq Require Import ZArith List Bool Arith Lia.
From Cspuz Require Import Puzzle.PuzzleBase Puzzle.ShakashakaSem.
Import ListNotations.
Local Open Scope nat_scope.

(* quarters covered in a cell of state s *)
Definition cov (s q : nat) : bool :=
  match s with
  | 0 => false
  | 1 => Nat.eqb q 0 || Nat.eqb q 3
  | 2 => Nat.eqb q 3 || Nat.eqb q 2
  | 3 => Nat.eqb q 2 || Nat.eqb q 1
  | 4 => Nat.eqb q 0 || Nat.eqb q 1
  | _ => true
  end.
(* the local test on (upper left, lower left, lower right, upper right) *)
Definition vok4 (a b c d : nat) : bool := vok (fun k => match k with 0 => a | 1 => b | 2 => c | _ => d end).
Definition is0 (a : nat) : bool := Nat.eqb a 0.

Definition r6 : list nat := [0; 1; 2; 3; 4; 5].
Definition all4 (f : nat -> nat -> nat -> nat -> bool) : bool :=
  forallb (fun a => forallb (fun b => forallb (fun c => forallb (fun d => f a b c d) r6) r6) r6) r6.
Definition all6 (f : nat -> nat -> nat -> nat -> nat -> nat -> bool) : bool :=
  forallb (fun a => forallb (fun b => all4 (f a b)) r6) r6.

Lemma in_r6 a : a <= 5 -> In a r6.
Proof. intros H. unfold r6. do 6 (destruct a as [|a]; [simpl; tauto|]). lia. Qed.
Lemma all4_spec f : all4 f = true -> forall a b c d, a <= 5 -> b <= 5 -> c <= 5 -> d <= 5 -> f a b c d = true.
Proof.
  unfold all4. intros H a b c d Ha Hb Hc Hd. rewrite forallb_forall in H.
  specialize (H a (in_r6 a Ha)). rewrite forallb_forall in H.
  specialize (H b (in_r6 b Hb)). rewrite forallb_forall in H.
  specialize (H c (in_r6 c Hc)). rewrite forallb_forall in H.
  exact (H d (in_r6 d Hd)).
Qed.
Lemma all6_spec f : all6 f = true -> forall a b c d e g, a <= 5 -> b <= 5 -> c <= 5 -> d <= 5 -> e <= 5 -> g <= 5 ->
  f a b c d e g = true.
Proof.
  unfold all6. intros H a b c d e g Ha Hb Hc Hd He Hg. rewrite forallb_forall in H.
  specialize (H a (in_r6 a Ha)). rewrite forallb_forall in H.
  specialize (H b (in_r6 b Hb)). apply all4_spec; assumption.
Qed.
(* lazy implication (cheap premises first: the tables are evaluated by vm_compute, which is strict in arguments) *)
Notation "a ==> b" := (if a then b else true) (at level 55, right associativity).
Lemma imp_elim (p q : bool) : (p ==> q) = true -> p = true -> q = true.
Proof. intros H Hp. rewrite Hp in H. exact H. Qed.

(* ---- tables: consequences of the local test (all states, by computation).
   Naming of a lattice point's cells: UL upper left, LL lower left, LR lower right, UR upper right;
   vok4 UL LL LR UR. *)

(* legs of a triangle cell are open: the quarter across each leg of the white half is white *)
Lemma t_leg_1_1 : all4 (fun a b c d => Nat.eqb b 1 ==> vok4 a b c d ==> (negb (cov c 3))) = true.
Proof. vm_compute. reflexivity. Qed.
Lemma t_leg_1_2 : all4 (fun a b c d => Nat.eqb d 1 ==> vok4 a b c d ==> (negb (cov c 0))) = true.
Proof. vm_compute. reflexivity. Qed.
Lemma t_leg_2_0 : all4 (fun a b c d => Nat.eqb c 2 ==> vok4 a b c d ==> (negb (cov d 2))) = true.
Proof. vm_compute. reflexivity. Qed.
Lemma t_leg_2_1 : all4 (fun a b c d => Nat.eqb a 2 ==> vok4 a b c d ==> (negb (cov d 3))) = true.
Proof. vm_compute. reflexivity. Qed.
Lemma t_leg_3_0 : all4 (fun a b c d => Nat.eqb b 3 ==> vok4 a b c d ==> (negb (cov a 2))) = true.
Proof. vm_compute. reflexivity. Qed.
Lemma t_leg_3_3 : all4 (fun a b c d => Nat.eqb d 3 ==> vok4 a b c d ==> (negb (cov a 1))) = true.
Proof. vm_compute. reflexivity. Qed.
Lemma t_leg_4_2 : all4 (fun a b c d => Nat.eqb a 4 ==> vok4 a b c d ==> (negb (cov b 0))) = true.
Proof. vm_compute. reflexivity. Qed.
Lemma t_leg_4_3 : all4 (fun a b c d => Nat.eqb c 4 ==> vok4 a b c d ==> (negb (cov b 1))) = true.
Proof. vm_compute. reflexivity. Qed.

(* walking along a closed side of an empty cell (two lattice points each) *)
(* p = (y,x): a b c d; p' = (y-1,x): e a d f.  c empty, left closed, top open -> d empty, its left closed *)
Lemma t_A_up : all6 (fun a b c d e f =>
  is0 c ==> cov b 1 ==> negb (cov d 2) ==> vok4 a b c d ==> vok4 e a d f ==> (is0 d && cov a 1)) = true.
Proof. vm_compute. reflexivity. Qed.
(* p = (y,x): a b c d; (y,x-1): e f b a.  c empty, top closed, left open -> b empty, its top closed *)
Lemma t_T_left : all6 (fun a b c d e f =>
  is0 c ==> cov d 2 ==> negb (cov b 1) ==> vok4 a b c d ==> vok4 e f b a ==> (is0 b && cov a 2)) = true.
Proof. vm_compute. reflexivity. Qed.
(* (y,x+1): a b c d with b = (y,x); (y-1,x+1): e a d f.  b empty, right closed, top open -> a empty, its right closed *)
Lemma t_R_up : all6 (fun a b c d e f =>
  is0 b ==> cov c 3 ==> negb (cov a 2) ==> vok4 a b c d ==> vok4 e a d f ==> (is0 a && cov d 3)) = true.
Proof. vm_compute. reflexivity. Qed.
(* (y+1,x): a b c d with d = (y,x); (y+1,x-1): e f b a.  d empty, bottom closed, left open -> a empty, its bottom closed *)
Lemma t_B_left : all6 (fun a b c d e f =>
  is0 d ==> cov c 0 ==> negb (cov a 1) ==> vok4 a b c d ==> vok4 e f b a ==> (is0 a && cov b 0)) = true.
Proof. vm_compute. reflexivity. Qed.
(* (y,x+1): a b c d with b = (y,x); (y,x+2): d c e f.  b empty, top closed, right open -> c empty, its top closed *)
Lemma t_T_right : all6 (fun a b c d e f =>
  is0 b ==> cov a 2 ==> negb (cov c 3) ==> vok4 a b c d ==> vok4 d c e f ==> (is0 c && cov d 2)) = true.
Proof. vm_compute. reflexivity. Qed.
(* (y+1,x): a b c d with d = (y,x); (y+2,x): b e f c.  d empty, left closed, bottom open -> c empty, its left closed *)
Lemma t_L_down : all6 (fun a b c d e f =>
  is0 d ==> cov a 1 ==> negb (cov c 0) ==> vok4 a b c d ==> vok4 b e f c ==> (is0 c && cov b 1)) = true.
Proof. vm_compute. reflexivity. Qed.
(* cells A=(y,x) B=(y,x+1) C=(y+1,x) N=(y+1,x+1) D=(y,x+2) G=(y+1,x+2): points (y+1,x+1): A C N B; (y+1,x+2): B N G D *)
Lemma t_fill : all6 (fun A B C N D G =>
  is0 A ==> is0 B ==> is0 C ==> (is0 D || cov D 3) ==> vok4 A C N B ==> vok4 B N G D ==> (is0 N)) = true.
Proof. vm_compute. reflexivity. Qed.
(* (y+1,x+1): a=(y,x) b=(y+1,x) c=(y+1,x+1) d=(y,x+1) *)
Lemma t_R_down : all4 (fun a b c d => is0 a ==> is0 b ==> cov d 3 ==> vok4 a b c d ==> (cov c 3)) = true.
Proof. vm_compute. reflexivity. Qed.
Lemma t_B_right : all4 (fun a b c d => is0 a ==> is0 d ==> cov b 0 ==> vok4 a b c d ==> (cov c 0)) = true.
Proof. vm_compute. reflexivity. Qed.

(* ---- quarters, adjacency, reachability *)
Definition quarter : Type := (Z * Z * nat)%type.

Inductive qadj : quarter -> quarter -> Prop :=
| adj_next y x q : q < 4 -> qadj (y, x, q) (y, x, Nat.modulo (q + 1) 4)
| adj_prev y x q : q < 4 -> qadj (y, x, q) (y, x, Nat.modulo (q + 3) 4)
| adj_up y x : qadj (y, x, 0) ((y - 1)%Z, x, 2)
| adj_down y x : qadj (y, x, 2) ((y + 1)%Z, x, 0)
| adj_left y x : qadj (y, x, 3) (y, (x - 1)%Z, 1)
| adj_right y x : qadj (y, x, 1) (y, (x + 1)%Z, 3).

Lemma qadj_sym t t' : qadj t t' -> qadj t' t.
Proof.
  intros H. destruct H as [y x q Hq|y x q Hq|y x|y x|y x|y x].
  - assert (E : q = Nat.modulo (Nat.modulo (q + 1) 4 + 3) 4) by (do 4 (destruct q as [|q]; [reflexivity|]); lia).
    rewrite E at 2. apply adj_prev. apply Nat.mod_upper_bound. lia.
  - assert (E : q = Nat.modulo (Nat.modulo (q + 3) 4 + 1) 4) by (do 4 (destruct q as [|q]; [reflexivity|]); lia).
    rewrite E at 2. apply adj_next. apply Nat.mod_upper_bound. lia.
  - replace y with (y - 1 + 1)%Z at 2 by lia. apply adj_down.
  - replace y with (y + 1 - 1)%Z at 2 by lia. apply adj_up.
  - replace x with (x - 1 + 1)%Z at 2 by lia. apply adj_right.
  - replace x with (x + 1 - 1)%Z at 2 by lia. apply adj_left.
Qed.
Lemma qadj_lt4 t t' : qadj t t' -> snd t < 4 /\ snd t' < 4.
Proof.
  intros H. destruct H; cbn [snd]; try (split; lia);
    (split; [assumption|apply Nat.mod_upper_bound; lia]).
Qed.

(* the quarter on the other side of the cell side a quarter touches *)
Definition partner (t : quarter) : quarter :=
  let '(y, x, q) := t in
  match q with
  | 0 => ((y - 1)%Z, x, 2)
  | 1 => (y, (x + 1)%Z, 3)
  | 2 => ((y + 1)%Z, x, 0)
  | _ => (y, (x - 1)%Z, 1)
  end.
(* coordinates of the diagonal square ("diamond") a quarter is half of *)
Definition da (t : quarter) : Z :=
  let '(y, x, q) := t in (x + y + (if Nat.eqb q 1 || Nat.eqb q 2 then 1 else 0))%Z.
Definition db (t : quarter) : Z :=
  let '(y, x, q) := t in (x - y - (if Nat.eqb q 2 || Nat.eqb q 3 then 1 else 0))%Z.

Section Board.
  Variable cst : Z -> Z -> nat.

  Definition wq (y x : Z) (q : nat) : bool := negb (cov (cst y x) q).
  Definition white (t : quarter) : Prop := let '(y, x, q) := t in q < 4 /\ wq y x q = true.
  Definition wqt (t : quarter) : bool := let '(y, x, q) := t in wq y x q.

  Inductive qreach (s : quarter) : quarter -> Prop :=
  | qr_refl : white s -> qreach s s
  | qr_step t t' : qreach s t -> qadj t t' -> white t' -> qreach s t'.

  Lemma qreach_start s t : qreach s t -> white s.
  Proof. induction 1; assumption. Qed.
  Lemma qreach_end s t : qreach s t -> white t.
  Proof. induction 1; assumption. Qed.
  Lemma qreach_trans s t u : qreach s t -> qreach t u -> qreach s u.
  Proof. intros H1 H2. induction H2; [exact H1|]. eapply qr_step; eassumption. Qed.
  Lemma qreach_sym s t : qreach s t -> qreach t s.
  Proof.
    intros H. induction H as [Hs|t t' H IH Ha Hw].
    - apply qr_refl; exact Hs.
    - apply qreach_trans with t; [|exact IH].
      eapply qr_step; [apply qr_refl; exact Hw|apply qadj_sym; exact Ha|apply (qreach_end _ _ H)].
  Qed.
  (* invariants propagate along white adjacency *)
  Lemma qreach_ind_inv (P : quarter -> Prop) s :
    P s -> (forall t t', P t -> white t -> qadj t t' -> white t' -> P t') -> forall t, qreach s t -> P t.
  Proof.
    intros Hs Hstep t H. induction H as [|t t' H IH Ha Hw]; [exact Hs|].
    apply (Hstep t t' IH (qreach_end _ _ H) Ha Hw).
  Qed.

  (* the local patterns at every lattice point: yu = yd - 1 the rows above / below, xl = xr - 1 the columns *)
  Definition Lok : Prop :=
    forall yu yd xl xr : Z, yu = (yd - 1)%Z -> xl = (xr - 1)%Z ->
      vok4 (cst yu xl) (cst yd xl) (cst yd xr) (cst yu xr) = true.

  (* the two kinds of rectangles, as sets of quarters *)
  Definition RectA (C : quarter -> Prop) : Prop :=
    exists y1 y2 x1 x2 : Z, forall y x q, q < 4 ->
      (C (y, x, q) <-> (y1 <= y <= y2 /\ x1 <= x <= x2)%Z).
  Definition RectD (C : quarter -> Prop) : Prop :=
    exists a1 a2 b1 b2 : Z, forall t, snd t < 4 ->
      (C t <-> (a1 <= da t <= a2 /\ b1 <= db t <= b2)%Z).

  Definition sealed (t : quarter) : Prop := white t /\ wqt (partner t) = false.
End Board.
