"""C09 — active_edges_acyclic admits exactly the forests."""
import itertools

import exprio
import graphcap
import vlib

PROPS = "Props/C09.v"
RULE = ("tie P (program capture): for every graph x flag-form case the program really posted by "
        "cspuz.graph.active_edges_acyclic on a Solver that already holds caller variables/constraints is compared "
        "verbatim (declarations, answer keys, constraints in posting order) with the program of the extracted Coq "
        "model post_acyclic; error cases compare the exception class.  A case is non-trivial when it is a distinct "
        "(graph, flag form, flag list) triple.  Graphs: all loop-free multigraphs with <= 4 vertices and <= 5 edges "
        "(incl. parallel edges) in canonical and in shuffled/flipped edge order, small graphs with self-loops, random "
        "multigraphs up to 9 vertices, grid graphs, the 0-vertex graph; flag forms: BoolArray1D, list of variables, "
        "~v, v&w, v|w, Python True/False, shared variables, mixed, and a malformed stream (short list, int / IntExpr / "
        "None entries, over-long list).  search: satisfiability (z3) of the really posted program with the edge "
        "pattern fixed vs the independent union-find oracle graphcap.edges_form_forest, for every pattern of every "
        "small multigraph and for tree-biased patterns of random larger ones; the Coq specification (forest_b, "
        "uf_forest) is validated against the same oracle; z3 models are re-checked by the Coq certificate checker and "
        "the Coq rank construction is replayed on the real program.")
TRUSTED = [
    "reading of the property: 'contain no cycle' = every active edge is a bridge of the active-edge subgraph "
    "(Graph/Acyclic.v::forest); validated on every run against a union-find oracle written independently in Python "
    "(graphcap.edges_form_forest) and against the Coq union-find uf_forest",
    "Core/Expr.v::eval as the meaning of the posted trees (n-ary ADD, IF, LT/NE/LE, binary AND); z3 (search only) "
    "as the decision procedure for the really posted program",
    "exprio.py / exprio.ml serialisation of trees and solver states used by the capture comparison",
]
ASSUMPTIONS = [
    "graph is a cspuz.graph.Graph built with add_edge on vertices 0..n-1 (endpoints < n), no self-loops (the "
    "property text says loop-free; a self-loop is silently ignored by the encoding)",
    "n >= 1 (n = 0 raises ValueError from int_array; the model and the check agree on that)",
    "every edge flag is a BoolExpr / Python bool over the caller's variables; is_active_edge has at least "
    "len(graph.edges) entries",
]

ERR = {1: "IndexError", 2: "KeyError", 3: "AssertionError", 4: "TypeError", 5: "ValueError",
       6: "RecursionError", 7: "NotImplementedError", 8: "Other"}


# ---------------------------------------------------------------- flag forms

FORMS = ["array", "vars", "neg", "and", "or", "const", "shared", "mixed"]
BAD_FORMS = ["short", "int", "intexpr", "none", "long"]


def make_flags(s, m, form, rng):
    """returns (is_active_edge argument, list of flag trees as passed)"""
    from cspuz.array import BoolArray1D
    if form == "array":
        arr = s.bool_array(m)
        return arr, list(arr.data)
    if form == "vars":
        fl = [s.bool_var() for _ in range(m)]
        return fl, fl
    if form == "neg":
        fl = [~s.bool_var() for _ in range(m)]
        return fl, fl
    if form == "and":
        fl = [s.bool_var() & s.bool_var() for _ in range(m)]
        return fl, fl
    if form == "or":
        fl = [s.bool_var() | ~s.bool_var() for _ in range(m)]
        return fl, fl
    if form == "const":
        fl = [rng.random() < 0.6 for _ in range(m)]
        return fl, fl
    if form == "shared":
        pool = [s.bool_var() for _ in range(max(1, (m + 1) // 2))]
        fl = [pool[rng.randrange(len(pool))] for _ in range(m)]
        return fl, fl
    if form == "mixed":
        pool = [s.bool_var() for _ in range(m + 1)]
        fl = []
        for _ in range(m):
            c = rng.randrange(7)
            v, w = pool[rng.randrange(len(pool))], pool[rng.randrange(len(pool))]
            fl.append([v, ~v, v & w, v | w, True, False, (v == w) & ~(v ^ w)][c])
        if rng.random() < 0.3:
            return tuple(fl), fl
        return fl, fl
    # malformed stream
    base = [s.bool_var() for _ in range(m)]
    if form == "short":
        fl = base[:rng.randrange(m)] if m else base
        return fl, fl
    if form == "long":
        fl = base + [s.bool_var(), True]
        return fl, fl
    k = rng.randrange(m) if m else 0
    if form == "int":
        bad = rng.choice([0, 1, 7])
    elif form == "intexpr":
        bad = s.int_var(0, 3) if rng.random() < 0.5 else (s.int_var(0, 3) + 1)
    else:
        bad = None
    fl = list(base)
    if m:
        fl[k] = bad
    return fl, fl


def pre_state(s, rng, style):
    """put caller-side variables / constraints / answer keys into the solver first."""
    if style == 0:
        return
    a = s.bool_var()
    if style >= 2:
        x = s.int_var(-2, 5)
        s.ensure(a | (x > 0))
        s.add_answer_key(a)


def run_case(ctx, m, n, edges, form, style, reqs, metas):
    from cspuz.graph import Graph, active_edges_acyclic
    from cspuz import Solver
    s = Solver()
    pre_state(s, ctx.rng, style)
    arg, trees = make_flags(s, len(edges), form, ctx.rng)
    g = Graph(n)
    for (a, b) in edges:
        g.add_edge(a, b)
    pre = exprio.show_state(s)
    ftok = exprio.show_list(trees)
    r = vlib.guarded(active_edges_acyclic, s, arg, g)
    impl = ("ok", exprio.show_state(s)) if r[0] == "ok" else r
    reqs.append("P %s S %s L %s" % (graphcap.graph_tok(n, edges), pre, ftok))
    metas.append((n, tuple(edges), form, style, ftok, impl))


def parse_post(o):
    if o.startswith("E "):
        return ("err", ERR[int(o.split()[1])])
    return ("ok", o)


def shuffled(rng, edges):
    es = [(b, a) if rng.random() < 0.5 else (a, b) for (a, b) in edges]
    rng.shuffle(es)
    return es


def corr_graphs(ctx):
    rng = ctx.rng
    # exhaustive small loop-free multigraphs (canonical order and a shuffled/flipped copy)
    for n, es in graphcap.all_multigraphs(4, 5):
        yield "small", n, es
        if len(es) >= 1:
            yield "small-shuffled", n, shuffled(rng, es)
    # self-loops are outside the property but inside the model
    for n, es in graphcap.all_multigraphs(3, 3, loops=True):
        if any(a == b for a, b in es):
            yield "loops", n, shuffled(rng, es)
    for _ in range(400 if ctx.thorough else 80):
        n, es = graphcap.random_multigraph(rng, 9)
        yield "random", n, es
    for _ in range(60 if ctx.thorough else 15):
        n, es = graphcap.random_multigraph(rng, 6, loops=True)
        yield "random-loops", n, es
    for h, w in graphcap.grid_shapes(20 if ctx.thorough else 12):
        yield "grid", h * w, graphcap.grid_edges(h, w)
    for m in (0, 1, 2):
        yield "zero-vertices", 0, []


def correspond(ctx):
    m = ctx.model("C09")
    rng = ctx.rng
    reqs, metas = [], []
    for kind, n, es in corr_graphs(ctx):
        if kind in ("small", "small-shuffled"):
            forms = [FORMS[(len(es) + n) % 2], rng.choice(FORMS[2:]), "mixed"]
            if rng.random() < 0.35:
                forms.append(rng.choice(BAD_FORMS))
        elif kind == "zero-vertices":
            forms = ["vars", "const"]
        else:
            forms = FORMS + [rng.choice(BAD_FORMS)]
        for form in forms:
            ctx.count("graphs:" + kind)
            ctx.count("form:" + form)
            run_case(ctx, m, n, es, form, rng.randrange(3), reqs, metas)
    outs = m.batch(reqs)
    for (n, es, form, style, ftok, impl), o in zip(metas, outs):
        mo = parse_post(o)
        if mo[0] == "err" or impl[0] == "err":
            ctx.count("outcome:" + (impl[1] if impl[0] == "err" else "ok-vs-model-err"))
        ctx.corr("posted-program", (n, es, form, style, ftok), mo, impl)


# ---------------------------------------------------------------- search

def key_of(n, edges, pat):
    return "acyclic:n=%d:e=%s:p=%s" % (n, ",".join("%d-%d" % e for e in edges), "".join("1" if b else "0" for b in pat))


def z3_term(e, zv):
    """ordinary meaning of a posted tree as a z3 term (written here so that the search does not depend on
    cspuz.backend.z3, whose handling of constant nodes is the subject of C01)."""
    import z3
    from cspuz.expr import BoolVar, IntVar, Op
    if e is True or e is False:
        return z3.BoolVal(e)
    if isinstance(e, int):
        return z3.IntVal(e)
    if isinstance(e, (BoolVar, IntVar)):
        return zv[e.id]
    a = [z3_term(x, zv) for x in e.operands]
    o = e.op
    if o in (Op.BOOL_CONSTANT, Op.INT_CONSTANT):
        return a[0]
    if o == Op.NEG:
        return -a[0]
    if o == Op.ADD:
        return z3.Sum(a) if len(a) > 1 else a[0]
    if o == Op.SUB:
        r = a[0]
        for x in a[1:]:
            r = r - x
        return r
    if o == Op.EQ:
        return a[0] == a[1]
    if o == Op.NE:
        return a[0] != a[1]
    if o == Op.LE:
        return a[0] <= a[1]
    if o == Op.LT:
        return a[0] < a[1]
    if o == Op.GE:
        return a[0] >= a[1]
    if o == Op.GT:
        return a[0] > a[1]
    if o == Op.NOT:
        return z3.Not(a[0])
    if o == Op.AND:
        return z3.And(a) if a else z3.BoolVal(True)
    if o == Op.OR:
        return z3.Or(a) if a else z3.BoolVal(False)
    if o == Op.IFF:
        return a[0] == a[1]
    if o == Op.XOR:
        return z3.Xor(a[0], a[1])
    if o == Op.IMP:
        return z3.Implies(a[0], a[1])
    if o == Op.IF:
        return z3.If(a[0], a[1], a[2])
    if o == Op.ALLDIFF:
        return z3.Distinct(a) if len(a) > 1 else z3.BoolVal(True)
    raise ValueError("operator %s cannot be decided offline" % o)


def z3_session(solver):
    """check(fixed, want_model) over the program held by `solver` (same interface as graphcap.z3_session)."""
    import z3
    from cspuz.expr import BoolVar
    zv = {}
    zs = z3.Solver()
    for var in solver.variables:
        if isinstance(var, BoolVar):
            zv[var.id] = z3.Bool("b%d" % var.id)
        else:
            zv[var.id] = z3.Int("i%d" % var.id)
            zs.add(var.lo <= zv[var.id], zv[var.id] <= var.hi)
    for c in solver.constraints:
        zs.add(z3_term(c, zv))

    def check(fixed, want_model=False):
        zs.push()
        for v, val in fixed:
            if isinstance(v, BoolVar):
                zs.add(zv[v.id] if val else z3.Not(zv[v.id]))
            else:
                zs.add(zv[v.id] == val)
        r = zs.check() == z3.sat
        model = None
        if r and want_model:
            mm = zs.model()
            model = {}
            for var in solver.variables:
                val = mm.eval(zv[var.id], model_completion=True)
                model[var.id] = z3.is_true(val) if isinstance(var, BoolVar) else val.as_long()
        zs.pop()
        return (r, model) if want_model else r
    return check


def posted(n, edges):
    """the program really posted for flags = fresh variables"""
    from cspuz.graph import Graph, active_edges_acyclic
    from cspuz import Solver
    s = Solver()
    fl = [s.bool_var() for _ in range(len(edges))]
    g = graphcap.mk_graph(n, edges)
    active_edges_acyclic(s, fl, g)
    return s, fl


def tree_biased_patterns(rng, n, edges, count):
    m = len(edges)
    out = set()
    for _ in range(count):
        # random spanning forest by union-find over a random edge order, then perturb
        order = list(range(m))
        rng.shuffle(order)
        parent = list(range(n))

        def find(x):
            while parent[x] != x:
                x = parent[x]
            return x
        pat = [False] * m
        for k in order:
            a, b = edges[k]
            ra, rb = find(a), find(b)
            if ra != rb and rng.random() < 0.85:
                parent[ra] = rb
                pat[k] = True
        c = rng.random()
        if c < 0.5 and m:
            k = rng.randrange(m)
            pat[k] = not pat[k]
        elif c < 0.6 and m:
            for k in rng.sample(range(m), min(m, 2)):
                pat[k] = True
        out.add(tuple(pat))
    return sorted(out)


def search_graphs(ctx):
    rng = ctx.rng
    for n, es in graphcap.all_multigraphs(4, 5):
        yield "small", n, es, None
    # 5 vertices: all graphs with few edges, sampled beyond
    lim5 = 5 if (ctx.thorough or ctx.deep) else 4
    for n, es in graphcap.all_multigraphs(5, lim5):
        if n == 5:
            yield "five", n, es, None
    if ctx.thorough:
        for n, es in graphcap.all_multigraphs(6, 4):
            if n == 6:
                yield "six", n, es, None
    for _ in range(300 if ctx.thorough else (120 if ctx.deep else 60)):
        n, es = graphcap.random_multigraph(rng, 9)
        if len(es) <= 6:
            yield "random", n, es, None
        else:
            yield "random", n, es, tree_biased_patterns(rng, n, es, 24)
    # dense graphs need many distinct ranks: complete graphs, wheels, doubled cycles
    for n in range(3, 9 if (ctx.thorough or ctx.deep) else 8):
        es = [(a, b) for a in range(n) for b in range(a + 1, n)]
        yield "complete", n, es, (None if len(es) <= 6 else tree_biased_patterns(rng, n, es, 30))
        cyc = [(i, (i + 1) % n) for i in range(n)]
        dbl = cyc + [(b, a) for (a, b) in cyc]
        yield "doubled-cycle", n, dbl, (None if len(dbl) <= 8 else tree_biased_patterns(rng, n, dbl, 30))
    for h, w in [(2, 2), (2, 3), (3, 3), (2, 4), (1, 5), (3, 4)]:
        es = graphcap.grid_edges(h, w)
        yield "grid", h * w, es, (None if len(es) <= 7 else tree_biased_patterns(rng, h * w, es, 40))


def bool_value(e, val):
    """value of a flag tree under an assignment of the caller's BoolVars (plain Python)"""
    from cspuz.expr import BoolVar, Op
    if e is True or e is False:
        return e
    if isinstance(e, BoolVar):
        return val[e.id]
    a = [bool_value(x, val) for x in e.operands]
    return {Op.NOT: lambda: not a[0], Op.AND: lambda: all(a), Op.OR: lambda: any(a),
            Op.IFF: lambda: a[0] == a[1], Op.XOR: lambda: a[0] != a[1],
            Op.IMP: lambda: (not a[0]) or a[1], Op.BOOL_CONSTANT: lambda: a[0]}[e.op]()


def search_expression_flags(ctx):
    """edge flags given as expressions (~v, v&w, v|w, constants, shared variables): the caller's variables are
    fixed, the pattern is the value of the flags, satisfiability of the posted program must follow the oracle."""
    from cspuz import Solver
    from cspuz.expr import BoolVar
    from cspuz.graph import active_edges_acyclic
    rng = ctx.rng
    graphs = [(n, es) for n, es in graphcap.all_multigraphs(3, 4)]
    graphs += [graphcap.random_multigraph(rng, 7) for _ in range(120 if ctx.thorough else 40)]
    for n, es in graphs:
        for form in ("neg", "and", "or", "const", "shared", "mixed"):
            s = Solver()
            pre_state(s, rng, 1)
            arg, trees = make_flags(s, len(es), form, rng)
            callers = [v for v in s.variables if isinstance(v, BoolVar)]
            r = vlib.guarded(active_edges_acyclic, s, arg, graphcap.mk_graph(n, es))
            if r[0] == "err":
                ctx.violation("acyclic:n=%d:e=%s:%s:raises" % (n, ",".join("%d-%d" % e for e in es), form),
                              "active_edges_acyclic raises on a well-formed call",
                              {"n": n, "edges": es, "flags": exprio.show_list(trees), "error": r[1]})
                continue
            check = z3_session(s)
            for _ in range(6):
                val = {v.id: rng.random() < 0.6 for v in callers}
                pat = [bool_value(t, val) for t in trees]
                want = graphcap.edges_form_forest(n, es, pat)
                got = check([(v, val[v.id]) for v in callers])
                ctx.prop_case("sat-vs-forest:expr-flags", (n, tuple(es), form, exprio.show_list(trees), tuple(sorted(val.items()))))
                ctx.count("pattern:" + ("forest" if want else "cyclic"))
                if got != want:
                    ctx.violation("acyclic:n=%d:e=%s:flags=%s:val=%s" % (
                        n, ",".join("%d-%d" % e for e in es), exprio.show_list(trees).replace(" ", ""),
                        "".join("1" if val[v.id] else "0" for v in callers)),
                        "posted constraints are %s although the active edges %s" % (
                            "satisfiable" if got else "unsatisfiable",
                            "contain a cycle" if not want else "form a forest"),
                        {"n": n, "edges": es, "flags": exprio.show_list(trees), "pattern": [int(b) for b in pat],
                         "caller_assignment": {str(k): v for k, v in val.items()},
                         "expected_satisfiable": want, "observed_satisfiable": got})


def search(ctx):
    try:
        m = ctx.model("C09")
    except Exception as ex:  # model build broken: the oracle comparison still runs
        ctx.note("model runner unavailable in search: %r" % (ex,))
        m = None
    rng = ctx.rng
    spec_reqs, spec_meta = [], []
    cert_reqs, cert_meta = [], []
    rank_jobs = []
    for kind, n, es, pats in search_graphs(ctx):
        r = vlib.guarded(posted, n, es)
        if r[0] == "err":
            ctx.violation("acyclic:n=%d:e=%s:raises" % (n, ",".join("%d-%d" % e for e in es)),
                          "active_edges_acyclic raises on a well-formed call", {"n": n, "edges": es, "error": r[1]})
            continue
        s, fl = r[1]
        check = z3_session(s)
        rank_vars = [v for v in s.variables[len(es):]]
        if pats is None:
            pats = list(graphcap.patterns(len(es)))
        ctx.count("search-graphs:" + kind)
        for pat in pats:
            want = graphcap.edges_form_forest(n, es, pat)
            sample = m is not None and rng.random() < 0.08
            if sample and want:
                got, model = check(list(zip(fl, pat)), want_model=True)
            else:
                got, model = check(list(zip(fl, pat))), None
            ctx.prop_case("sat-vs-forest", (n, tuple(es), pat))
            ctx.count("pattern:" + ("forest" if want else "cyclic"))
            if got != want:
                ctx.violation(key_of(n, es, pat),
                              "posted constraints are %s although the active edges %s" % (
                                  "satisfiable" if got else "unsatisfiable",
                                  "contain a cycle" if not want else "form a forest"),
                              {"n": n, "edges": es, "pattern": [int(b) for b in pat],
                               "expected_satisfiable": want, "observed_satisfiable": got})
            if m is not None:
                spec_reqs.append("F %s B %s" % (graphcap.graph_tok(n, es), " ".join("1" if b else "0" for b in pat)))
                spec_meta.append((n, es, pat, want))
                if model is not None and len(rank_vars) == n:
                    ranks = [model[v.id] for v in rank_vars]
                    cert_reqs.append("C %s B %s R %s" % (graphcap.graph_tok(n, es), " ".join("1" if b else "0" for b in pat),
                                                           " ".join(str(x) for x in ranks)))
                    cert_meta.append((n, es, pat, ranks))
                if sample and want and len(rank_vars) == n:
                    rank_jobs.append((n, es, pat, check, fl, rank_vars))
    search_expression_flags(ctx)
    if m is None:
        return
    # the Coq specification agrees with the independent oracle
    for (n, es, pat, want), o in zip(spec_meta, m.batch(spec_reqs)):
        fb, uf = [t == "1" for t in o.split()]
        ctx.count("spec-validation")
        if fb != want or uf != want:
            ctx.mismatches.append({"kind": "spec-vs-oracle", "input": [n, es, [int(b) for b in pat]],
                                   "model": [fb, uf], "impl": want})
    # a z3 model of the real program passes the Coq certificate checker
    for (n, es, pat, ranks), o in zip(cert_meta, m.batch(cert_reqs)):
        ctx.corr("cert-of-z3-model", (n, tuple(es), pat, tuple(ranks)), o, "1 1")
    # the ranks constructed in the completeness proof satisfy the real program
    reqs = ["R %s B %s" % (graphcap.graph_tok(n, es), " ".join("1" if b else "0" for b in pat))
            for (n, es, pat, _, _, _) in rank_jobs]
    for (n, es, pat, check, fl, rank_vars), o in zip(rank_jobs, m.batch(reqs)):
        ranks = [int(t) for t in o.split()]
        ok = len(ranks) == n and check(list(zip(fl, pat)) + list(zip(rank_vars, ranks)))
        ctx.corr("coq-ranks-on-real-program", (n, tuple(es), pat), ("sat", tuple(ranks)) if ok else ("unsat", tuple(ranks)),
                 ("sat", tuple(ranks)))


def replay(ctx, rp):
    print(rp)
    v = rp.get("violation", {}).get("detail", {})
    if not v or "pattern" not in v:
        return 0
    n, es, pat = v["n"], [tuple(e) for e in v["edges"]], [bool(b) for b in v["pattern"]]
    s, fl = posted(n, es)
    got = z3_session(s)(list(zip(fl, pat)))
    want = graphcap.edges_form_forest(n, es, pat)
    print("satisfiable:", got, " forest:", want)
    return 1 if got != want else 0
