Require Extraction.
Require Import ExtrOcamlBasic.
From Coq Require Import ZArith List.
From Cspuz Require Import Lib.PyErr Array.Slice.
Extraction "model.ml" Z.add Nat.add pyerr_code getitem2 spec_getitem2 getitem1 reshape py_slice.
