(* C09: the hypotheses of acyclic_exact are satisfiable (a triangle with a
   doubled edge, flags of every form), and the n = 0 error point. *)
From Coq Require Import ZArith List Bool Arith Lia.
From Cspuz Require Import Lib.PyErr Core.Expr Core.Program Core.Build
  Graph.GraphModel Graph.Acyclic Graph.AcyclicProgram Graph.AcyclicExact Graph.AcyclicFlags.
Import ListNotations.
Local Open Scope nat_scope.

Lemma post_acyclic_zero_vertices st flags g : nv g = 0 -> post_acyclic st flags g = Err ValueError.
Proof. intros H. unfold post_acyclic. rewrite H. reflexivity. Qed.

Definition ex_graph : graph := {| nv := 3; edges := [(0, 1); (2, 1); (0, 2); (1, 0)] |}.
Definition ex_state : state := fst (bool_vars empty_state 3).
Definition ex_flags : list expr := [BVar 0; b_not (BVar 1); b_and (BVar 0) (BVar 2); PyBool false].
Definition ex_env : env := {| eb := fun i => Nat.eqb i 0; ei := fun _ => 0%Z |}.

Example ex_hypotheses :
  wf_graph ex_graph = true /\ loop_free ex_graph = true /\ 1 <= nv ex_graph /\
  closed_state ex_state /\ model_of no_graph ex_env ex_state /\
  flags_denote no_graph (next_id ex_state) ex_env ex_flags (length (edges ex_graph))
               (pattern_of no_graph ex_env ex_flags).
Proof.
  repeat split; try reflexivity.
  - simpl. lia.
  - intros c [].
  - apply flags_boolean_denote. apply simple_flags_boolean. intros e He.
    simpl in He. unfold ex_flags.
    destruct e as [|[|[|[|e]]]]; try lia; eexists; (split; [reflexivity|]); constructor; cbn; lia.
Qed.

(* pattern = (true, true, false, false): edges 0-1 and 2-1, a path *)
Example ex_pattern : map (pattern_of no_graph ex_env ex_flags) [0; 1; 2; 3] = [true; true; false; false].
Proof. reflexivity. Qed.

(* loop_free is needed: a self-loop is never compared with itself by the
   encoding, so an active self-loop (a cycle) still has a certificate *)
Example loop_free_needed :
  let g := {| nv := 1; edges := [(0, 0)] |} in
  let A := fun _ : nat => true in
  wf_graph g = true /\
  (exists r, ranks_in_range g r = true /\ cert_acyclic g A r = true) /\ ~ forest g A.
Proof.
  simpl. split; [reflexivity|]. split.
  - exists (fun _ => 0%Z). split; reflexivity.
  - intros H. apply (H 0 0 0 eq_refl eq_refl). apply reach_refl. reflexivity.
Qed.
