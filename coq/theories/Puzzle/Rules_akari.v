(* C11 rule specification - Akari (Light Up).
   Published rules (Nikoli, "Akari"):
     1. Place lights in some white cells.
     2. A number in a black cell is the number of lights in the cells
        horizontally and vertically adjacent to it.
     3. A light illuminates its own cell and, in its row and column, every white
        cell up to a black cell or the edge of the grid.
     4. Every white cell must be illuminated, and no light may illuminate another light.

   problem = [[h; w]; grid]   per cell: < -1 white cell, -1 black without number, n >= 0 black with number n
   answer  = h*w cells row-major, 1 = light *)
From Coq Require Import ZArith List Bool Arith.
From Cspuz Require Import Puzzle.PuzzleBase.
Import ListNotations.

Definition rules_akari (pb : problem) (ans : answer) : bool :=
  let h := dim pb 0 in let w := dim pb 1 in
  let grid := sec pb 1 in
  let white := fun '(y, x) => (at2 grid w y x <? -1)%Z in
  let light := fun '(y, x) => isb (at2 ans w y x) in
  let dirs := [((-1)%Z, 0%Z); (1%Z, 0%Z); (0%Z, (-1)%Z); (0%Z, 1%Z)] in
  (* the white cells a light at (y,x) reaches, (y,x) excluded *)
  let seen := fun y x => flat_map (fun '(dy, dx) => take_while white (ray h w y x dy dx)) dirs in
  Nat.eqb (length ans) (h * w) && forallb is01 ans &&
  forallb (fun '(y, x) =>
     if white (y, x) then
       (light (y, x) || existsb light (seen y x)) &&
       (negb (light (y, x)) || negb (existsb light (seen y x)))
     else
       negb (light (y, x)) &&
       let c := at2 grid w y x in
       ((c <? 0)%Z || (zcount light (nbr4 h w y x) =? c)%Z)) (cells h w).

Definition answers_akari (pb : problem) : list answer :=
  all_answers (bool_doms (dim pb 0 * dim pb 1)).
