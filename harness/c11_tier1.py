"""C11 Tier 1 tie (P): the program captured from the real solve_<p> must be, node for node, the program of
the Coq model solve_<p>_model - declarations and answer keys exactly, constraints as a multiset (the
theorems speak about `satisfies` = conjunction of all constraints, which does not depend on their order) (plug-in attribute TIER1 = (CoqModule, function),
generator tier1_problems(tier, rng))."""
import random

import exprio
import vlib

ERR = {1: "IndexError", 2: "KeyError", 3: "AssertionError", 4: "TypeError", 5: "ValueError",
       6: "RecursionError", 7: "NotImplementedError", 8: "Other"}


def _norm(st):
    import graphcap
    head, cons = graphcap.norm_state(st)
    return head + " C " + " ".join(cons)


def _avc_set(c):
    """a native connectivity node with its edge operands as a sorted list: the loop helpers take the edges from
    Graph.line_graph(), which iterates a Python set (the order is not part of the model, Graph/LineGraph.v lists the
    pairs sorted; the node's meaning - connectivity - does not depend on the order of its edge operands)"""
    t = c.split()
    if t[:3] == ["(", "B", "GRAPH_ACTIVE_VERTICES_CONNECTED"] and t[-1] == ")" and len(t) > 5 and t[3][0] == "#" and t[4][0] == "#":
        try:
            m = int(t[4][1:])
        except ValueError:
            return c
        ops = t[5:-1]
        tail = ops[len(ops) - 2 * m:] if m else []
        if m and len(tail) == 2 * m and all(x[0] == "#" for x in tail):
            pairs = sorted((int(tail[2 * i][1:]), int(tail[2 * i + 1][1:])) for i in range(m))
            return " ".join(t[:len(t) - 1 - 2 * m] + ["#%d" % x for pr in pairs for x in pr] + [")"])
    return c


def _norm_native(st):
    import graphcap
    head, cons = graphcap.norm_state(st)
    return head + " C " + " ".join(sorted(_avc_set(c) for c in cons))


class _Rec:
    """stands in for ctx inside a worker process: records the calls, the parent replays them in plug-in order"""
    def __init__(self):
        self.calls = []

    def corr(self, *a, **k):
        self.calls.append(("corr", a, k))

    def count(self, *a, **k):
        self.calls.append(("count", a, k))

    def violation(self, *a, **k):
        self.calls.append(("violation", a, k))


def _tie_plugin(args):
    """one plug-in's tie, run in a worker process with its own model runner"""
    name, tier, seed, runner = args
    import c11lib as L
    import pC11
    p = [q for q in L.plugins() if q.NAME == name][0]
    m = pC11.Runner(runner)
    rec = _Rec()
    try:
        rng = random.Random("%s/%s/t1" % (seed, p.NAME))
        for idx, pb in enumerate(p.tier1_problems(tier, rng)):
            tok = L.pb_tokens(p.encode(pb))
            rep = m.call("M %s %s" % (p.NAME, tok))
            if rep.startswith("OK "):
                mo = ("ok", _norm(rep[3:]))
            elif rep.startswith("E "):
                mo = ("err", ERR[int(rep.split()[1])])
            else:
                mo = ("runner", rep)
            r, insts = L.run_recorded(p, pb, "capture")
            if r[0] == "err":
                io = ("err", r[1])
            elif len(insts) != 1:
                io = ("harness", "%d solvers" % len(insts))
            else:
                io = ("ok", _norm(exprio.show_state(insts[0])))
            rec.corr("program:" + p.NAME, tok, mo, io)
            if r[0] == "ok" and len(insts) == 1:
                glue(rec, m, p, pb, tok, r[1], insts[0])
            if getattr(p, "TIER1_PRIM", None):
                # the same problem on the native-operator route: both configuration flags on (they are read when the
                # graph helper is called), model solve_<p>_model_prim
                from cspuz import config
                rep = m.call("MP %s %s" % (p.NAME, tok))
                if rep.startswith("OK "):
                    mo = ("ok", _norm_native(rep[3:]))
                elif rep.startswith("E "):
                    mo = ("err", ERR[int(rep.split()[1])])
                else:
                    mo = ("runner", rep)
                saved = (config.use_graph_primitive, config.use_graph_division_primitive)
                config.use_graph_primitive = config.use_graph_division_primitive = True
                try:
                    r, insts = L.run_recorded(p, pb, "capture")
                finally:
                    config.use_graph_primitive, config.use_graph_division_primitive = saved
                if r[0] == "err":
                    io = ("err", r[1])
                elif len(insts) != 1:
                    io = ("harness", "%d solvers" % len(insts))
                else:
                    io = ("ok", _norm_native(exprio.show_state(insts[0])))
                rec.corr("program-native:" + p.NAME, tok, mo, io)
    except Exception:  # noqa
        import traceback
        rec.corr("tie-harness:" + name, "exception", "no exception", traceback.format_exc()[-1500:])
    finally:
        try:
            m.p.stdin.close()
            m.p.wait(timeout=5)
        except Exception:  # noqa
            pass
    return name, rec.calls


def correspond(ctx):
    import multiprocessing
    import pC11
    plugs = [p for p in pC11._plugs(ctx) if getattr(p, "TIER1", None)]
    if not plugs:
        return
    runner = vlib.build_runner("C11")
    jobs = [(p.NAME, ctx.tier, ctx.seed, runner) for p in plugs]
    mp = multiprocessing.get_context("fork")
    with mp.Pool(min(16, len(jobs))) as pool:
        done = dict(pool.map(_tie_plugin, jobs, chunksize=1))
    for p in plugs:                      # replayed in plug-in order: the evidence does not depend on scheduling
        for (kind, a, k) in done[p.NAME]:
            getattr(ctx, kind)(*a, **k)


def glue(ctx, m, p, pb, tok, ret, sv):
    """the part of solve_<p> the program model does not contain: after everything is posted the function asks the
    Solver exactly once (solve()), hands back that verdict unchanged, and returns exactly the answer-key variables.
    Skipping solve() is accepted only when False is returned and the posted program has no model (z3 through the
    independent translation, 20 s); if it has one and the extracted rules accept the grid it reads as, the instance is a
    concrete violation of the property (a rule-obeying grid exists, the function reports none)."""
    import c11lib as L
    final = (len(sv.variables), len(sv.constraints), tuple(sv.is_answer_key))
    kids = [i for i, k in enumerate(sv.is_answer_key) if k]
    try:
        aids = sorted(v.id for v in L.flat_vars(L.answer_arrays(p, ret)))
    except Exception as ex:  # noqa
        aids = "unreadable: %s" % type(ex).__name__
    ctx.corr("glue:answer-arrays:" + p.NAME, tok, kids, aids)
    log = sv.solve_log
    if len(log) == 1:
        ctx.count("glue:solve-once")
        ctx.corr("glue:solve-sees-whole-program:" + p.NAME, tok, ("solve",) + final, log[0])
        ctx.corr("glue:verdict-returned:" + p.NAME, tok, True, ret[0] is L.CAPTURE_VERDICT)
        return
    if len(log) > 1:
        ctx.corr("glue:solve-calls:" + p.NAME, tok, 1, len(log))
        return
    # no call at all: only right when the program cannot be satisfied and False is what comes back
    ctx.count("glue:no-solve-call")
    if ret[0] is not False:
        ctx.corr("glue:no-solve-call-returns:" + p.NAME, tok, False, repr(ret[0]))
        return
    z3 = L.z3mod()
    zs, zv = L.z3_problem(sv)
    zs.set("timeout", 20000)
    res = zs.check()
    if res == z3.unsat:
        ctx.count("glue:no-solve-call:program-unsat")
        return
    if res != z3.sat:
        ctx.count("glue:no-solve-call:undecided")
        return
    mdl = zs.model()
    grid = []
    for v in L.flat_vars(L.answer_arrays(p, ret)):
        val = mdl.eval(zv[v.id], model_completion=True)
        grid.append((1 if z3.is_true(val) else 0) if z3.is_bool(val) else val.as_long())
    obeys = m.call("R %s %s | %s" % (p.NAME, tok, " ".join(map(str, grid))))
    ctx.corr("glue:no-solve-call-on-satisfiable-program:" + p.NAME, tok, "solve() called", "returned False without asking the solver")
    if obeys.strip() == "1":
        key = p.classify(pb, "glue") if hasattr(p, "classify") else "%s:%s" % (p.NAME, tok)
        ctx.violation(key if len(key) < 120 else key[:100] + "#glue",
                      "solve_%s reports no solution without asking the solver, but a rule-obeying grid exists" % p.NAME,
                      {"problem": pb, "rule_obeying_grid": grid,
                       "expected": {"has_solution": True}, "observed": {"has_solution": False, "solve_called": False}})
