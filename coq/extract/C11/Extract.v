Require Extraction.
Require Import ExtrOcamlBasic.
From Coq Require Import ZArith List.
Require Import Cspuz.Puzzle.PuzzleBase.
Require Import Cspuz.Puzzle.Rules_aquarium.
Require Import Cspuz.Puzzle.Rules_nurikabe.
Require Import Cspuz.Puzzle.Rules_slitherlink.
Require Import Cspuz.Puzzle.Rules_sudoku.
Extraction "model.ml" Z.add Nat.add rules_aquarium answers_aquarium rules_nurikabe answers_nurikabe rules_slitherlink answers_slitherlink rules_sudoku answers_sudoku.
