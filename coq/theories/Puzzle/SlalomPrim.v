(* C11 Tier 1, native-operator route - cspuz/puzzle/slalom.py::solve_slalom (reference_sol_loop=None) with
   cspuz.config.use_graph_primitive on (the default of the csugar / enigma_csp / cspuz_core backends):
   graph.active_edges_single_cycle(solver, loop) declares only the height * width is_passed flags (not used by
   solve_slalom) and posts, per cell, the degree constraint and ONE native node Op.GRAPH_ACTIVE_VERTICES_CONNECTED over
   the line graph of the frame `loop` (model of property C06, Graph/Cycle.v::active_edges_single_cycle ... None true =
   CyclePrimCompose2.sl_cycle_prim, on the state with both frames declared; the native node means C06's gsem_c06).
   Everything else is the body of Slalom.solve_slalom_model with the definitions of Slalom.v: gate_ord / passed are
   declared from the id the Solver has reached (next_id), now 2 * frame_n + height * width instead of
   2 * frame_n + 3 * height * width.  Same input domain.  Error behaviour: as on the plain route, except for boards
   with height <= 0 AND width <= 0 (one of them 0; both <= -1 stays outside the scope): on the plain route the rank
   array int_array(.., 0, -1) of the helper raises ValueError, on this route nothing raises before passed[origin] /
   gate_id[y2][x2] on the empty grid raises IndexError.

   slalom_exact_prim: the statement of SlalomProofs.slalom_exact for this program (same hypothesis slalom_wf, same
   answer keys - the first frame), from CyclePrimCompose2.sl_compose_prim and the soundness / completeness theorems
   of SlalomProofs.v (stated for any base id); the later constraints contain no native node, so their meaning under
   gsem_c06 is their meaning under no_graph (sl_constraints_gfree). *)
From Coq Require Import ZArith List Bool Arith Lia.
From Cspuz Require Import Lib.PyErr Core.Expr Core.Program Graph.GraphModel Graph.Cycle Graph.CycleLemmas
     Puzzle.PuzzleBase Puzzle.SatAbs Puzzle.ModelBase Puzzle.ModelLemmas Puzzle.CycleFrameBase Puzzle.CycleCompose
     Puzzle.CycleLattice Puzzle.CyclePrimCompose2 Puzzle.Rules_slalom Puzzle.Slalom Puzzle.SlalomWalk Puzzle.SlalomSem
     Puzzle.SlalomLemmas Puzzle.SlalomProofs.
Import ListNotations.
Local Open Scope nat_scope.

Definition solve_slalom_model_prim (pb : problem) : res state :=
  let h := dim pb 0 in let w := dim pb 1 in
  let oy := zn (getz (sec pb 1) 0) in let ox := zn (getz (sec pb 1) 1) in
  let black := sec pb 2 in let gs := sec pb 3 in
  let G := n_gates gs in
  if ((getz (sec pb 0) 0 <=? 0) && (getz (sec pb 0) 1 <=? 0))%Z then Err IndexError
  else if ((getz (sec pb 0) 0 <? 1) || (getz (sec pb 0) 1 <? 1))%Z then Err ValueError
  else if sl_outside pb then Err ValueError
  else
  match sl_cycle_prim (h - 1) (w - 1) with
  | Ok (st1, _) =>
      let base := next_id st1 in
      match int_array st1 (h * w) 0 (Z.of_nat G) with
      | Ok (st2, _) =>
          let '(st3, _) := bool_array st2 (h * w) in
          if existsb (fun k => existsb (fun c => negb (Nat.ltb (fst c) h && Nat.ltb (snd c) w)) (gate_cells gs k))
                     (seq 0 G)
             || negb (Nat.ltb oy h && Nat.ltb ox w)
             || Nat.ltb (length black) (h * w)
          then Err IndexError
          else Ok (ensure st3 (sl_constraints h w G base oy ox black gs))
      | Err e => Err e
      end
  | Err e => Err e
  end.

(* ------------------------------------------------------------------------------------------------------ *)
(* the constraints posted after the call contain no native graph node                                      *)

Lemma gfree_ct_exprs es : forallb gfree es = true -> gfree (ct_exprs es) = true.
Proof.
  destruct es as [|e r]; [reflexivity|]. intros H. unfold ct_exprs. cbn [gfree]. rewrite forallb_map.
  rewrite forallb_forall in H. apply forallb_forall. intros a Ha. cbn [gfree forallb]. rewrite (H a Ha). reflexivity.
Qed.

Lemma sl_ins_gfree fh fw y x ds : forallb gfree (map (sl_in fh fw y x) ds) = true.
Proof. rewrite forallb_map. apply forallb_forall. intros d _. reflexivity. Qed.
Lemma sl_outs_gfree fh fw y x ds : forallb gfree (map (sl_out fh fw y x) ds) = true.
Proof. rewrite forallb_map. apply forallb_forall. intros d _. reflexivity. Qed.

Lemma sl_cell_gfree h w G base oy ox black gs c : forallb gfree (sl_cell h w G base oy ox black gs c) = true.
Proof.
  destruct c as [y x]. unfold sl_cell. cbv zeta. rewrite forallb_app. apply andb_true_iff. split.
  - cbn [forallb gfree]. rewrite (gfree_ct_exprs _ (sl_ins_gfree _ _ _ _ _)), (gfree_ct_exprs _ (sl_outs_gfree _ _ _ _ _)).
    reflexivity.
  - destruct (negb _); [reflexivity|]. destruct (_ && _)%bool; [reflexivity|].
    destruct (sl_gate_id gs (y, x)) as [n|].
    + rewrite forallb_app, forallb_map. apply andb_true_iff. split.
      * apply forallb_forall. intros d _. reflexivity.
      * destruct (1 <=? n)%Z; reflexivity.
    + rewrite forallb_map. apply forallb_forall. intros d _. reflexivity.
Qed.

Lemma sl_aux_gfree h w G base gs : forallb gfree (sl_aux h w G base gs) = true.
Proof.
  unfold sl_aux. rewrite forallb_flat_map. apply forallb_forall. intros c0 _.
  rewrite forallb_flat_map. apply forallb_forall. intros c1 _.
  match goal with |- context [if ?c then _ else _] => destruct c end; reflexivity.
Qed.

Lemma sl_constraints_gfree h w G base oy ox black gs :
  forallb gfree (sl_constraints h w G base oy ox black gs) = true.
Proof.
  unfold sl_constraints. rewrite !forallb_app, forallb_flat_map, sl_aux_gfree, andb_true_r.
  apply andb_true_iff. split; [|apply andb_true_iff; split; [reflexivity|]].
  - rewrite forallb_map. apply forallb_forall. intros k _. unfold sl_gate_count. cbn [gfree forallb].
    rewrite gfree_ct_vars. reflexivity.
  - apply forallb_forall. intros c _. apply sl_cell_gfree.
Qed.

(* ------------------------------------------------------------------------------------------------------ *)

Theorem slalom_exact_prim h w oy ox black gs st ans :
  slalom_wf [[Z.of_nat h; Z.of_nat w]; [oy; ox]; black; gs] = true ->
  solve_slalom_model_prim [[Z.of_nat h; Z.of_nat w]; [oy; ox]; black; gs] = Ok st ->
  ((exists en, model_of gsem_c06 en st /\ reads st en (seq 0 (n_lattice_edges h w)) = ans)
   <-> rules_slalom [[Z.of_nat h; Z.of_nat w]; [oy; ox]; black; gs] ans = true).
Proof.
  intros Hwf. destruct (slalom_wf_spec h w oy ox black gs Hwf) as [WF [Hoy0 Hox0]].
  rewrite rules_slalom_local.
  unfold solve_slalom_model_prim.
  change (sec [[Z.of_nat h; Z.of_nat w]; [oy; ox]; black; gs] 0) with [Z.of_nat h; Z.of_nat w].
  change (sec [[Z.of_nat h; Z.of_nat w]; [oy; ox]; black; gs] 1) with [oy; ox].
  change (sec [[Z.of_nat h; Z.of_nat w]; [oy; ox]; black; gs] 2) with black.
  change (sec [[Z.of_nat h; Z.of_nat w]; [oy; ox]; black; gs] 3) with gs.
  change (getz [Z.of_nat h; Z.of_nat w] 0) with (Z.of_nat h).
  change (getz [Z.of_nat h; Z.of_nat w] 1) with (Z.of_nat w).
  change (getz [oy; ox] 0) with oy. change (getz [oy; ox] 1) with ox.
  destruct (sl_dims h w [[oy; ox]; black; gs]) as [-> ->].
  destruct h as [|fh].
  { destruct w as [|fw]; intros H; [discriminate H|].
    replace (Z.of_nat (S fw) <=? 0)%Z with false in H by (symmetry; apply Z.leb_gt; lia). discriminate H. }
  destruct w as [|fw].
  { intros H. replace (Z.of_nat (S fh) <=? 0)%Z with false in H by (symmetry; apply Z.leb_gt; lia).
    cbn [andb] in H. rewrite orb_true_r in H. discriminate H. }
  replace ((Z.of_nat (S fh) <=? 0) && (Z.of_nat (S fw) <=? 0))%Z with false
    by (symmetry; apply andb_false_iff; left; apply Z.leb_gt; lia).
  replace ((Z.of_nat (S fh) <? 1) || (Z.of_nat (S fw) <? 1))%Z with false
    by (symmetry; apply orb_false_iff; split; apply Z.ltb_ge; lia).
  destruct (sl_outside _); [discriminate|].
  replace (S fh - 1) with fh by lia. replace (S fw - 1) with fw by lia.
  destruct (sl_cycle_prim fh fw) as [[st1 res]|e] eqn:Hcall; [|discriminate].
  set (G := n_gates gs). set (base := next_id st1).
  unfold int_array. replace (Z.of_nat G <? 0)%Z with false by (symmetry; apply Z.ltb_ge; lia).
  rewrite int_vars_spec. unfold bool_array. rewrite bool_vars_spec. cbn [vars keys Program.cons].
  destruct (_ || _); [discriminate|].
  intros Hst. inversion Hst; subst st. clear Hst.
  set (o := (zn oy, zn ox)) in *.
  replace (n_lattice_edges (S fh) (S fw)) with (frame_n fh fw)
    by (unfold n_lattice_edges, frame_n; replace (S fw - 1) with fw by lia; replace (S fh - 1) with fh by lia; reflexivity).
  pose proof (sl_constraints_gfree (S fh) (S fw) G base (zn oy) (zn ox) black gs) as Hgf.
  apply (sl_compose_prim fh fw (repeat (DInt 0 (Z.of_nat G)) (S fh * S fw) ++ repeat DBool (S fh * S fw))
             (sl_constraints (S fh) (S fw) G base (zn oy) (zn ox) black gs)
             (slalom_local (S fh) (S fw) (zn oy) (zn ox) black gs) st1 res _ ans Hcall).
  - cbn [ensure vars]. rewrite <- app_assoc. reflexivity.
  - cbn [ensure Program.cons]. reflexivity.
  - (* soundness *)
    intros en Hloop Hb Hx. rewrite (forallb_holds_gfree gsem_c06 en _ Hgf) in Hx.
    set (a := map (fun i => b2z (eb en i)) (seq 0 (frame_n fh fw))) in *.
    rewrite holds_sl_constraints in Hx.
    apply andb_prop in Hx. destruct Hx as [Hx _]. apply andb_prop in Hx. destruct Hx as [Hx Hcells].
    apply andb_prop in Hx. destruct Hx as [Hcnt Hpo].
    rewrite in_bounds_from_app, in_bounds_from_bools, andb_true_r in Hb.
    unfold slalom_local.
    apply (slalom_sound fh fw G base o black gs en (fun k => isb (getz a k))).
    + intros k Hk. unfold a. rewrite getz_map_seq by exact Hk. rewrite b2z_isb. reflexivity.
    + exact Hloop.
    + reflexivity.
    + exact WF.
    + intros k Hk. rewrite forallb_forall in Hcnt. specialize (Hcnt k ltac:(apply in_seq; lia)).
      apply Z.eqb_eq in Hcnt. lia.
    + exact Hpo.
    + intros c Hc. rewrite forallb_forall in Hcells. apply Hcells. destruct c as [y x]. destruct Hc as [Hy Hx'].
      apply cells_in. cbn [fst snd] in *. lia.
    + intros c Hc. unfold sl_ov.
      apply (proj1 (in_bounds_from_ints en base (S fh * S fw) 0 (Z.of_nat G)) Hb (cidx (S fw) c)).
      destruct c as [y x]. destruct Hc as [Hy Hx']. apply cidx_lt; assumption.
  - (* completeness *)
    intros a Hlen H01 Hloop Hloc. unfold slalom_local in Hloc.
    destruct (slalom_local_on_inv fh fw (zn oy) (zn ox) black gs _ Hloc) as [Hvo [Hblack [Hgates [d0 [Hd0 [Hs0 Hord]]]]]].
    exists (cmp_dirv fh fw o (fun k => isb (getz a k)) d0), (cmp_later fh fw base o gs (fun k => isb (getz a k)) d0).
    intros en Hlow Hdir Hlat. rewrite (forallb_holds_gfree gsem_c06 en _ Hgf).
    apply (slalom_complete fh fw G base o black gs (fun k => isb (getz a k)) d0); try assumption; reflexivity.
Qed.

(* the premises are satisfiable: SlalomProofs.slalom_wf_ring is in the format, and the model is defined on it *)
Example slalom_model_prim_ok :
  exists st, solve_slalom_model_prim [[3; 3]; [0; 0]; [0; 0; 0; 0; 1; 0; 0; 0; 0];
             [0; 1; 1; 1; 1;  1; 2; 0; 1; 2;  2; 1; 1; 1; 3;  1; 0; 0; 1; 4]]%Z = Ok st.
Proof. vm_compute. eexists. reflexivity. Qed.
