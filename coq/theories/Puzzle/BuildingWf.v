(* C11: the program of solve_building is well formed for every n; composition with C02 (solve_reports). *)
From Coq Require Import ZArith List Bool Arith Lia.
From Cspuz Require Import Lib.PyErr Core.Expr Core.Program Backend.Z3 Backend.Z3Oracle Backend.Z3SolveProofs
     Backend.SolveLoop Backend.SolveZ3Proofs
     Puzzle.PuzzleBase Puzzle.ModelBase Puzzle.ModelLemmas Puzzle.SatAbs Puzzle.SolveCompose Puzzle.WfLemmas
     Puzzle.Rules_building Puzzle.Building Puzzle.BuildingProofs.
Import ListNotations.
Local Open Scope nat_scope.

Definition below (k : nat) (ids : list nat) : Prop := forall i, In i ids -> i < k.

Lemma below_row n y : y < n -> below (n * n) (row_ids n y).
Proof. intros Hy i Hi. unfold row_ids in Hi. apply in_map_iff in Hi. destruct Hi as [x [<- Hx]]. apply in_seq in Hx. nia. Qed.
Lemma below_col n x : x < n -> below (n * n) (col_ids n x).
Proof. intros Hx i Hi. unfold col_ids in Hi. apply in_map_iff in Hi. destruct Hi as [y [<- Hy]]. apply in_seq in Hy. nia. Qed.
Lemma below_rev k l : below k l -> below k (rev l).
Proof. intros H i Hi. apply H. apply in_rev. exact Hi. Qed.
Lemma below_app k a b : below k a -> below k b -> below k (a ++ b).
Proof. intros Ha Hb i Hi. apply in_app_or in Hi. destruct Hi; auto. Qed.

Section B.
  Variable n : nat.
  Let vs := repeat (DInt 1 (Z.of_nat n)) (n * n).

  Lemma ok_bvar_n k : k < n * n -> ok vs false (bvar n k) = true.
  Proof. intros H. unfold bvar. apply ok_ivar_repeat. exact H. Qed.

  Lemma vis_go_ok : forall rest prefix acc, below (n * n) prefix -> below (n * n) rest ->
    ok vs false acc = true -> ok vs false (vis_go n prefix acc rest) = true.
  Proof.
    induction rest as [|v r IH]; intros prefix acc Hp Hr Ha; simpl; [exact Ha|].
    assert (Hv : v < n * n) by (apply Hr; left; reflexivity).
    apply IH.
    - apply below_app; [exact Hp|]. intros i [<-|[]]. exact Hv.
    - intros i Hi. apply Hr. right. exact Hi.
    - autorewrite with okdb. rewrite Ha. simpl. rewrite forallb_map. apply forallb_In. intros u Hu.
      autorewrite with okdb. rewrite !ok_bvar_n; auto.
  Qed.

  Lemma vis_clue_ok ids c : below (n * n) ids -> forallb (ok vs true) (vis_clue n ids c) = true.
  Proof.
    intros H. unfold vis_clue. destruct (1 <=? c)%Z; [|reflexivity].
    cbn [forallb]. rewrite andb_true_r. unfold vis_constraint.
    destruct ids as [|v0 [|v1 r]]; try reflexivity.
    autorewrite with okdb. apply vis_go_ok.
    - intros i [<-|[]]. apply H. left. reflexivity.
    - intros i Hi. apply H. right. exact Hi.
    - reflexivity.
  Qed.

  Lemma alldiff_ok ids : below (n * n) ids -> ok vs true (BNode ALLDIFF (map (bvar n) ids)) = true.
  Proof. intros H. rewrite ok_alldiff, forallb_map. apply forallb_In. intros i Hi. apply ok_bvar_n. auto. Qed.

  Lemma building_constraints_ok up dw lf rg : forallb (ok vs true) (building_constraints n up dw lf rg) = true.
  Proof.
    unfold building_constraints. rewrite !forallb_app, !forallb_flat_map.
    apply andb_true_intro; split.
    - apply forallb_seq. intros i Hi. cbn [forallb].
      rewrite (alldiff_ok _ (below_row n i ltac:(lia))), (alldiff_ok _ (below_col n i ltac:(lia))). reflexivity.
    - apply forallb_seq. intros i Hi. rewrite !forallb_app.
      rewrite !vis_clue_ok; [reflexivity| | | |]; try apply below_rev; try apply below_row; try apply below_col; lia.
  Qed.
End B.

Lemma building_model_wf pb st : solve_building_model pb = Ok st -> wf_state st /\ wf_keys st.
Proof.
  unfold solve_building_model. destruct (Nat.eqb _ 0); [discriminate|].
  destruct (_ || _ || _ || _); [discriminate|].
  intros H. inversion H; subst st; clear H. split.
  - apply building_constraints_ok.
  - unfold wf_keys; simpl. rewrite !repeat_length. reflexivity.
Qed.

Theorem building_solve_reports : forall oracle, oracle_sound_on oracle -> oracle_complete_on oracle ->
  forall n up dw lf rg st,
  solve_building_model [[Z.of_nat n]; up; dw; lf; rg] = Ok st ->
  solve_reports oracle st (seq 0 (n * n)) (rules_building [[Z.of_nat n]; up; dw; lf; rg]).
Proof.
  intros oracle Os Oc n up dw lf rg st Hst.
  apply (solve_reports_intro oracle no_graph); try assumption.
  - exact (building_model_wf _ _ Hst).
  - unfold solve_building_model in Hst. rewrite dim1_0 in Hst. destruct (Nat.eqb _ 0); [discriminate|].
    destruct (_ || _ || _ || _); [discriminate|].
    inversion Hst; subst st. simpl. apply repeat_keys.
  - intros ans. exact (building_exact n up dw lf rg st ans Hst).
Qed.
