(* Call history of one SugarLikeBackend object (cspuz/backend/sugar_like.py):
   __init__, then any number of add_constraint calls (each with a list or with a
   single tree), then solve() / solve_irrefutably(keys) -- possibly followed by
   more add_constraint calls and another solve, as the refinement loop of
   Solver.solve does on the plain `sugar` backend.  Definitions only. *)
From Coq Require Import ZArith List Bool String Ascii.
From Cspuz Require Import Lib.PyErr Core.Expr Core.Program Backend.SugarText Gen.SugarOps Backend.Sugar.
Import ListNotations.
Open Scope string_scope.

(* the fields of the object: variables (converted_variables is a function of it)
   and converted_constraints *)
Record bobj := { o_vars : list bvar; o_lines : list string }.

(* SugarLikeBackend.__init__ *)
Definition new_backend (vs : list bvar) : bobj := {| o_vars := vs; o_lines := [] |}.

(* the two argument forms of add_constraint *)
Inductive post := PList (cs : list expr) | POne (c : expr).

(* add_constraint: the converted lines are appended to what is already there *)
Definition add_constraint (b : bobj) (p : post) : res bobj :=
  match p with
  | PList cs => bind (constraint_lines cs)
                     (fun l => Ok {| o_vars := o_vars b; o_lines := o_lines b ++ l |})
  | POne c => bind (print_expr c)
                   (fun s => Ok {| o_vars := o_vars b; o_lines := o_lines b ++ [s] |})
  end.

Fixpoint add_all (b : bobj) (ps : list post) : res bobj :=
  match ps with
  | [] => Ok b
  | p :: r => bind (add_constraint b p) (fun b' => add_all b' r)
  end.

(* the text solve() / solve_irrefutably(keys) hand to _call_solver in this state *)
Definition describe (b : bobj) (mode : option (list bool)) : res string :=
  match mode with
  | None => Ok (join s_nl (var_lines (o_vars b) ++ o_lines b))
  | Some ks => bind (key_names (o_vars b) ks)
                    (fun names => Ok (join s_nl (var_lines (o_vars b) ++ o_lines b ++ [key_line names])))
  end.

Definition describe_k (k : backend_kind) (b : bobj) (mode : option (list bool)) : res string :=
  match mode with
  | Some _ => if native_deduction k then describe b mode else Err NotImplementedErr
  | None => describe b mode
  end.

(* everything posted so far, in posting order *)
Definition posted (ps : list post) : list expr :=
  flat_map (fun p => match p with PList cs => cs | POne c => [c] end) ps.

(* the description after a history of add_constraint calls *)
Definition history_description (k : backend_kind) (vs : list bvar) (ps : list post)
           (mode : option (list bool)) : res string :=
  bind (add_all (new_backend vs) ps) (fun b => describe_k k b mode).

(* the refinement loop of Solver.solve on a backend without native deduction:
   the initial list, then one clause per round; the description of round n *)
Definition loop_description (vs : list bvar) (cs : list expr) (clauses : list expr) : res string :=
  history_description K_sugar vs (PList cs :: map POne clauses) None.
