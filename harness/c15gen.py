"""Shared helpers for the serializer-combinator checks (C15; reusable by C16/C17).

Terms are Python tuples mirroring Codec/Comb.v's `comb`:
  ("F", s) FixStr | ("D", before, after) Dict | ("S", space, smallest) Spaces | ("I",) DecInt | ("H",) HexInt
  ("P", space, max_int, max_num_spaces) IntSpaces | ("M", base, digits) MultiDigit | ("O", [t..]) OneOf | ("T", [t..]) Tupl
  ("Q", t, n) Seq | ("G", t, None|(h, w)) Grid | ("R", skip, allow) Rooms | ("V", t, skip, allow) ValuedRooms

Values (`pv`): int, str, None, list, tuple.  Line-protocol tokens (space separated):
  pv   :=  i<int> | x<hex of latin-1 bytes> | n | [ pv* ] | ( pv* )
  term :=  F x.. | D <n> pv*n x..*n | S pv x.. | I | H | P pv <mi> <ms> | M <b> <d> | O <n> term*n | T <n> term*n
           | Q term <n> | G term - | G term <h> <w> | R <0|1> <0|1> | V term <0|1> <0|1>
"""
import itertools


# ---------------------------------------------------------------- tokens

def hx(s):
    return "x" + s.encode("latin-1").hex()


def unhx(t):
    assert t[0] == "x"
    return bytes.fromhex(t[1:]).decode("latin-1")


def pv_tok(v):
    if v is None:
        return "n"
    if isinstance(v, bool):
        raise TypeError("bool is outside the value universe")
    if isinstance(v, int):
        return "i%d" % v
    if isinstance(v, str):
        return hx(v)
    if isinstance(v, list):
        return "[ " + "".join(pv_tok(x) + " " for x in v) + "]"
    if isinstance(v, tuple):
        return "( " + "".join(pv_tok(x) + " " for x in v) + ")"
    raise TypeError("not a pv: %r" % (v,))


def parse_pv(toks, i=0):
    t = toks[i]
    if t == "n":
        return None, i + 1
    if t[0] == "i":
        return int(t[1:]), i + 1
    if t[0] == "x":
        return unhx(t), i + 1
    if t in ("[", "("):
        close = "]" if t == "[" else ")"
        out = []
        i += 1
        while toks[i] != close:
            v, i = parse_pv(toks, i)
            out.append(v)
        return (out if t == "[" else tuple(out)), i + 1
    raise ValueError("bad pv token " + t)


def term_tok(t):
    k = t[0]
    if k == "F":
        return "F " + hx(t[1])
    if k == "D":
        return "D %d %s %s" % (len(t[1]), " ".join(pv_tok(b) for b in t[1]), " ".join(hx(a) for a in t[2]))
    if k == "S":
        return "S %s %s" % (pv_tok(t[1]), hx(t[2]))
    if k in ("I", "H"):
        return k
    if k == "P":
        return "P %s %d %d" % (pv_tok(t[1]), t[2], t[3])
    if k == "M":
        return "M %d %d" % (t[1], t[2])
    if k in ("O", "T"):
        return "%s %d %s" % (k, len(t[1]), " ".join(term_tok(x) for x in t[1]))
    if k == "Q":
        return "Q %s %d" % (term_tok(t[1]), t[2])
    if k == "G":
        return "G %s %s" % (term_tok(t[1]), "-" if t[2] is None else "%d %d" % t[2])
    if k == "R":
        return "R %d %d" % (int(t[1]), int(t[2]))
    if k == "V":
        return "V %s %d %d" % (term_tok(t[1]), int(t[2]), int(t[3]))
    raise ValueError(k)


def build(t):
    """the real cspuz combinator object of a term"""
    import cspuz.problem_serializer as ps
    k = t[0]
    if k == "F":
        return ps.FixStr(t[1])
    if k == "D":
        return ps.Dict(list(t[1]), list(t[2]))
    if k == "S":
        return ps.Spaces(t[1], t[2])
    if k == "I":
        return ps.DecInt()
    if k == "H":
        return ps.HexInt()
    if k == "P":
        return ps.IntSpaces(t[1], t[2], t[3])
    if k == "M":
        return ps.MultiDigit(t[1], t[2])
    if k == "O":
        return ps.OneOf(*[build(x) for x in t[1]])
    if k == "T":
        return ps.Tupl(*[build(x) for x in t[1]])
    if k == "Q":
        return ps.Seq(build(t[1]), t[2])
    if k == "G":
        return ps.Grid(build(t[1])) if t[2] is None else ps.Grid(build(t[1]), height=t[2][0], width=t[2][1])
    if k == "R":
        return ps.Rooms(skip_on_error=t[1], allow_redundant_border=t[2])
    if k == "V":
        return ps.ValuedRooms(build(t[1]), skip_on_error=t[2], allow_redundant_border=t[3])
    raise ValueError(k)


def term_repr(t):
    k = t[0]
    if k == "F":
        return "FixStr(%r)" % t[1]
    if k == "D":
        return "Dict(%r,%r)" % (list(t[1]), list(t[2]))
    if k == "S":
        return "Spaces(%r,%r)" % (t[1], t[2])
    if k == "I":
        return "DecInt()"
    if k == "H":
        return "HexInt()"
    if k == "P":
        return "IntSpaces(%r,%d,%d)" % (t[1], t[2], t[3])
    if k == "M":
        return "MultiDigit(%d,%d)" % (t[1], t[2])
    if k in ("O", "T"):
        return "%s(%s)" % ("OneOf" if k == "O" else "Tupl", ",".join(term_repr(x) for x in t[1]))
    if k == "Q":
        return "Seq(%s,%d)" % (term_repr(t[1]), t[2])
    if k == "G":
        return "Grid(%s%s)" % (term_repr(t[1]), "" if t[2] is None else ",%d,%d" % t[2])
    if k == "R":
        return "Rooms(%d,%d)" % (int(t[1]), int(t[2]))
    if k == "V":
        return "ValuedRooms(%s,%d,%d)" % (term_repr(t[1]), int(t[2]), int(t[3]))


def has_rooms(t):
    k = t[0]
    if k in ("R", "V"):
        return True
    if k in ("O", "T"):
        return any(has_rooms(x) for x in t[1])
    if k in ("Q", "G"):
        return has_rooms(t[1])
    return False


# ---------------------------------------------------------------- python twin of first / cont / nullable / wf
# (generator guidance and a cross-check of the Coq definitions; the Coq `wf` is the official one)

ALNUM = "0123456789abcdefghijklmnopqrstuvwxyz"
ALL_CHARS = [chr(i) for i in range(256)]


def b36(ch):
    if "0" <= ch <= "9":
        return ord(ch) - 48
    if "a" <= ch <= "z":
        return ord(ch) - 87
    if "A" <= ch <= "Z":
        return ord(ch) - 55
    return None


def first(t, ch):
    k = t[0]
    if k == "F":
        return t[1][:1] == ch
    if k == "D":
        return any(a[:1] == ch for a in t[2])
    if k == "S":
        o = b36(t[2])
        return ch in ALNUM and o is not None and b36(ch) > o - 1
    if k == "I":
        return ch in "0123456789\xb2\xb3\xb9"
    if k == "H":
        return ch in "0123456789abcdef-+"
    if k == "P":
        return ch in ALNUM and 0 <= b36(ch) < (t[2] + 1) * (t[3] + 1)
    if k == "M":
        return ch in ALNUM and 0 <= b36(ch) < t[1] ** t[2]
    if k == "O":
        return any(first(x, ch) for x in t[1])
    if k == "T":
        for x in t[1]:
            if first(x, ch):
                return True
            if not nullable(x):
                return False
        return False
    if k in ("Q", "G"):
        return first(t[1], ch)
    if k == "R":
        return ch in ALNUM and b36(ch) < 32
    if k == "V":
        return (ch in ALNUM and b36(ch) < 32) or first(t[1], ch)


def nullable(t):
    k = t[0]
    if k == "F":
        return t[1] == ""
    if k == "D":
        return any(a == "" for a in t[2])
    if k in ("S", "I", "H", "P"):
        return False
    if k == "M":
        return False
    if k == "O":
        return any(nullable(x) for x in t[1])
    if k == "T":
        return all(nullable(x) for x in t[1])
    if k == "Q":
        return t[2] <= 0 or nullable(t[1])
    if k == "G":
        return nullable(t[1]) if t[2] is None else (t[2][0] * t[2][1] <= 0 or nullable(t[1]))
    return True


def strict(t):
    k = t[0]
    if k == "F":
        return t[1] != ""
    if k == "D":
        return all(a != "" for a in t[2])
    if k in ("S", "I", "H", "P", "M"):
        return True
    if k == "O":
        return all(strict(x) for x in t[1])
    if k == "T":
        return bool(t[1]) and strict(t[1][0])
    if k == "Q":
        return t[2] > 0 and strict(t[1])
    if k == "G":
        return strict(t[1]) if t[2] is None else (t[2][0] * t[2][1] > 0 and strict(t[1]))
    return False


def cont(t, ch):
    k = t[0]
    if k == "I":
        return ch in "0123456789\xb2\xb3\xb9"
    if k in ("O", "T"):
        return any(cont(x, ch) for x in t[1])
    if k in ("Q", "G", "V"):
        return cont(t[1], ch)
    return False


def disjoint(f, g):
    return not any(f(ch) and g(ch) for ch in ALL_CHARS)


def wf(t):
    k = t[0]
    if k == "F":
        return True
    if k == "D":
        heads = [a[:1] for a in t[2]]
        return len(t[1]) == len(t[2]) and all(heads) and len(set(heads)) == len(heads)
    if k == "S":
        return b36(t[2]) is not None
    if k in ("I", "H"):
        return True
    if k == "P":
        return t[2] >= 0 and t[3] >= 0 and (t[2] + 1) * (t[3] + 1) <= 36
    if k == "M":
        return t[1] >= 1 and t[1] ** t[2] <= 36
    if k == "O":
        l = t[1]
        return (all(wf(x) and strict(x) and not nullable(x) for x in l)
                and all(disjoint(lambda c, a=l[i]: first(a, c), lambda c, b=l[j]: first(b, c))
                        for i in range(len(l)) for j in range(i + 1, len(l))))
    if k == "T":
        l = t[1]
        return (all(wf(x) for x in l)
                and all(disjoint(lambda c, a=l[i]: cont(a, c), lambda c, b=l[j]: first(b, c))
                        for i in range(len(l)) for j in range(i + 1, len(l))))
    if k == "Q":
        return wf(t[1]) and disjoint(lambda c: cont(t[1], c), lambda c: first(t[1], c))
    if k == "G":
        return wf(t[1]) and disjoint(lambda c: cont(t[1], c), lambda c: first(t[1], c))
    if k == "R":
        return True
    if k == "V":
        return wf(t[1]) and disjoint(lambda c: cont(t[1], c), lambda c: first(t[1], c))


def follow_ok(t, rest):
    return rest == "" or not cont(t, rest[0])


# ---------------------------------------------------------------- rooms

def canon_rooms(rooms):
    return sorted([sorted(r) for r in rooms], key=lambda r: r[0])


def canon_valued(rooms, values):
    pairs = sorted(((sorted(r), v) for r, v in zip(rooms, values)), key=lambda p: p[0][0])
    return [p[0] for p in pairs], [p[1] for p in pairs]


def edges(h, w):
    es = []
    for y in range(h):
        for x in range(w):
            if x + 1 < w:
                es.append(((y, x), (y, x + 1)))
            if y + 1 < h:
                es.append(((y, x), (y + 1, x)))
    return es


def components(h, w, merged):
    par = {(y, x): (y, x) for y in range(h) for x in range(w)}

    def find(a):
        while par[a] != a:
            par[a] = par[par[a]]
            a = par[a]
        return a
    for a, b in merged:
        ra, rb = find(a), find(b)
        if ra != rb:
            par[max(ra, rb)] = min(ra, rb)
    comp = {}
    for y in range(h):
        for x in range(w):
            comp.setdefault(find((y, x)), []).append((y, x))
    return [comp[k] for k in sorted(comp)]


def all_partitions(h, w):
    """every partition of the h x w board into orthogonally connected rooms (canonical form)"""
    es = edges(h, w)
    seen, out = set(), []
    for mask in range(1 << len(es)):
        rooms = components(h, w, [e for i, e in enumerate(es) if mask >> i & 1])
        key = tuple(tuple(r) for r in rooms)
        if key not in seen:
            seen.add(key)
            out.append(rooms)
    return out


def random_partition(rng, h, w):
    p = rng.choice([0.0, 0.2, 0.5, 0.8, 1.0])
    return components(h, w, [e for e in edges(h, w) if rng.random() < p])


def shuffled_rooms(rng, rooms):
    rs = [list(r) for r in rooms]
    for r in rs:
        rng.shuffle(r)
    rng.shuffle(rs)
    return rs


def all_orders(rooms, cap=None):
    """all orders of rooms and of cells within rooms"""
    n = 0
    for rp in itertools.permutations(rooms):
        for cells in itertools.product(*[itertools.permutations(r) for r in rp]):
            yield [list(c) for c in cells]
            n += 1
            if cap and n >= cap:
                return


# ---------------------------------------------------------------- generators

HEX_BOUNDARY = [0, 1, 9, 10, 15, 16, 17, 100, 254, 255, 256, 257, 1000, 4094, 4095]
DEC_BOUNDARY = [0, 1, 9, 10, 11, 99, 100, 255, 256, 4095, 4096, 65535, 10 ** 9, 10 ** 18 + 7]
PUNCT = ".*_~!$"
MD_PARAMS = [(2, 1), (2, 2), (2, 3), (2, 4), (2, 5), (3, 1), (3, 2), (3, 3), (4, 2), (5, 2), (6, 2), (1, 3), (36, 1), (10, 1)]


def gen_leaf(rng):
    r = rng.random()
    if r < 0.10:
        return ("F", "".join(rng.choice(PUNCT + "/abz09") for _ in range(rng.choice([1, 1, 2, 3]))))
    if r < 0.25:
        n = rng.randint(1, 3)
        heads = rng.sample(PUNCT + "xyz", n)
        after = [h + ("" if rng.random() < 0.7 else rng.choice("ab./")) for h in heads]
        pool = [-2, -1, 0, 1, 7, "?", "..", None, (0, 1), 4096]
        return ("D", rng.sample(pool, n), after)
    if r < 0.45:
        return ("S", rng.choice([-1, 0, "..", None, 5]), rng.choice("0159agkyzG"))
    if r < 0.52:
        return ("I",)
    if r < 0.70:
        return ("H",)
    if r < 0.82:
        mi, ms = rng.choice([(4, 2), (0, 0), (0, 35), (35, 0), (5, 5), (1, 17), (8, 3), (2, 10), (3, 8)])
        return ("P", rng.choice([-1, -1, 0, None, "."]), mi, ms)
    b, d = rng.choice(MD_PARAMS)
    return ("M", b, d)


def gen_term(rng, depth):
    if depth <= 0 or rng.random() < 0.25:
        return gen_leaf(rng)
    r = rng.random()
    if r < 0.28:
        return ("O", [gen_term(rng, depth - 1 if rng.random() < 0.3 else 0) for _ in range(rng.choice([2, 2, 3]))])
    if r < 0.46:
        return ("T", [gen_term(rng, depth - 1) for _ in range(rng.choice([0, 1, 2, 2, 3]))])
    if r < 0.62:
        return ("Q", gen_term(rng, depth - 1), rng.choice([0, 1, 2, 3, 5, 7]))
    if r < 0.84:
        hw = None if rng.random() < 0.6 else (rng.choice([1, 2, 3]), rng.choice([1, 2, 3, 4]))
        return ("G", gen_term(rng, depth - 1), hw)
    if r < 0.92:
        return ("R", rng.random() < 0.5, rng.random() < 0.3)
    return ("V", gen_term(rng, min(depth - 1, 1)), rng.random() < 0.5, rng.random() < 0.3)


CURATED = [
    ("G", ("O", [("D", [-1], ["."]), ("S", 0, "g"), ("H",)]), None),          # nurikabe
    ("G", ("O", [("D", [0], ["."]), ("S", -1, "g"), ("H",)]), None),          # nurimisaki
    ("G", ("O", [("S", -1, "g"), ("P", -1, 4, 2)]), None),                    # slitherlink
    ("G", ("O", [("S", 0, "g"), ("H",)]), None),                              # sudoku
    ("G", ("M", 3, 3), None),                                                 # masyu
    ("R", False, False),                                                      # lits / norinori
    ("V", ("O", [("H",), ("S", -1, "g")]), True, False),                      # heyawake
    ("T", [("I",), ("F", "/"), ("I",), ("F", "/"), ("G", ("M", 2, 5), None)]),
    ("Q", ("T", [("H",), ("S", -1, "g")]), 3),
    ("T", [("R", True, False), ("G", ("O", [("S", None, "a"), ("D", [1, 2], ["-", "+"])]), None)]),
    ("Q", ("G", ("H",), (1, 2)), 1),
    ("Q", ("G", ("H",), (2, 2)), 3),
    ("T", [("Q", ("M", 2, 5), 7), ("I",)]),
    ("G", ("O", [("S", "..", "a"), ("D", ["?"], ["."])]), (2, 3)),
    ("T", []),
    ("Q", ("T", []), 2),
    ("V", ("I",), False, False),
]


class NoValue(Exception):
    pass


def gen_chunk(rng, t, h, w, depth=0):
    """items that one serialize call of t consumes (exactly)"""
    k = t[0]
    if k == "F":
        return []
    if k == "D":
        return [rng.choice(t[1])]
    if k == "S":
        o = b36(t[2])
        if o is None:
            raise NoValue
        mx = 35 - (o - 1)
        return [t[1]] * min(mx, rng.choice([1, 1, 2, 3, max(1, mx - 1), mx]))
    if k == "I":
        return [rng.choice(DEC_BOUNDARY) if rng.random() < 0.7 else rng.randint(0, 10 ** 6)]
    if k == "H":
        return [rng.choice(HEX_BOUNDARY) if rng.random() < 0.7 else rng.randint(0, 4095)]
    if k == "P":
        if t[2] < 0:
            raise NoValue
        return [rng.choice([0, t[2], rng.randint(0, t[2])])] + [t[1]] * min(max(0, t[3]), rng.choice([0, 0, 1, max(0, t[3]), rng.randint(0, max(0, t[3]))]))
    if k == "M":
        if t[1] < 1:
            raise NoValue
        return [rng.choice([0, t[1] - 1, rng.randint(0, t[1] - 1)]) for _ in range(t[2])]
    if k == "O":
        if not t[1]:
            raise NoValue
        return gen_chunk(rng, rng.choice(t[1]), h, w, depth)
    if k == "T":
        return [tuple(gen_chunk(rng, x, h, w, depth + 1) for x in t[1])]
    if k == "Q":
        return [gen_stream(rng, t[1], t[2], h, w, depth + 1)]
    if k == "G":
        gh, gw = (h, w) if t[2] is None else t[2]
        flat = gen_stream(rng, t[1], gh * gw, h, w, depth + 1)
        return [[flat[y * gw:(y + 1) * gw] for y in range(gh)]]
    if k == "R":
        return [shuffled_rooms(rng, random_partition(rng, h, w))]
    if k == "V":
        rooms = shuffled_rooms(rng, random_partition(rng, h, w))
        return [(rooms, gen_stream(rng, t[1], len(rooms), h, w, depth + 1))]
    raise ValueError(k)


def gen_stream(rng, t, n, h, w, depth=0):
    """n items that repeated serialize calls of t consume"""
    out = []
    guard = 0
    while len(out) < n:
        c = gen_chunk(rng, t, h, w, depth)
        if not c:
            raise NoValue
        # repeat a chunk sometimes: runs longer than one character can hold
        reps = 1 if rng.random() < 0.8 else rng.choice([2, 3])
        for _ in range(reps):
            out += c
        guard += 1
        if guard > 10000:
            raise NoValue
    return out[:n]


def canon_items(t, items):
    """the canonical form the decoder returns for `items` consumed by t (identity except under Rooms/ValuedRooms)"""
    if not has_rooms(t):
        return items
    k = t[0]
    if k == "R":
        return [canon_rooms(r) for r in items]
    if k == "V":
        return [tuple(canon_valued(r, canon_items_stream(t[1], v))) for (r, v) in items]
    if k == "T":
        return [tuple(canon_items(x, list(d)) for x, d in zip(t[1], it)) for it in items]
    if k == "Q":
        return [canon_items_stream(t[1], it) for it in items]
    if k == "G":
        return [[canon_items_stream(t[1], row) for row in g] for g in items]
    return items


def canon_items_stream(t, items):
    if not has_rooms(t):
        return items
    if t[0] in ("R", "V", "T", "Q", "G"):
        return canon_items(t, items)
    return items


def mutate_value(rng, v, depth=0):
    """ill-shaped variants of a value (for the serialize side of the tie)"""
    r = rng.random()
    junk = [None, "ab", -1, 5000, (), [], (0, 1), [0], "", 36]
    if isinstance(v, (list, tuple)) and v and r < 0.6:
        i = rng.randrange(len(v))
        l = list(v)
        l[i] = mutate_value(rng, l[i], depth + 1)
        return type(v)(l)
    if isinstance(v, list) and r < 0.8:
        c = rng.random()
        if c < 0.3:
            return v + [rng.choice(junk)]
        if c < 0.6 and v:
            return v[:-1]
        if c < 0.8:
            return tuple(v)
        return rng.choice(junk)
    if isinstance(v, tuple) and r < 0.8:
        c = rng.random()
        if c < 0.3:
            return v + (rng.choice(junk),)
        if c < 0.6 and v:
            return v[:-1]
        if c < 0.8:
            return list(v)
        return rng.choice(junk)
    if isinstance(v, int) and r < 0.7:
        return rng.choice([v + 1, v - 1, -v - 1, v + 4096, v * 36 + 35])
    return rng.choice(junk)
