(* C11: the program of solve_doppelblock is well formed for every n; composition with C02 (solve_reports). *)
From Coq Require Import ZArith List Bool Arith Lia.
From Cspuz Require Import Lib.PyErr Core.Expr Core.Program Backend.Z3 Backend.Z3Oracle Backend.Z3SolveProofs
     Backend.SolveLoop Backend.SolveZ3Proofs
     Puzzle.PuzzleBase Puzzle.ModelBase Puzzle.ModelLemmas Puzzle.SatAbs Puzzle.SolveCompose Puzzle.WfLemmas
     Puzzle.Building Puzzle.BuildingWf Puzzle.Rules_doppelblock Puzzle.Doppelblock Puzzle.DoppelblockProofs.
Import ListNotations.
Local Open Scope nat_scope.

Section D.
  Variable n : nat.
  Let vs := repeat (DInt 0 (Z.of_nat n - 2)) (n * n).

  Lemma ok_dvar k : k < n * n -> ok vs false (dvar n k) = true.
  Proof. intros H. unfold dvar. apply ok_ivar_repeat. exact H. Qed.
  Lemma ok_cell_is v k : k < n * n -> ok vs true (cell_is n v k) = true.
  Proof. intros H. unfold cell_is. autorewrite with okdb. apply ok_dvar. exact H. Qed.

  Lemma ok_ct_is ids v : below (n * n) ids -> ok vs false (ct_is n ids v) = true.
  Proof.
    intros H. unfold ct_is. destruct ids as [|i r] eqn:E; [reflexivity|]. rewrite <- E in *.
    rewrite ok_add_map by (subst; discriminate). apply forallb_In. intros k Hk.
    rewrite ok_cond. apply ok_cell_is. auto.
  Qed.

  Lemma occurrence_ok ids : below (n * n) ids -> forallb (ok vs true) (occurrence n ids) = true.
  Proof.
    intros H. unfold occurrence. cbn [forallb]. autorewrite with okdb. rewrite (ok_ct_is ids _ H). simpl.
    rewrite forallb_map. apply forallb_In. intros i _. autorewrite with okdb. apply ok_ct_is. exact H.
  Qed.

  Lemma ok_any_zero ids : below (n * n) ids -> ok vs true (any_zero n ids) = true.
  Proof.
    intros H. unfold any_zero. destruct ids as [|i r] eqn:E; [reflexivity|]. rewrite <- E in *.
    rewrite ok_or, forallb_map. apply forallb_In. intros k Hk. apply ok_cell_is. auto.
  Qed.

  Lemma seq_go_ok : forall rest before acc, below (n * n) before -> below (n * n) rest ->
    ok vs false acc = true -> ok vs false (seq_go n before acc rest) = true.
  Proof.
    induction rest as [|v r IH]; intros before acc Hb Hr Ha; simpl; [exact Ha|].
    assert (Hv : v < n * n) by (apply Hr; left; reflexivity).
    assert (Hr' : below (n * n) r) by (intros i Hi; apply Hr; right; exact Hi).
    apply IH.
    - apply below_app; [exact Hb|]. intros i [<-|[]]. exact Hv.
    - exact Hr'.
    - autorewrite with okdb. rewrite Ha, (ok_any_zero _ Hb), (ok_any_zero _ Hr'), (ok_dvar _ Hv). reflexivity.
  Qed.

  Lemma sequence_ok ids c : below (n * n) ids -> forallb (ok vs true) (sequence n ids c) = true.
  Proof.
    intros H. unfold sequence. destruct (0 <=? c)%Z; [|reflexivity].
    autorewrite with okdb. apply seq_go_ok; [intros i []|exact H|reflexivity].
  Qed.

  Lemma doppelblock_constraints_ok rows cols : forallb (ok vs true) (doppelblock_constraints n rows cols) = true.
  Proof.
    unfold doppelblock_constraints. rewrite forallb_flat_map. apply forallb_seq. intros i Hi.
    rewrite !forallb_app.
    rewrite !occurrence_ok, !sequence_ok; [reflexivity| | | |]; try apply below_row; try apply below_col; lia.
  Qed.
End D.

Lemma doppelblock_model_wf pb st : solve_doppelblock_model pb = Ok st -> wf_state st /\ wf_keys st.
Proof.
  unfold solve_doppelblock_model. destruct (Nat.ltb _ 2); [discriminate|].
  destruct (_ || _); [discriminate|].
  intros H. inversion H; subst st; clear H. split.
  - apply doppelblock_constraints_ok.
  - unfold wf_keys; simpl. rewrite !repeat_length. reflexivity.
Qed.

Theorem doppelblock_solve_reports : forall oracle, oracle_sound_on oracle -> oracle_complete_on oracle ->
  forall n rows cols st,
  solve_doppelblock_model [[Z.of_nat n]; rows; cols] = Ok st ->
  solve_reports oracle st (seq 0 (n * n)) (rules_doppelblock [[Z.of_nat n]; rows; cols]).
Proof.
  intros oracle Os Oc n rows cols st Hst.
  apply (solve_reports_intro oracle no_graph); try assumption.
  - exact (doppelblock_model_wf _ _ Hst).
  - unfold solve_doppelblock_model in Hst. rewrite dim1_0 in Hst. destruct (Nat.ltb _ 2); [discriminate|].
    destruct (_ || _); [discriminate|].
    inversion Hst; subst st. simpl. apply repeat_keys.
  - intros ans. exact (doppelblock_exact n rows cols st ans Hst).
Qed.
