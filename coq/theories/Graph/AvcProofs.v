(* C04: the theorems about active_vertices_connected (auxiliary-variable
   encoding, acyclic on/off; grid form; native-operator form). *)
From Coq Require Import ZArith List Bool Arith Lia.
From Cspuz Require Import Lib.PyErr Core.Expr Core.Program Core.Build
  Graph.GraphModel Graph.ReachProofs Graph.Avc Graph.AvcCert Graph.AvcSem.
Import ListNotations.
Local Open Scope nat_scope.

(* ------------------------------------------------------------------------ *)
(* small facts                                                                *)

Lemma skipn_app_exact {A} (l1 l2 : list A) : skipn (length l1) (l1 ++ l2) = l2.
Proof. induction l1; simpl; auto. Qed.

Lemma forallb_ext_in {A} (f g : A -> bool) l :
  (forall x, In x l -> f x = g x) -> forallb f l = forallb g l.
Proof.
  induction l as [|a l IH]; intros H; [reflexivity|]. simpl.
  rewrite (H a (or_introl eq_refl)), IH by (intros; apply H; right; assumption). reflexivity.
Qed.

Lemma post_avc_nonempty st acts g acyclic st' :
  post_avc st acts g acyclic false = Ok st' -> 1 <= nv g.
Proof.
  unfold post_avc. simpl andb. cbv iota. unfold int_array, bind.
  destruct (Z.ltb_spec (Z.of_nat (nv g) - 1) 0); [discriminate|]. intros _. lia.
Qed.

Lemma pattern_agree k en en' acts :
  agree_below k en en' -> fresh_below k acts -> forall v, pattern en acts v = pattern en' acts v.
Proof.
  intros Hag Hfr v. unfold pattern.
  destruct (nth_in_or_default v acts (PyBool false)) as [Hin|Hd].
  - apply (holds_agree gsem_avc k); [exact Hag|apply Hfr; exact Hin].
  - rewrite Hd. reflexivity.
Qed.

Lemma acts_defined_agree k en en' acts :
  agree_below k en en' -> fresh_below k acts -> acts_defined en acts -> acts_defined en' acts.
Proof.
  intros Hag Hfr Hdef a Ha. destruct (Hdef a Ha) as [c Hc]. exists c.
  rewrite <- (eval_agree gsem_avc k en en' a Hag (Hfr a Ha)). exact Hc.
Qed.

Lemma vertex_ok_ext g acyclic act1 act2 rank1 rank2 root1 root2 i :
  (forall v, act1 v = act2 v) -> (forall v, rank1 v = rank2 v) -> (forall v, root1 v = root2 v) ->
  vertex_ok g acyclic act1 rank1 root1 i = vertex_ok g acyclic act2 rank2 root2 i.
Proof.
  intros Ha Hr Ho. unfold vertex_ok, lower_cnt.
  rewrite (forallb_ext_in (fun jk : nat * nat => negb (rank1 (fst jk) =? rank1 i)%Z)
                          (fun jk : nat * nat => negb (rank2 (fst jk) =? rank2 i)%Z))
    by (intros; rewrite !Hr; reflexivity).
  rewrite (map_ext (fun jk : nat * nat => b2z ((rank1 (fst jk) <? rank1 i)%Z && act1 (fst jk)))
                   (fun jk : nat * nat => b2z ((rank2 (fst jk) <? rank2 i)%Z && act2 (fst jk))))
    by (intros; rewrite !Hr, Ha; reflexivity).
  rewrite Ha, Ho. reflexivity.
Qed.

Lemma cert_avc_ext g acyclic act1 act2 rank1 rank2 root1 root2 :
  (forall v, act1 v = act2 v) -> (forall v, rank1 v = rank2 v) -> (forall v, root1 v = root2 v) ->
  cert_avc g acyclic act1 rank1 root1 = cert_avc g acyclic act2 rank2 root2.
Proof.
  intros Ha Hr Ho. unfold cert_avc. f_equal.
  - apply forallb_ext_in. intros i _. apply vertex_ok_ext; assumption.
  - f_equal. f_equal. apply map_ext. intros; rewrite Ho; reflexivity.
Qed.

(* ------------------------------------------------------------------------ *)
(* avc_exact                                                                  *)

(* the assignment that extends the caller's one by the certificate of the
   completeness proof *)
Definition extend_env (en : env) (b n : nat) (rank : nat -> Z) (root : nat -> bool) : env :=
  {| eb := fun i => if Nat.ltb i b then eb en i else root (i - (b + n));
     ei := fun i => if Nat.ltb i b then ei en i else rank (i - b) |}.

Lemma extend_env_agree en b n rank root : agree_below b en (extend_env en b n rank root).
Proof.
  intros i Hi. simpl. apply Nat.ltb_lt in Hi. rewrite Hi. split; reflexivity.
Qed.

Lemma extend_env_rank en b n rank root j : ei (extend_env en b n rank root) (b + j) = rank j.
Proof.
  simpl. destruct (Nat.ltb_spec (b + j) b); [lia|]. f_equal. lia.
Qed.

Lemma extend_env_root en b n rank root j : eb (extend_env en b n rank root) (b + n + j) = root j.
Proof.
  simpl. destruct (Nat.ltb_spec (b + n + j) b); [lia|]. f_equal. lia.
Qed.

(* For every graph, every list of is_active expressions over the caller's
   variables and every assignment [en] of those variables: the constraints and
   variables added by the auxiliary-variable encoding can be completed (ids
   below next_id st untouched, new variables within their declared bounds, all
   new constraints true) exactly when the active vertices are connected
   (acyclic: induce a tree or are empty). *)
Theorem avc_exact acyclic st acts g st' en :
  wf_graph g = true ->
  fresh_below (next_id st) acts -> acts_defined en acts ->
  post_avc st acts g acyclic false = Ok st' ->
  ((exists en', agree_below (next_id st) en en' /\
                in_bounds_from en' (next_id st) (new_vars st st') = true /\
                forallb (holds gsem_avc en') (new_cons st st') = true)
   <-> spec_avc acyclic g (pattern en acts)).
Proof.
  intros Hwf Hfr Hdef Hpost.
  pose proof (post_avc_nonempty _ _ _ _ _ Hpost) as Hn.
  destruct (avc_eval _ _ _ _ _ Hpost) as [Hv [_ [cs [Hc Hev]]]].
  assert (Hnc : new_cons st st' = cs) by (unfold new_cons; rewrite Hc; apply skipn_app_exact).
  assert (Hnv : new_vars st st' = repeat (DInt 0 (Z.of_nat (nv g) - 1)) (nv g) ++ repeat DBool (nv g))
    by (unfold new_vars; rewrite Hv; apply skipn_app_exact).
  rewrite Hnc, Hnv. split.
  - intros [en' [Hag [Hb Hs]]].
    pose proof (acts_defined_agree _ _ _ _ Hag Hfr Hdef) as Hdef'.
    rewrite (Hev en' Hdef') in Hs.
    rewrite in_bounds_from_app in Hb. apply andb_true_iff in Hb. destruct Hb as [Hb _].
    rewrite in_bounds_from_ints in Hb.
    apply (spec_avc_ext acyclic g (pattern en' acts)).
    + intros v. symmetry. apply (pattern_agree _ _ _ _ Hag Hfr).
    + eapply cert_sound; [exact Hwf| |exact Hs]. intros i Hi. apply Hb. exact Hi.
  - intros Hs.
    destruct (cert_complete g acyclic (pattern en acts) Hwf Hn Hs) as [Hr Hcert].
    set (en' := extend_env en (next_id st) (nv g) (avc_rank g (pattern en acts)) (avc_root g (pattern en acts))).
    assert (Hag : agree_below (next_id st) en en') by apply extend_env_agree.
    exists en'. split; [exact Hag|]. split.
    + rewrite in_bounds_from_app. apply andb_true_iff. split; [|apply in_bounds_from_bools].
      apply in_bounds_from_ints. intros j Hj. unfold en'. rewrite extend_env_rank. apply Hr. exact Hj.
    + rewrite (Hev en' (acts_defined_agree _ _ _ _ Hag Hfr Hdef)). rewrite <- Hcert.
      apply cert_avc_ext.
      * intros v. symmetry. apply (pattern_agree _ _ _ _ Hag Hfr).
      * intros j. unfold en'. apply extend_env_rank.
      * intros j. unfold en'. apply extend_env_root.
Qed.

(* the same in terms of models of the whole solver state: a model of the state
   before the call extends to a model of the state after the call (without
   changing any earlier variable) exactly when the specification holds *)
Theorem avc_exact_models acyclic st acts g st' en :
  wf_graph g = true ->
  fresh_below (next_id st) acts -> fresh_below (next_id st) (cons st) -> acts_defined en acts ->
  model_of gsem_avc en st ->
  post_avc st acts g acyclic false = Ok st' ->
  ((exists en', agree_below (next_id st) en en' /\ model_of gsem_avc en' st')
   <-> spec_avc acyclic g (pattern en acts)).
Proof.
  intros Hwf Hfr Hfc Hdef [Hb0 Hs0] Hpost.
  rewrite <- (avc_exact acyclic st acts g st' en Hwf Hfr Hdef Hpost).
  destruct (avc_eval _ _ _ _ _ Hpost) as [Hv [_ [cs [Hc _]]]].
  assert (Hnc : new_cons st st' = cs) by (unfold new_cons; rewrite Hc; apply skipn_app_exact).
  assert (Hnv : vars st' = vars st ++ new_vars st st').
  { unfold new_vars. rewrite Hv at 1. f_equal. rewrite Hv. symmetry. apply skipn_app_exact. }
  assert (Hold : forall en', agree_below (next_id st) en en' ->
            in_bounds_from en' 0 (vars st) = true /\ forallb (holds gsem_avc en') (cons st) = true).
  { intros en' Hag. split.
    - rewrite <- (in_bounds_from_agree en en' (vars st) 0); [exact Hb0|].
      intros j Hj. simpl. apply Hag. exact Hj.
    - rewrite <- (forallb_ext_in (holds gsem_avc en) (holds gsem_avc en')); [exact Hs0|].
      intros c Hin. apply (holds_agree gsem_avc (next_id st)); [exact Hag|apply Hfc; exact Hin]. }
  split.
  - intros [en' [Hag [Hb Hs]]]. exists en'. split; [exact Hag|]. split.
    + unfold in_bounds in Hb. rewrite Hnv, in_bounds_from_app in Hb. apply andb_true_iff in Hb. apply Hb.
    + unfold satisfies in Hs. rewrite Hc, forallb_app in Hs. apply andb_true_iff in Hs.
      rewrite Hnc. apply Hs.
  - intros [en' [Hag [Hb Hs]]]. exists en'. split; [exact Hag|].
    destruct (Hold en' Hag) as [O1 O2]. split.
    + unfold in_bounds. rewrite Hnv, in_bounds_from_app. apply andb_true_iff. split; [exact O1|exact Hb].
    + unfold satisfies. rewrite Hc, forallb_app. apply andb_true_iff. split; [exact O2|].
      rewrite <- Hnc. exact Hs.
Qed.

(* ------------------------------------------------------------------------ *)
(* the two readings named in the property                                     *)

Corollary avc_connected_exact st acts g st' en :
  wf_graph g = true -> fresh_below (next_id st) acts -> acts_defined en acts ->
  post_avc st acts g false false = Ok st' ->
  ((exists en', agree_below (next_id st) en en' /\
                in_bounds_from en' (next_id st) (new_vars st st') = true /\
                forallb (holds gsem_avc en') (new_cons st st') = true)
   <-> connected g (pattern en acts)).
Proof. exact (avc_exact false st acts g st' en). Qed.

Corollary avc_acyclic_exact st acts g st' en :
  wf_graph g = true -> fresh_below (next_id st) acts -> acts_defined en acts ->
  post_avc st acts g true false = Ok st' ->
  ((exists en', agree_below (next_id st) en en' /\
                in_bounds_from en' (next_id st) (new_vars st st') = true /\
                forallb (holds gsem_avc en') (new_cons st st') = true)
   <-> tree g (pattern en acts)).
Proof. exact (avc_exact true st acts g st' en). Qed.

(* with acyclic=True the primitive branch is never taken *)
Lemma avc_acyclic_ignores_primitive st acts g prim :
  post_avc st acts g true prim = post_avc st acts g true false.
Proof. unfold post_avc. rewrite andb_false_r. reflexivity. Qed.

(* the call succeeds on every well-formed input *)
Lemma mapM_ok_all {A B} (f : A -> res B) l :
  (forall x, In x l -> exists y, f x = Ok y) -> exists r, mapM f l = Ok r.
Proof.
  induction l as [|a l IH]; intros H; simpl; [eexists; reflexivity|].
  destruct (H a (or_introl eq_refl)) as [y Hy]. rewrite Hy. simpl.
  destruct IH as [r Hr]; [intros; apply H; right; assumption|]. rewrite Hr. simpl. eexists; reflexivity.
Qed.

(* ------------------------------------------------------------------------ *)
(* avc_grid: the array form is the graph form on the grid graph, whose
   adjacency is the orthogonal adjacency of the cells                         *)

(* b is the right or the lower neighbour of a in an h x w grid (cell (y, x) = y*w + x) *)
Definition grid_adj (h w a b : nat) : Prop :=
  exists y x, y < h /\ x < w /\ a = y * w + x /\
              ((S x < w /\ b = y * w + S x) \/ (S y < h /\ b = S y * w + x)).

Lemma grid_edges_spec h w a b : In (a, b) (grid_edges h w) <-> grid_adj h w a b.
Proof.
  unfold grid_edges, grid_adj. rewrite in_flat_map. split.
  - intros [y [Hy H]]. apply in_seq in Hy. rewrite in_flat_map in H. destruct H as [x [Hx H]].
    apply in_seq in Hx. exists y, x. split; [lia|]. split; [lia|].
    apply in_app_iff in H. destruct H as [H|H].
    + destruct (Nat.ltb_spec (S x) w); [|destruct H]. destruct H as [H|[]]. inversion H; subst.
      split; [reflexivity|]. left. split; [assumption|reflexivity].
    + destruct (Nat.ltb_spec (S y) h); [|destruct H]. destruct H as [H|[]]. inversion H; subst.
      split; [reflexivity|]. right. split; [assumption|reflexivity].
  - intros [y [x [Hy [Hx [Ha Hb]]]]]. exists y. split; [apply in_seq; lia|].
    rewrite in_flat_map. exists x. split; [apply in_seq; lia|]. apply in_app_iff.
    destruct Hb as [[H1 H2]|[H1 H2]]; subst.
    + left. destruct (Nat.ltb_spec (S x) w); [|lia]. left; reflexivity.
    + right. destruct (Nat.ltb_spec (S y) h); [|lia]. left; reflexivity.
Qed.

Lemma grid_cell_lt h w y x : y < h -> x < w -> y * w + x < h * w.
Proof.
  intros Hy Hx. assert (S y * w <= h * w) by (apply Nat.mul_le_mono_r; lia). simpl in H. lia.
Qed.

Lemma grid_wf h w : wf_graph (grid_graph h w) = true.
Proof.
  unfold wf_graph. apply forallb_forall. intros [a b] Hin. simpl in Hin.
  apply grid_edges_spec in Hin. destruct Hin as [y [x [Hy [Hx [Ha Hb]]]]]. simpl nv.
  apply andb_true_iff. split; apply Nat.ltb_lt.
  - subst a. apply grid_cell_lt; assumption.
  - destruct Hb as [[H1 H2]|[H1 H2]]; subst b; apply grid_cell_lt; assumption.
Qed.

Lemma grid_loop_free h w : loop_free (grid_graph h w) = true.
Proof.
  unfold loop_free. apply forallb_forall. intros [a b] Hin. simpl in Hin.
  apply grid_edges_spec in Hin. destruct Hin as [y [x [Hy [Hx [Ha Hb]]]]].
  apply negb_true_iff. apply Nat.eqb_neq.
  destruct Hb as [[H1 H2]|[H1 H2]]; subst; simpl; lia.
Qed.

Lemma grid_nbrs h w a b :
  In b (nbrs (grid_graph h w) all_edges_ok a) <-> (grid_adj h w a b \/ grid_adj h w b a).
Proof.
  rewrite nbrs_spec. simpl edges. split.
  - intros [k [_ [H|H]]]; apply nth_error_In in H; apply grid_edges_spec in H; tauto.
  - intros [H|H]; apply grid_edges_spec in H; apply In_nth_error in H; destruct H as [k Hk];
      exists k; (split; [reflexivity|]); tauto.
Qed.

Theorem avc_grid cfg st h w l acyclic ugp :
  active_vertices_connected cfg st (AArr2 h w l) None acyclic ugp =
    post_avc st l (grid_graph h w) acyclic (match ugp with Some p => p | None => cfg end) /\
  wf_graph (grid_graph h w) = true /\ loop_free (grid_graph h w) = true /\
  nv (grid_graph h w) = h * w /\
  (forall a b, In b (nbrs (grid_graph h w) all_edges_ok a) <-> (grid_adj h w a b \/ grid_adj h w b a)).
Proof.
  split; [reflexivity|]. split; [apply grid_wf|]. split; [apply grid_loop_free|].
  split; [reflexivity|]. apply grid_nbrs.
Qed.

(* the other forms of the wrapper *)
Lemma avc_wrapper_forms cfg st l g acyclic ugp :
  let prim := match ugp with Some p => p | None => cfg end in
  active_vertices_connected cfg st (ASeq l) (Some g) acyclic ugp = post_avc st l g acyclic prim /\
  active_vertices_connected cfg st (AArr1 l) (Some g) acyclic ugp = post_avc st l g acyclic prim /\
  active_vertices_connected cfg st (ASeq l) None acyclic ugp = Err TypeError /\
  active_vertices_connected cfg st (AArr1 l) None acyclic ugp = Err TypeError /\
  (forall h w, active_vertices_connected cfg st (AArr2 h w l) (Some g) acyclic ugp = Err TypeError).
Proof. repeat split. Qed.

(* ------------------------------------------------------------------------ *)
(* avc_primitive: the operand layout of the native operator                   *)

Definition flat_z (es : list (nat * nat)) : list Z :=
  flat_map (fun ab : nat * nat => [Z.of_nat (fst ab); Z.of_nat (snd ab)]) es.

Lemma pair_up_flat es : pair_up (flat_z es) = Some es.
Proof.
  induction es as [|[a b] es IH]; [reflexivity|]. simpl flat_z. simpl app. cbn [pair_up].
  fold (flat_z es). rewrite IH.
  assert (Ha : (0 <=? Z.of_nat a)%Z = true) by (apply Z.leb_le; lia).
  assert (Hb : (0 <=? Z.of_nat b)%Z = true) by (apply Z.leb_le; lia).
  rewrite Ha, Hb. simpl. rewrite !Nat2Z.id. reflexivity.
Qed.

Lemma flat_edges_eval gsem en g :
  map (eval gsem en) (flat_edges g) = map Some (map VI (flat_z (edges g))).
Proof.
  unfold flat_edges, flat_z. induction (edges g) as [|[a b] es IH]; [reflexivity|].
  simpl. rewrite IH. reflexivity.
Qed.

Lemma as_bools_map_VB l : as_bools (map VB l) = Some l.
Proof. induction l as [|a l IH]; [reflexivity|]. simpl. rewrite IH. reflexivity. Qed.

Lemma acts_eval en acts :
  acts_defined en acts ->
  map (eval gsem_avc en) acts = map Some (map VB (map (holds gsem_avc en) acts)).
Proof.
  intros Hdef. rewrite !map_map. apply map_ext_in. intros a Ha.
  destruct (Hdef a Ha) as [c Hc]. unfold holds. rewrite Hc. destruct c; reflexivity.
Qed.

Lemma decode_avc_layout en acts g :
  acts_defined en acts -> length acts = nv g ->
  decode_avc (map (eval gsem_avc en)
                  ([PyInt (Z.of_nat (nv g)); PyInt (Z.of_nat (length (edges g)))] ++ acts ++ flat_edges g))
  = Some (g, map (holds gsem_avc en) acts).
Proof.
  intros Hdef Hlen. simpl app. cbn [map eval]. rewrite map_app, (acts_eval en acts Hdef), flat_edges_eval.
  unfold decode_avc.
  assert (Hn : (0 <=? Z.of_nat (nv g))%Z = true) by (apply Z.leb_le; lia).
  assert (Hm : (0 <=? Z.of_nat (length (edges g)))%Z = true) by (apply Z.leb_le; lia).
  rewrite Hn, Hm. simpl andb. cbv iota. rewrite !Nat2Z.id.
  assert (Hl : length (map Some (map VB (map (holds gsem_avc en) acts))) = nv g)
    by (rewrite !map_length; exact Hlen).
  rewrite firstn_app, skipn_app, Hl, Nat.sub_diag.
  rewrite (firstn_all2 (n := nv g) (map Some (map VB (map (holds gsem_avc en) acts)))) by lia.
  rewrite (skipn_all2 (n := nv g) (map Some (map VB (map (holds gsem_avc en) acts)))) by lia.
  cbn [firstn skipn app]. rewrite app_nil_r.
  rewrite !all_some_map_Some, as_bools_map_VB, as_ints_map_VI, pair_up_flat.
  rewrite !map_length, Hlen, !Nat.eqb_refl. simpl. destruct g; reflexivity.
Qed.

Lemma eval_bnode gsem en o args :
  eval gsem en (BNode o args) = eval_bop gsem o (map (eval gsem en) args).
Proof. reflexivity. Qed.

Lemma gsem_avc_G vs :
  gsem_avc G_AVC vs = match decode_avc vs with
                      | Some (g, bs) => Some (connected_b g (fun v => nth v bs false))
                      | None => None
                      end.
Proof. reflexivity. Qed.

Theorem avc_primitive st acts g st' :
  post_avc st acts g false true = Ok st' ->
  length acts = nv g /\ vars st' = vars st /\ keys st' = keys st /\
  exists e, cons st' = cons st ++ [e] /\
    e = BNode G_AVC ([PyInt (Z.of_nat (nv g)); PyInt (Z.of_nat (length (edges g)))] ++ acts ++ flat_edges g) /\
    forall en, acts_defined en acts ->
      eval gsem_avc en e = Some (VB (connected_b g (fun v => nth v (map (holds gsem_avc en) acts) false))) /\
      (wf_graph g = true -> (holds gsem_avc en e = true <-> connected g (pattern en acts))).
Proof.
  unfold post_avc. simpl andb. cbv iota.
  destruct (Nat.eqb_spec (length acts) (nv g)) as [Hlen|Hlen]; simpl negb; cbv iota; [|discriminate].
  intros H. inversion H; subst st'. clear H. simpl. repeat split; try assumption.
  eexists. split; [reflexivity|]. split; [reflexivity|]. intros en Hdef.
  assert (Hev : eval gsem_avc en (BNode G_AVC ([PyInt (Z.of_nat (nv g)); PyInt (Z.of_nat (length (edges g)))] ++ acts ++ flat_edges g))
                = Some (VB (connected_b g (fun v => nth v (map (holds gsem_avc en) acts) false)))).
  { rewrite eval_bnode. unfold eval_bop. rewrite gsem_avc_G, (decode_avc_layout en acts g Hdef Hlen). reflexivity. }
  split; [exact Hev|]. intros Hwf. unfold holds. simpl app in Hev. simpl app. rewrite Hev.
  assert (Hp : forall v, nth v (map (holds gsem_avc en) acts) false = pattern en acts v).
  { intros v. unfold pattern. change false with (holds gsem_avc en (PyBool false)) at 1.
    apply map_nth. }
  split.
  - intros Hc. destruct (connected_b g _) eqn:Hcb; [|discriminate].
    apply (connected_b_spec g _ Hwf) in Hcb. eapply connected_ext; [exact Hp|exact Hcb].
  - intros Hc. assert (Hcb : connected_b g (fun v => nth v (map (holds gsem_avc en) acts) false) = true).
    { apply (connected_b_spec g _ Hwf). eapply connected_ext; [|exact Hc]. intros v. symmetry. apply Hp. }
    rewrite Hcb. reflexivity.
Qed.

(* the length check of the primitive branch *)
Lemma avc_primitive_length_error st acts g :
  length acts <> nv g -> post_avc st acts g false true = Err ValueError.
Proof.
  intros H. unfold post_avc. simpl andb. cbv iota.
  destruct (Nat.eqb_spec (length acts) (nv g)); [contradiction|reflexivity].
Qed.

(* no vertex: int_array(0, 0, -1) raises ValueError in the auxiliary encoding *)
Lemma avc_zero_vertices st acts g acyclic :
  nv g = 0 -> post_avc st acts g acyclic false = Err ValueError.
Proof. intros H. unfold post_avc. simpl andb. cbv iota. rewrite H. reflexivity. Qed.

(* ------------------------------------------------------------------------ *)
(* the hypotheses of avc_exact are satisfiable (a path on three vertices, the
   caller passes a variable, a negated variable and a Python constant)        *)

Example avc_exact_hypotheses_satisfiable :
  exists st acts g st' en,
    wf_graph g = true /\ fresh_below (next_id st) acts /\ acts_defined en acts /\
    post_avc st acts g true false = Ok st' /\ tree g (pattern en acts).
Proof.
  exists {| vars := [DBool; DBool]; keys := [false; false]; cons := [] |}.
  exists [BVar 0; BNode NOT [BVar 1]; PyBool true].
  exists {| nv := 3; edges := [(0, 1); (2, 1)] |}.
  eexists.
  exists {| eb := fun i => Nat.eqb i 0; ei := fun _ => 0%Z |}.
  split; [reflexivity|]. split.
  - intros a [<-|[<-|[<-|[]]]]; cbv; lia.
  - split.
    + intros a [<-|[<-|[<-|[]]]]; eexists; reflexivity.
    + split; [vm_compute; reflexivity|].
      assert (Hwf : wf_graph {| nv := 3; edges := [(0, 1); (2, 1)] |} = true) by reflexivity.
      split.
      * apply (connected_b_spec _ _ Hwf). vm_compute. reflexivity.
      * right. vm_compute. reflexivity.
Qed.

(* ------------------------------------------------------------------------ *)
(* former stretch goal of the design: on loop-free graphs the edge-count
   characterisation of trees used above coincides with "connected and every
   induced edge is a bridge of the induced subgraph" (no cycle).  The statement
   is proved in AvcTreeExact.v (tree_iff_no_cycle), from the version for all
   well-formed multigraphs in AvcTree.v (tree_iff_bridges). *)
Definition tree_iff_no_cycle_statement : Prop :=
  forall g act, wf_graph g = true -> loop_free g = true ->
    (tree g act <->
     (connected g act /\
      (forall e a b, nth_error (edges g) e = Some (a, b) -> act a = true -> act b = true ->
                     ~ reach g act (fun k => negb (Nat.eqb k e)) a b))).
