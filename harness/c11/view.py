"""C11 plug-in: view (solve_view(height, width, problem)); -1 = empty, n >= 0 given number."""
import c11lib as L

NAME = "view"
MODULE = "cspuz.puzzle.view"
FUNC = "solve_view"


def call(mod, pb):
    return mod.solve_view(pb["h"], pb["w"], pb["grid"])


def ncand(pb):
    n = pb["h"] * pb["w"]
    return ((pb["h"] + pb["w"] + 1) ** n) * (2 ** n)


def encode(pb):
    return [[pb["h"], pb["w"]], L.flat(pb["grid"])]


def _values(h, w):
    return [-1] + list(range(0, h + w - 1))


def families(tier, rng):
    th = tier == "thorough"
    for (h, w) in [(1, 1), (1, 2), (2, 1), (1, 3), (3, 1)] + ([(2, 2)] if th else []):
        for g in L.all_grids(h, w, _values(h, w)):
            yield {"h": h, "w": w, "grid": g}
    if not th:
        for g in L.sample(rng, L.all_grids(2, 2, _values(2, 2)), 100):
            yield {"h": 2, "w": 2, "grid": g}
    for (h, w) in [(1, 4), (4, 1)]:
        for _ in range(100 if th else 15):
            yield {"h": h, "w": w, "grid": L.random_grid(rng, h, w, _values(h, w), 0.6)}


def tier2(tier, rng):
    th = tier == "thorough"
    for (h, w) in [(1, 1), (1, 2), (2, 1)]:
        for g in L.all_grids(h, w, _values(h, w)):
            yield {"h": h, "w": w, "grid": g}
    for g in L.sample(rng, L.all_grids(2, 2, _values(2, 2)), 10 if th else 2):
        yield {"h": 2, "w": 2, "grid": g}


def big(tier, rng):
    """long single-row / single-column boards: one number seeing all the other cells (value N - 1 >= 18), or two
    adjacent numbers seeing the two ends"""
    th = tier == "thorough"
    for n in (L.LONG if th else L.sample(rng, L.LONG, 3) + [21]):
        p = rng.randrange(n)
        given = [-1] * n
        given[p] = n - 1
        nums = [0] * n
        nums[p] = n - 1
        has = [0] * n
        has[p] = 1
        yield {"h": 1, "w": n, "grid": [given], "planted": [nums + has], "n_solutions": 1}
        yield {"h": n, "w": 1, "grid": [[v] for v in given], "planted": [nums + has], "n_solutions": 1}
        p = rng.randrange(0, n - 1)
        if p != n - p - 2:
            given = [-1] * n
            given[p], given[p + 1] = p, n - p - 2
            nums = [0] * n
            nums[p], nums[p + 1] = p, n - p - 2
            has = [0] * n
            has[p] = has[p + 1] = 1
            yield {"h": 1, "w": n, "grid": [given], "planted": [nums + has], "n_solutions": 1}
