(* C11 rule specification - Fillomino.
   Published rules (Nikoli, "Fillomino"):
     1. Divide the grid into blocks by drawing lines along the cell borders, and
        fill in a number in every cell.
     2. Every cell of a block holds the number of cells of that block.
     3. Blocks of the same size may not share a border (touch horizontally or vertically).
   Equivalently: every cell holds a number, and each orthogonally connected
   group of cells holding the same number n has exactly n cells.

   problem = [[h; w]; given]   given: h*w cells row-major, n >= 1 a given number, anything else empty
   answer  = h*w numbers row-major (1 .. h*w) *)
From Coq Require Import ZArith List Bool Arith.
From Cspuz Require Import Graph.GraphModel Puzzle.PuzzleBase.
Import ListNotations.

Definition rules_fillomino (pb : problem) (ans : answer) : bool :=
  let h := dim pb 0 in let w := dim pb 1 in
  let given := sec pb 1 in
  let val := fun v => getz ans v in
  Nat.eqb (length ans) (h * w) &&
  forallb (fun v => ((1 <=? v) && (v <=? Z.of_nat (h * w)))%Z) ans &&
  forallb (fun v => (Z.of_nat (length (same_group h w val v)) =? val v)%Z) (seq 0 (h * w)) &&
  forallb (fun v => let c := getz given v in (c <? 1)%Z || (val v =? c)%Z) (seq 0 (h * w)).

Definition answers_fillomino (pb : problem) : list answer :=
  let n := dim pb 0 * dim pb 1 in all_answers (repeat (1%Z, Z.of_nat n) n).
