(* deps (scanned by harness/vlib.py::build_runner): Cspuz.Lib.PyErr Cspuz.Core.Expr Cspuz.Core.Program Cspuz.Core.Build Cspuz.Graph.GraphModel Cspuz.Graph.Division *)
Require Extraction.
Require Import ExtrOcamlBasic.
From Coq Require Import ZArith List.
From Cspuz Require Import Lib.PyErr Core.Expr Core.Program Core.Build Graph.GraphModel Graph.Division.
Extraction "model.ml" Z.add Nat.add pyerr_code post_division division_connected
  spec_division_b cert_division satisfies in_bounds division_gsem grid_graph connected_b.
