(* C11: the program of solve_slitherlink is well formed on every board; composition with C02 (solve_reports). *)
From Coq Require Import ZArith List Bool Arith Lia.
From Cspuz Require Import Lib.PyErr Core.Expr Core.Program Graph.GraphModel Graph.Cycle
     Backend.Z3 Backend.Z3Oracle Backend.Z3SolveProofs Backend.SolveLoop Backend.SolveZ3Proofs
     Puzzle.PuzzleBase Puzzle.ModelBase Puzzle.ModelLemmas Puzzle.SatAbs Puzzle.SolveCompose Puzzle.WfLemmas
     Puzzle.CycleFrameBase Puzzle.Rules_slitherlink Puzzle.Slitherlink Puzzle.SlitherlinkProofs.
Import ListNotations.
Local Open Scope nat_scope.

Lemma slitherlink_constraints_ok h w clues :
  forallb (ok (repeat DBool (frame_n h w)) true) (slitherlink_constraints h w clues) = true.
Proof.
  unfold slitherlink_constraints. rewrite forallb_flat_map. apply forallb_cells. intros y x Hy Hx.
  unfold slither_clue. cbv zeta. destruct (_ <? 0)%Z; [reflexivity|]. autorewrite with okdb.
  apply ok_ct_vars_lt. intros i Hi. apply ok_bvar_repeat.
  unfold cell_neighbor_ids, frame_hid, frame_vid, frame_n in *.
  destruct Hi as [<-|[<-|[<-|[<-|[]]]]]; nia.
Qed.

Lemma slitherlink_model_shape pb st : solve_slitherlink_model pb = Ok st ->
  (wf_state st /\ wf_keys st) /\ exists r, keys st = repeat true (frame_n (dim pb 0) (dim pb 1)) ++ r.
Proof.
  unfold solve_slitherlink_model. set (h := dim pb 0). set (w := dim pb 1).
  destruct (_ || _); [discriminate|].
  destruct (frame_cycle h w) as [[st1 res]|] eqn:E; [|discriminate].
  destruct (Nat.ltb _ _); [discriminate|].
  intros H. inversion H; subst st; clear H.
  destruct (frame_cycle_wf _ _ _ _ E) as [WK [[more Hv] [[r Hk] _]]].
  split.
  - eapply wf_ensure_prefix; [exact WK|exact Hv|]. apply slitherlink_constraints_ok.
  - exists r. exact Hk.
Qed.

Lemma slitherlink_model_wf pb st : solve_slitherlink_model pb = Ok st -> wf_state st /\ wf_keys st.
Proof. intros H. exact (proj1 (slitherlink_model_shape pb st H)). Qed.

Theorem slitherlink_solve_reports : forall oracle, oracle_sound_on oracle -> oracle_complete_on oracle ->
  forall h w clues st,
  solve_slitherlink_model [[Z.of_nat h; Z.of_nat w]; clues] = Ok st ->
  solve_reports oracle st (seq 0 (S h * w + h * S w)) (rules_slitherlink [[Z.of_nat h; Z.of_nat w]; clues]).
Proof.
  intros oracle Os Oc h w clues st Hst.
  apply (solve_reports_intro oracle no_graph); try assumption.
  - exact (slitherlink_model_wf _ _ Hst).
  - destruct (slitherlink_model_shape _ _ Hst) as [_ [r Hk]]. rewrite dim2_0, dim2_1 in Hk. rewrite Hk.
    intros i. apply keys_prefix.
  - intros ans. exact (slitherlink_exact h w clues st ans Hst).
Qed.
