(* C11 Tier 1, native-operator route - nanro: cspuz/puzzle/nanro.py::solve_nanro with cspuz.config.use_graph_primitive
   ON.  graph.active_vertices_connected(solver, has_num), called in the middle of the program, posts ONE node
   GRAPH_ACTIVE_VERTICES_CONNECTED (model Graph/Avc.v::post_avc .. false true) and declares nothing, so the per-room
   counters `nonempty` declared after it have the ids 2n .. 2n+k-1 (n = height * width, k blocks) instead of 4n .. .
   Everything else is unchanged: Nanro.v::nanro_pre before the call, Nanro.v::nanro_constraints (parameterised by the id
   of the first counter) after it.  On a board without cells the helper does not raise on this route: the program (the
   node over no vertex, nothing else when there is no block) is posted.
     solve_nanro_model_prim : the model (tied to the Python by program capture, kind program-native:nanro)
     nanro_exact_prim       : the Tier-1 theorem on this route (boards without cells included), w.r.t. gsem_avc
     nanro_keys_prim        : the answer keys are the cell values, ids n .. 2n-1
   Proof: AvcPrimCompose2.v::avc_prim_model (C04's avc_primitive) + the lemmas of NanroProofs.v / NanroSem.v about the
   module's own constraints. *)
From Coq Require Import ZArith List Bool Arith Lia.
From Cspuz Require Import Lib.PyErr Core.Expr Core.Program Graph.GraphModel Graph.ReachProofs
     Graph.Avc Graph.AvcSem Graph.AvcProofs
     Puzzle.PuzzleBase Puzzle.SatAbs Puzzle.ModelBase Puzzle.ModelLemmas Puzzle.CreekProofs Puzzle.HeyawakeLemmas
     Puzzle.Rules_norinori Puzzle.Norinori
     Puzzle.Rules_nanro Puzzle.Nanro Puzzle.NanroSem Puzzle.NanroProofs Puzzle.AvcPrimCompose2.
Import ListNotations.
Local Open Scope nat_scope.

(* the body of Nanro.v::solve_nanro_model with use_graph_primitive on in the helper call *)
Definition solve_nanro_model_prim (pb : problem) : res state :=
  let h := dim pb 0 in let w := dim pb 1 in let room := sec pb 1 in let num := sec pb 2 in
  if negb (forallb (fun z => (0 <=? z)%Z) room) || Nat.ltb (length room) (h * w) then Err ValueError
  else
  match post_avc (nanro_pre h w room) (map BVar (seq 0 (h * w))) (grid_graph h w) false true with
  | Ok st1 =>
      if Nat.ltb (length num) (h * w) then Err IndexError
      else
      let k := n_regions room in
      Ok {| vars := vars st1 ++ map (fun i => DInt 1 (nanro_size h w room i)) (seq 0 k);
            keys := keys st1 ++ repeat false k;
            cons := cons st1 ++ nanro_constraints h w room num k (next_id st1) |}
  | Err e => Err e
  end.

(* the assignment built from a rule-obeying grid: has_num 0 .. n-1, the cell values n .. 2n-1, the counters from 2n *)
Definition nanro_env_prim (n : nat) (ans : answer) (cn : nat -> Z) : env :=
  {| eb := fun i => negb (getz ans i =? 0)%Z;
     ei := fun i => if Nat.ltb i (n + n) then getz ans (i - n) else cn (i - (n + n)) |}.

Section EnvP.
  Variables (n : nat) (ans : answer) (cn : nat -> Z).
  Notation en := (nanro_env_prim n ans cn).
  Lemma nep_act j : eb en j = negb (getz ans j =? 0)%Z.
  Proof. reflexivity. Qed.
  Lemma nep_val i j : j < n -> i = n + j -> ei en i = getz ans j.
  Proof. intros H ->. cbn [ei nanro_env_prim]. destruct (Nat.ltb_spec (n + j) (n + n)); [|lia]. f_equal. lia. Qed.
  Lemma nep_cn i j : i = n + n + j -> ei en i = cn j.
  Proof. intros ->. cbn [ei nanro_env_prim]. destruct (Nat.ltb_spec (n + n + j) (n + n)); [lia|]. f_equal. lia. Qed.
End EnvP.

Theorem nanro_exact_prim h w room num st ans :
  solve_nanro_model_prim [[Z.of_nat h; Z.of_nat w]; room; num] = Ok st ->
  ((exists en, model_of gsem_avc en st /\ reads st en (seq (h * w) (h * w)) = ans)
   <-> rules_nanro [[Z.of_nat h; Z.of_nat w]; room; num] ans = true).
Proof.
  unfold solve_nanro_model_prim. destruct (dims2c h w [room; num]) as [-> ->].
  change (sec [[Z.of_nat h; Z.of_nat w]; room; num] 1) with room.
  change (sec [[Z.of_nat h; Z.of_nat w]; room; num] 2) with num.
  destruct (negb (forallb (fun z => (0 <=? z)%Z) room) || Nat.ltb (length room) (h * w)) eqn:G; [discriminate|].
  apply orb_false_iff in G. destruct G as [G1 G2]. apply negb_false_iff in G1. apply Nat.ltb_ge in G2.
  pose proof (nr_region_ok h w room G1 G2) as Hreg.
  destruct (post_avc (nanro_pre h w room) (map BVar (seq 0 (h * w))) (grid_graph h w) false true) as [st1|e] eqn:Hp;
    [|discriminate].
  destruct (Nat.ltb (length num) (h * w)); [discriminate|].
  intros H. inversion H; subst st; clear H.
  set (n := h * w) in *. set (k := n_regions room) in *. set (g := grid_graph h w) in *.
  set (acts := map BVar (seq 0 n)) in *.
  set (more := map (fun i => DInt 1 (nanro_size h w room i)) (seq 0 k)).
  set (extra := nanro_constraints h w room num k (next_id st1)).
  set (st := {| vars := vars st1 ++ more; keys := keys st1 ++ repeat false k; cons := Program.cons st1 ++ extra |}).
  assert (Hnv : nv g = n) by reflexivity.
  pose proof (avc_prim_model g (n + n) (nanro_pre h w room) st1 st acts more extra (pre_next h w room) Hp
                             eq_refl eq_refl (acts_def n) (grid_wf h w)) as MM.
  pose proof (avc_prim_next g (n + n) (nanro_pre h w room) st1 acts (pre_next h w room) Hp) as Hbase.
  assert (Hreads : forall en, reads st en (seq n n) = map (fun j => ei en (n + j)) (seq 0 n)).
  { intros en. apply (nanro_reads h w room st en more).
    unfold st. cbn [vars]. rewrite (avc_prim_vars _ _ _ _ Hp). reflexivity. }
  rewrite rules_nanro_split. fold k. fold n.
  split.
  - (* every model obeys the rules *)
    intros [en [Hm Hr]]. rewrite Hreads in Hr. subst ans. set (ans := map (fun j => ei en (n + j)) (seq 0 n)).
    apply MM in Hm. destruct Hm as [H0 [Hcn [Hmore Hex]]].
    apply pre_model in H0. destruct H0 as [Hbd Hiff].
    assert (Hval : forall y x, y < h -> x < w -> aval ans w (y, x) = env_val h w en (y, x)).
    { intros y x Hy Hx. unfold ans. rewrite (nr_aval_reading h w _ y x Hy Hx). reflexivity. }
    assert (Hloc : exists cn,
               (forall y x, y < h -> x < w ->
                            (0 <= aval ans w (y, x) <= nanro_size h w room (nanro_rid room w (y, x)))%Z) /\
               (forall i, i < k -> (1 <= cn i <= nanro_size h w room i)%Z) /\
               nanro_sem h w room num (aval ans w) cn k = true).
    { exists (fun i => ei en (next_id st1 + i)). split; [|split].
      - intros y x Hy Hx. rewrite Hval by assumption. apply Hbd; assumption.
      - apply more_bounds. rewrite Hbase. exact Hmore.
      - unfold extra in Hex. rewrite (nanro_constraints_sem gsem_avc en h w room num (next_id st1) k) in Hex.
        rewrite <- Hex. apply nanro_sem_ext; [|reflexivity]. exact Hval. }
    apply (nanro_local h w room num k (aval ans w) Hreg) in Hloc. destruct Hloc as [Hnn [Hcl [Hro [H2 Hbo]]]].
    rewrite Hcl, Hro, H2, Hbo.
    replace (Nat.eqb (length ans) n) with true by (unfold ans; rewrite map_length, seq_length; symmetry; apply Nat.eqb_refl).
    cbn [andb]. rewrite !andb_true_r. apply andb_true_iff. split.
    + apply forallb_forall. intros z Hz. unfold ans in Hz. apply in_map_iff in Hz. destruct Hz as [j [<- Hj]].
      apply in_seq in Hj. assert (Hjn : j < n) by lia. destruct (nr_cell_of_idx h w j Hjn) as [y [x [Hy [Hx E]]]].
      apply Z.leb_le. specialize (Hbd y x Hy Hx). unfold env_val in Hbd. rewrite E in Hbd. change (h * w) with n in Hbd. lia.
    + unfold cells_connected, board. fold g.
      rewrite <- (connected_b_ext_below g (pattern en acts) _ (grid_wf h w)); [exact Hcn|].
      intros v Hv. rewrite Hnv in Hv. unfold acts. rewrite pattern_acts.
      destruct (Nat.ltb_spec v n) as [_|L]; [|lia]. cbn [andb].
      destruct (nr_cell_of_idx h w v Hv) as [y [x [Hy [Hx E]]]].
      rewrite <- E, (Hiff y x Hy Hx). unfold nz, env_val. rewrite E. unfold ans.
      rewrite getz_map_seq by exact Hv. reflexivity.
  - (* every rule-obeying grid extends to a model *)
    intros Hr.
    apply andb_true_iff in Hr. destruct Hr as [Hr Hconn].
    apply andb_true_iff in Hr. destruct Hr as [Hr Hbo].
    apply andb_true_iff in Hr. destruct Hr as [Hr H2].
    apply andb_true_iff in Hr. destruct Hr as [Hr Hro].
    apply andb_true_iff in Hr. destruct Hr as [Hr Hcl].
    apply andb_true_iff in Hr. destruct Hr as [Hlen Hnn]. apply Nat.eqb_eq in Hlen.
    assert (Hloc : (forall y x, y < h -> x < w -> (0 <= aval ans w (y, x))%Z) /\
                   r_clue h w num (aval ans w) = true /\ r_rooms h w room (aval ans w) k = true /\
                   r_2x2 h w (aval ans w) = true /\ r_border h w room (aval ans w) = true).
    { split; [|tauto]. intros y x Hy Hx. cbn [aval]. unfold at2, getz. apply Z.leb_le.
      rewrite forallb_forall in Hnn. apply Hnn. apply nth_In. rewrite Hlen.
      exact (cidx_lt h w y x Hy Hx). }
    apply (nanro_local h w room num k (aval ans w) Hreg) in Hloc. destruct Hloc as [cn [Hbd [Hcn Hs]]].
    set (act := fun v => negb (getz ans v =? 0)%Z).
    unfold cells_connected, board in Hconn. fold g in Hconn.
    set (en := nanro_env_prim n ans cn).
    assert (Hval : forall y x, y < h -> x < w -> env_val h w en (y, x) = aval ans w (y, x)).
    { intros y x Hy Hx. unfold env_val, en. fold n. rewrite (nep_val n ans _ _ (cidx w (y, x))); [reflexivity| |reflexivity].
      exact (cidx_lt h w y x Hy Hx). }
    exists en. split.
    + apply MM. split; [|split; [|split]].
      * apply pre_model. split.
        -- intros y x Hy Hx. rewrite Hval by assumption. apply Hbd; assumption.
        -- intros y x Hy Hx. unfold nz. rewrite Hval by assumption. reflexivity.
      * rewrite (connected_b_ext_below g _ act (grid_wf h w)); [exact Hconn|].
        intros v Hv. rewrite Hnv in Hv. unfold acts. rewrite pattern_acts.
        destruct (Nat.ltb_spec v n) as [_|L]; [|lia]. reflexivity.
      * apply more_bounds. intros i Hi. unfold en. rewrite (nep_cn n ans _ _ i eq_refl). apply Hcn. exact Hi.
      * unfold extra. rewrite (nanro_constraints_sem gsem_avc en h w room num (next_id st1) k). rewrite <- Hs.
        apply nanro_sem_ext; [exact Hval|]. intros i Hi. rewrite Hbase. unfold en. apply nep_cn. reflexivity.
    + rewrite Hreads. transitivity (map (getz ans) (seq 0 (length ans))); [|apply map_getz_seq]. rewrite Hlen.
      apply map_ext_in. intros j Hj. apply in_seq in Hj. unfold en. apply nep_val; [lia|reflexivity].
Qed.

(* the answer keys are exactly the cell values: ids h*w .. 2*h*w-1 *)
Theorem nanro_keys_prim h w room num st :
  solve_nanro_model_prim [[Z.of_nat h; Z.of_nat w]; room; num] = Ok st ->
  keys st = repeat false (h * w) ++ repeat true (h * w) ++ repeat false (n_regions room).
Proof.
  unfold solve_nanro_model_prim. destruct (dims2c h w [room; num]) as [-> ->].
  change (sec [[Z.of_nat h; Z.of_nat w]; room; num] 1) with room.
  destruct (negb (forallb (fun z => (0 <=? z)%Z) room) || Nat.ltb (length room) (h * w)); [discriminate|].
  destruct (post_avc (nanro_pre h w room) (map BVar (seq 0 (h * w))) (grid_graph h w) false true) as [st1|e] eqn:Hp;
    [|discriminate].
  destruct (Nat.ltb _ (h * w)); [discriminate|].
  intros H. inversion H; subst st; clear H. cbn [keys].
  rewrite (avc_prim_keys _ _ _ _ Hp). cbn [keys nanro_pre]. rewrite <- !app_assoc. reflexivity.
Qed.

(* the statement is not vacuous: the model is defined on a 2x2 board with the rooms {a, b, c} / {d} and the given
   number 2 in cell b *)
Example nanro_model_prim_ok :
  exists st, solve_nanro_model_prim [[2; 2]; [0; 0; 0; 1]; [0; 2; 0; 0]]%Z = Ok st.
Proof. vm_compute. eexists. reflexivity. Qed.
