(* C11 Tier 1 - model of cspuz/puzzle/building.py::solve_building, every n:
       answer = solver.int_array((n, n), 1, n); solver.add_answer_key(answer)       # ValueError for n = 0
       for i: ensure(alldifferent(answer[i, :])); ensure(alldifferent(answer[:, i]))
       def num_visible_buildings(cells):
           res = 1
           for i in range(1, len(cells)): res += fold_and([cells[j] < cells[i] for j in range(i)]).cond(1, 0)
       for i: if up[i] >= 1: ensure(num_visible_buildings(answer[:, i]) == up[i])
              if dw[i] >= 1: ... reversed column;  lf[i]: row;  rg[i]: reversed row
   For n = 1 the count is the Python int 1 and the posted constraint is the Python bool 1 == clue.
   A clue list shorter than n raises IndexError.
   The problem uses the encoding of Rules_building.v ([[n]; up; down; left; right]).  No proofs here. *)
From Coq Require Import ZArith List Bool Arith.
From Cspuz Require Import Lib.PyErr Core.Expr Core.Program Puzzle.PuzzleBase Puzzle.ModelBase.
Import ListNotations.
Local Open Scope nat_scope.

Definition bvar (n k : nat) : expr := IVar k 1 (Z.of_nat n).

(* res += fold_and([cells[j] < cells[i] for j < i]).cond(1, 0), cell by cell; [prefix] = the cells before *)
Fixpoint vis_go (n : nat) (prefix : list nat) (acc : expr) (rest : list nat) : expr :=
  match rest with
  | [] => acc
  | v :: r =>
      vis_go n (prefix ++ [v])
             (INode ADD [acc; INode IF [BNode AND (map (fun u => BNode LT [bvar n u; bvar n v]) prefix); PyInt 1; PyInt 0]]) r
  end.
(* num_visible_buildings(cells) == c *)
Definition vis_constraint (n : nat) (ids : list nat) (c : Z) : expr :=
  match ids with
  | v0 :: (_ :: _) as r => BNode EQ [vis_go n [v0] (PyInt 1) r; PyInt c]
  | _ => PyBool (1 =? c)%Z
  end.
Definition vis_clue (n : nat) (ids : list nat) (c : Z) : list expr :=
  if (1 <=? c)%Z then [vis_constraint n ids c] else [].

Definition row_ids (n y : nat) : list nat := map (fun x => y * n + x) (seq 0 n).
Definition col_ids (n x : nat) : list nat := map (fun y => y * n + x) (seq 0 n).

Definition building_constraints (n : nat) (up dw lf rg : list Z) : list expr :=
  flat_map (fun i => [BNode ALLDIFF (map (bvar n) (row_ids n i)); BNode ALLDIFF (map (bvar n) (col_ids n i))]) (seq 0 n) ++
  flat_map (fun i => vis_clue n (col_ids n i) (getz up i) ++ vis_clue n (rev (col_ids n i)) (getz dw i) ++
                     vis_clue n (row_ids n i) (getz lf i) ++ vis_clue n (rev (row_ids n i)) (getz rg i)) (seq 0 n).

Definition int_grid_state (k : nat) (lo hi : Z) (cs : list expr) : state :=
  {| vars := repeat (DInt lo hi) k; keys := repeat true k; cons := cs |}.

Definition solve_building_model (pb : problem) : res state :=
  let n := dim pb 0 in
  if Nat.eqb n 0 then Err ValueError
  else if Nat.ltb (length (sec pb 1)) n || Nat.ltb (length (sec pb 2)) n ||
          Nat.ltb (length (sec pb 3)) n || Nat.ltb (length (sec pb 4)) n then Err IndexError
  else Ok (int_grid_state (n * n) 1 (Z.of_nat n) (building_constraints n (sec pb 1) (sec pb 2) (sec pb 3) (sec pb 4))).
