"""C11 plug-in: compass (solve_compass(height, width, problem)); problem = [(y, x, up, left, down, right)], -1 = no number."""
import c11lib as L

NAME = "compass"
MODULE = "cspuz.puzzle.compass"
FUNC = "solve_compass"
TIER1 = ("Compass", "solve_compass_model")
TIER1_PRIM = ("CompassPrim", "solve_compass_model_prim")


def call(mod, pb):
    return mod.solve_compass(pb["h"], pb["w"], [tuple(c) for c in pb["cps"]])


def ncand(pb):
    return len(pb["cps"]) ** (pb["h"] * pb["w"])


def encode(pb):
    return [[pb["h"], pb["w"]], [v for c in pb["cps"] for v in c]]


def _rand(rng, h, w, k):
    cells = rng.sample([(y, x) for y in range(h) for x in range(w)], k)
    cps = []
    for (y, x) in cells:
        nums = [(-1 if rng.random() < 0.55 else rng.randint(0, max(1, h * w // k))) for _ in range(4)]
        cps.append([y, x] + nums)
    return {"h": h, "w": w, "cps": cps}


def families(tier, rng):
    th = tier == "thorough"
    import itertools
    # one compass: every position and every clue vector on the tiniest boards
    for (h, w) in [(1, 1), (1, 2), (2, 1), (2, 2)]:
        for y in range(h):
            for x in range(w):
                for t in itertools.product(range(-1, h * w), repeat=4):
                    if h * w <= 2 or th or rng.random() < 0.15:
                        yield {"h": h, "w": w, "cps": [[y, x] + list(t)]}
    for (h, w) in [(1, 2), (2, 1), (1, 3), (3, 1), (2, 2), (2, 3), (3, 2), (3, 3), (2, 4), (1, 5)]:
        for k in (2, 3):
            if k > h * w or k ** (h * w) > 70000:
                continue
            for _ in range(120 if th else 12):
                yield _rand(rng, h, w, k)


def tier2(tier, rng):
    th = tier == "thorough"
    for (h, w, k) in [(1, 1, 1), (1, 2, 1), (1, 2, 2), (2, 2, 1), (2, 2, 2)]:
        for _ in range(6 if th else 2):
            yield _rand(rng, h, w, k)


def _t1_rand(rng, h, w, k, dup=False):
    """k compasses on random (distinct unless dup) cells; numbers absent (-1, sometimes another negative), 0, small,
    at the number of cells and beyond it"""
    allc = [(y, x) for y in range(h) for x in range(w)]
    cells = [rng.choice(allc) for _ in range(k)] if dup else rng.sample(allc, k)
    vals = [-1, -1, -1, -2, 0, 0, 1, 2, 3, max(h, w) - 1, h * w - 1, h * w, h * w + 1, 12]
    return {"h": h, "w": w, "cps": [[y, x] + [rng.choice(vals) for _ in range(4)] for (y, x) in cells]}


def tier1_problems(tier, rng):
    """program-capture tie: every single-compass problem of the boards with <= 2 cells over the numbers -2 .. h*w+1,
    every ordered placement of 1 .. h*w compasses on the boards with <= 4 cells and samples of the placements on the
    5- and 6-cell boards (both orientations) with random numbers (absent, other negatives, 0, at and beyond the number
    of cells), compasses in the corners / on the rim (empty slices), two compasses on one cell, random larger and
    non-square boards up to 7x7 and 1xN / Nx1; problems without a compass and boards without cells (ValueError),
    compasses outside the board (IndexError), a short last tuple (ValueError)"""
    import itertools
    th = tier == "thorough"
    for (h, w) in [(1, 1), (1, 2), (2, 1)]:
        for y in range(h):
            for x in range(w):
                for t in itertools.product(range(-2, h * w + 2), repeat=4):
                    if h * w == 1 or th or rng.random() < 0.2:
                        yield {"h": h, "w": w, "cps": [[y, x] + list(t)]}
    for (h, w) in [(1, 1), (1, 2), (2, 1), (1, 3), (3, 1), (2, 2), (1, 4), (4, 1)]:
        allc = [(y, x) for y in range(h) for x in range(w)]
        for k in range(1, h * w + 1):
            for cells in L.sample(rng, list(itertools.permutations(allc, k)), 24 if th else 6):
                for _ in range(3 if th else 1):
                    yield {"h": h, "w": w,
                           "cps": [[y, x] + [rng.choice([-1, -1, 0, 1, 2, h * w, h * w + 1, -3]) for _ in range(4)]
                                   for (y, x) in cells]}
    for (h, w) in [(1, 5), (5, 1), (1, 6), (6, 1), (2, 3), (3, 2)]:
        for k in range(1, h * w + 1):
            for _ in range(6 if th else 2):
                yield _t1_rand(rng, h, w, k)
    for (h, w) in [(1, 2), (2, 2), (2, 3), (3, 3)]:
        for k in (2, 3):
            yield _t1_rand(rng, h, w, k, dup=True)
        yield {"h": h, "w": w, "cps": [[0, 0, 0, 0, 1, 1], [0, 0, -1, -1, -1, -1]]}
    for (h, w) in [(3, 3), (2, 5), (5, 2), (4, 4), (3, 6), (6, 5), (1, 7), (7, 1), (7, 7), (4, 7), (7, 3), (5, 5)]:
        for k in [1, 2, 3, 5] * (3 if th else 1):
            yield _t1_rand(rng, h, w, min(k, h * w))
        # all four corners and a rim cell, every number given
        corners = sorted(set([(0, 0), (0, w - 1), (h - 1, 0), (h - 1, w - 1), (h // 2, 0), (0, w // 2)]))
        yield {"h": h, "w": w, "cps": [[y, x] + [rng.randint(0, h * w) for _ in range(4)] for (y, x) in corners]}
        yield {"h": h, "w": w, "cps": [[h // 2, w // 2, 0, 0, 0, 0]]}
    # error points
    for (h, w) in [(1, 1), (2, 3), (0, 0), (0, 2), (2, 0)]:
        yield {"h": h, "w": w, "cps": []}                                   # no compass: ValueError
    for (h, w) in [(0, 0), (0, 2), (2, 0)]:
        yield {"h": h, "w": w, "cps": [[0, 0, -1, -1, -1, -1]]}             # no cell: ValueError
        yield {"h": h, "w": w, "cps": [[0, 0, 1, 0, 2, -1], [1, 1, -1, -1, -1, -1]]}
    yield {"h": 2, "w": 2, "cps": [[0, 2, -1, -1, -1, -1]]}                 # x = w, y*w+x still a vertex: IndexError
    yield {"h": 2, "w": 2, "cps": [[1, 2, -1, -1, -1, -1]]}                 # y*w+x no vertex: IndexError
    yield {"h": 2, "w": 2, "cps": [[2, 0, 1, 1, 1, 1]]}
    yield {"h": 3, "w": 2, "cps": [[0, 0, -1, 0, -1, 0], [1, 3, 0, -1, 0, -1]]}
    yield {"h": 2, "w": 3, "cps": [[1, 1, -1, 0, -1, 0], [7, 9, 0, -1, 0, -1], [0, 0, 1, 1, 1, 1]]}
    yield {"h": 1, "w": 4, "cps": [[0, 4, 0, 0, 0, 0]]}
    yield {"h": 4, "w": 1, "cps": [[4, 0, 0, 0, 0, 0]]}
    yield {"h": 2, "w": 2, "cps": [[0, 0, -1, -1, -1, -1], [0, 1, -1, -1]]}  # short last tuple: ValueError
    yield {"h": 2, "w": 3, "cps": [[1, 2, 0, 1, 2, 0], [0, 1, 1, 0, 0]]}
    yield {"h": 1, "w": 2, "cps": [[0, 1]]}


def big(tier, rng):
    """long single-row / single-column boards cut into two regions, compasses at the two ends with two-digit counts"""
    th = tier == "thorough"
    for n in (L.LONG if th else L.sample(rng, L.LONG, 3) + [23]):
        a = rng.randint(11, n - 1)
        div = [0] * a + [1] * (n - a)
        yield {"h": 1, "w": n, "cps": [[0, 0, -1, 0, -1, a - 1], [0, n - 1, 0, n - a - 1, 0, -1]], "planted": [div]}
        yield {"h": n, "w": 1, "cps": [[0, 0, 0, -1, a - 1, -1], [n - 1, 0, n - a - 1, 0, -1, 0]], "planted": [div]}
