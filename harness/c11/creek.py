"""C11 plug-in: creek (solve_creek(height, width, problem)); problem is (h+1) x (w+1), -1 = no clue."""
import c11lib as L

NAME = "creek"
MODULE = "cspuz.puzzle.creek"
FUNC = "solve_creek"
VALUES = [-1, 0, 1, 2, 3, 4]


def call(mod, pb):
    return mod.solve_creek(pb["h"], pb["w"], pb["grid"])


def ncand(pb):
    return 2 ** (pb['h'] * pb['w'])


def encode(pb):
    return [[pb["h"], pb["w"]], L.flat(pb["grid"])]


def families(tier, rng):
    th = tier == "thorough"
    for g in L.all_grids(2, 2, VALUES):
        yield {"h": 1, "w": 1, "grid": g}
    for (h, w) in [(1, 2), (2, 1)]:
        gs = L.all_grids(h + 1, w + 1, VALUES)
        for g in (gs if th else L.sample(rng, gs, 200)):
            yield {"h": h, "w": w, "grid": g}
    for (h, w) in [(2, 2), (1, 3), (3, 1), (2, 3), (3, 2), (3, 3), (2, 4), (4, 4)]:
        for _ in range(300 if th else 30):
            yield {"h": h, "w": w, "grid": L.random_grid(rng, h + 1, w + 1, VALUES, 0.6)}


def tier2(tier, rng):
    th = tier == "thorough"
    for g in L.sample(rng, L.all_grids(2, 2, VALUES), 100 if th else 10):
        yield {"h": 1, "w": 1, "grid": g}
    for (h, w) in [(1, 2), (2, 1), (2, 2), (1, 3)]:
        for _ in range(20 if th else 3):
            yield {"h": h, "w": w, "grid": L.random_grid(rng, h + 1, w + 1, VALUES, 0.6)}
