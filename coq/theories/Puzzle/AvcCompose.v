(* C11 Tier 1 - composition with property C04: a solver that declares a boolean answer grid, calls
   graph.active_vertices_connected on it (auxiliary-variable encoding, model Graph/Avc.v::post_avc on the
   grid graph) and then posts further constraints over the grid variables only.  Uses C04's closed theorems
   avc_eval / avc_exact_models. *)
From Coq Require Import ZArith List Bool Arith Lia.
From Cspuz Require Import Lib.PyErr Core.Expr Core.Program Graph.GraphModel Graph.ReachProofs
     Graph.Avc Graph.AvcSem Graph.AvcProofs
     Puzzle.PuzzleBase Puzzle.SatAbs Puzzle.ModelBase Puzzle.ModelLemmas Puzzle.CreekProofs.
Import ListNotations.
Local Open Scope nat_scope.

Notation b2z := PuzzleBase.b2z.

Theorem avc_grid_compose h w (extra : list expr) (local : answer -> bool) st1 ans :
  post_avc (bool_grid_state (h * w) []) (map BVar (seq 0 (h * w))) (grid_graph h w) false false = Ok st1 ->
  (forall en, local (map (fun i => b2z (eb en i)) (seq 0 (h * w))) = forallb (holds gsem_avc en) extra) ->
  ((exists en, model_of gsem_avc en (ensure st1 extra) /\ reads (ensure st1 extra) en (seq 0 (h * w)) = ans)
   <-> Nat.eqb (length ans) (h * w) && forallb is01 ans &&
       cells_connected h w (fun v => isb (getz ans v)) && local ans = true).
Proof.
  set (n := h * w). set (st0 := bool_grid_state n []). set (acts := map BVar (seq 0 n)).
  intros Hp Hloc.
  destruct (AvcSem.avc_eval _ _ _ _ _ Hp) as [Hv [_ [cs [Hc _]]]].
  assert (Hn0 : next_id st0 = n) by (unfold next_id, st0; simpl; apply repeat_length).
  assert (Hmod0 : forall en, model_of gsem_avc en st0).
  { intros en. split; [apply in_bounds_bool_grid|reflexivity]. }
  pose proof (avc_exact_models false st0 acts (grid_graph h w) st1) as EX.
  assert (Hfr : fresh_below (next_id st0) acts) by (rewrite Hn0; apply acts_fresh).
  assert (Hfc : fresh_below (next_id st0) (Program.cons st0)) by (intros a []).
  assert (Hsplit : forall en, model_of gsem_avc en (ensure st1 extra) <->
                              (model_of gsem_avc en st1 /\ forallb (holds gsem_avc en) extra = true)).
  { intros en. unfold model_of, in_bounds, satisfies, ensure. simpl. rewrite forallb_app, andb_true_iff. tauto. }
  assert (Hreads : forall en, reads (ensure st1 extra) en (seq 0 n) = map (fun i => b2z (eb en i)) (seq 0 n)).
  { intros en. eapply reads_bool_prefix. simpl. rewrite Hv. reflexivity. }
  split.
  - intros [en [Hm Hr]]. rewrite Hreads in Hr. subst ans.
    apply Hsplit in Hm. destruct Hm as [Hm1 Hcl].
    replace (Nat.eqb (length (map (fun i => b2z (eb en i)) (seq 0 n))) n) with true
      by (rewrite map_length, seq_length; symmetry; apply Nat.eqb_refl).
    replace (forallb is01 (map (fun i => b2z (eb en i)) (seq 0 n))) with true
      by (rewrite forallb_map; symmetry; apply forallb_forall; intros; apply is01_b2z).
    simpl andb. apply andb_true_iff. split.
    + unfold cells_connected, board.
      rewrite (connected_b_ext _ _ (pattern en acts) (grid_wf h w) (reading_act n en)).
      apply (connected_b_spec _ _ (grid_wf h w)).
      apply (EX en (grid_wf h w) Hfr Hfc (acts_def n en) (Hmod0 en) Hp).
      exists en. split; [|exact Hm1]. intros i _. split; reflexivity.
    + rewrite Hloc. exact Hcl.
  - intros Hr.
    apply andb_true_iff in Hr. destruct Hr as [Hr Hcl].
    apply andb_true_iff in Hr. destruct Hr as [Hr Hconn].
    apply andb_true_iff in Hr. destruct Hr as [Hlen H01]. apply Nat.eqb_eq in Hlen.
    set (en0 := env_of_answer ans).
    pose proof (answer_as_reading ans n Hlen H01) as Ha. fold en0 in Ha.
    assert (Hspec : spec_avc false (grid_graph h w) (pattern en0 acts)).
    { simpl. apply (connected_b_spec _ _ (grid_wf h w)).
      rewrite <- (connected_b_ext _ _ (pattern en0 acts) (grid_wf h w) (reading_act n en0)).
      rewrite Ha. exact Hconn. }
    apply (EX en0 (grid_wf h w) Hfr Hfc (acts_def n en0) (Hmod0 en0) Hp) in Hspec.
    destruct Hspec as [en' [Hag Hm1]]. rewrite Hn0 in Hag.
    assert (Hsame : map (fun i => b2z (eb en' i)) (seq 0 n) = ans).
    { rewrite <- Ha. apply map_ext_in. intros i Hi. apply in_seq in Hi.
      destruct (Hag i ltac:(lia)) as [E _]. rewrite E. reflexivity. }
    exists en'. split; [|rewrite Hreads; exact Hsame].
    apply Hsplit. split; [exact Hm1|].
    rewrite <- Hloc, Hsame. exact Hcl.
Qed.
