"""C11 plug-in: nurikabe (solve_nurikabe(height, width, problem)); 0 empty, n >= 1 number, -1 '?'."""
import c11lib as L

NAME = "nurikabe"
MODULE = "cspuz.puzzle.nurikabe"
FUNC = "solve_nurikabe"
TIER1 = ("Nurikabe", "solve_nurikabe_model")
TIER1_PRIM = ("NurikabePrim", "solve_nurikabe_model_prim")


def call(mod, pb):
    return mod.solve_nurikabe(pb["h"], pb["w"], pb["grid"])


def ncand(pb):
    return 2 ** (pb['h'] * pb['w'])


def encode(pb):
    return [[pb["h"], pb["w"]], L.flat(pb["grid"])]


def _values(h, w):
    return [0, -1] + list(range(1, min(h * w, 4) + 1))


def families(tier, rng):
    full = [(1, 1), (1, 2), (2, 1), (1, 3), (3, 1)] + ([(2, 2)] if tier == "thorough" else [])
    for (h, w) in full:
        for g in L.all_grids(h, w, _values(h, w)):
            yield {"h": h, "w": w, "grid": g}
    if tier != "thorough":
        for g in L.sample(rng, L.all_grids(2, 2, _values(2, 2)), 150):
            yield {"h": 2, "w": 2, "grid": g}
    for (h, w) in [(2, 3), (3, 2), (1, 4), (4, 1), (3, 3), (2, 4)]:
        for _ in range(60 if tier == "thorough" else 6):
            yield {"h": h, "w": w, "grid": L.random_grid(rng, h, w, _values(h, w) + [h * w - 1], 0.7)}


def classify(pb, what):
    # the wall must be non-empty in the encoding (division_connected needs a root in every group)
    return None


def tier2(tier, rng):
    for (h, w) in [(1, 1), (1, 2), (2, 1)]:
        for g in L.all_grids(h, w, _values(h, w)):
            yield {"h": h, "w": w, "grid": g}
    for g in L.sample(rng, L.all_grids(2, 2, _values(2, 2)), 40 if tier == "thorough" else 4):
        yield {"h": 2, "w": 2, "grid": g}


def tier1_problems(tier, rng):
    """program-capture tie: every clue layout of the boards with <= 4 cells over {empty, '?', 1..4, h*w, h*w+1, stray
    negatives}, samples of the 5- and 6-cell boards (both orientations), random larger / non-square boards up to 7x7
    and 1xN / Nx1 (clue values at and beyond the number of cells, many clues, no clue), boards without cells
    (ValueError in division_connected) and clue grids with a missing or short row (IndexError)"""
    th = tier == "thorough"

    def vals(h, w):
        return sorted(set([0, -1, -2, 1, 2, 3, 4, h * w, h * w + 1]))

    for (h, w) in [(1, 1), (1, 2), (2, 1)]:
        for g in L.all_grids(h, w, vals(h, w)):
            yield {"h": h, "w": w, "grid": g}
    for (h, w) in [(1, 3), (3, 1), (2, 2), (1, 4), (4, 1)]:
        for g in L.sample(rng, L.all_grids(h, w, vals(h, w)), 400 if th else 40):
            yield {"h": h, "w": w, "grid": g}
    for (h, w) in [(1, 5), (5, 1), (1, 6), (6, 1), (2, 3), (3, 2)]:
        for p in [0.2, 0.5, 0.8] * (8 if th else 2):
            yield {"h": h, "w": w, "grid": L.random_grid(rng, h, w, vals(h, w), p)}
    for (h, w) in [(3, 3), (2, 5), (5, 2), (4, 4), (3, 6), (6, 5), (1, 7), (7, 1), (7, 7), (4, 7), (7, 3), (5, 5)]:
        for p in [0.5, 0.8, 0.95] * (3 if th else 1):
            yield {"h": h, "w": w, "grid": L.random_grid(rng, h, w, vals(h, w) + [7, 12], p)}
        yield {"h": h, "w": w, "grid": [[0] * w for _ in range(h)]}
        yield {"h": h, "w": w, "grid": [[rng.choice([-1, 1, 2, h * w]) for _ in range(w)] for _ in range(h)]}
    for (h, w) in [(0, 0), (0, 2), (2, 0)]:
        yield {"h": h, "w": w, "grid": [[] for _ in range(h)]}
    yield {"h": 2, "w": 2, "grid": [[1, 0]]}            # missing row
    yield {"h": 2, "w": 2, "grid": [[1, 0], [0]]}       # short last row
    yield {"h": 1, "w": 3, "grid": [[-1, 2]]}
    yield {"h": 3, "w": 1, "grid": [[0], [5]]}


def big(tier, rng):
    """long single-row / single-column boards with two-digit island sizes: island, wall, island"""
    th = tier == "thorough"
    for n in (L.LONG if th else L.sample(rng, L.LONG, 4) + [25]):
        a = rng.randint(10, min(12, n - 2))
        b = rng.randint(1, max(1, n - a - 1))
        c = n - a - b
        row = [0] * n
        row[rng.randrange(0, a)] = a
        if c > 0:
            row[rng.randrange(a + b, n)] = c
        white = [1] * a + [0] * b + [1] * c
        yield {"h": 1, "w": n, "grid": [row], "planted": [white]}
        yield {"h": n, "w": 1, "grid": [[v] for v in row], "planted": [white]}
