(* C03, printer side: the text _convert_expr emits is read by the reference
   Sugar parser as an expression whose Sugar meaning is [eval]. *)
From Coq Require Import ZArith List Bool String Ascii DecimalString DecimalZ DecimalPos Lia.
From Cspuz Require Import Lib.PyErr Core.Expr Core.Program Backend.SugarText Backend.SugarTextProofs
  Gen.SugarOps Backend.Sugar Backend.SugarReply Backend.SugarLexProofs Backend.SugarSpec.
Import ListNotations.
Open Scope string_scope.

(* ---- nested induction on trees ---- *)
Section ExprInd.
  Variable P : expr -> Prop.
  Hypothesis Hpb : forall b, P (PyBool b).
  Hypothesis Hpi : forall z, P (PyInt z).
  Hypothesis Hpn : P PyNone.
  Hypothesis Hbv : forall i, P (BVar i).
  Hypothesis Hiv : forall i lo hi, P (IVar i lo hi).
  Hypothesis Hbn : forall o args, Forall P args -> P (BNode o args).
  Hypothesis Hin : forall o args, Forall P args -> P (INode o args).
  Fixpoint expr_nested_ind (e : expr) : P e :=
    match e with
    | PyBool b => Hpb b
    | PyInt z => Hpi z
    | PyNone => Hpn
    | BVar i => Hbv i
    | IVar i lo hi => Hiv i lo hi
    | BNode o args =>
        Hbn o args ((fix go (l : list expr) : Forall P l :=
                       match l with
                       | [] => Forall_nil P
                       | x :: r => Forall_cons x (expr_nested_ind x) (go r)
                       end) args)
    | INode o args =>
        Hin o args ((fix go (l : list expr) : Forall P l :=
                       match l with
                       | [] => Forall_nil P
                       | x :: r => Forall_cons x (expr_nested_ind x) (go r)
                       end) args)
    end.
End ExprInd.

(* ---- numerals and names as atoms ---- *)
Lemma int_atom_pz z : int_atom (pz z) = Some z.
Proof.
  unfold int_atom, pz. rewrite NilZero.isi.
  - simpl. rewrite DecimalZ.of_to. reflexivity.
  - destruct z; simpl; try discriminate. intros [= H]. exact (Unsigned.to_uint_nonnil _ H).
  - destruct z; simpl; try discriminate. intros [= H]. exact (Unsigned.to_uint_nonnil _ H).
Qed.

Lemma pz_atom z : is_atom (pz z).
Proof.
  split; [|apply pz_nonempty].
  apply (all_chars_impl tokc atomc _ tokc_atomc), pz_tokc.
Qed.

Lemma name_atom (c : ascii) z : tokc c = true -> is_atom (String c (pz z)).
Proof.
  intros Hc; split; [|discriminate]. simpl. rewrite (tokc_atomc _ Hc). simpl.
  apply (all_chars_impl tokc atomc _ tokc_atomc), pz_tokc.
Qed.

Lemma int_atom_letter (c : ascii) r : is_digit c = false -> Ascii.eqb c "-" = false -> int_atom (String c r) = None.
Proof.
  intros Hd Hm. unfold int_atom. simpl. rewrite Hm. simpl.
  destruct (NilEmpty.uint_of_string r); [|reflexivity]. simpl.
  revert Hd. by_char c.
Qed.

Lemma sem_int gsem rho z : sugar_sem gsem rho (SAtom (pz z)) = Some (VI z).
Proof.
  simpl. destruct (pz_not_true z) as [-> ->]. rewrite int_atom_pz. reflexivity.
Qed.

Lemma sem_bvar gsem en i : sugar_sem gsem (name_env en) (SAtom ("b" ++ pn i)) = Some (VB (eb en i)).
Proof.
  simpl. rewrite int_atom_letter by reflexivity.
  unfold pn. rewrite int_atom_pz.
  destruct (Z.ltb_spec (Z.of_nat i) 0); [lia|]. rewrite Nat2Z.id. reflexivity.
Qed.
Lemma sem_ivar gsem en i : sugar_sem gsem (name_env en) (SAtom ("i" ++ pn i)) = Some (VI (ei en i)).
Proof.
  simpl. rewrite int_atom_letter by reflexivity.
  unfold pn. rewrite int_atom_pz.
  destruct (Z.ltb_spec (Z.of_nat i) 0); [lia|]. rewrite Nat2Z.id. reflexivity.
Qed.

(* ---- the operator table (generated from OP_TO_OPNAME) agrees with Sugar's names ---- *)
(* a name that can head a constraint: one atom, printable, not a declaration keyword *)
Definition good_name (n : string) : Prop :=
  is_atom n /\ all_chars printc n = true /\ String.eqb n "int" = false /\ String.eqb n "bool" = false.

Lemma all_some_length {A} (l : list (option A)) r : all_some l = Some r -> List.length r = List.length l.
Proof.
  revert r; induction l as [|[a|] l IH]; simpl; intros r H; try discriminate.
  - inversion H; reflexivity.
  - destruct (all_some l); try discriminate. inversion H; subst; simpl. f_equal. apply IH. reflexivity.
Qed.

Section Table.
  Variable gsem : op -> list (option value) -> option bool.

  Ltac shapes l :=
    destruct l as [|[?|?] [|[?|?] [|[?|?] [|[?|?] ?]]]]; try reflexivity.

  (* one case per operator present in the table, in the order of [op]; inside a
     case nothing depends on which of Sugar's spellings the table uses *)
  Ltac unf := unfold eval_node, sugar_apply, eval_iop, eval_bop; simpl.
  Ltac generic := intros vs Ha; unf; reflexivity.

  Lemma opname_agrees : forall o n, opname o = Some n ->
    good_name n /\
    forall vs, arity_ok o (List.length vs) = true -> sugar_apply gsem n vs = eval_node gsem o vs.
  Proof.
    intros o n H.
    destruct o; vm_compute in H; try discriminate; injection H as <-;
      (split; [split; [split; [vm_compute; reflexivity | discriminate] | repeat split; vm_compute; reflexivity] |]).
    - (* NEG *)
      intros vs Ha. unf. destruct vs as [|v [|? ?]]; try discriminate. simpl.
      destruct v as [[?|?]|]; reflexivity.
    - (* ADD *)
      intros vs Ha. unf. destruct vs as [|v vs]; try discriminate.
      destruct (all_some (v :: vs)) as [l|] eqn:E; [|reflexivity].
      pose proof (all_some_length _ _ E) as Hl. destruct l as [|x l]; [discriminate|].
      unfold sum_ints. destruct (as_ints (x :: l)); reflexivity.
    - (* SUB *)
      intros vs Ha. unf. destruct vs as [|v [|w vs]]; try discriminate.
      destruct (all_some (v :: w :: vs)) as [l|] eqn:E; [|reflexivity].
      pose proof (all_some_length _ _ E) as Hl. destruct l as [|x [|y l]]; try discriminate.
      unfold sum_ints. destruct x as [?|a]; [reflexivity|].
      simpl as_ints. destruct y as [?|b]; [reflexivity|].
      destruct (as_ints l); reflexivity.
    - (* EQ *) generic.
    - (* NE *) generic.
    - (* LE *) generic.
    - (* LT *) generic.
    - (* GE *) generic.
    - (* GT *) generic.
    - (* NOT *) generic.
    - (* AND *) generic.
    - (* OR *) generic.
    - (* IFF *) generic.
    - (* XOR *) generic.
    - (* IMP *) generic.
    - (* IF *) generic.
    - (* ALLDIFF *) generic.
    - (* G_AVC *) generic.
    - (* G_DIV *) generic.
  Qed.

  (* every operator that reaches the table lookup has a name *)
  Lemma opname_total : forall o, o <> VAR -> o <> BOOL_CONSTANT -> o <> INT_CONSTANT -> opname o <> None.
  Proof. intros o H1 H2 H3; destruct o; try congruence; vm_compute; discriminate. Qed.
End Table.

(* ---- the printer ---- *)
Definition node_text (n : string) (parts : list string) : string :=
  "(" ++ n ++ " " ++ join " " parts ++ ")".

Lemma go_mapM : forall args,
  (fix go (l : list expr) : res (list string) :=
     match l with
     | [] => Ok []
     | x :: r => bind (print_expr x) (fun s => bind (go r) (fun ss => Ok (s :: ss)))
     end) args = mapM print_expr args.
Proof. induction args as [|a r IH]; simpl; [reflexivity|]. rewrite IH. reflexivity. Qed.

Opaque opname.

Lemma print_bnode o args n :
  o <> BOOL_CONSTANT -> o <> INT_CONSTANT -> opname o = Some n ->
  print_expr (BNode o args) = bind (mapM print_expr args) (fun parts => Ok (node_text n parts)).
Proof.
  intros H1 H2 Hn. destruct o; try congruence; simpl; rewrite Hn, go_mapM; reflexivity.
Qed.
Lemma print_inode o args n :
  o <> BOOL_CONSTANT -> o <> INT_CONSTANT -> opname o = Some n ->
  print_expr (INode o args) = bind (mapM print_expr args) (fun parts => Ok (node_text n parts)).
Proof.
  intros H1 H2 Hn. destruct o; try congruence; simpl; rewrite Hn, go_mapM; reflexivity.
Qed.

Transparent opname.

Lemma sem_node gsem rho f args :
  sugar_sem gsem rho (SList (SAtom f :: args)) = sugar_apply gsem f (map (sugar_sem gsem rho) args).
Proof. reflexivity. Qed.

(* shape of an expression that is a constraint, not a declaration *)
Definition cshape (x : sexp) : bool :=
  match x with
  | SAtom _ => true
  | SList (SAtom k :: _) => negb (String.eqb k "int") && negb (String.eqb k "bool")
  | SList _ => false
  end.

Lemma join_printc parts :
  Forall (fun p => all_chars printc p = true) parts -> all_chars printc (join " " parts) = true.
Proof.
  induction 1 as [|p r Hp Hr IH]; [reflexivity|]. simpl. destruct r; [assumption|].
  rewrite !all_chars_app, Hp. simpl in *. exact IH.
Qed.
Lemma node_text_printc n parts :
  all_chars printc n = true -> Forall (fun p => all_chars printc p = true) parts ->
  all_chars printc (node_text n parts) = true.
Proof.
  intros Hn Hp. unfold node_text. rewrite !all_chars_app, Hn, (join_printc _ Hp). reflexivity.
Qed.

Section Denote.
  Variable gsem : op -> list (option value) -> option bool.

  Definition denotes (e : expr) : Prop :=
    exists s x, print_expr e = Ok s /\ reads_as s x /\ all_chars printc s = true /\ cshape x = true /\
      forall en, sugar_sem gsem (name_env en) x = eval gsem en e.

  Lemma args_denote args : Forall denotes args ->
    exists parts xs, mapM print_expr args = Ok parts /\ Forall2 reads_as parts xs /\
      Forall (fun p => all_chars printc p = true) parts /\
      forall en, map (sugar_sem gsem (name_env en)) xs = map (eval gsem en) args.
  Proof.
    induction 1 as [|a r [s [x [Hp [Hr [Hc [_ Hs]]]]]] _ [parts [xs [Hm [Hf [Hpc Hv]]]]]].
    - exists [], []. repeat split; constructor.
    - exists (s :: parts), (x :: xs). simpl. rewrite Hp, Hm. simpl. repeat split.
      + constructor; assumption.
      + constructor; assumption.
      + intros en. rewrite Hs, Hv. reflexivity.
  Qed.

  Lemma node_denotes (mk : op -> list expr -> expr) o args n :
    (forall o args, print_expr (mk o args) = print_expr (BNode o args)) ->
    o <> BOOL_CONSTANT -> o <> INT_CONSTANT -> opname o = Some n ->
    arity_ok o (List.length args) = true -> Forall denotes args ->
    exists s x, print_expr (mk o args) = Ok s /\ reads_as s x /\ all_chars printc s = true /\ cshape x = true /\
      forall en, sugar_sem gsem (name_env en) x = eval_node gsem o (map (eval gsem en) args).
  Proof.
    intros Hmk H1 H2 Hn Ha Hargs.
    destruct (args_denote _ Hargs) as [parts [xs [Hm [Hf [Hpc Hv]]]]].
    destruct (opname_agrees gsem o n Hn) as [[Hat [Hnp [Hni Hnb]]] Hsem].
    exists (node_text n parts), (SList (SAtom n :: xs)). repeat split.
    - rewrite Hmk, (print_bnode o args n H1 H2 Hn), Hm. reflexivity.
    - apply reads_node; assumption.
    - apply node_text_printc; assumption.
    - simpl. rewrite Hni, Hnb. reflexivity.
    - intros en. rewrite sem_node, Hv. apply Hsem. rewrite map_length. exact Ha.
  Qed.

  Lemma forallb_okarg (f : expr -> bool) args :
    (forall a, f a = true -> okarg a = true) ->
    Forall (fun e => okarg e = true -> denotes e) args -> forallb f args = true -> Forall denotes args.
  Proof.
    intros Hf H; induction H; simpl; intros Hb; constructor;
      apply andb_true_iff in Hb as [Hb1 Hb2]; auto.
  Qed.
  Lemma okarg_t a : wts true a = true -> okarg a = true.
  Proof. unfold okarg; intros ->; reflexivity. Qed.
  Lemma okarg_f a : wts false a = true -> okarg a = true.
  Proof. unfold okarg; intros ->; rewrite orb_true_r; reflexivity. Qed.

  Lemma atom_true : is_atom "true". Proof. split; [reflexivity|discriminate]. Qed.
  Lemma atom_false : is_atom "false". Proof. split; [reflexivity|discriminate]. Qed.
  Lemma atom_star : is_atom "*". Proof. split; [reflexivity|discriminate]. Qed.

  Lemma bool_denotes b : denotes (PyBool b).
  Proof.
    exists (bool_text b), (SAtom (bool_text b)). repeat split.
    - destruct b; apply reads_atom; [apply atom_true | apply atom_false].
    - destruct b; reflexivity.
    - intros en; destruct b; reflexivity.
  Qed.
  Lemma int_denotes z : denotes (PyInt z).
  Proof.
    exists (pz z), (SAtom (pz z)). repeat split.
    - apply reads_atom, pz_atom.
    - apply (all_chars_impl tokc printc _ tokc_printc), pz_tokc.
    - intros en. apply sem_int.
  Qed.
  Lemma name_printc (c : ascii) i : tokc c = true -> all_chars printc (String c (pn i)) = true.
  Proof.
    intros Hc. simpl. rewrite (tokc_printc _ Hc). simpl.
    apply (all_chars_impl tokc printc _ tokc_printc), pz_tokc.
  Qed.

  Ltac name_of_op o n E :=
    destruct (opname o) as [n|] eqn:E;
    [| exfalso; revert E; apply opname_total; discriminate].

  Theorem print_denotes_gen : forall e, okarg e = true -> denotes e.
  Proof.
    induction e as [b|z| |i|i lo hi|o args IH|o args IH] using expr_nested_ind; intros Hok.
    - apply bool_denotes.
    - apply int_denotes.
    - exists "*", (SAtom "*"). repeat split.
      apply reads_atom, atom_star.
    - exists ("b" ++ pn i), (SAtom ("b" ++ pn i)). repeat split.
      + apply reads_atom. apply (name_atom "b"). reflexivity.
      + apply (name_printc "b"). reflexivity.
      + intros en. apply sem_bvar.
    - exists ("i" ++ pn i), (SAtom ("i" ++ pn i)). repeat split.
      + apply reads_atom. apply (name_atom "i"). reflexivity.
      + apply (name_printc "i"). reflexivity.
      + intros en. apply sem_ivar.
    - (* BoolExpr *)
      unfold okarg in Hok. simpl in Hok. rewrite !orb_false_r in Hok.
      destruct o; simpl in Hok; try discriminate.
      + (* BOOL_CONSTANT *)
        destruct args as [|[b| | | | | |] [|? ?]]; try discriminate.
        destruct (bool_denotes b) as [s [x [Hp [Hr [Hc [Hsh Hs]]]]]].
        exists s, x. repeat split; auto; intros en; rewrite Hs; reflexivity.
      + name_of_op EQ n E. apply andb_true_iff in Hok as [_ Hok].
        apply (node_denotes BNode EQ args n); auto; try discriminate. apply (forallb_okarg (wts false)); auto using okarg_f.
      + name_of_op NE n E. apply andb_true_iff in Hok as [_ Hok].
        apply (node_denotes BNode NE args n); auto; try discriminate. apply (forallb_okarg (wts false)); auto using okarg_f.
      + name_of_op LE n E. apply andb_true_iff in Hok as [_ Hok].
        apply (node_denotes BNode LE args n); auto; try discriminate. apply (forallb_okarg (wts false)); auto using okarg_f.
      + name_of_op LT n E. apply andb_true_iff in Hok as [_ Hok].
        apply (node_denotes BNode LT args n); auto; try discriminate. apply (forallb_okarg (wts false)); auto using okarg_f.
      + name_of_op GE n E. apply andb_true_iff in Hok as [_ Hok].
        apply (node_denotes BNode GE args n); auto; try discriminate. apply (forallb_okarg (wts false)); auto using okarg_f.
      + name_of_op GT n E. apply andb_true_iff in Hok as [_ Hok].
        apply (node_denotes BNode GT args n); auto; try discriminate. apply (forallb_okarg (wts false)); auto using okarg_f.
      + name_of_op NOT n E. apply andb_true_iff in Hok as [_ Hok].
        apply (node_denotes BNode NOT args n); auto; try discriminate. apply (forallb_okarg (wts true)); auto using okarg_t.
      + name_of_op AND n E.
        apply (node_denotes BNode AND args n); auto; try discriminate. apply (forallb_okarg (wts true)); auto using okarg_t.
      + name_of_op OR n E.
        apply (node_denotes BNode OR args n); auto; try discriminate. apply (forallb_okarg (wts true)); auto using okarg_t.
      + name_of_op IFF n E. apply andb_true_iff in Hok as [_ Hok].
        apply (node_denotes BNode IFF args n); auto; try discriminate. apply (forallb_okarg (wts true)); auto using okarg_t.
      + name_of_op XOR n E. apply andb_true_iff in Hok as [_ Hok].
        apply (node_denotes BNode XOR args n); auto; try discriminate. apply (forallb_okarg (wts true)); auto using okarg_t.
      + name_of_op IMP n E. apply andb_true_iff in Hok as [_ Hok].
        apply (node_denotes BNode IMP args n); auto; try discriminate. apply (forallb_okarg (wts true)); auto using okarg_t.
      + name_of_op ALLDIFF n E.
        apply (node_denotes BNode ALLDIFF args n); auto; try discriminate. apply (forallb_okarg (wts false)); auto using okarg_f.
      + name_of_op G_AVC n E.
        apply (node_denotes BNode G_AVC args n); auto; try discriminate. apply (forallb_okarg okarg); auto.
      + name_of_op G_DIV n E.
        apply (node_denotes BNode G_DIV args n); auto; try discriminate. apply (forallb_okarg okarg); auto.
    - (* IntExpr *)
      unfold okarg in Hok. simpl in Hok. rewrite !orb_false_r in Hok.
      destruct o; simpl in Hok; try discriminate.
      + (* INT_CONSTANT *)
        destruct args as [|[ |z| | | | |] [|? ?]]; try discriminate.
        destruct (int_denotes z) as [s [x [Hp [Hr [Hc [Hsh Hs]]]]]].
        exists s, x. repeat split; auto; intros en; rewrite Hs; reflexivity.
      + name_of_op NEG n E. apply andb_true_iff in Hok as [Hl Hok].
        apply (node_denotes INode NEG args n); auto; try discriminate. apply (forallb_okarg (wts false)); auto using okarg_f.
      + name_of_op ADD n E. apply andb_true_iff in Hok as [Hl Hok].
        apply (node_denotes INode ADD args n); auto; try discriminate. apply (forallb_okarg (wts false)); auto using okarg_f.
      + name_of_op SUB n E. apply andb_true_iff in Hok as [Hl Hok].
        apply (node_denotes INode SUB args n); auto; try discriminate. apply (forallb_okarg (wts false)); auto using okarg_f.
      + name_of_op IF n E.
        destruct args as [|c [|t [|f [|? ?]]]]; try discriminate.
        apply andb_true_iff in Hok as [Hok Hf]. apply andb_true_iff in Hok as [Hc Ht].
        apply (node_denotes INode IF [c; t; f] n); auto; try discriminate.
        inversion IH as [|? ? IHc IH1]; subst. inversion IH1 as [|? ? IHt IH2]; subst.
        inversion IH2 as [|? ? IHf _]; subst.
        repeat constructor; auto using okarg_t, okarg_f.
  Qed.

  (* as long as Op.SUB is spelled "-", a one-operand SUB is printed as Sugar's
     negation: outside [wts] for a reason *)
  Lemma sub1_misprinted : opname SUB = Some "-" -> forall en,
    exists s x, print_expr (INode SUB [PyInt 1]) = Ok s /\ sx_parse s = Some x /\
      sugar_sem gsem (name_env en) x = Some (VI (-1)) /\ eval gsem en (INode SUB [PyInt 1]) = Some (VI 1).
  Proof.
    intros Hn en. rewrite (print_inode SUB [PyInt 1] "-") by (auto; discriminate).
    eexists _, _. repeat split; vm_compute; reflexivity.
  Qed.
End Denote.
