(* C17: decoding is total — for every term satisfying the side conditions and EVERY text, [de]
   returns None, a value, or fails with ValueError; the URL level likewise; returned grids have
   the declared dimensions. *)
From Coq Require Import ZArith List Ascii Bool NArith Lia.
From Cspuz Require Import Lib.PyErr Codec.Comb Codec.CombWf Codec.CombBasics Codec.Legacy Codec.Url Codec.Yajilin Codec.Puzzles
  Codec.TotalModel Codec.TotalLeaf Codec.TotalRooms.
Import ListNotations.
Local Open Scope Z_scope.

(* ------------------------------------------------------------------ induction on terms *)
Section CombInd.
  Variable P : comb -> Prop.
  Hypothesis Hfix : forall s, P (FixStr s).
  Hypothesis Hdict : forall b a, P (Dict b a).
  Hypothesis Hspaces : forall sp sm, P (Spaces sp sm).
  Hypothesis Hdec : P DecInt.
  Hypothesis Hhex : P HexInt.
  Hypothesis Hisp : forall sp mi ms, P (IntSpaces sp mi ms).
  Hypothesis Hmd : forall b d, P (MultiDigit b d).
  Hypothesis Honeof : forall l, Forall P l -> P (OneOf l).
  Hypothesis Htupl : forall l, Forall P l -> P (Tupl l).
  Hypothesis Hseq : forall c n, P c -> P (Seq c n).
  Hypothesis Hgrid : forall c hw, P c -> P (Grid c hw).
  Hypothesis Hrooms : forall s a, P (Rooms s a).
  Hypothesis Hvrooms : forall c s a, P c -> P (ValuedRooms c s a).
  Hypothesis Hcustom : forall k, P (Custom k).
  Fixpoint comb_indT (c : comb) : P c :=
    match c with
    | FixStr s => Hfix s
    | Dict b a => Hdict b a
    | Spaces sp sm => Hspaces sp sm
    | DecInt => Hdec
    | HexInt => Hhex
    | IntSpaces sp mi ms => Hisp sp mi ms
    | MultiDigit b d => Hmd b d
    | OneOf l => Honeof l ((fix go (l : list comb) : Forall P l :=
                              match l with [] => Forall_nil P | x :: t => Forall_cons x (comb_indT x) (go t) end) l)
    | Tupl l => Htupl l ((fix go (l : list comb) : Forall P l :=
                            match l with [] => Forall_nil P | x :: t => Forall_cons x (comb_indT x) (go t) end) l)
    | Seq c1 n => Hseq c1 n (comb_indT c1)
    | Grid c1 hw => Hgrid c1 hw (comb_indT c1)
    | Rooms s a => Hrooms s a
    | ValuedRooms c1 s a => Hvrooms c1 s a (comb_indT c1)
    | Custom k => Hcustom k
    end.
End CombInd.

Lemma Forall_imp_forallb (T : Prop) (P : comb -> Prop) l :
  Forall (fun c => dec_ok c = true -> T \/ custom_free c = true -> P c) l ->
  forallb dec_ok l = true -> T \/ forallb custom_free l = true -> Forall P l.
Proof.
  induction 1 as [|c l H1 HF IH]; simpl; intros Hb Hc; constructor.
  - apply andb_true_iff in Hb as [Hb _]. apply H1; auto.
    destruct Hc as [Hc|Hc]; auto. apply andb_true_iff in Hc as [Hc _]. auto.
  - apply andb_true_iff in Hb as [_ Hb]. apply IH; auto.
    destruct Hc as [Hc|Hc]; auto. apply andb_true_iff in Hc as [_ Hc]. auto.
Qed.

(* ------------------------------------------------------------------ the main invariant *)
Lemma seq_good e c n : good e c -> productive c = true -> good e (Seq c n).
Proof.
  intros Hc Hp s. simpl. unfold good in Hc. rewrite Hp in Hc.
  destruct (seq_de_good (de e c) (single c) anyv Hc n s) as [H1 H2]. split; auto.
  intros k l Hk. destruct (H2 k l Hk) as (A & ret & -> & _ & _).
  repeat split; auto using Forall_anyv. intros _; right; discriminate.
Qed.

Lemma grid_good e c hw : good e c -> productive c = true ->
  0 <= fst (grid_dims e hw) * snd (grid_dims e hw) -> good e (Grid c hw).
Proof.
  intros Hc Hp Hn s. simpl. unfold good in Hc. rewrite Hp in Hc.
  destruct (grid_de_good (de e c) (single c) anyv e hw Hc Hn s) as [H1 H2]. split; auto.
  intros k l Hk. destruct (H2 k l Hk) as (A & d2 & -> & _ & _).
  repeat split; auto using Forall_anyv. intros _; right; discriminate.
Qed.

Lemma custom_good e k : custom_total (cust e) -> good e (Custom k).
Proof.
  intros Hcu s. simpl. destruct (Hcu k s) as [H1 H2]. split; auto.
  intros n l Hk. destruct (H2 n l Hk) as [A B]. repeat split; auto using Forall_anyv; try discriminate.
  intros _. right. destruct l; [discriminate|congruence].
Qed.

Theorem de_good e : env_nonneg e -> forall c, dec_ok c = true -> customs_ok (cust e) c -> good e c.
Proof.
  intros Henv. unfold customs_ok. induction c using comb_indT; intros Hok Hcu.
  - exact (fixstr_good s anyv).
  - apply dict_good. exact Hok.
  - apply spaces_good.
  - eapply gooddec_weaken; [|apply decint_good]. intros; exact I.
  - eapply gooddec_weaken; [|apply hexint_good]. intros; exact I.
  - apply intspaces_good.
  - eapply gooddec_weaken; [|apply md_good]. intros; exact I.
  - apply oneof_good. eapply Forall_imp_forallb; eauto.
  - apply tupl_good. eapply Forall_imp_forallb; eauto.
  - simpl in Hok. apply andb_true_iff in Hok as [H1 H2]. apply seq_good; auto.
  - simpl in Hok. destruct hw as [[h w]|].
    + apply andb_true_iff in Hok as [Hok H3]. apply andb_true_iff in Hok as [H1 H2].
      apply grid_good; auto. simpl. apply Z.leb_le. exact H3.
    + apply andb_true_iff in Hok as [H1 H2]. apply grid_good; auto.
  - apply rooms_good.
  - simpl in Hok. apply andb_true_iff in Hok as [H1 H2]. apply vrooms_good; auto.
  - apply custom_good. destruct Hcu as [Hcu|Hcu]; [exact Hcu|discriminate].
Qed.

(* Combinator.deserialize: for every term satisfying the side conditions and EVERY text *)
Theorem de_total_lemma e c : dec_ok c = true -> customs_ok (cust e) c -> env_nonneg e ->
  forall s, safe (de e c s).
Proof. intros Hok Hcu Henv s. destruct (de_good e Henv c Hok Hcu s) as [H _]. exact H. Qed.

(* ... at any offset, and the count of characters read stays within the text *)
Theorem de_at_total_lemma e c : dec_ok c = true -> customs_ok (cust e) c -> env_nonneg e ->
  forall data idx, safe (de_at e c data idx) /\
    forall k l, de_at e c data idx = Ok (Some (k, l)) -> (idx + k <= Nat.max idx (length data))%nat.
Proof.
  intros Hok Hcu Henv data idx. unfold de_at. destruct (de_good e Henv c Hok Hcu (skipn idx data)) as [H1 H2].
  split; auto. intros k l Hk. destruct (H2 k l Hk) as (A & _). rewrite skipn_length in A. lia.
Qed.

(* ------------------------------------------------------------------ the custom combinators in use *)
Lemma no_custom_not_total : ~ custom_total no_custom.
Proof. intros H. destruct (H 0%nat []) as [Hs _]. simpl in Hs. discriminate. Qed.

Lemma yajilin_finish_good dir num n_read :
  safe (yajilin_finish dir num n_read) /\
  forall n l, yajilin_finish dir num n_read = Ok (Some (n, l)) -> n = n_read /\ length l = 1%nat.
Proof.
  unfold yajilin_finish.
  destruct (ascii_eqb dir "0"%char). { split; [exact I|]. intros n l H; inversion H; auto. }
  destruct (negb (in_1234 dir)). { split; [exact I|discriminate]. }
  destruct (str_eqb num ["."%char]). { split; [exact I|]. intros n l H; inversion H; auto. }
  pose proof (py_int_safe num 16) as Hs. destruct (py_int num 16) as [v|err]; simpl.
  - destruct (v <? 0). { split; [exact I|discriminate]. }
    split; [exact I|]. intros n l H; inversion H; auto.
  - split; [exact Hs|discriminate].
Qed.

Lemma yajilin_custom_total : custom_total yajilin_custom.
Proof.
  intros k s. simpl. unfold yajilin_de.
  destruct s as [|c [|c1 t1]]; try (split; [exact I|discriminate]).
  destruct (ascii_eqb c "-"%char).
  { destruct (Nat.ltb (length (c :: c1 :: t1)) 5) eqn:E; [split; [exact I|discriminate]|].
    apply Nat.ltb_ge in E. destruct (yajilin_finish_good c1 (firstn 3 t1) 5) as [H1 H2]. split; auto.
    intros n l Hk. destruct (H2 n l Hk) as [-> B]. auto. }
  destruct (in_56789 c).
  { destruct (Nat.ltb (length (c :: c1 :: t1)) 3) eqn:E; [split; [exact I|discriminate]|].
    apply Nat.ltb_ge in E. destruct (yajilin_finish_good (chr (ord c - 5)) (firstn 2 (c1 :: t1)) 3) as [H1 H2]. split; auto.
    intros n l Hk. destruct (H2 n l Hk) as [-> B]. auto. }
  destruct (yajilin_finish_good c [c1] 2) as [H1 H2]. split; auto.
  intros n l Hk. destruct (H2 n l Hk) as [-> B]. split; auto. simpl. lia.
Qed.

(* ------------------------------------------------------------------ deserialize_problem *)
Theorem problem_total_lemma cu c h w : dec_ok c = true -> single c = true -> customs_ok cu c -> 0 <= h * w ->
  forall s, safe (deserialize_problem_cu cu c s h w).
Proof.
  intros Hok Hsg Hcu Hn s. unfold deserialize_problem_cu.
  destruct (de_good (cu_env cu h w) Hn c Hok Hcu s) as [H1 H2].
  destruct (de (cu_env cu h w) c s) as [[[k l]|]|] eqn:E.
  - destruct (H2 k l eq_refl) as (_ & _ & C & _). specialize (C Hsg).
    destruct l as [|p [|q l]]; try discriminate. exact I.
  - exact I.
  - exact H1.
Qed.

(* ------------------------------------------------------------------ the URL: sizes are digit strings *)
Lemma span_until_forall (stop : ascii -> bool) : forall s a b, span_until stop s = (a, b) ->
  forallb (fun c => negb (stop c)) a = true.
Proof.
  induction s as [|c s IH]; simpl; intros a b H.
  - inversion H; reflexivity.
  - destruct (stop c) eqn:E. { inversion H; reflexivity. }
    destruct (span_until stop s) as [a' b'] eqn:E'. inversion H; subst. simpl. rewrite E. simpl. eapply IH; eauto.
Qed.

Lemma digit_table : forallb (fun ch => implb (is_ascii_digit ch) (cleanb 10 ch && (0 <=? dv ch))) all_chars = true.
Proof. vm_compute. reflexivity. Qed.

Lemma digit_clean10 ch : is_ascii_digit ch = true -> cleanb 10 ch = true /\ 0 <= dv ch.
Proof.
  intros Hd. pose proof (forall_chars _ digit_table ch) as H. simpl in H. rewrite Hd in H. simpl in H.
  apply andb_true_iff in H as [H1 H2]. apply Z.leb_le in H2. auto.
Qed.

Lemma valacc_nonneg : forall ds acc, forallb is_ascii_digit ds = true -> 0 <= acc -> 0 <= valacc 10 acc ds.
Proof.
  induction ds as [|c ds IH]; simpl; intros acc Hd Ha; auto.
  apply andb_true_iff in Hd as [Hc Hd]. unfold valacc in *. simpl. apply IH; auto.
  unfold step. destruct (digit_clean10 c Hc). lia.
Qed.

Lemma digits_int ds : ds <> [] -> forallb is_ascii_digit ds = true -> exists v, py_int ds 10 = Ok v /\ 0 <= v.
Proof.
  intros Hne Hd. exists (valacc 10 0 ds). split; [|apply valacc_nonneg; auto; lia].
  apply py_int_clean; auto. rewrite forallb_forall in *. intros c Hc. apply digit_clean10. auto.
Qed.

Lemma url_match_sizes url name wd hd body : url_match url = Some (name, wd, hd, body) ->
  exists w h, py_int wd 10 = Ok w /\ py_int hd 10 = Ok h /\ 0 <= w /\ 0 <= h.
Proof.
  unfold url_match.
  destruct (strip_prefix s_http url) as [r0|]; [|discriminate].
  match goal with |- context [strip_prefix s_colon_slashes ?r] => destruct (strip_prefix s_colon_slashes r) as [r2|]; [|discriminate] end.
  destruct (span_until is_slash r2) as [host r3]. destruct host as [|h0 host]; [discriminate|].
  destruct (strip_prefix s_slash_p r3) as [r4|]; [|discriminate].
  match goal with |- context [match ?r5 with [] => None | q :: r6 => _ end = _] => destruct r5 as [|q r6]; [discriminate|] end.
  destruct (negb (ascii_eqb q "?"%char)); [discriminate|].
  destruct (span_until is_slash r6) as [nm r7]. destruct nm as [|n0 nm]; [discriminate|]. destruct r7 as [|c7 r8]; [discriminate|].
  destruct (span_until (fun c => negb (is_ascii_digit c)) r8) as [wd' r9] eqn:Ew.
  destruct wd' as [|w0 wd']; [discriminate|]. destruct r9 as [|c9 r10]; [discriminate|].
  destruct (negb (is_slash c9)); [discriminate|].
  destruct (span_until (fun c => negb (is_ascii_digit c)) r10) as [hd' r11] eqn:Eh.
  destruct hd' as [|h1 hd']; [discriminate|]. destruct r11 as [|c11 r12]; [discriminate|].
  destruct (negb (is_slash c11)); [discriminate|].
  intros H. inversion H; subst.
  apply span_until_forall in Ew. apply span_until_forall in Eh.
  assert (Hw : forallb is_ascii_digit (w0 :: wd') = true).
  { rewrite forallb_forall in *. intros c Hc. specialize (Ew c Hc). rewrite negb_involutive in Ew. exact Ew. }
  assert (Hh : forallb is_ascii_digit (h1 :: hd') = true).
  { rewrite forallb_forall in *. intros c Hc. specialize (Eh c Hc). rewrite negb_involutive in Eh. exact Eh. }
  destruct (digits_int (w0 :: wd') ltac:(discriminate) Hw) as (w & Pw & Nw).
  destruct (digits_int (h1 :: hd') ltac:(discriminate) Hh) as (h & Ph & Nh).
  exists w, h. auto.
Qed.

(* deserialize_problem_as_url with the options of a puzzle module, on EVERY text *)
Theorem url_total_lemma cu c al af rs : dec_ok c = true -> single c = true -> customs_ok cu c ->
  forall url, safe (deserialize_url_cu cu c url al af rs).
Proof.
  intros Hok Hsg Hcu url. unfold deserialize_url_cu.
  destruct (url_match url) as [[[[name wd] hd] body]|] eqn:E.
  2:{ destruct af; [exact I|reflexivity]. }
  destruct (url_match_sizes url name wd hd body E) as (w & h & Pw & Ph & Nw & Nh).
  rewrite Pw, Ph. simpl.
  destruct (negb (allowed_ok al name)); [reflexivity|].
  pose proof (problem_total_lemma cu c h w Hok Hsg Hcu ltac:(nia) body) as Hs.
  destruct (deserialize_problem_cu cu c body h w) as [[p|]|err]; simpl.
  - destruct p; exact I.
  - exact I.
  - exact Hs.
Qed.

(* ------------------------------------------------------------------ dimensions *)
(* p is a list of exactly h rows of exactly w cells *)
Definition grid_shape (h w : Z) (p : pv) : Prop :=
  exists rows, p = VList (map VList rows) /\ Z.of_nat (length rows) = h /\ Forall (fun r => Z.of_nat (length r) = w) rows.

Lemma grid_rows_shape W : forall H d2, length d2 = (H * W)%nat ->
  exists rows, grid_rows d2 H W = map VList rows /\ length rows = H /\ Forall (fun r => length r = W) rows.
Proof.
  induction H as [|H IH]; intros d2 Hl; simpl.
  - exists []. auto.
  - destruct (IH (skipn W d2)) as (rows & E & L & F). { rewrite skipn_length. lia. }
    exists (firstn W d2 :: rows). simpl. rewrite E. repeat split; auto.
    constructor; auto. rewrite firstn_length. lia.
Qed.

Theorem grid_dims_lemma e c1 s k p : 0 <= height e -> 0 <= width e ->
  de e (Grid c1 None) s = Ok (Some (k, [p])) -> grid_shape (height e) (width e) p.
Proof.
  intros Hh Hw. simpl. unfold grid_de, grid_dims.
  destruct (seq_de (de e c1) (height e * width e) s) as [[[ofs d]|]|]; try discriminate.
  destruct d as [|[] [|]]; try discriminate.
  destruct (Z.eqb_spec (Z.of_nat (length l)) (height e * width e)) as [El|]; [|discriminate].
  intros H. inversion H; subst.
  destruct (grid_rows_shape (Z.to_nat (width e)) (Z.to_nat (height e)) l) as (rows & E & L & F). { nia. }
  exists rows. rewrite E. repeat split; auto; try lia.
  eapply Forall_impl; [|exact F]. simpl. intros; lia.
Qed.

(* the URL level: what is returned carries the declared sizes and, for a Grid codec, has them *)
Theorem url_dims_lemma cu c1 al af rs url name wd hd body v :
  url_match url = Some (name, wd, hd, body) ->
  deserialize_url_cu cu (Grid c1 None) url al af rs = Ok (Some v) ->
  exists w h p, py_int wd 10 = Ok w /\ py_int hd 10 = Ok h /\ grid_shape h w p /\
                v = (if rs then VTup [VInt h; VInt w; p] else p).
Proof.
  intros E. unfold deserialize_url_cu. rewrite E.
  destruct (url_match_sizes url name wd hd body E) as (w & h & Pw & Ph & Nw & Nh).
  rewrite Pw, Ph. simpl.
  destruct (negb (allowed_ok al name)); [discriminate|].
  unfold deserialize_problem_cu.
  destruct (de (cu_env cu h w) (Grid c1 None) body) as [[[k l]|]|] eqn:Ed; simpl; try discriminate.
  destruct l as [|p [|q l]]; simpl; try discriminate.
  pose proof (grid_dims_lemma (cu_env cu h w) c1 body k p Nh Nw Ed) as Hs. simpl in Hs.
  intros H. exists w, h, p. repeat split; auto.
  destruct p; inversion H; auto.
Qed.
