"""C11 plug-in: view (solve_view(height, width, problem)); -1 = empty, n >= 0 given number."""
import c11lib as L

NAME = "view"
MODULE = "cspuz.puzzle.view"
FUNC = "solve_view"
TIER1 = ("View", "solve_view_model")
TIER1_PRIM = ("ViewPrim", "solve_view_model_prim")


def call(mod, pb):
    return mod.solve_view(pb["h"], pb["w"], pb["grid"])


def ncand(pb):
    n = pb["h"] * pb["w"]
    return ((pb["h"] + pb["w"] + 1) ** n) * (2 ** n)


def encode(pb):
    return [[pb["h"], pb["w"]], L.flat(pb["grid"])]


def _values(h, w):
    return [-1] + list(range(0, h + w - 1))


def families(tier, rng):
    th = tier == "thorough"
    for (h, w) in [(1, 1), (1, 2), (2, 1), (1, 3), (3, 1)] + ([(2, 2)] if th else []):
        for g in L.all_grids(h, w, _values(h, w)):
            yield {"h": h, "w": w, "grid": g}
    if not th:
        for g in L.sample(rng, L.all_grids(2, 2, _values(2, 2)), 100):
            yield {"h": 2, "w": 2, "grid": g}
    for (h, w) in [(1, 4), (4, 1)]:
        for _ in range(100 if th else 15):
            yield {"h": h, "w": w, "grid": L.random_grid(rng, h, w, _values(h, w), 0.6)}


def tier2(tier, rng):
    th = tier == "thorough"
    for (h, w) in [(1, 1), (1, 2), (2, 1)]:
        for g in L.all_grids(h, w, _values(h, w)):
            yield {"h": h, "w": w, "grid": g}
    for g in L.sample(rng, L.all_grids(2, 2, _values(2, 2)), 10 if th else 2):
        yield {"h": 2, "w": 2, "grid": g}


def _t1_values(h, w):
    """no number, another negative value (read as no number too), every value of the domain 0 .. h + w of nums and
    two values beyond it"""
    return [-1, -3] + list(range(0, h + w + 3))


def tier1_problems(tier, rng):
    """program-capture tie: every clue layout of the boards with up to 3 cells, samples of all layouts of the boards with
    4 to 6 cells (both orientations), random layouts on larger and non-square boards (1xN, Nx1, up to 8x8) with values
    at and beyond the ends of the domain of nums, all-clue boards, boards without cells (ValueError from the
    connectivity helper) and grids with missing trailing cells (IndexError)"""
    th = tier == "thorough"
    for (h, w) in [(1, 1), (1, 2), (2, 1)]:
        for g in L.all_grids(h, w, _t1_values(h, w)):
            yield {"h": h, "w": w, "grid": g}
    for (h, w) in [(1, 3), (3, 1)]:
        for g in L.sample(rng, L.all_grids(h, w, _t1_values(h, w)), 400 if th else 60):
            yield {"h": h, "w": w, "grid": g}
    for (h, w) in [(2, 2), (1, 4), (4, 1), (1, 5), (5, 1), (2, 3), (3, 2), (1, 6), (6, 1)]:
        for _ in range(60 if th else 12):
            yield {"h": h, "w": w, "grid": L.random_grid(rng, h, w, _t1_values(h, w), rng.choice([0.2, 0.5, 0.8]))}
    for (h, w) in [(3, 3), (2, 5), (5, 2), (4, 4), (3, 6), (6, 3), (6, 5), (5, 7), (1, 7), (7, 1), (1, 9), (7, 7), (8, 8)]:
        for p in [0.3, 0.6, 0.8, 0.9] * (3 if th else 1):
            yield {"h": h, "w": w, "grid": L.random_grid(rng, h, w, _t1_values(h, w), p)}
        yield {"h": h, "w": w, "grid": [[rng.randint(0, h + w + 1) for _ in range(w)] for _ in range(h)]}
    for (h, w) in [(0, 0), (0, 2), (2, 0)]:
        yield {"h": h, "w": w, "grid": [[] for _ in range(h)]}
    for (h, w) in [(1, 1), (2, 2), (2, 3), (3, 2), (4, 4)]:
        g = L.random_grid(rng, h, w, _t1_values(h, w), 0.5)
        yield {"h": h, "w": w, "grid": g[:-1]}                              # the last row is missing
        yield {"h": h, "w": w, "grid": g[:-1] + [g[-1][:-1]]}               # the last cell is missing
        yield {"h": h, "w": w, "grid": [[1] * w for _ in range(h - 1)] + [[]]}  # an empty last row after all-clue rows


def big(tier, rng):
    """long single-row / single-column boards: one number seeing all the other cells (value N - 1 >= 18), or two
    adjacent numbers seeing the two ends"""
    th = tier == "thorough"
    for n in (L.LONG if th else L.sample(rng, L.LONG, 3) + [21]):
        p = rng.randrange(n)
        given = [-1] * n
        given[p] = n - 1
        nums = [0] * n
        nums[p] = n - 1
        has = [0] * n
        has[p] = 1
        yield {"h": 1, "w": n, "grid": [given], "planted": [nums + has], "n_solutions": 1}
        yield {"h": n, "w": 1, "grid": [[v] for v in given], "planted": [nums + has], "n_solutions": 1}
        p = rng.randrange(0, n - 1)
        if p != n - p - 2:
            given = [-1] * n
            given[p], given[p + 1] = p, n - p - 2
            nums = [0] * n
            nums[p], nums[p + 1] = p, n - p - 2
            has = [0] * n
            has[p] = has[p + 1] = 1
            yield {"h": 1, "w": n, "grid": [given], "planted": [nums + has], "n_solutions": 1}
    # boards with both sides >= 4 and one lone number seeing its whole row and column: the largest value a
    # number can take (h + w - 2); the only rule-obeying grid has that single number
    shapes = [(4, 4), (4, 5), (5, 4), (5, 6), (6, 4)] if th else [(4, 4), (4, 5), (5, 4)]
    for (h, w) in shapes:
        y, x = rng.randrange(h), rng.randrange(w)
        given = [[-1] * w for _ in range(h)]
        given[y][x] = h + w - 2
        nums = [0] * (h * w)
        nums[y * w + x] = h + w - 2
        has = [0] * (h * w)
        has[y * w + x] = 1
        yield {"h": h, "w": w, "grid": given, "planted": [nums + has], "n_solutions": 1}
