"""C11 plug-in: doppelblock (solve_doppelblock(n, clue_row, clue_column)); -1 = no clue; n >= 2."""
import math

import c11lib as L

NAME = "doppelblock"
MODULE = "cspuz.puzzle.doppelblock"
FUNC = "solve_doppelblock"
TIER1 = ("Doppelblock", "solve_doppelblock_model")


def call(mod, pb):
    return mod.solve_doppelblock(pb["n"], pb["rows"], pb["cols"])


def ncand(pb):
    n = pb["n"]
    return (math.factorial(n) // 2) ** n


def encode(pb):
    return [[pb["n"]], pb["rows"], pb["cols"]]


def _rand(rng, n, p):
    mx = (n - 2) * (n - 1) // 2
    f = lambda: [-1 if rng.random() < p else rng.randint(0, mx) for _ in range(n)]  # noqa
    return {"n": n, "rows": f(), "cols": f()}


def families(tier, rng):
    th = tier == "thorough"
    import itertools
    for n in (2, 3):
        mx = (n - 2) * (n - 1) // 2
        for t in itertools.product(range(-1, mx + 2), repeat=2 * n):
            if n == 2 or th or rng.random() < 0.2:
                yield {"n": n, "rows": list(t[:n]), "cols": list(t[n:])}
    for _ in range(300 if th else 40):
        yield _rand(rng, 4, rng.choice([0.4, 0.6, 0.8]))


def tier2(tier, rng):
    th = tier == "thorough"
    for _ in range(3):
        yield _rand(rng, 2, 0.5)
    for _ in range(20 if th else 4):
        yield _rand(rng, 3, 0.5)
    for _ in range(6 if th else 1):
        yield _rand(rng, 4, 0.5)


def tier1_problems(tier, rng):
    """program-capture tie: every clue vector over {-1, 0, 1} for n = 2, samples for n = 3..7 (no clue, 0, maximal
    and too large sums), n = 0 and 1 (ValueError), clue lists that are too short (IndexError)"""
    import itertools
    th = tier == "thorough"
    for t in itertools.product((-1, 0, 1), repeat=4):
        yield {"n": 2, "rows": list(t[:2]), "cols": list(t[2:])}
    for n in (3, 4, 5, 6, 7):
        for p in [0.0, 0.3, 0.6, 0.85] * (3 if th else 1):
            yield _rand(rng, n, p)
        mx = (n - 2) * (n - 1) // 2
        f = lambda: [rng.choice([-2, -1, 0, 1, mx, mx + 1]) for _ in range(n)]  # noqa
        yield {"n": n, "rows": f(), "cols": f()}
    yield {"n": 0, "rows": [], "cols": []}
    yield {"n": 1, "rows": [-1], "cols": [-1]}
    yield {"n": 3, "rows": [1, -1], "cols": [-1, -1, -1]}
    yield {"n": 3, "rows": [-1, -1, 0], "cols": [2]}


def _between(line):
    z = [i for i, v in enumerate(line) if v == 0]
    return sum(line[z[0] + 1:z[1]])


def big(tier, rng):
    """n = 6..8 with two-digit sums: the cyclic Latin square on 0..n-1 with the symbol n-1 turned into a second block"""
    th = tier == "thorough"
    for n in ((6, 7, 8) if th else (6, rng.choice([7, 8]))):
        s = rng.randrange(n)
        g = [[((i + j + s) % n) % (n - 1) for j in range(n)] for i in range(n)]
        cols = [[g[y][x] for y in range(n)] for x in range(n)]
        rows_c = [_between(r) for r in g]
        cols_c = [_between(c) for c in cols]
        keep = lambda v: [x if (x >= 10 or rng.random() < 0.6) else -1 for x in v]  # noqa
        yield {"n": n, "rows": keep(rows_c), "cols": keep(cols_c), "planted": [L.flat(g)]}
