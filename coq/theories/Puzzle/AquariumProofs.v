(* C11 Tier 1 - aquarium: for every board shape, every layout of orthogonally
   connected tanks and all clues, the program posted by solve_aquarium (model
   Aquarium.v) admits exactly the fillings obeying Rules_aquarium (one water
   level across the full width of a tank, water settles at the bottom). *)
From Coq Require Import ZArith List Bool Arith Lia.
From Cspuz Require Import Lib.PyErr Core.Expr Core.Program Graph.GraphModel Graph.ReachProofs Graph.AvcProofs
     Puzzle.PuzzleBase Puzzle.SatAbs Puzzle.ModelBase Puzzle.ModelLemmas Puzzle.Rules_aquarium Puzzle.Aquarium.
Import ListNotations.
Local Open Scope nat_scope.

(* ---- find on a range returns the first hit *)
Lemma find_seq_first (f : nat -> bool) a n j :
  a <= j < a + n -> f j = true ->
  exists k, find f (seq a n) = Some k /\ a <= k <= j /\ f k = true.
Proof.
  revert a. induction n as [|n IH]; intros a Hj Hf; [lia|].
  simpl. destruct (f a) eqn:Ea.
  - exists a. split; [reflexivity|]. split; [lia|assumption].
  - assert (a <> j) by (intros ->; congruence).
    destruct (IH (S a)) as [k [Hk [Hr Hfk]]]; [lia|assumption|].
    exists k. split; [assumption|]. split; [lia|assumption].
Qed.
Lemma find_seq_some (f : nat -> bool) a n k :
  find f (seq a n) = Some k -> a <= k < a + n /\ f k = true.
Proof.
  intros H. apply find_some in H. destruct H as [Hin Hf]. apply in_seq in Hin. split; [lia|assumption].
Qed.

Lemma cell_inj w y x y' x' : x < w -> x' < w -> y * w + x = y' * w + x' -> y = y' /\ x = x'.
Proof.
  intros Hx Hx' E.
  assert (y = y').
  { destruct (Nat.lt_trichotomy y y') as [L|[L|L]]; [|assumption|]; exfalso; nia. }
  subst. lia.
Qed.

(* ---- a walk inside a vertex set of the board that starts in a row <= y and
   ends in a row > y contains a vertical step from row y to row y + 1 *)
Lemma crossing h w act a b :
  reach (board h w) act all_edges_ok a b ->
  forall ya xa yb xb y, a = ya * w + xa -> xa < w -> b = yb * w + xb -> xb < w ->
    ya <= y < yb ->
    exists x, x < w /\ S y < h /\ act (y * w + x) = true /\ act (S y * w + x) = true.
Proof.
  induction 1 as [v Hv|u v t Huv IH Hn Ht]; intros ya xa yb xb y Ea Hxa Eb Hxb Hy.
  - subst v. destruct (cell_inj w ya xa yb xb Hxa Hxb Eb). lia.
  - pose proof (reach_vok_end _ _ _ _ _ Huv) as Hactv.
    apply grid_nbrs in Hn.
    assert (Hcoord : exists yv xv, v = yv * w + xv /\ xv < w /\
              ((yv = yb /\ (xv = S xb \/ xb = S xv)) \/ (xv = xb /\ yb = S yv /\ S yv < h) \/ (xv = xb /\ yv = S yb))).
    { destruct Hn as [[y0 [x0 [Hy0 [Hx0 [E1 E2]]]]]|[y0 [x0 [Hy0 [Hx0 [E1 E2]]]]]].
      - (* t is the right or lower neighbour of v *)
        exists y0, x0. split; [assumption|]. split; [assumption|].
        destruct E2 as [[Hs E2]|[Hs E2]]; rewrite Eb in E2.
        + destruct (cell_inj w yb xb y0 (S x0) Hxb Hs E2). left. split; [lia|]. right. lia.
        + destruct (cell_inj w yb xb (S y0) x0 Hxb Hx0 E2). right. left. lia.
      - (* v is the right or lower neighbour of t *)
        rewrite Eb in E1. destruct (cell_inj w yb xb y0 x0 Hxb Hx0 E1) as [-> ->].
        destruct E2 as [[Hs E2]|[Hs E2]].
        + exists y0, (S x0). split; [assumption|]. split; [assumption|]. left. split; [reflexivity|]. left. reflexivity.
        + exists (S y0), x0. split; [assumption|]. split; [assumption|]. right. right. split; reflexivity. }
    destruct Hcoord as [yv [xv [Ev [Hxv Hrel]]]].
    destruct (Nat.lt_ge_cases y yv) as [Hlt|Hge].
    + apply (IH ya xa yv xv y Ea Hxa Ev Hxv). lia.
    + (* yv <= y < yb: the last step is the vertical one *)
      destruct Hrel as [[E _]|[[Ex [Ey Hh]]|[Ex Ey]]]; [lia| |lia].
      assert (yv = y) by lia. subst yv xv.
      exists xb. split; [assumption|]. split; [assumption|].
      split; [rewrite <- Ev; assumption|]. rewrite <- Ey, <- Eb. assumption.
Qed.

Section Core.
  Variables (h w : nat) (region : list Z) (wat : nat -> nat -> bool).
  Let R (y x : nat) : Z := at2 region w y x.

  (* what the posted tie constraints say *)
  Definition ties : Prop :=
    forall y x, y < h -> x < w ->
      (forall x2, next_same region w y x = Some x2 -> wat y x = wat y x2) /\
      (S y < h -> R y x = R (S y) x -> wat y x = true -> wat (S y) x = true).
  (* what the rules say *)
  Definition pairs : Prop :=
    forall y1 x1 y2 x2, y1 < h -> x1 < w -> y2 < h -> x2 < w -> R y1 x1 = R y2 x2 ->
      (y1 = y2 -> wat y1 x1 = wat y2 x2) /\ (y1 < y2 -> wat y1 x1 = true -> wat y2 x2 = true).

  Lemma pairs_ties : pairs -> ties.
  Proof.
    intros P y x Hy Hx. split.
    - intros x2 Hn. unfold next_same in Hn. apply find_seq_some in Hn. destruct Hn as [Hr He].
      apply Z.eqb_eq in He. destruct (P y x y x2 Hy Hx Hy ltac:(lia) He) as [P1 _]. apply P1. reflexivity.
    - intros Hs He. destruct (P y x (S y) x Hy Hx Hs Hx He) as [_ P2]. apply P2. lia.
  Qed.

  Lemma row_tie : ties -> forall y, y < h -> forall d x, x + d < w -> R y x = R y (x + d) -> wat y x = wat y (x + d).
  Proof.
    intros T y Hy d. induction d as [d IH] using lt_wf_ind. intros x Hx He.
    destruct d as [|d]; [rewrite Nat.add_0_r; reflexivity|].
    destruct (find_seq_first (fun x2 => (R y x =? R y x2)%Z) (S x) (w - S x) (x + S d)) as [k [Hk [Hr Hf]]];
      [lia|apply Z.eqb_eq; exact He|].
    destruct (T y x Hy ltac:(lia)) as [T1 _]. specialize (T1 k Hk).
    apply Z.eqb_eq in Hf.
    rewrite T1. replace (x + S d) with (k + (x + S d - k)) by lia.
    apply IH; [lia|lia|]. replace (k + (x + S d - k)) with (x + S d) by lia. congruence.
  Qed.

  Lemma row_same : ties -> forall y x1 x2, y < h -> x1 < w -> x2 < w -> R y x1 = R y x2 -> wat y x1 = wat y x2.
  Proof.
    intros T y x1 x2 Hy H1 H2 He. destruct (Nat.le_ge_cases x1 x2) as [L|L].
    - replace x2 with (x1 + (x2 - x1)) by lia. apply row_tie; try assumption; [lia|].
      replace (x1 + (x2 - x1)) with x2 by lia. exact He.
    - symmetry. replace x1 with (x2 + (x1 - x2)) by lia. apply row_tie; try assumption; [lia|].
      replace (x2 + (x1 - x2)) with x1 by lia. symmetry. exact He.
  Qed.

  Lemma ties_pairs : tanks_connected h w region -> ties -> pairs.
  Proof.
    intros C T y1 x1 y2 x2 Hy1 Hx1 Hy2 Hx2 He. split.
    - intros <-. apply row_same; assumption.
    - intros Hlt Hw.
      set (i := R y1 x1).
      set (act := fun v => (getz region v =? i)%Z).
      assert (Hreach : reach (board h w) act all_edges_ok (y1 * w + x1) (y2 * w + x2)).
      { apply (C i); simpl.
        - apply grid_cell_lt; assumption.
        - apply grid_cell_lt; assumption.
        - apply Z.eqb_eq. reflexivity.
        - apply Z.eqb_eq. symmetry. exact He. }
      (* the rows of the tank fill up one after the other *)
      assert (Hfill : forall k, y1 + k <= y2 -> forall x, x < w -> R (y1 + k) x = i -> wat (y1 + k) x = true).
      { induction k as [|k IHk]; intros Hk x Hx Hr.
        - rewrite Nat.add_0_r in *. rewrite <- Hw. apply row_same; try assumption; exact Hr.
        - destruct (crossing h w act _ _ Hreach y1 x1 y2 x2 (y1 + k) eq_refl Hx1 eq_refl Hx2 ltac:(lia))
            as [xc [Hxc [Hh [A1 A2]]]].
          unfold act in A1, A2. apply Z.eqb_eq in A1. apply Z.eqb_eq in A2.
          assert (Hup : wat (y1 + k) xc = true) by (apply IHk; [lia|assumption|exact A1]).
          destruct (T (y1 + k) xc ltac:(lia) Hxc) as [_ T2].
          assert (Hdown : wat (S (y1 + k)) xc = true).
          { apply T2; [assumption| |assumption]. unfold R, at2. rewrite A1. symmetry. exact A2. }
          replace (y1 + S k) with (S (y1 + k)) in * by lia.
          rewrite <- Hdown. apply row_same; try assumption. rewrite Hr. symmetry. exact A2. }
      replace y2 with (y1 + (y2 - y1)) by lia. apply Hfill; [lia|assumption|].
      replace (y1 + (y2 - y1)) with y2 by lia. symmetry. exact He.
  Qed.
End Core.

(* ---- the two formulations as the booleans of the rule specification / of the posted program *)
Lemma dims2 h w (rest : list (list Z)) :
  dim ([Z.of_nat h; Z.of_nat w] :: rest) 0 = h /\ dim ([Z.of_nat h; Z.of_nat w] :: rest) 1 = w.
Proof. unfold dim, zn, getz, sec; simpl. rewrite !Nat2Z.id. split; reflexivity. Qed.

Lemma holds_iff_vars en i j :
  holds no_graph en (BNode IFF [BVar i; BVar j]) = Bool.eqb (eb en i) (eb en j).
Proof. unfold holds. simpl. destruct (Bool.eqb (eb en i) (eb en j)); reflexivity. Qed.
Lemma holds_imp_vars en i j :
  holds no_graph en (BNode IMP [BVar i; BVar j]) = implb (eb en i) (eb en j).
Proof. unfold holds. simpl. destruct (implb (eb en i) (eb en j)); reflexivity. Qed.

Lemma clue_constraint_holds en ids c :
  forallb (holds no_graph en) (clue_constraint ids c) = ((c <? 0)%Z || (Z.of_nat (count (eb en) ids) =? c)%Z).
Proof.
  unfold clue_constraint. destruct (Z.leb_spec 0 c); destruct (Z.ltb_spec c 0); try lia; simpl.
  - rewrite holds_ct_eq. apply andb_true_r.
  - reflexivity.
Qed.

Lemma aquarium_core h w region rows cols en :
  tanks_connected h w region ->
  rules_aquarium [[Z.of_nat h; Z.of_nat w]; region; rows; cols] (map (fun i => b2z (eb en i)) (seq 0 (h * w))) =
  satisfies no_graph en (bool_grid_state (h * w) (aquarium_constraints h w region rows cols)).
Proof.
  intros C. unfold rules_aquarium.
  destruct (dims2 h w [region; rows; cols]) as [-> ->].
  change (sec [[Z.of_nat h; Z.of_nat w]; region; rows; cols] 1) with region.
  change (sec [[Z.of_nat h; Z.of_nat w]; region; rows; cols] 2) with rows.
  change (sec [[Z.of_nat h; Z.of_nat w]; region; rows; cols] 3) with cols.
  set (ans := map (fun i => b2z (eb en i)) (seq 0 (h * w))).
  set (wat := fun y x => eb en (cidx w (y, x))).
  assert (Hw : forall y x, y < h -> x < w -> isb (at2 ans w y x) = wat y x).
  { intros y x Hy Hx. unfold at2, ans. rewrite getz_map_seq by (apply (cidx_lt h w y x); assumption).
    apply b2z_isb. }
  replace (Nat.eqb (length ans) (h * w)) with true
    by (unfold ans; rewrite map_length, seq_length; symmetry; apply Nat.eqb_refl).
  replace (forallb is01 ans) with true
    by (unfold ans; rewrite forallb_map; symmetry; apply forallb_forall; intros; apply is01_b2z).
  unfold satisfies, bool_grid_state, aquarium_constraints. cbn [Program.cons].
  rewrite !forallb_app, !forallb_flat_map. simpl andb.
  (* reorder: rules = pairs && rows && cols ; program = rows && cols && ties *)
  match goal with |- ?p && ?r && ?c = ?r' && (?c' && ?t) =>
    assert (Hr : r = r'); [|assert (Hc : c = c'); [|assert (Hp : p = t)]] end.
  - apply forallb_ext_in. intros y Hy. apply in_seq in Hy.
    rewrite clue_constraint_holds. f_equal. unfold zcount. rewrite count_map. f_equal. f_equal.
    apply count_ext_in. intros x Hx. apply in_seq in Hx. apply Hw; lia.
  - apply forallb_ext_in. intros x Hx. apply in_seq in Hx.
    rewrite clue_constraint_holds. f_equal. unfold zcount. rewrite count_map. f_equal. f_equal.
    apply count_ext_in. intros y Hy. apply in_seq in Hy. apply Hw; lia.
  - apply eq_true_iff_eq. split.
    + (* rules -> program *)
      intros HP.
      assert (P : pairs h w region wat).
      { intros y1 x1 y2 x2 Hy1 Hx1 Hy2 Hx2 He.
        rewrite forallb_forall in HP. specialize (HP (y1, x1) (proj2 (cells_in h w y1 x1) (conj Hy1 Hx1))).
        simpl in HP. rewrite forallb_forall in HP.
        specialize (HP (y2, x2) (proj2 (cells_in h w y2 x2) (conj Hy2 Hx2))). simpl in HP.
        rewrite (Hw y1 x1 Hy1 Hx1), (Hw y2 x2 Hy2 Hx2) in HP.
        apply Z.eqb_eq in He. rewrite He in HP. simpl in HP. apply andb_true_iff in HP. destruct HP as [H1 H2].
        split.
        - intros E. apply Nat.eqb_eq in E. rewrite E in H1. simpl in H1. apply eqb_prop. exact H1.
        - intros L Hwa. apply Nat.ltb_lt in L. rewrite L, Hwa in H2. simpl in H2. exact H2. }
      apply pairs_ties in P.
      apply forallb_forall. intros [y x] Hcl. apply cells_in in Hcl. destruct Hcl as [Hy Hx].
      destruct (P y x Hy Hx) as [P1 P2]. rewrite forallb_app. apply andb_true_iff. split.
      * destruct (next_same region w y x) as [x2|] eqn:En; [|reflexivity].
        simpl. rewrite holds_iff_vars. fold (wat y x). fold (wat y x2). rewrite (P1 x2 eq_refl).
        rewrite eqb_reflx. reflexivity.
      * destruct (Nat.ltb (S y) h && (at2 region w y x =? at2 region w (S y) x)%Z) eqn:Ec; [|reflexivity].
        apply andb_true_iff in Ec. destruct Ec as [E1 E2]. apply Nat.ltb_lt in E1. apply Z.eqb_eq in E2.
        simpl. rewrite holds_imp_vars. fold (wat y x). fold (wat (S y) x).
        destruct (wat y x) eqn:Ew; [|reflexivity]. rewrite (P2 E1 E2 eq_refl). reflexivity.
    + (* program -> rules *)
      intros HT.
      assert (T : ties h w region wat).
      { intros y x Hy Hx. rewrite forallb_forall in HT.
        specialize (HT (y, x) (proj2 (cells_in h w y x) (conj Hy Hx))). simpl in HT.
        rewrite forallb_app in HT. apply andb_true_iff in HT. destruct HT as [H1 H2]. split.
        - intros x2 En. rewrite En in H1. simpl in H1. rewrite holds_iff_vars, andb_true_r in H1.
          apply eqb_prop. exact H1.
        - intros Hs He Hwa. apply Nat.ltb_lt in Hs. apply Z.eqb_eq in He. rewrite Hs, He in H2.
          simpl in H2. rewrite holds_imp_vars, andb_true_r in H2. fold (wat y x) in H2. rewrite Hwa in H2.
          exact H2. }
      pose proof (ties_pairs h w region wat C T) as P.
      apply forallb_forall. intros [y1 x1] Hc1. apply cells_in in Hc1. destruct Hc1 as [Hy1 Hx1].
      apply forallb_forall. intros [y2 x2] Hc2. apply cells_in in Hc2. destruct Hc2 as [Hy2 Hx2].
      rewrite (Hw y1 x1 Hy1 Hx1), (Hw y2 x2 Hy2 Hx2).
      destruct (Z.eqb_spec (at2 region w y1 x1) (at2 region w y2 x2)) as [He|]; [|reflexivity].
      simpl. destruct (P y1 x1 y2 x2 Hy1 Hx1 Hy2 Hx2 He) as [P1 P2].
      apply andb_true_iff. split.
      * destruct (Nat.eqb_spec y1 y2) as [E|]; [|reflexivity]. simpl. rewrite (P1 E). apply eqb_reflx.
      * destruct (Nat.ltb_spec y1 y2) as [L|]; [|reflexivity]. simpl.
        destruct (wat y1 x1) eqn:Ew; [|reflexivity]. simpl. apply P2; [assumption|reflexivity].
  - rewrite Hr, Hc, Hp.
    match goal with |- ?a && ?b && ?c = _ => destruct a, b, c; reflexivity end.
Qed.

Theorem aquarium_exact h w region rows cols st ans :
  tanks_connected h w region ->
  solve_aquarium_model [[Z.of_nat h; Z.of_nat w]; region; rows; cols] = Ok st ->
  ((exists en, model_of no_graph en st /\ reads st en (seq 0 (h * w)) = ans)
   <-> rules_aquarium [[Z.of_nat h; Z.of_nat w]; region; rows; cols] ans = true).
Proof.
  intros C. unfold solve_aquarium_model.
  destruct (dims2 h w [region; rows; cols]) as [-> ->].
  change (sec [[Z.of_nat h; Z.of_nat w]; region; rows; cols] 1) with region.
  change (sec [[Z.of_nat h; Z.of_nat w]; region; rows; cols] 2) with rows.
  change (sec [[Z.of_nat h; Z.of_nat w]; region; rows; cols] 3) with cols.
  destruct (Nat.ltb (length rows) h); [discriminate|].
  destruct (Nat.ltb (length cols) w); [discriminate|].
  intros H. inversion H; subst st; clear H.
  apply bool_grid_exact.
  - intros en. apply aquarium_core. exact C.
  - intros a Ha. unfold rules_aquarium in Ha.
    destruct (dims2 h w [region; rows; cols]) as [E1 E2]. rewrite E1, E2 in Ha.
    repeat (apply andb_true_iff in Ha; destruct Ha as [Ha ?]).
    apply Nat.eqb_eq in Ha. split; assumption.
Qed.

(* the hypothesis is satisfiable: a U-shaped tank around a one-cell tank on a 2 x 3 board *)
Example tanks_connected_example : tanks_connected 2 3 [0; 1; 0; 0; 0; 0]%Z.
Proof.
  intros i.
  destruct (Z.eq_dec i 0) as [->|N0]; [apply connected_b_spec; [apply grid_wf|reflexivity]|].
  destruct (Z.eq_dec i 1) as [->|N1]; [apply connected_b_spec; [apply grid_wf|reflexivity]|].
  intros u v Hu _ Au _. exfalso. simpl in Hu. apply Z.eqb_eq in Au.
  do 6 (destruct u as [|u]; [unfold getz in Au; simpl in Au; congruence|]). lia.
Qed.
