(* C03: the statements of Props/C03.v, assembled from the printer, description
   and reply developments. *)
From Coq Require Import ZArith List Bool String Ascii Lia Permutation.
From Cspuz Require Import Lib.PyErr Core.Expr Core.Program Backend.SugarText Backend.SugarTextProofs
  Gen.SugarOps Backend.Sugar Backend.SugarReply Backend.SugarLexProofs Backend.SugarSpec
  Backend.SugarPrintProofs Backend.SugarDescProofs Backend.SugarReplyProofs.
Import ListNotations.
Open Scope string_scope.

(* ---- names identify variables ---- *)
Lemma pz_inj a b : pz a = pz b -> a = b.
Proof. intros H. pose proof (int_atom_pz a) as Ha. rewrite H, int_atom_pz in Ha. congruence. Qed.
Lemma var_name_id v w : var_name v = var_name w -> var_id v = var_id w.
Proof.
  destruct v, w; simpl; intros [= H]; try discriminate;
    apply pz_inj in H; apply Nat2Z.inj in H; assumption.
Qed.
Lemma NoDup_names vs : NoDup (map var_id vs) -> NoDup (map var_name vs).
Proof.
  induction vs as [|v r IH]; simpl; intros H; [constructor|].
  inversion H as [|? ? Hv Hr]; subst. constructor; [|auto].
  intros Hin. apply Hv. apply in_map_iff in Hin as [w [E Hw]].
  apply in_map_iff. exists w. split; [apply var_name_id; assumption | assumption].
Qed.

Lemma mem_str_true n l : mem_str n l = true <-> In n l.
Proof.
  unfold mem_str. rewrite existsb_exists. split.
  - intros [x [Hx E]]. apply String.eqb_eq in E. subst; assumption.
  - intros H. exists n. split; [assumption|apply String.eqb_refl].
Qed.
Lemma names_of_keys_in vs : forall ks n, In n (names_of_keys vs ks) -> In n (map var_name vs).
Proof.
  induction vs as [|v r IH]; intros [|k ks] n; simpl; try contradiction.
  destruct k; simpl; intros H; [destruct H as [<-|H]; [left; reflexivity|]|]; right; eapply IH; eassumption.
Qed.
Lemma mem_key_list n names : n <> "" -> mem_str n (key_list names) = mem_str n names.
Proof.
  intros Hn. destruct names; [|reflexivity]. simpl. destruct (String.eqb_spec n ""); [congruence|reflexivity].
Qed.

(* the key set loadProblem builds selects exactly the registered keys *)
Lemma mem_keys vs : forall ks,
  NoDup (map var_name vs) -> List.length ks = List.length vs ->
  Forall (fun p => mem_str (var_name (fst p)) (names_of_keys vs ks) = snd p) (combine vs ks).
Proof.
  induction vs as [|v r IH]; intros [|k kr] Hn Hl; simpl in *; try discriminate; [constructor|].
  inversion Hn as [|? ? Hv Hr]; subst. injection Hl as Hl.
  constructor.
  - simpl. destruct k; simpl.
    + rewrite String.eqb_refl. reflexivity.
    + destruct (mem_str (var_name v) (names_of_keys r kr)) eqn:E; [|reflexivity].
      apply mem_str_true, names_of_keys_in in E. contradiction.
  - specialize (IH kr Hr Hl). rewrite Forall_forall in *. intros [w kw] Hin. simpl.
    specialize (IH _ Hin). simpl in IH.
    destruct k; [|assumption]. simpl.
    destruct (String.eqb_spec (var_name w) (var_name v)) as [E|_]; [|assumption].
    exfalso. apply Hv. rewrite <- E. apply in_map. eapply in_combine_l; eassumption.
Qed.

Lemma var_name_nonempty v : var_name v <> "".
Proof. destruct v; discriminate. Qed.

Lemma map_combine_fst {A B C} (f : A -> C) (g : A * B -> C) (l : list A) (l' : list B) :
  List.length l' = List.length l -> Forall (fun p => f (fst p) = g p) (combine l l') ->
  map f l = map g (combine l l').
Proof.
  revert l'; induction l as [|a l IH]; intros [|b l'] Hl H; simpl in *; try discriminate; [reflexivity|].
  inversion H; subst. f_equal; [assumption|]. apply IH; [congruence|assumption].
Qed.

Section Main.
  Variable gsem : op -> list (option value) -> option bool.

  (* 1. every well-typed tree: the printed text parses back (string level) to an
        expression whose Sugar meaning is eval *)
  Theorem print_denotes : forall e, wts true e = true ->
    exists s x, print_expr e = Ok s /\ sx_parse s = Some x /\
      forall en, sugar_sem gsem (name_env en) x = eval gsem en e.
  Proof.
    intros e H. destruct (print_denotes_gen gsem e (okarg_t e H)) as [s [x [Hp [Hr [_ [_ Hs]]]]]].
    exists s, x. repeat split; auto. apply reads_parse; assumption.
  Qed.
  (* the same for int-valued operands and for the None operand of graph-division *)
  Theorem print_denotes_operand : forall e, okarg e = true ->
    exists s x, print_expr e = Ok s /\ sx_parse s = Some x /\
      forall en, sugar_sem gsem (name_env en) x = eval gsem en e.
  Proof.
    intros e H. destruct (print_denotes_gen gsem e H) as [s [x [Hp [Hr [_ [_ Hs]]]]]].
    exists s, x. repeat split; auto. apply reads_parse; assumption.
  Qed.

  (* 2. the whole description, answer-finder mode, with the reply *)
  Theorem answer_reply_reflected vs cs text :
    NoDup (map var_id vs) -> Forall (fun c => wts true c = true) cs ->
    description vs cs None = Ok text ->
    exists jp, java_load text = Some jp /\ j_keys jp = None /\
      forall rho nr, typed_on vs rho ->
        exists reply, java_reply jp (Some (rho, nr)) = Some reply /\
          parse_answer vs reply = Ok (true, map (fun v => rho (var_name v)) vs).
  Proof.
    intros Hn Hcs Hd.
    destruct (description_faithful gsem vs cs None text Hcs Hd) as [jp [Hl [_ [Hi [Hb [Hk _]]]]]].
    exists jp. repeat split; auto. intros rho nr Ht.
    unfold java_reply. rewrite Hk. simpl. apply answer_reply_reflected_vars; auto.
  Qed.

  (* 3. deduction mode: decided facts go to exactly the registered, non-refuted keys *)
  Theorem deduction_reply_reflected vs cs ks text :
    NoDup (map var_id vs) -> Forall (fun c => wts true c = true) cs -> List.length ks = List.length vs ->
    description vs cs (Some ks) = Ok text ->
    exists jp, java_load text = Some jp /\
      forall rho nr, typed_on vs rho ->
        exists reply, java_reply jp (Some (rho, nr)) = Some reply /\
          parse_deduction vs reply =
          Ok (true, map (fun p => if snd p && nr (var_name (fst p)) then rho (var_name (fst p)) else None)
                        (combine vs ks)).
  Proof.
    intros Hn Hcs Hlen Hd.
    destruct (description_faithful gsem vs cs (Some ks) text Hcs Hd) as [jp [Hl [_ [Hi [Hb [Hk _]]]]]].
    exists jp. split; [assumption|]. intros rho nr Ht.
    unfold java_reply. rewrite Hk. simpl option_map. cbv iota beta.
    destruct (deduction_reply_reflected_vars vs jp (key_list (names_of_keys vs ks)) rho nr Hn Hi Hb Ht)
      as [reply [Hf Hp]].
    exists reply. split; [assumption|]. rewrite Hp. f_equal. f_equal.
    apply (map_combine_fst
             (fun v => if mem_str (var_name v) (key_list (names_of_keys vs ks)) && nr (var_name v)
                       then rho (var_name v) else None)
             (fun p => if snd p && nr (var_name (fst p)) then rho (var_name (fst p)) else None)); [assumption|].
    pose proof (mem_keys vs ks (NoDup_names vs Hn) Hlen) as Hm.
    rewrite Forall_forall in *. intros p Hp'. specialize (Hm p Hp').
    rewrite mem_key_list by apply var_name_nonempty. rewrite Hm. reflexivity.
  Qed.

  (* 4. unsatisfiable replies of both modes *)
  Theorem unsat_replies vs cs mode text :
    Forall (fun c => wts true c = true) cs -> description vs cs mode = Ok text ->
    exists jp reply, java_load text = Some jp /\ java_reply jp None = Some reply /\
      match mode with
      | None => parse_answer vs reply = Ok (false, no_sol vs)
      | Some _ => parse_deduction vs reply = Ok (false, no_sol vs)
      end.
  Proof.
    intros Hcs Hd.
    destruct (description_faithful gsem vs cs mode text Hcs Hd) as [jp [Hl [_ [_ [_ [Hk _]]]]]].
    exists jp. unfold java_reply. rewrite Hk. destruct mode; simpl; (eexists; split; [exact Hl | split; reflexivity]).
  Qed.
End Main.

(* 5. the five backends hand over the same text; sugar has no native deduction mode *)
Theorem description_kind_independent : forall k vs cs mode,
  (native_deduction k = true \/ mode = None) -> description_k k vs cs mode = description vs cs mode.
Proof. intros k vs cs [ks|] [H|H]; simpl; try rewrite H; try reflexivity; discriminate. Qed.
Theorem sugar_falls_back : forall vs cs ks text,
  description vs cs (Some ks) = Ok text -> description_k K_sugar vs cs (Some ks) = Err NotImplementedErr.
Proof.
  intros vs cs ks text H. unfold description_k, description in *. simpl.
  destruct (constraint_lines cs); simpl in *; [reflexivity|discriminate].
Qed.

(* ---- Solver states: ids are positions ---- *)
Lemma bvars_from_ids ds : forall i, map var_id (bvars_from i ds) = seq i (List.length ds).
Proof. induction ds as [|[|lo hi] r IH]; intros i; simpl; [reflexivity| |]; rewrite IH; reflexivity. Qed.
Lemma bvars_of_state_nodup st : NoDup (map var_id (bvars_of_state st)).
Proof. unfold bvars_of_state. rewrite bvars_from_ids. apply seq_NoDup. Qed.
Lemma bvars_from_length ds : forall i, List.length (bvars_from i ds) = List.length ds.
Proof. induction ds as [|[|lo hi] r IH]; intros i; simpl; [reflexivity| |]; rewrite IH; reflexivity. Qed.

(* satisfiability of the hypotheses: a program with every kind of line *)
Example hypotheses_satisfiable :
  let vs := [VBool 0; VInt 1 (-2) 3] in
  let cs := [BNode OR [BVar 0; BNode LE [IVar 1 (-2) 3; INode ADD [PyInt 1; INode IF [BVar 0; PyInt 2; PyInt 0]]]];
             BNode G_DIV [PyInt 2; PyInt 1; PyNone; IVar 1 (-2) 3; PyInt 0; PyInt 1; BVar 0]] in
  NoDup (map var_id vs) /\ Forall (fun c => wts true c = true) cs /\
  description vs cs (Some [true; false]) =
    Ok ("(bool b0)" ++ s_nl ++ "(int i1 -2 3)" ++ s_nl ++ "(|| b0 (<= i1 (+ 1 (if b0 2 0))))" ++ s_nl ++
        "(graph-division 2 1 * i1 0 1 b0)" ++ s_nl ++ "#b0").
Proof.
  repeat split.
  - repeat constructor; simpl; intuition discriminate.
  - repeat constructor.
Qed.
