(* C11 Tier 1 - model of cspuz/puzzle/yinyang.py::solve_yinyang(height, width, problem), all board shapes:
       is_black = solver.bool_array((height, width)); solver.add_answer_key(is_black)
       graph.active_vertices_connected(solver, is_black)       # n ranks (ids n .. 2n-1), n root flags (2n .. 3n-1)
       graph.active_vertices_connected(solver, ~is_black)      # n ranks (3n .. 4n-1), n root flags (4n .. 5n-1);
                                                               # the activity flags are the nodes NOT(is_black[y, x])
       ensure(is_black[:-1, :-1] | is_black[:-1, 1:] | is_black[1:, :-1] | is_black[1:, 1:])
       ensure(~(is_black[:-1, :-1] & is_black[:-1, 1:] & is_black[1:, :-1] & is_black[1:, 1:]))
       # "auxiliary constraint" (not part of the published rules):
       ensure(~(is_black[:-1, :-1] & is_black[1:, 1:] & ~is_black[1:, :-1] & ~is_black[:-1, 1:]))
       ensure(~(~is_black[:-1, :-1] & ~is_black[1:, 1:] & is_black[1:, :-1] & is_black[:-1, 1:]))
       circ = left column downwards, bottom row rightwards (from column 1), right column upwards (from row h-2),
              top row leftwards (columns w-2 .. 1);   on boards with one row / one column cells occur twice
       ensure(count_true([circ[i] != circ[(i + 1) % len(circ)] for i in range(len(circ))]) <= 2)
       for every cell: problem[y][x] == 1: ensure(~is_black[y, x]);  == 2: ensure(is_black[y, x])
   The two calls into cspuz.graph are the model of property C04 (Graph/Avc.v::post_avc on the grid graph); on a
   board without cells the first one raises ValueError (before anything else can go wrong).
   The problem uses the encoding of Rules_yinyang.v ([[h; w]; given]); values other than 1 and 2 are empty cells
   (as in the Python).  The Python reads problem[y][x] cell by cell and raises IndexError when a row or a cell is
   missing; with the flattened encoding the model raises IndexError when fewer than h*w values are supplied (the
   plug-in's malformed problems only drop trailing cells; rows longer than w are never generated).
   No proofs here. *)
From Coq Require Import ZArith List Bool Arith.
From Cspuz Require Import Lib.PyErr Core.Expr Core.Program Graph.GraphModel Graph.Avc
     Puzzle.PuzzleBase Puzzle.ModelBase.
Import ListNotations.
Local Open Scope nat_scope.

Definition yy_v (w : nat) (c : nat * nat) : expr := BVar (cidx w c).
Definition yy_nv (w : nat) (c : nat * nat) : expr := BNode NOT [yy_v w c].

(* a | b | c | d  and  ~(a & b & c & d): Python's left-nested binary trees *)
Definition yy_or4 (a b c d : expr) : expr := BNode OR [BNode OR [BNode OR [a; b]; c]; d].
Definition yy_nand4 (a b c d : expr) : expr := BNode NOT [BNode AND [BNode AND [BNode AND [a; b]; c]; d]].

Definition yy_block_or (w y x : nat) : expr :=
  yy_or4 (yy_v w (y, x)) (yy_v w (y, S x)) (yy_v w (S y, x)) (yy_v w (S y, S x)).
Definition yy_block_nand (w y x : nat) : expr :=
  yy_nand4 (yy_v w (y, x)) (yy_v w (y, S x)) (yy_v w (S y, x)) (yy_v w (S y, S x)).
(* auxiliary: no checkerboard with black on the main diagonal / on the other diagonal *)
Definition yy_checker1 (w y x : nat) : expr :=
  yy_nand4 (yy_v w (y, x)) (yy_v w (S y, S x)) (yy_nv w (S y, x)) (yy_nv w (y, S x)).
Definition yy_checker2 (w y x : nat) : expr :=
  yy_nand4 (yy_nv w (y, x)) (yy_nv w (S y, S x)) (yy_v w (S y, x)) (yy_v w (y, S x)).

(* the border walk `circ` as cells *)
Definition yy_circ (h w : nat) : list (nat * nat) :=
  map (fun y => (y, 0)) (seq 0 h) ++
  map (fun x => (h - 1, x)) (seq 1 (w - 1)) ++
  map (fun y => (y, w - 1)) (rev (seq 0 (h - 1))) ++
  map (fun x => (0, x)) (rev (seq 1 (w - 2))).
(* (circ[i], circ[(i + 1) % len(circ)]) for every i *)
Definition yy_cyc_pairs {A} (l : list A) : list (A * A) :=
  match l with
  | [] => []
  | a :: r => combine l (r ++ [a])
  end.
(* constraints.count_true over BoolExprs: each contributes e.cond(1, 0) *)
Definition yy_count_true (es : list expr) : expr :=
  match es with
  | [] => INode INT_CONSTANT [PyInt 0]
  | _ => INode ADD (map (fun e => INode IF [e; PyInt 1; PyInt 0]) es)
  end.
Definition yy_border (h w : nat) : expr :=
  BNode LE [yy_count_true (map (fun p => BNode XOR [yy_v w (fst p); yy_v w (snd p)]) (yy_cyc_pairs (yy_circ h w)));
            PyInt 2].

Definition yy_clue (w : nat) (grid : list Z) (c : nat * nat) : list expr :=
  let v := at2 grid w (fst c) (snd c) in
  if (v =? 1)%Z then [yy_nv w c] else if (v =? 2)%Z then [yy_v w c] else [].

Definition yinyang_constraints (h w : nat) (grid : list Z) : list expr :=
  map (fun '(y, x) => yy_block_or w y x) (cells (h - 1) (w - 1)) ++
  map (fun '(y, x) => yy_block_nand w y x) (cells (h - 1) (w - 1)) ++
  map (fun '(y, x) => yy_checker1 w y x) (cells (h - 1) (w - 1)) ++
  map (fun '(y, x) => yy_checker2 w y x) (cells (h - 1) (w - 1)) ++
  [yy_border h w] ++
  flat_map (yy_clue w grid) (cells h w).

Definition solve_yinyang_model (pb : problem) : res state :=
  let h := dim pb 0 in let w := dim pb 1 in let n := h * w in
  match post_avc (bool_grid_state n []) (map BVar (seq 0 n)) (grid_graph h w) false false with
  | Err e => Err e
  | Ok st1 =>
  match post_avc st1 (map (fun i => BNode NOT [BVar i]) (seq 0 n)) (grid_graph h w) false false with
  | Err e => Err e
  | Ok st2 =>
      if Nat.ltb (length (sec pb 1)) n then Err IndexError
      else Ok (ensure st2 (yinyang_constraints h w (sec pb 1)))
  end end.
