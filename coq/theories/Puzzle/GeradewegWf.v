(* C11: the program of solve_geradeweg is well formed on every board; composition with C02 (solve_reports). *)
From Coq Require Import ZArith List Bool Arith Lia.
From Cspuz Require Import Lib.PyErr Core.Expr Core.Program Graph.GraphModel Graph.Cycle
     Backend.Z3 Backend.Z3Oracle Backend.Z3SolveProofs Backend.SolveLoop Backend.SolveZ3Proofs
     Puzzle.PuzzleBase Puzzle.ModelBase Puzzle.ModelLemmas Puzzle.SatAbs Puzzle.SolveCompose Puzzle.WfLemmas
     Puzzle.CycleFrameBase Puzzle.Rules_geradeweg Puzzle.Geradeweg Puzzle.GeradewegProofs.
Import ListNotations.
Local Open Scope nat_scope.

Section G.
  (* h, w: dimensions of the frame (height - 1, width - 1); the frame variables, then is_passed *)
  Variables h w : nat.
  Let N := frame_n h w + S h * S w.
  Let vs := repeat DBool N.

  Lemma ok_gw_line_length ids : (forall i, In i ids -> i < N) -> ok vs false (gw_line_length ids) = true.
  Proof.
    induction ids as [|i r IH]; intros H; [reflexivity|].
    assert (Hi : ok vs true (BVar i) = true) by (apply ok_bvar_repeat; apply H; left; reflexivity).
    assert (Hr : ok vs false (gw_line_length r) = true) by (apply IH; intros j Hj; apply H; right; exact Hj).
    cbn [gw_line_length]. destruct r as [|j r'].
    - rewrite ok_cond. exact Hi.
    - rewrite ok_if, ok_add. cbn [forallb]. rewrite Hi, Hr. reflexivity.
  Qed.

  Lemma ok_gw_fold_or ids : (forall i, In i ids -> i < N) -> ok vs true (gw_fold_or ids) = true.
  Proof.
    intros H. unfold gw_fold_or. destruct ids as [|i r] eqn:E; [reflexivity|]. rewrite <- E in *.
    rewrite ok_or, forallb_map. apply forallb_In. intros j Hj. apply ok_bvar_repeat. apply H. exact Hj.
  Qed.

  Lemma ok_gw_sum_eq a b c : (forall i, In i a -> i < N) -> (forall i, In i b -> i < N) ->
    ok vs true (gw_sum_eq a b c) = true.
  Proof.
    intros Ha Hb.
    assert (G : ok vs true (BNode EQ [INode ADD [gw_line_length a; gw_line_length b]; PyInt c]) = true).
    { rewrite ok_eq, ok_add. cbn [forallb]. rewrite (ok_gw_line_length a Ha), (ok_gw_line_length b Hb). reflexivity. }
    unfold gw_sum_eq. destruct a; [destruct b; [reflexivity|exact G]|exact G].
  Qed.

  Lemma ok_gw_line heads a b c :
    (forall i, In i heads -> i < N) -> (forall i, In i a -> i < N) -> (forall i, In i b -> i < N) ->
    ok vs true (gw_line heads a b c) = true.
  Proof.
    intros Hh Ha Hb. unfold gw_line. rewrite ok_imp, (ok_gw_fold_or heads Hh), (ok_gw_sum_eq a b c Ha Hb). reflexivity.
  Qed.

  Lemma geradeweg_constraints_ok clues : forallb (ok vs true) (geradeweg_constraints h w clues) = true.
  Proof.
    unfold geradeweg_constraints. rewrite forallb_flat_map. apply forallb_cells. intros y x Hy Hx.
    unfold gw_clue. cbv zeta. destruct (_ <? 1)%Z; [reflexivity|].
    assert (HH : forall y' x', y' <= h -> x' < w -> frame_hid h w y' x' < N)
      by (intros y' x' A B; pose proof (gw_hid_lt h w y' x' A B); unfold N; lia).
    assert (HV : forall y' x', y' < h -> x' <= w -> frame_vid h w y' x' < N)
      by (intros y' x' A B; pose proof (gw_vid_lt h w y' x' A B); unfold N; lia).
    cbn [forallb]. rewrite andb_true_r.
    apply andb_true_intro; split; [|apply andb_true_intro; split].
    - apply ok_bvar_repeat. unfold frame_pid, N. nia.
    - apply ok_gw_line.
      + intros i Hi. apply in_app_or in Hi. destruct Hi as [Hi|Hi].
        * destruct (0 <? x) eqn:E; [|destruct Hi]. apply Nat.ltb_lt in E. destruct Hi as [<-|[]]. apply HH; lia.
        * destruct (x <? w) eqn:E; [|destruct Hi]. apply Nat.ltb_lt in E. destruct Hi as [<-|[]]. apply HH; lia.
      + intros i Hi. apply in_map_iff in Hi. destruct Hi as [x' [<- Hx']]. apply in_rev, in_seq in Hx'. apply HH; lia.
      + intros i Hi. apply in_map_iff in Hi. destruct Hi as [x' [<- Hx']]. apply in_seq in Hx'. apply HH; lia.
    - apply ok_gw_line.
      + intros i Hi. apply in_app_or in Hi. destruct Hi as [Hi|Hi].
        * destruct (0 <? y) eqn:E; [|destruct Hi]. apply Nat.ltb_lt in E. destruct Hi as [<-|[]]. apply HV; lia.
        * destruct (y <? h) eqn:E; [|destruct Hi]. apply Nat.ltb_lt in E. destruct Hi as [<-|[]]. apply HV; lia.
      + intros i Hi. apply in_map_iff in Hi. destruct Hi as [y' [<- Hy']]. apply in_rev, in_seq in Hy'. apply HV; lia.
      + intros i Hi. apply in_map_iff in Hi. destruct Hi as [y' [<- Hy']]. apply in_seq in Hy'. apply HV; lia.
  Qed.
End G.

Lemma geradeweg_model_shape pb st : solve_geradeweg_model pb = Ok st ->
  (wf_state st /\ wf_keys st) /\
  1 <= dim pb 0 /\ 1 <= dim pb 1 /\
  exists r, keys st = repeat true (frame_n (dim pb 0 - 1) (dim pb 1 - 1)) ++ r.
Proof.
  unfold solve_geradeweg_model. cbv zeta.
  assert (D0 : dim pb 0 = Z.to_nat (getz (sec pb 0) 0)) by reflexivity.
  assert (D1 : dim pb 1 = Z.to_nat (getz (sec pb 0) 1)) by reflexivity.
  destruct (_ || _)%bool eqn:Eg; [discriminate|].
  apply orb_false_iff in Eg. destruct Eg as [G0 G1]. apply Z.ltb_ge in G0, G1.
  set (h := dim pb 0 - 1). set (w := dim pb 1 - 1).
  destruct (frame_cycle h w) as [[st1 res]|] eqn:E; [|discriminate].
  destruct (Nat.ltb _ _); [discriminate|].
  intros H. inversion H; subst st; clear H.
  destruct (frame_cycle_wf _ _ _ _ E) as [WK [_ [[r Hk] Hv]]].
  split; [|split; [lia|split; [lia|exists r; exact Hk]]].
  eapply wf_ensure_prefix; [exact WK| |apply geradeweg_constraints_ok].
  rewrite Hv, repeat_app, <- !app_assoc. reflexivity.
Qed.

Lemma geradeweg_model_wf pb st : solve_geradeweg_model pb = Ok st -> wf_state st /\ wf_keys st.
Proof. intros H. exact (proj1 (geradeweg_model_shape pb st H)). Qed.

Theorem geradeweg_solve_reports : forall oracle, oracle_sound_on oracle -> oracle_complete_on oracle ->
  forall h w clues st,
  solve_geradeweg_model [[Z.of_nat h; Z.of_nat w]; clues] = Ok st ->
  solve_reports oracle st (seq 0 (h * (w - 1) + (h - 1) * w)) (rules_geradeweg [[Z.of_nat h; Z.of_nat w]; clues]).
Proof.
  intros oracle Os Oc h w clues st Hst.
  apply (solve_reports_intro oracle no_graph); try assumption.
  - exact (geradeweg_model_wf _ _ Hst).
  - destruct (geradeweg_model_shape _ _ Hst) as [_ [Hh [Hw [r Hk]]]]. rewrite dim2_0 in Hh, Hk. rewrite dim2_1 in Hw, Hk.
    rewrite Hk.
    replace (h * (w - 1) + (h - 1) * w) with (frame_n (h - 1) (w - 1))
      by (unfold frame_n; replace (S (h - 1)) with h by lia; replace (S (w - 1)) with w by lia; reflexivity).
    intros i. apply keys_prefix.
  - intros ans. exact (geradeweg_exact h w clues st ans Hst).
Qed.
