(* C11 Tier 1 - nurimaze, the grid graph: no parallel edges (the neighbour lists have no repetition), and the
   neighbours of cell (y, x) in graph.py::_grid_graph are the cells PuzzleBase.nbr4 lists, so that counting over
   the one list is counting over the other. *)
From Coq Require Import ZArith List Bool Arith Lia.
From Cspuz Require Import Graph.GraphModel Graph.ReachProofs Graph.AvcProofs
     Puzzle.PuzzleBase Puzzle.ModelBase Puzzle.ModelLemmas.
Import ListNotations.
Local Open Scope nat_scope.

Lemma nmg_cell_inj w y x y' x' : x < w -> x' < w -> y * w + x = y' * w + x' -> y = y' /\ x = x'.
Proof.
  intros Hx Hx' E.
  assert (Hy : y = y').
  { destruct (lt_eq_lt_dec y y') as [[L|Eq]|L]; [|exact Eq|]; exfalso.
    - assert (S y * w <= y' * w) by (apply Nat.mul_le_mono_r; lia). simpl in H. lia.
    - assert (S y' * w <= y * w) by (apply Nat.mul_le_mono_r; lia). simpl in H. lia. }
  subst y'. split; [reflexivity|lia].
Qed.

Lemma nmg_nodup_app {A} (l1 l2 : list A) :
  NoDup l1 -> NoDup l2 -> (forall x, In x l1 -> ~ In x l2) -> NoDup (l1 ++ l2).
Proof.
  induction l1 as [|a r IH]; intros H1 H2 Hd; [exact H2|]. simpl. inversion H1 as [|? ? Ha Hr]; subst. constructor.
  - rewrite in_app_iff. intros [H|H]; [contradiction|]. exact (Hd a (or_introl eq_refl) H).
  - apply IH; [exact Hr|exact H2|]. intros x Hx. apply Hd. right. exact Hx.
Qed.

Lemma nmg_nodup_flat_map {A B} (f : A -> list B) l :
  NoDup l -> (forall a, In a l -> NoDup (f a)) ->
  (forall a b x, In a l -> In b l -> In x (f a) -> In x (f b) -> a = b) -> NoDup (flat_map f l).
Proof.
  induction l as [|a r IH]; intros Hn Hf Hd; [constructor|]. simpl. inversion Hn as [|? ? Ha Hr]; subst.
  apply nmg_nodup_app.
  - apply Hf. left. reflexivity.
  - apply IH; [exact Hr|intros b Hb; apply Hf; right; exact Hb|].
    intros b c x Hb Hc. apply Hd; right; assumption.
  - intros x Hx Hx'. apply in_flat_map in Hx'. destruct Hx' as [b [Hb Hxb]].
    assert (a = b) by (apply (Hd a b x); [left; reflexivity|right; exact Hb|exact Hx|exact Hxb]). subst b. contradiction.
Qed.

Lemma nmg_nodup_map_inj {A B} (f : A -> B) l :
  NoDup l -> (forall a b, In a l -> In b l -> f a = f b -> a = b) -> NoDup (map f l).
Proof.
  induction l as [|a r IH]; intros Hn Hi; [constructor|]. simpl. inversion Hn as [|? ? Ha Hr]; subst. constructor.
  - intros H. apply in_map_iff in H. destruct H as [b [E Hb]].
    assert (b = a) by (apply Hi; [right; exact Hb|left; reflexivity|exact E]). subst b. contradiction.
  - apply IH; [exact Hr|]. intros b c Hb Hc. apply Hi; right; assumption.
Qed.

(* the two edges _grid_graph adds at cell (y, x) *)
Definition nmg_at (h w y x : nat) : list (nat * nat) :=
  (if Nat.ltb (S x) w then [(y * w + x, y * w + S x)] else []) ++
  (if Nat.ltb (S y) h then [(y * w + x, S y * w + x)] else []).

Lemma nmg_at_in h w y x a b : x < w -> In (a, b) (nmg_at h w y x) -> a = y * w + x /\ a < b.
Proof.
  intros Hxw. unfold nmg_at. rewrite in_app_iff. intros [H|H].
  - destruct (Nat.ltb_spec (S x) w); [|destruct H]. destruct H as [H|[]]. inversion H; subst. lia.
  - destruct (Nat.ltb_spec (S y) h); [|destruct H]. destruct H as [H|[]]. inversion H; subst. simpl. lia.
Qed.

Lemma nmg_grid_edges_nodup h w : NoDup (grid_edges h w).
Proof.
  unfold grid_edges. apply nmg_nodup_flat_map.
  - apply seq_NoDup.
  - intros y _. apply nmg_nodup_flat_map.
    + apply seq_NoDup.
    + intros x Hx. apply in_seq in Hx.
      destruct (Nat.ltb_spec (S x) w), (Nat.ltb_spec (S y) h); simpl; repeat constructor; simpl; try tauto.
      intros [E|[]]. inversion E. lia.
    + intros x x' [a b] Hx Hx' H1 H2. apply in_seq in Hx. apply in_seq in Hx'.
      apply (nmg_at_in h w y x) in H1; [|lia]. apply (nmg_at_in h w y x') in H2; [|lia]. lia.
  - intros y y' [a b] _ _ H1 H2. apply in_flat_map in H1. destruct H1 as [x [Hx H1]].
    apply in_flat_map in H2. destruct H2 as [x' [Hx' H2]]. apply in_seq in Hx. apply in_seq in Hx'.
    apply (nmg_at_in h w y x) in H1; [|lia]. apply (nmg_at_in h w y' x') in H2; [|lia].
    destruct H1 as [E1 _], H2 as [E2 _]. rewrite E1 in E2.
    apply (nmg_cell_inj w y x y' x') in E2; [tauto|lia|lia].
Qed.

Lemma nmg_grid_edges_lt h w a b : In (a, b) (grid_edges h w) -> a < b.
Proof.
  intros H. apply grid_edges_spec in H. destruct H as [y [x [Hy [Hx [-> [[_ ->]|[_ ->]]]]]]]; simpl; lia.
Qed.

Lemma nmg_incident_nodup v : forall es k0,
  NoDup es -> (forall a b, In (a, b) es -> a < b) -> NoDup (map fst (incident_from v k0 es)).
Proof.
  induction es as [|[a b] r IH]; intros k0 Hn Hlt; [constructor|]. simpl.
  inversion Hn as [|? ? Hab Hr]; subst.
  assert (IH' : NoDup (map fst (incident_from v (S k0) r))).
  { apply IH; [exact Hr|]. intros a' b' H. apply Hlt. right. exact H. }
  assert (Hlt' : a < b) by (apply Hlt; left; reflexivity).
  assert (Hnot : forall u, In u (map fst (incident_from v (S k0) r)) -> In (v, u) r \/ In (u, v) r).
  { intros u Hu. apply in_map_iff in Hu. destruct Hu as [[u' k] [E Hu]]. simpl in E. subst u'.
    apply incident_from_spec in Hu. destruct Hu as [j [_ [Hj|Hj]]]; apply nth_error_In in Hj; tauto. }
  rewrite !map_app.
  destruct (Nat.eqb_spec a v) as [Ea|Na]; destruct (Nat.eqb_spec b v) as [Eb|Nb]; simpl.
  - lia.
  - constructor; [|exact IH']. intros Hu. subst a. destruct (Hnot b Hu) as [H|H]; [contradiction|].
    pose proof (Hlt b v (or_intror H)). lia.
  - constructor; [|exact IH']. intros Hu. subst b. destruct (Hnot a Hu) as [H|H]; [|contradiction].
    pose proof (Hlt v a (or_intror H)). lia.
  - exact IH'.
Qed.

Lemma nmg_nbrs_all g v : nbrs g all_edges_ok v = map fst (incident g v).
Proof.
  unfold nbrs. f_equal. induction (incident g v) as [|[a k] r IH]; [reflexivity|]. simpl. rewrite IH. reflexivity.
Qed.

Theorem nmg_grid_nbrs_nodup h w v : NoDup (nbrs (grid_graph h w) all_edges_ok v).
Proof.
  rewrite nmg_nbrs_all. unfold incident. apply nmg_incident_nodup; [apply nmg_grid_edges_nodup|apply nmg_grid_edges_lt].
Qed.

(* ---------------------------------------------------------------- nbr4 *)
Lemma nmg_nbr4_iff h w y x q :
  In q (nbr4 h w y x) <->
  ((0 < y /\ q = (y - 1, x)) \/ (S y < h /\ q = (S y, x)) \/ (0 < x /\ q = (y, x - 1)) \/ (S x < w /\ q = (y, S x))).
Proof.
  unfold nbr4. rewrite !in_app_iff.
  destruct (Nat.ltb_spec 0 y), (Nat.ltb_spec (S y) h), (Nat.ltb_spec 0 x), (Nat.ltb_spec (S x) w); simpl;
    intuition (try lia; auto).
Qed.

Lemma nmg_nbr4_nodup h w y x : NoDup (nbr4 h w y x).
Proof.
  unfold nbr4.
  destruct (Nat.ltb_spec 0 y), (Nat.ltb_spec (S y) h), (Nat.ltb_spec 0 x), (Nat.ltb_spec (S x) w); simpl;
    repeat constructor; simpl; intuition (try discriminate; try congruence);
    repeat match goal with H : (_, _) = (_, _) |- _ => inversion H; clear H end; lia.
Qed.

Lemma nmg_nbr4_cidx_nodup h w y x : y < h -> x < w -> NoDup (map (cidx w) (nbr4 h w y x)).
Proof.
  intros Hy Hx. apply nmg_nodup_map_inj; [apply nmg_nbr4_nodup|].
  intros [y1 x1] [y2 x2] H1 H2 E. destruct (nbr4_in h w y x y1 x1 Hy Hx H1). destruct (nbr4_in h w y x y2 x2 Hy Hx H2).
  unfold cidx in E. simpl in E. apply nmg_cell_inj in E; [|assumption|assumption]. destruct E; subst; reflexivity.
Qed.

Lemma nmg_nbrs_nbr4 h w y x b : y < h -> x < w ->
  (In b (nbrs (grid_graph h w) all_edges_ok (y * w + x)) <-> In b (map (cidx w) (nbr4 h w y x))).
Proof.
  intros Hy Hx. rewrite grid_nbrs, in_map_iff. split.
  - intros [[y0 [x0 [Hy0 [Hx0 [E Hb]]]]]|[y0 [x0 [Hy0 [Hx0 [E Hb]]]]]].
    + apply nmg_cell_inj in E; [|assumption|assumption]. destruct E; subst y0 x0.
      destruct Hb as [[L ->]|[L ->]].
      * exists (y, S x). split; [reflexivity|]. apply nmg_nbr4_iff. tauto.
      * exists (S y, x). split; [reflexivity|]. apply nmg_nbr4_iff. tauto.
    + destruct Hb as [[L E']|[L E']].
      * apply nmg_cell_inj in E'; [|assumption|assumption]. destruct E'; subst y x.
        exists (y0, x0). split; [symmetry; exact E|]. apply nmg_nbr4_iff. right; right; left. split; [lia|f_equal; lia].
      * apply nmg_cell_inj in E'; [|assumption|assumption]. destruct E'; subst y x.
        exists (y0, x0). split; [symmetry; exact E|]. apply nmg_nbr4_iff. left. split; [lia|f_equal; lia].
  - intros [[y' x'] [E Hq]]. unfold cidx in E. simpl in E. subst b. apply nmg_nbr4_iff in Hq.
    destruct Hq as [[L Q]|[[L Q]|[[L Q]|[L Q]]]]; inversion Q; subst y' x'.
    + right. exists (y - 1), x. split; [lia|split; [lia|split; [reflexivity|right; split; [lia|]]]].
      replace (S (y - 1)) with y by lia. reflexivity.
    + left. exists y, x. split; [lia|split; [lia|split; [reflexivity|right; split; [lia|reflexivity]]]].
    + right. exists y, (x - 1). split; [lia|split; [lia|split; [reflexivity|left; split; [lia|]]]].
      replace (S (x - 1)) with x by lia. reflexivity.
    + left. exists y, x. split; [lia|split; [lia|split; [reflexivity|left; split; [lia|reflexivity]]]].
Qed.

Lemma nmg_same_length (l1 l2 : list nat) :
  NoDup l1 -> NoDup l2 -> (forall x, In x l1 <-> In x l2) -> length l1 = length l2.
Proof.
  intros N1 N2 E. apply Nat.le_antisymm; apply NoDup_incl_length; try assumption; intros x Hx; apply E; exact Hx.
Qed.

(* counting over the neighbour list of the grid graph = counting over nbr4 *)
Theorem nmg_count_nbrs h w y x (f : nat -> bool) : y < h -> x < w ->
  count f (nbrs (grid_graph h w) all_edges_ok (y * w + x)) = count (fun c => f (cidx w c)) (nbr4 h w y x).
Proof.
  intros Hy Hx. rewrite <- (count_map f (cidx w)). unfold count. apply nmg_same_length.
  - apply NoDup_filter. apply nmg_grid_nbrs_nodup.
  - apply NoDup_filter. apply nmg_nbr4_cidx_nodup; assumption.
  - intros b. rewrite !filter_In, (nmg_nbrs_nbr4 h w y x b Hy Hx). reflexivity.
Qed.
