(* The five cell-grid modules end to end, without a "serialization succeeds" hypothesis:
   for every board of the module's value domain the encoder returns the URL, the decoder
   returns the board, and the independent pzpr decoder reads the body as the board.
   Composition of PuzzleProofs.grid_url_roundtrip (C15's round trip) with the
   <p>_pzpr_reads theorems (which also show that serialization succeeds on the domain). *)
From Coq Require Import ZArith List Ascii Bool NArith Lia.
From Cspuz Require Import Lib.PyErr Codec.Comb Codec.CombWf Codec.CombRoundTrip Codec.Legacy Codec.LegacyEq
  Codec.Url Codec.Puzzles Codec.SerChars Codec.PuzzleProofs.
Import ListNotations.
Local Open Scope Z_scope.

Definition grid_codec_total (sw : ser_wrapper) (dw : de_wrapper) (ok : Z -> Prop)
           (pzpr : nat -> nat -> str -> option pv) : Prop :=
  forall rows w, rows <> [] -> (0 < w)%nat ->
    Forall (fun r => length r = w) rows -> Forall (Forall ok) rows ->
    exists body,
      run_ser_problem no_custom sw (VList (int_rows rows))
        = Ok (make_url default_prefix (sw_puzzle sw) (Z.of_nat (length rows)) (Z.of_nat w) body) /\
      run_de no_custom dw (make_url default_prefix (sw_puzzle sw) (Z.of_nat (length rows)) (Z.of_nat w) body)
        = Ok (Some (VList (int_rows rows))) /\
      pzpr (length rows) w body = Some (VList (int_rows rows)).

Lemma grid_codec_total_intro sw dw c1 (ok : Z -> Prop) pzpr :
  sw_comb sw = Grid c1 None -> wf (Grid c1 None) = true -> rooms_free c1 = true -> cell_comb c1 = true ->
  wrappers_consistent sw dw -> dw_return_size dw = false -> nl_free c1 = true ->
  (forall rows w, rows <> [] -> (0 < w)%nat ->
     Forall (fun r => length r = w) rows -> Forall (Forall ok) rows ->
     exists body,
       serialize_problem (Grid c1 None) (VList (int_rows rows)) (Z.of_nat (length rows)) (Z.of_nat w) = Ok body /\
       pzpr (length rows) w body = Some (VList (int_rows rows))) ->
  grid_codec_total sw dw ok pzpr.
Proof.
  intros Hc Hwf Hrf Hcell Hcons Hrs Hnl Hpz rows w Hne Hw Hrect Hall.
  destruct (Hpz rows w Hne Hw Hrect Hall) as (body & Hser & Hd).
  exists body.
  assert (Hshape : grid_shape (Z.of_nat (length rows)) (Z.of_nat w) (VList (int_rows rows)) (map (map VInt) rows)).
  { split; [|split].
    - unfold int_rows. rewrite map_map. reflexivity.
    - rewrite map_length. reflexivity.
    - apply Forall_forall. intros r Hr. apply in_map_iff in Hr as (r0 & <- & Hr0). rewrite map_length.
      rewrite Forall_forall in Hrect. rewrite (Hrect r0 Hr0). reflexivity. }
  destruct (grid_url_roundtrip sw dw c1 (Z.of_nat (length rows)) (Z.of_nat w) (VList (int_rows rows)) (map (map VInt) rows) body
              Hc Hwf Hrf Hcell Hcons Hrs) as [H1 H2]; auto.
  - destruct rows; [congruence|]. cbn [length]. lia.
  - lia.
  - rewrite Hc. exact Hser.
Qed.
