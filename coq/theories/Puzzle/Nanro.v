(* C11 Tier 1 - model of cspuz/puzzle/nanro.py::solve_nanro(height, width, blocks, num), all board shapes and room layouts:
       has_num = solver.bool_array((height, width))
       for every cell (y, x), row-major:
           v = solver.int_var(0, len(blocks[block_id[y][x]])); solver.add_answer_key(v)
           ensure(has_num[y, x] == (v != 0))
       graph.active_vertices_connected(solver, has_num)
       for every block i:
           nonempty = solver.int_var(1, len(block))
           ensure(nonempty == count_true(answer[y][x] != 0 for y, x in block))
           for every cell of the block: ensure((answer[y][x] == 0) | (answer[y][x] == nonempty))
       for every cell (y, x):
           if num[y][x] > 0: ensure(answer[y][x] == num[y][x])
           if y < height - 1 and x < width - 1: ensure(one of the four cells of the 2x2 square at (y, x) == 0)
           if the cell below is in another block: ensure(answer == 0 | answer_below == 0 | answer != answer_below)
           the same for the cell to the right
   Variable ids (n = height * width): has_num 0 .. n-1, the answer cells n .. 2n-1 (the answer keys), the ranks and root
   flags of the connectivity encoding 2n .. 4n-1, the per-room counters `nonempty` 4n .. 4n+k-1 for k blocks.
   The call into cspuz.graph is the model of property C04 (Graph/Avc.v::post_avc on the grid graph, auxiliary-variable
   encoding); on a board without cells it raises ValueError.
   The problem uses the encoding of Rules_nanro.v ([[h; w]; room ids; given numbers]); block i is the list of the cells
   with room id i in row-major order, the number of blocks is the largest id + 1 (an id in between that no cell carries is
   an empty block: the Python accepts it and declares a counter with the empty domain 1..0).  Outside the documented
   input (every cell belongs to exactly one block, num is a height x width grid): a negative room id (a cell of no
   block - the Python would read blocks[-1]) or a room list with fewer than h*w entries are rejected by the model with
   ValueError, the plug-in never generates them; a list of given numbers with fewer than h*w entries (num lacks its last
   rows) is IndexError as in the Python (after the connectivity call).
   No proofs here. *)
From Coq Require Import ZArith List Bool Arith.
From Cspuz Require Import Lib.PyErr Core.Expr Core.Program Graph.GraphModel Graph.Avc
     Puzzle.PuzzleBase Puzzle.ModelBase Puzzle.Rules_norinori Puzzle.Norinori.
Import ListNotations.
Local Open Scope nat_scope.

(* len(blocks[i]) *)
Definition nanro_size (h w : nat) (room : list Z) (i : nat) : Z := Z.of_nat (length (region_cells h w room i)).
(* block_id[y][x] *)
Definition nanro_rid (room : list Z) (w : nat) (c : nat * nat) : nat := zn (at2 room w (fst c) (snd c)).
(* answer[y][x] *)
Definition nanro_av (h w : nat) (room : list Z) (c : nat * nat) : expr :=
  IVar (h * w + cidx w c) 0 (nanro_size h w room (nanro_rid room w c)).
Definition nanro_eq0 (h w : nat) (room : list Z) (c : nat * nat) : expr := BNode EQ [nanro_av h w room c; PyInt 0].
Definition nanro_ne0 (h w : nat) (room : list Z) (c : nat * nat) : expr := BNode NE [nanro_av h w room c; PyInt 0].

(* constraints.count_true over BoolExprs: each contributes e.cond(1, 0); no operand at all gives the constant node *)
Definition nanro_ct (es : list expr) : expr :=
  match es with
  | [] => INode INT_CONSTANT [PyInt 0]
  | _ => INode ADD (map (fun e => INode IF [e; PyInt 1; PyInt 0]) es)
  end.

(* the solver right before the connectivity call *)
Definition nanro_pre (h w : nat) (room : list Z) : state :=
  {| vars := repeat DBool (h * w) ++
             map (fun c => DInt 0 (nanro_size h w room (nanro_rid room w c))) (cells h w);
     keys := repeat false (h * w) ++ repeat true (h * w);
     cons := map (fun c => BNode IFF [BVar (cidx w c); nanro_ne0 h w room c]) (cells h w) |}.

(* nonempty of block i *)
Definition nanro_ne (h w : nat) (room : list Z) (base i : nat) : expr := IVar (base + i) 1 (nanro_size h w room i).

Definition nanro_block (h w : nat) (room : list Z) (base i : nat) : list expr :=
  let R := region_cells h w room i in
  BNode EQ [nanro_ne h w room base i; nanro_ct (map (nanro_ne0 h w room) R)] ::
  map (fun c => BNode OR [nanro_eq0 h w room c; BNode EQ [nanro_av h w room c; nanro_ne h w room base i]]) R.

Definition nanro_differ (h w : nat) (room : list Z) (c c' : nat * nat) : expr :=
  BNode OR [BNode OR [nanro_eq0 h w room c; nanro_eq0 h w room c'];
            BNode NE [nanro_av h w room c; nanro_av h w room c']].

Definition nanro_cell (h w : nat) (room num : list Z) (c : nat * nat) : list expr :=
  let '(y, x) := c in
  let r := at2 room w y x in
  (if (0 <? at2 num w y x)%Z then [BNode EQ [nanro_av h w room (y, x); PyInt (at2 num w y x)]] else []) ++
  (if Nat.ltb (S y) h && Nat.ltb (S x) w
   then [BNode OR [BNode OR [BNode OR [nanro_eq0 h w room (y, x); nanro_eq0 h w room (y, S x)];
                             nanro_eq0 h w room (S y, x)]; nanro_eq0 h w room (S y, S x)]]
   else []) ++
  (if Nat.ltb (S y) h && negb (r =? at2 room w (S y) x)%Z then [nanro_differ h w room (y, x) (S y, x)] else []) ++
  (if Nat.ltb (S x) w && negb (r =? at2 room w y (S x))%Z then [nanro_differ h w room (y, x) (y, S x)] else []).

Definition nanro_constraints (h w : nat) (room num : list Z) (k base : nat) : list expr :=
  flat_map (nanro_block h w room base) (seq 0 k) ++
  flat_map (nanro_cell h w room num) (cells h w).

Definition solve_nanro_model (pb : problem) : res state :=
  let h := dim pb 0 in let w := dim pb 1 in let room := sec pb 1 in let num := sec pb 2 in
  if negb (forallb (fun z => (0 <=? z)%Z) room) || Nat.ltb (length room) (h * w) then Err ValueError
  else
  match post_avc (nanro_pre h w room) (map BVar (seq 0 (h * w))) (grid_graph h w) false false with
  | Ok st1 =>
      if Nat.ltb (length num) (h * w) then Err IndexError
      else
      let k := n_regions room in
      Ok {| vars := vars st1 ++ map (fun i => DInt 1 (nanro_size h w room i)) (seq 0 k);
            keys := keys st1 ++ repeat false k;
            cons := cons st1 ++ nanro_constraints h w room num k (next_id st1) |}
  | Err e => Err e
  end.
