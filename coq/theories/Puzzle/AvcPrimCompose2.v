(* C11 Tier 1, native-operator route - composition with property C04 for a solver that calls
   graph.active_vertices_connected with cspuz.config.use_graph_primitive ON (model Graph/Avc.v::post_avc st acts g
   false true: ONE node GRAPH_ACTIVE_VERTICES_CONNECTED, no auxiliary variable) anywhere in its program: variables and
   constraints exist before the call (state st0, n0 variables), FURTHER variables [more] are declared (ids from n0: the
   call declares nothing) and constraints [extra] posted after it (cspuz/puzzle/view.py - the call comes right after
   the grid; yinyang.py - two calls; nanro.py - the call is in the middle).
     avc_prim_model : an assignment is a model of the final state exactly when it is a model of st0, the activity
                      pattern is connected in g, the later variables are in their domains and the later constraints hold
   Uses C04's closed theorem avc_primitive (the meaning of the native node is the specification gsem_avc).
     yy_two_avc_prim_compose : a boolean answer grid, the helper on the grid and on its negation (NOT-node flags), then
                      constraints over the grid only (yinyang.py): a 0/1 grid is the reading of a model exactly when the
                      cells holding 1 are connected, the cells holding 0 are connected and the later constraints hold
   Second part: renaming of variable ids in expression trees (the ids of everything declared after the call are
   smaller by the number of auxiliary variables of the other route): evaluation commutes with renaming. *)
From Coq Require Import ZArith List Bool Arith Lia.
From Cspuz Require Import Lib.PyErr Core.Expr Core.Program Graph.GraphModel Graph.ReachProofs
     Graph.Avc Graph.AvcSem Graph.AvcProofs
     Puzzle.PuzzleBase Puzzle.SatAbs Puzzle.ModelBase Puzzle.ModelLemmas Puzzle.CreekProofs
     Puzzle.HeyawakeLemmas Puzzle.YinyangCompose.
Import ListNotations.
Local Open Scope nat_scope.

Section PrimMid.
  Variables (g : graph) (n0 : nat).
  Variables (st0 st1 st : state) (acts : list expr) (more : list vdecl) (extra : list expr).
  Hypothesis Hn0 : next_id st0 = n0.
  Hypothesis Hp : post_avc st0 acts g false true = Ok st1.
  Hypothesis Hvars : vars st = vars st1 ++ more.
  Hypothesis Hcons : Program.cons st = Program.cons st1 ++ extra.
  Hypothesis Hdef : forall en, acts_defined en acts.
  Hypothesis Hwf : wf_graph g = true.

  Lemma avc_prim_vars : vars st1 = vars st0.
  Proof. destruct (avc_primitive _ _ _ _ Hp) as [_ [Hv _]]. exact Hv. Qed.

  Lemma avc_prim_keys : keys st1 = keys st0.
  Proof. destruct (avc_primitive _ _ _ _ Hp) as [_ [_ [Hk _]]]. exact Hk. Qed.

  Lemma avc_prim_next : next_id st1 = n0.
  Proof. unfold next_id. rewrite avc_prim_vars. exact Hn0. Qed.

  Lemma avc_prim_length : length acts = nv g.
  Proof. destruct (avc_primitive _ _ _ _ Hp) as [Hl _]. exact Hl. Qed.

  Lemma avc_prim_model en :
    model_of gsem_avc en st <->
    (model_of gsem_avc en st0 /\ connected_b g (pattern en acts) = true /\
     in_bounds_from en n0 more = true /\ forallb (holds gsem_avc en) extra = true).
  Proof.
    destruct (avc_primitive _ _ _ _ Hp) as [_ [Hv [_ [e [Hc [_ Hev]]]]]].
    destruct (Hev en (Hdef en)) as [_ Hh]. specialize (Hh Hwf).
    unfold model_of, in_bounds, satisfies. rewrite Hvars, Hcons, Hv, Hc.
    rewrite AvcSem.in_bounds_from_app, !forallb_app. cbn [forallb Nat.add]. fold (next_id st0). rewrite Hn0.
    rewrite !andb_true_iff, Hh, (connected_b_spec g _ Hwf). tauto.
  Qed.
End PrimMid.

(* ------------------------------------------------------------------ renaming of variable ids *)
Fixpoint rn (f : nat -> nat) (e : expr) : expr :=
  match e with
  | BVar i => BVar (f i)
  | IVar i lo hi => IVar (f i) lo hi
  | BNode o args => BNode o (map (rn f) args)
  | INode o args => INode o (map (rn f) args)
  | _ => e
  end.

(* the assignment that gives variable i the value of variable f i *)
Definition cmap (f : nat -> nat) (en : env) : env := {| eb := fun i => eb en (f i); ei := fun i => ei en (f i) |}.

Lemma eval_rn gsem f en e : eval gsem en (rn f e) = eval gsem (cmap f en) e.
Proof.
  induction e using expr_ind2; cbn [rn eval]; try reflexivity.
  - f_equal. rewrite map_map. apply map_ext_in. intros x Hx. rewrite Forall_forall in H. apply H. exact Hx.
  - f_equal. rewrite map_map. apply map_ext_in. intros x Hx. rewrite Forall_forall in H. apply H. exact Hx.
Qed.

Lemma holds_rn gsem f en e : holds gsem en (rn f e) = holds gsem (cmap f en) e.
Proof. unfold holds. rewrite eval_rn. reflexivity. Qed.

Lemma forallb_holds_rn gsem f en l :
  forallb (holds gsem en) (map (rn f) l) = forallb (holds gsem (cmap f en)) l.
Proof.
  induction l as [|a l IH]; [reflexivity|]. cbn [map forallb]. rewrite holds_rn, IH. reflexivity.
Qed.

(* ------------------------------------------------------------------ two calls: the grid and its negation *)
Section TwoPrim.
  Variables h w : nat.
  Notation n := (h * w).
  Notation acts := (map BVar (seq 0 (h * w))).
  Notation nacts := (map (fun i => BNode NOT [BVar i]) (seq 0 (h * w))).
  Notation g := (grid_graph h w).
  Variables (st1 st2 : state) (extra : list expr).
  Hypothesis Hp1 : post_avc (bool_grid_state n []) acts g false true = Ok st1.
  Hypothesis Hp2 : post_avc st1 nacts g false true = Ok st2.

  Lemma yyp_next0 : next_id (bool_grid_state n []) = n.
  Proof. unfold next_id. cbn [vars bool_grid_state]. apply repeat_length. Qed.

  Lemma yyp_vars2 : vars st2 = repeat DBool n.
  Proof. rewrite (avc_prim_vars _ _ _ _ Hp2), (avc_prim_vars _ _ _ _ Hp1). reflexivity. Qed.

  Lemma yyp_model en :
    model_of gsem_avc en (ensure st2 extra) <->
    (connected_b g (pattern en acts) = true /\ connected_b g (pattern en nacts) = true /\
     forallb (holds gsem_avc en) extra = true).
  Proof.
    assert (H1 : model_of gsem_avc en st1 <-> connected_b g (pattern en acts) = true).
    { rewrite (avc_prim_model g n (bool_grid_state n []) st1 st1 acts [] [] yyp_next0 Hp1
                 (eq_sym (app_nil_r _)) (eq_sym (app_nil_r _)) (acts_def n) (grid_wf h w) en).
      cbn [in_bounds_from forallb].
      assert (H0 : model_of gsem_avc en (bool_grid_state n [])) by (split; [apply in_bounds_bool_grid|reflexivity]).
      tauto. }
    rewrite (avc_prim_model g n st1 st2 (ensure st2 extra) nacts [] extra
               (avc_prim_next g n _ st1 acts yyp_next0 Hp1) Hp2
               (eq_sym (app_nil_r _)) eq_refl (nacts_def n) (grid_wf h w) en).
    cbn [in_bounds_from]. rewrite H1. tauto.
  Qed.

  Lemma yyp_reads en :
    reads (ensure st2 extra) en (seq 0 n) = map (fun i => b2z (eb en i)) (seq 0 n).
  Proof. apply (reads_bool_prefix _ en n []). cbn [vars ensure]. rewrite yyp_vars2, app_nil_r. reflexivity. Qed.

  Variable local : answer -> bool.
  Hypothesis Hloc : forall en, local (map (fun i => b2z (eb en i)) (seq 0 n)) = forallb (holds gsem_avc en) extra.

  Theorem yy_two_avc_prim_compose ans :
    (exists en, model_of gsem_avc en (ensure st2 extra) /\ reads (ensure st2 extra) en (seq 0 n) = ans)
    <-> Nat.eqb (length ans) n && forallb is01 ans &&
        cells_connected h w (fun v => isb (getz ans v)) &&
        cells_connected h w (fun v => negb (isb (getz ans v))) && local ans = true.
  Proof.
    assert (Hpat : forall en v, v < n -> pattern en acts v = eb en v).
    { intros en v Hv. rewrite pattern_acts. destruct (Nat.ltb_spec v n); [reflexivity|lia]. }
    assert (Hnpat : forall en v, v < n -> pattern en nacts v = negb (eb en v)).
    { intros en v Hv. rewrite pattern_nacts. destruct (Nat.ltb_spec v n); [reflexivity|lia]. }
    split.
    - intros [en [Hm Hr]]. rewrite yyp_reads in Hr. subst ans.
      apply yyp_model in Hm. destruct Hm as [Hc1 [Hc2 Hex]].
      replace (Nat.eqb (length (map (fun i => b2z (eb en i)) (seq 0 n))) n) with true
        by (rewrite map_length, seq_length; symmetry; apply Nat.eqb_refl).
      replace (forallb is01 (map (fun i => b2z (eb en i)) (seq 0 n))) with true
        by (rewrite forallb_map; symmetry; apply forallb_forall; intros; apply is01_b2z).
      rewrite Hloc, Hex, andb_true_r. cbn [andb]. apply andb_true_iff. split.
      + unfold cells_connected, board.
        rewrite (connected_b_ext_below _ _ (pattern en acts) (grid_wf h w)); [exact Hc1|].
        intros v Hv. change (nv g) with n in Hv. rewrite getz_map_seq by exact Hv.
        rewrite b2z_isb, Hpat by exact Hv. reflexivity.
      + unfold cells_connected, board.
        rewrite (connected_b_ext_below _ _ (pattern en nacts) (grid_wf h w)); [exact Hc2|].
        intros v Hv. change (nv g) with n in Hv. rewrite getz_map_seq by exact Hv.
        rewrite b2z_isb, Hnpat by exact Hv. reflexivity.
    - intros Hr.
      apply andb_true_iff in Hr. destruct Hr as [Hr Hcl].
      apply andb_true_iff in Hr. destruct Hr as [Hr Hconn2].
      apply andb_true_iff in Hr. destruct Hr as [Hr Hconn1].
      apply andb_true_iff in Hr. destruct Hr as [Hlen H01]. apply Nat.eqb_eq in Hlen.
      set (en0 := env_of_answer ans).
      pose proof (answer_as_reading ans n Hlen H01) as Ha. fold en0 in Ha.
      exists en0. split; [|rewrite yyp_reads; exact Ha].
      apply yyp_model. split; [|split].
      + rewrite <- (connected_b_ext_below _ (fun v => isb (getz ans v)) _ (grid_wf h w)); [exact Hconn1|].
        intros v Hv. change (nv g) with n in Hv. rewrite Hpat by exact Hv. reflexivity.
      + rewrite <- (connected_b_ext_below _ (fun v => negb (isb (getz ans v))) _ (grid_wf h w)); [exact Hconn2|].
        intros v Hv. change (nv g) with n in Hv. rewrite Hnpat by exact Hv. reflexivity.
      + rewrite <- Hloc, Ha. exact Hcl.
  Qed.
End TwoPrim.
