(* C11 rule specification - Building (Skyscrapers).
   Published rules (puzz.link, "Skyscrapers / Building"):
     1. Put a number from 1 to n in every cell of the n x n grid; every row and
        every column contains each number exactly once.
     2. Numbers are heights of buildings. A number outside the grid is the
        number of buildings visible from there along the row or column: a
        building hides all lower buildings behind it.

   problem = [[n]; up; down; left; right]   n values each (value >= 1 a clue, anything else none);
             up/down index columns, left/right index rows
   answer  = n*n numbers row-major *)
From Coq Require Import ZArith List Bool Arith.
From Cspuz Require Import Puzzle.PuzzleBase.
Import ListNotations.

Fixpoint visible_from (top : Z) (l : list Z) : nat :=
  match l with
  | [] => 0
  | a :: r => if (top <? a)%Z then S (visible_from a r) else visible_from top r
  end.
Definition visible (l : list Z) : nat := visible_from 0%Z l.

Definition rules_building (pb : problem) (ans : answer) : bool :=
  let n := dim pb 0 in
  let row := fun y => map (fun x => at2 ans n y x) (seq 0 n) in
  let col := fun x => map (fun y => at2 ans n y x) (seq 0 n) in
  let ok := fun (clues : list Z) i (line : list Z) =>
              let c := getz clues i in (c <? 1)%Z || (Z.of_nat (visible line) =? c)%Z in
  Nat.eqb (length ans) (n * n) &&
  forallb (fun v => ((1 <=? v) && (v <=? Z.of_nat n))%Z) ans &&
  forallb (fun i => zdistinct (row i) && zdistinct (col i)) (seq 0 n) &&
  forallb (fun i => ok (sec pb 1) i (col i) && ok (sec pb 2) i (rev (col i)) &&
                    ok (sec pb 3) i (row i) && ok (sec pb 4) i (rev (row i))) (seq 0 n).

(* candidate grids: every row is an arrangement of 1..n without repetition (rule 1) *)
Definition answers_building (pb : problem) : list answer :=
  let n := dim pb 0 in
  rows_product (filter zdistinct (all_answers (repeat (1%Z, Z.of_nat n) n))) n.
