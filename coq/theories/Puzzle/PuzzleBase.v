(* C11 - vocabulary shared by the executable rule specifications Rules_<p>.v.
   Only list functions and the reachability vocabulary of Graph/GraphModel.v;
   nothing here refers to a cspuz encoding.  No proofs here.

   Data convention (the same for every puzzle, so that one generic runner and
   one generic Coq emitter serve all plug-ins):
     problem := list (list Z)   sections; section 0 is always the dimensions
     answer  := list Z          the returned answer arrays, flattened in the
                                order solve_<p> returns them; a bool cell is 1/0
   Each Rules_<p>.v documents its own sections. *)
From Coq Require Import ZArith List Bool Arith.
From Cspuz Require Import Graph.GraphModel.
Import ListNotations.

Definition problem := list (list Z).
Definition answer := list Z.

Definition zn (z : Z) : nat := Z.to_nat z.
Definition sec (pb : problem) (k : nat) : list Z := nth k pb [].
Definition getz (l : list Z) (i : nat) : Z := nth i l 0%Z.
Definition dim (pb : problem) (k : nat) : nat := zn (getz (sec pb 0) k).

(* cell (y, x) of a row-major grid with w columns *)
Definition at2 (l : list Z) (w y x : nat) : Z := getz l (y * w + x).
(* an answer cell holding a boolean *)
Definition isb (z : Z) : bool := (z =? 1)%Z.
Definition b2z (b : bool) : Z := if b then 1%Z else 0%Z.
Definition is01 (z : Z) : bool := ((z =? 0) || (z =? 1))%Z.

Definition cells (h w : nat) : list (nat * nat) :=
  flat_map (fun y => map (fun x => (y, x)) (seq 0 w)) (seq 0 h).
Definition count {A} (f : A -> bool) (l : list A) : nat := length (filter f l).
Definition zcount {A} (f : A -> bool) (l : list A) : Z := Z.of_nat (count f l).

(* orthogonal neighbours inside an h x w board *)
Definition nbr4 (h w y x : nat) : list (nat * nat) :=
  (if Nat.ltb 0 y then [(y - 1, x)] else []) ++
  (if Nat.ltb (S y) h then [(S y, x)] else []) ++
  (if Nat.ltb 0 x then [(y, x - 1)] else []) ++
  (if Nat.ltb (S x) w then [(y, S x)] else []).

Fixpoint zmem_ (x : Z) (l : list Z) : bool :=
  match l with [] => false | y :: r => (x =? y)%Z || zmem_ x r end.
Fixpoint zdistinct (l : list Z) : bool :=
  match l with [] => true | x :: r => negb (zmem_ x r) && zdistinct r end.

(* the cells seen from (y, x) looking in direction (dy, dx) (excluding (y, x)),
   nearest first, up to the board edge; directions are given as +-1/0 in Z *)
Fixpoint ray_go (fuel : nat) (h w : nat) (y x dy dx : Z) : list (nat * nat) :=
  match fuel with
  | O => []
  | S f =>
      let y' := (y + dy)%Z in let x' := (x + dx)%Z in
      if ((0 <=? y') && (y' <? Z.of_nat h) && (0 <=? x') && (x' <? Z.of_nat w))%Z
      then (zn y', zn x') :: ray_go f h w y' x' dy dx else []
  end.
Definition ray (h w y x : nat) (dy dx : Z) : list (nat * nat) :=
  ray_go (h + w) h w (Z.of_nat y) (Z.of_nat x) dy dx.
(* longest prefix satisfying f *)
Fixpoint take_while {A} (f : A -> bool) (l : list A) : list A :=
  match l with [] => [] | a :: r => if f a then a :: take_while f r else [] end.

(* ---- candidate answers: the full cartesian product of per-cell domains *)
Fixpoint zrange_from (lo : Z) (n : nat) : list Z :=
  match n with O => [] | S k => lo :: zrange_from (lo + 1)%Z k end.
Definition zrange (lo hi : Z) : list Z := zrange_from lo (Z.to_nat (hi - lo + 1)).
Fixpoint all_answers (doms : list (Z * Z)) : list answer :=
  match doms with
  | [] => [[]]
  | (lo, hi) :: r => let rest := all_answers r in
                     flat_map (fun v => map (cons v) rest) (zrange lo hi)
  end.
Definition bool_doms (n : nat) : list (Z * Z) := repeat (0%Z, 1%Z) n.
Definition in_doms (doms : list (Z * Z)) (ans : answer) : bool :=
  Nat.eqb (length ans) (length doms) &&
  forallb (fun '(v, (lo, hi)) => ((lo <=? v) && (v <=? hi))%Z) (combine ans doms).

(* ---- cells of a board as a graph (vertex y*w+x, orthogonal adjacency) *)
Definition board (h w : nat) : graph := grid_graph h w.
(* all cells satisfying f are orthogonally connected (true for no cell) *)
Definition cells_connected (h w : nat) (f : nat -> bool) : bool := connected_b (board h w) f.
(* the orthogonally connected group of f-cells containing cell s *)
Definition group_of (h w : nat) (f : nat -> bool) (s : nat) : list nat :=
  component (board h w) f all_edges_ok s.
(* the orthogonally connected group of cells carrying the same value as s *)
Definition same_group (h w : nat) (val : nat -> Z) (s : nat) : list nat :=
  group_of h w (fun v => (val v =? val s)%Z) s.
Definition has_2x2 (h w : nat) (f : nat -> nat -> bool) : bool :=
  existsb (fun '(y, x) => f y x && f (S y) x && f y (S x) && f (S y) (S x)) (cells (h - 1) (w - 1)).

(* ---- lines drawn between the points of a P x Q lattice.
   Edge numbering = the flattened BoolGridFrame a loop solver returns:
   first the P*(Q-1) horizontal segments row by row, then the (P-1)*Q vertical
   segments row by row.  Vertex (y, x) is y*Q+x. *)
Definition lattice_edges (P Q : nat) : list (nat * nat) :=
  flat_map (fun y => map (fun x => (y * Q + x, y * Q + S x)) (seq 0 (Q - 1))) (seq 0 P) ++
  flat_map (fun y => map (fun x => (y * Q + x, S y * Q + x)) (seq 0 Q)) (seq 0 (P - 1)).
Definition lattice (P Q : nat) : graph := {| nv := P * Q; edges := lattice_edges P Q |}.
Definition n_lattice_edges (P Q : nat) : nat := P * (Q - 1) + (P - 1) * Q.
Definition hseg (P Q y x : nat) : nat := y * (Q - 1) + x.               (* (y,x)-(y,x+1) *)
Definition vseg (P Q y x : nat) : nat := P * (Q - 1) + y * Q + x.       (* (y,x)-(y+1,x) *)

(* the drawn segments form one closed loop without branching or crossing -
   every point has 0 or 2 drawn segments and all drawn segments hang together -
   or nothing is drawn (the library's documented convention) *)
Definition single_loop_b (g : graph) (on : nat -> bool) : bool :=
  forallb (fun v => let d := degree g on v in Nat.eqb d 0 || Nat.eqb d 2) (seq 0 (nv g)) &&
  match filter (fun v => negb (Nat.eqb (degree g on v) 0)) (seq 0 (nv g)) with
  | [] => true
  | s :: _ as l => let c := component g (fun _ => true) on s in forallb (fun v => mem v c) l
  end.
(* point v is visited by the drawn line *)
Definition on_line (g : graph) (on : nat -> bool) (v : nat) : bool :=
  negb (Nat.eqb (degree g on v) 0).

(* the drawn segment leaving lattice point (y, x) in direction d
   (0 up, 1 down, 2 left, 3 right); false at the rim *)
Definition seg (P Q : nat) (on : nat -> bool) (y x : nat) (d : nat) : bool :=
  match d with
  | 0 => Nat.ltb 0 y && on (vseg P Q (y - 1) x)
  | 1 => Nat.ltb (S y) P && on (vseg P Q y x)
  | 2 => Nat.ltb 0 x && on (hseg P Q y (x - 1))
  | _ => Nat.ltb (S x) Q && on (hseg P Q y x)
  end.
(* the neighbouring lattice point in direction d (only used where seg is true) *)
Definition step_dir (y x d : nat) : nat * nat :=
  match d with 0 => (y - 1, x) | 1 => (S y, x) | 2 => (y, x - 1) | _ => (y, S x) end.
Definition opposite (d : nat) : nat := match d with 0 => 1 | 1 => 0 | 2 => 3 | _ => 2 end.
(* number of consecutive drawn segments starting at (y, x) going in direction d *)
Fixpoint run_len (fuel : nat) (P Q : nat) (on : nat -> bool) (y x d : nat) : nat :=
  match fuel with
  | O => O
  | S f => if seg P Q on y x d
           then let '(y', x') := step_dir y x d in S (run_len f P Q on y' x' d)
           else O
  end.

(* number of connected components of the graph formed by the selected edges
   (isolated vertices count) *)
Definition n_components (g : graph) (eon : nat -> bool) : nat :=
  count (fun v => match component g (fun _ => true) eon v with
                  | [] => false
                  | c => forallb (fun u => Nat.leb v u) c
                  end) (seq 0 (nv g)).
(* the selected edges contain no cycle: a forest has V - C edges *)
Definition edges_acyclic (g : graph) (eon : nat -> bool) : bool :=
  Nat.eqb (count eon (seq 0 (length (edges g))) + n_components g eon) (nv g).

(* rows of a given shape: the candidate-answer lists of the Latin-square-like
   puzzles are products of admissible rows *)
Fixpoint rows_product (rows : list (list Z)) (k : nat) : list answer :=
  match k with
  | O => [[]]
  | S k' => let rest := rows_product rows k' in flat_map (fun r => map (app r) rest) rows
  end.
