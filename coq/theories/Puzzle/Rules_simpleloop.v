(* C11 rule specification - Simple Loop.
   Published rules (puzz.link, "Simple Loop"):
     1. Draw a single loop through the centres of cells, horizontally or vertically.
     2. The loop passes through every white cell exactly once and never enters a black cell.
   Library convention: drawing no line at all also counts as a loop.
   Module format (solve_simpleloop(height, width, blocked, pivot)): the colour of
   the pivot cell is not read from `blocked`; it is white exactly when the number
   of the other white cells is odd.

   problem = [[h; w; py; px]; blocked]   blocked: h*w cells row-major, 0 = white, anything else black
   answer  = the segments between cell centres (lattice h w) *)
From Coq Require Import ZArith List Bool Arith.
From Cspuz Require Import Graph.GraphModel Puzzle.PuzzleBase.
Import ListNotations.

Definition rules_simpleloop (pb : problem) (ans : answer) : bool :=
  let h := dim pb 0 in let w := dim pb 1 in let py := dim pb 2 in let px := dim pb 3 in
  let blocked := sec pb 1 in
  let on := fun k => isb (getz ans k) in
  let g := lattice h w in
  let pivot := py * w + px in
  let others := count (fun v => negb (Nat.eqb v pivot) && (getz blocked v =? 0)%Z) (seq 0 (h * w)) in
  let white := fun v => if Nat.eqb v pivot then Nat.odd others else (getz blocked v =? 0)%Z in
  Nat.eqb (length ans) (n_lattice_edges h w) && forallb is01 ans &&
  single_loop_b g on &&
  forallb (fun v => Bool.eqb (on_line g on v) (white v)) (seq 0 (h * w)).

Definition answers_simpleloop (pb : problem) : list answer :=
  all_answers (bool_doms (n_lattice_edges (dim pb 0) (dim pb 1))).
